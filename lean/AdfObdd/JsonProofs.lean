import AdfObdd.JsonModel
/-! proofs about the JSON text model: lexer ∘ renderer = id (any whitespace), reader ∘ tokens = id -/
namespace Json

theorem run_cons (st : LS) (c : Char) (cs : List Char) :
    run st (c :: cs) = (step st c).bind (fun p => (run p.1 cs).map (p.2 ++ ·)) := by
  rw [run]
  cases step st c with
  | none => rfl
  | some p =>
    obtain ⟨a, b⟩ := p
    cases h : run a cs <;> simp [h]

theorem hexVal_hexChar : ∀ d, d < 16 → hexVal (hexChar d) = some d := by decide
theorem stepIdle_digit : ∀ d, d < 10 → stepIdle (digitChar d) = some (if d = 0 then .zero else .num d, []) := by decide
theorem digitVal_digitChar : ∀ d, d < 10 → digitVal (digitChar d) = some d := by decide

theorem isWs_cases {c : Char} (h : isWs c = true) : c = ' ' ∨ c = '\n' ∨ c = '\t' ∨ c = '\r' := by
  simpa [isWs, or_assoc] using h

theorem digitVal_ws {c : Char} (h : isWs c = true) : digitVal c = none := by
  rcases isWs_cases h with h | h | h | h <;> subst h <;> decide

theorem run_ws (w x : List Char) (hw : ∀ c ∈ w, isWs c = true) : run .idle (w ++ x) = run .idle x := by
  induction w with
  | nil => rfl
  | cons c cs ih =>
    have hc : isWs c = true := hw c (by simp)
    rw [List.cons_append, run_cons]
    simp only [step, stepIdle, hc, if_true, Option.bind_some, List.nil_append]
    rw [ih (fun c hc => hw c (by simp [hc]))]
    cases run .idle x <;> rfl

/-! ### punctuation -/

def isPunct : Tok → Bool
  | .num _ => false
  | .str _ => false
  | _ => true

theorem run_punct (t : Tok) (ht : isPunct t = true) (x : List Char) :
    run .idle (tokChars t ++ x) = (run .idle x).map (t :: ·) := by
  cases t <;> simp [isPunct] at ht <;>
    (simp only [tokChars, List.cons_append, List.nil_append, run_cons]
     rw [show ∀ c, step .idle c = stepIdle c from fun _ => rfl]
     first
       | rw [show stepIdle '{' = some (.idle, [.lb]) by decide]
       | rw [show stepIdle '}' = some (.idle, [.rb]) by decide]
       | rw [show stepIdle '[' = some (.idle, [.lk]) by decide]
       | rw [show stepIdle ']' = some (.idle, [.rk]) by decide]
       | rw [show stepIdle ':' = some (.idle, [.colon]) by decide]
       | rw [show stepIdle ',' = some (.idle, [.comma]) by decide]
     simp)

/-! ### strings -/

theorem run_str_plain (acc : List Char) (c : Char) (x : List Char)
    (h1 : c ≠ '"') (h2 : c ≠ '\\') (h3 : ¬ c.toNat < 32) :
    run (.str acc) (c :: x) = run (.str (c :: acc)) x := by
  rw [run_cons]
  simp only [step, h1, h2, h3, if_false, Option.bind_some, List.nil_append]
  cases run (.str (c :: acc)) x <;> rfl

theorem run_esc2 (acc : List Char) (e c : Char) (x : List Char)
    (h : step (.esc acc) e = some (.str (c :: acc), [])) :
    run (.str acc) ('\\' :: e :: x) = run (.str (c :: acc)) x := by
  rw [run_cons]
  have : step (.str acc) '\\' = some (.esc acc, []) := by simp [step]
  rw [this]
  simp only [Option.bind_some, List.nil_append, run_cons, h]
  cases run (.str (c :: acc)) x <;> rfl

theorem run_uni (acc : List Char) (c : Char) (x : List Char) (h : c.toNat < 32) :
    run (.str acc) ('\\' :: 'u' :: '0' :: '0' :: hexChar (c.toNat / 16) :: hexChar (c.toNat % 16) :: x) =
    run (.str (c :: acc)) x := by
  have s1 : step (.str acc) '\\' = some (.esc acc, []) := by simp [step]
  have s2 : step (.esc acc) 'u' = some (.uni acc 0 0, []) := by simp [step]
  have s3 : step (.uni acc 0 0) '0' = some (.uni acc 1 0, []) := by
    simp only [step, show hexVal '0' = some 0 by decide]; rfl
  have s4 : step (.uni acc 1 0) '0' = some (.uni acc 2 0, []) := by
    simp only [step, show hexVal '0' = some 0 by decide]; rfl
  have s5 : step (.uni acc 2 0) (hexChar (c.toNat / 16)) = some (.uni acc 3 (c.toNat / 16), []) := by
    simp only [step, hexVal_hexChar (c.toNat / 16) (by omega)]; simp
  have s6 : step (.uni acc 3 (c.toNat / 16)) (hexChar (c.toNat % 16)) = some (.str (c :: acc), []) := by
    simp only [step, hexVal_hexChar (c.toNat % 16) (by omega)]
    have e : c.toNat / 16 * 16 + c.toNat % 16 = c.toNat := by omega
    simp only [e, Nat.lt_irrefl, if_false, Char.ofNat_toNat]
    rw [if_neg (by omega)]
  simp only [run_cons, s1, s2, s3, s4, s5, s6, Option.bind_some, List.nil_append]
  cases run (.str (c :: acc)) x <;> rfl

theorem run_escChar (acc : List Char) (c : Char) (x : List Char) :
    run (.str acc) (escChar c ++ x) = run (.str (c :: acc)) x := by
  unfold escChar
  split
  · next h => subst h; exact run_esc2 acc '"' '"' x (by simp [step])
  split
  · next h => subst h; exact run_esc2 acc '\\' '\\' x (by simp [step])
  split
  · next h => subst h; exact run_esc2 acc 'b' '\x08' x (by simp [step])
  split
  · next h => subst h; exact run_esc2 acc 'f' '\x0c' x (by simp [step])
  split
  · next h => subst h; exact run_esc2 acc 'n' '\n' x (by simp [step])
  split
  · next h => subst h; exact run_esc2 acc 'r' '\r' x (by simp [step])
  split
  · next h => subst h; exact run_esc2 acc 't' '\t' x (by simp [step])
  split
  · next h => exact run_uni acc c x h
  · next h1 h2 _ _ _ _ _ h3 => exact run_str_plain acc c x h1 h2 h3

theorem run_escape (s : List Char) : ∀ (acc x : List Char),
    run (.str acc) (escape s ++ x) = run (.str (s.reverse ++ acc)) x := by
  induction s with
  | nil => intro acc x; rfl
  | cons c cs ih =>
    intro acc x
    simp only [escape, List.flatMap_cons, List.append_assoc] at ih ⊢
    rw [run_escChar, ih]
    simp

theorem run_string (s x : List Char) :
    run .idle (tokChars (.str s) ++ x) = (run .idle x).map (Tok.str s :: ·) := by
  simp only [tokChars, List.cons_append, List.append_assoc, run_cons]
  rw [show step .idle '"' = some (.str [], []) by decide]
  simp only [Option.bind_some, List.nil_append]
  rw [run_escape, run_cons]
  have : step (.str (s.reverse ++ [])) '"' = some (.idle, [.str s]) := by simp [step]
  rw [this]
  cases h : run .idle x <;> simp [h]

/-! ### numbers: the decimal printer / reader pair on all naturals -/

theorem run_num_digit (acc d : Nat) (hd : d < 10) (x : List Char) :
    run (.num acc) (digitChar d :: x) = run (.num (acc * 10 + d)) x := by
  rw [run_cons]
  simp only [step, digitVal_digitChar d hd, Option.bind_some, List.nil_append]
  cases run (.num (acc * 10 + d)) x <;> rfl

/-- reading the decimal digits of `n > 0` from the idle state leaves the machine in state `num n` -/
theorem run_digits_pos : ∀ (n : Nat), 0 < n → ∀ x, run .idle (digits n ++ x) = run (.num n) x := by
  intro n
  induction n using Nat.strongRecOn with
  | ind n ih =>
    intro hn x
    rw [digits]
    split
    · next h =>
      rw [List.singleton_append, run_cons, show step .idle (digitChar n) = stepIdle (digitChar n) from rfl,
        stepIdle_digit n h, if_neg (by omega)]
      simp only [Option.bind_some, List.nil_append]
      cases run (.num n) x <;> rfl
    · next h =>
      rw [List.append_assoc, ih (n / 10) (by omega) (by omega), List.singleton_append,
        run_num_digit _ _ (by omega)]
      congr 2
      omega

theorem run_digits_zero (x : List Char) : run .idle (digits 0 ++ x) = run .zero x := by
  rw [digits, if_pos (by omega), List.singleton_append, run_cons,
    show step .idle (digitChar 0) = stepIdle (digitChar 0) from rfl, stepIdle_digit 0 (by omega)]
  simp only [if_true, Option.bind_some, List.nil_append]
  cases run .zero x <;> rfl

/-- the next character (if any) is not a digit -/
def Hnd (x : List Char) : Prop := ∀ c, x.head? = some c → digitVal c = none

theorem run_num_end (n : Nat) (hn : n < B64) (x : List Char) (hx : Hnd x) :
    run (.num n) x = (run .idle x).map (Tok.num n :: ·) := by
  cases x with
  | nil => simp [run, fin, hn]
  | cons c cs =>
    have hc : digitVal c = none := hx c rfl
    rw [run_cons, run_cons]
    simp only [step, hc, hn, if_true]
    cases stepIdle c with
    | none => rfl
    | some p => cases h : run p.1 cs <;> simp [h]

theorem run_zero_end (x : List Char) (hx : Hnd x) :
    run .zero x = (run .idle x).map (Tok.num 0 :: ·) := by
  cases x with
  | nil => simp [run, fin]
  | cons c cs =>
    have hc : digitVal c = none := hx c rfl
    rw [run_cons, run_cons]
    simp only [step, hc]
    cases stepIdle c with
    | none => rfl
    | some p => cases h : run p.1 cs <;> simp [h]

/-- **decimal round trip**: every natural below 2^64, printed in decimal and followed by anything
that does not start with a digit, is read back as that number (0 included, no leading zeros
produced) -/
theorem run_number (n : Nat) (hn : n < B64) (x : List Char) (hx : Hnd x) :
    run .idle (tokChars (.num n) ++ x) = (run .idle x).map (Tok.num n :: ·) := by
  simp only [tokChars]
  by_cases h : n = 0
  · subst h; rw [run_digits_zero, run_zero_end x hx]
  · rw [run_digits_pos n (by omega), run_num_end n hn x hx]

/-- the pure decimal statement on ALL naturals (no bound): the digit reader of the machine, started
on the digits of `n`, ends in the state that holds `n` -/
theorem decimal_roundtrip (n : Nat) :
    run .idle (digits n) = if n = 0 then some [.num 0] else if n < B64 then some [.num n] else none := by
  have := fun h => run_digits_pos n h []
  have z := run_digits_zero []
  simp only [List.append_nil] at this z
  by_cases h : n = 0
  · subst h; rw [z]; rfl
  · rw [this (by omega), if_neg h]; rfl

/-! ### token lists whose rendering can be read back -/

def startsNum : List Tok → Bool
  | .num _ :: _ => true
  | _ => false

/-- no number is directly followed by a number; all numbers fit `usize` -/
def Good : List Tok → Prop
  | [] => True
  | .num n :: r => n < B64 ∧ startsNum r = false ∧ Good r
  | _ :: r => Good r

def WsOnly (w : Nat → List Char) : Prop := ∀ i, ∀ c ∈ w i, isWs c = true

theorem hnd_render (w : Nat → List Char) (hw : WsOnly w) (i : Nat) (ts : List Tok) (h : startsNum ts = false) :
    Hnd (render w i ts) := by
  intro c hc
  cases hwi : w i with
  | cons a as =>
    have : c = a := by cases ts <;> simp [render, hwi] at hc <;> exact hc.symm
    subst this
    exact digitVal_ws (hw i c (by simp [hwi]))
  | nil =>
    cases ts with
    | nil => simp [render, hwi] at hc
    | cons t ts =>
      cases t <;> simp [render, hwi, tokChars, startsNum] at hc h <;> subst hc <;> decide

/-- **lexer ∘ renderer = id**, whatever whitespace is put between the tokens -/
theorem lex_render (w : Nat → List Char) (hw : WsOnly w) : ∀ (ts : List Tok) (i : Nat), Good ts →
    lex (render w i ts) = some ts := by
  intro ts
  induction ts with
  | nil => intro i _; simpa [lex, render, run, fin] using run_ws (w i) [] (hw i)
  | cons t ts ih =>
    intro i g
    unfold lex
    rw [render, run_ws _ _ (hw i)]
    have ih' : ∀ j, Good ts → run .idle (render w j ts) = some ts := ih
    cases t with
    | num n =>
      obtain ⟨hn, hs, g'⟩ := g
      rw [run_number n hn _ (hnd_render w hw _ ts hs), ih' _ g']; rfl
    | str s => rw [run_string, ih' _ g]; rfl
    | lb => rw [run_punct _ rfl, ih' _ g]; rfl
    | rb => rw [run_punct _ rfl, ih' _ g]; rfl
    | lk => rw [run_punct _ rfl, ih' _ g]; rfl
    | rk => rw [run_punct _ rfl, ih' _ g]; rfl
    | colon => rw [run_punct _ rfl, ih' _ g]; rfl
    | comma => rw [run_punct _ rfl, ih' _ g]; rfl

/-! ### reader ∘ tokens = id -/

theorem expect_self (t : Tok) (r : List Tok) : expect t (t :: r) = some r := by simp [expect]

theorem tSepTail_len {α : Type} (pr : α → List Tok → List Tok) (hl : ∀ x r, r.length < (pr x r).length) :
    ∀ (ys : List α) (x : α) (r : List Tok), ys.length + r.length < (tSepTail pr x ys r).length := by
  intro ys
  induction ys with
  | nil => intro x r; simpa [tSepTail] using hl x r
  | cons y ys ih =>
    intro x r
    have a := ih y r
    have b := hl x (.comma :: tSepTail pr y ys r)
    simp only [tSepTail, List.length_cons] at a b ⊢
    omega

theorem pSepTail_ok {α : Type} (pr : α → List Tok → List Tok) (p : P α) (cl : Tok) (hcl : Tok.comma ≠ cl)
    (hp : ∀ x r, p (pr x r) = some (x, r)) :
    ∀ (ys : List α) (x : α) (r : List Tok) (f : Nat), ys.length < f →
      pSepTail p cl f (tSepTail pr x ys (cl :: r)) = some (x :: ys, r) := by
  intro ys
  induction ys with
  | nil =>
    intro x r f hf
    obtain ⟨f, rfl⟩ : ∃ g, f = g + 1 := ⟨f - 1, by omega⟩
    simp [pSepTail, tSepTail, hp]
  | cons y ys ih =>
    intro x r f hf
    obtain ⟨f, rfl⟩ : ∃ g, f = g + 1 := ⟨f - 1, by omega⟩
    have := ih y r f (by simpa using hf)
    simp [pSepTail, tSepTail, hp, hcl, this]

theorem pSeq_ok {α : Type} (op cl : Tok) (pr : α → List Tok → List Tok) (p : P α) (hcl : Tok.comma ≠ cl)
    (hp : ∀ x r, p (pr x r) = some (x, r)) (hl : ∀ x r, r.length < (pr x r).length)
    (hne : ∀ x r, expect cl (pr x r) = none) (xs : List α) (r : List Tok) :
    pSeq op cl p (tSeq op cl pr xs r) = some (xs, r) := by
  cases xs with
  | nil => simp [pSeq, tSeq, expect_self]
  | cons x xs =>
    have hne' : expect cl (tSepTail pr x xs (cl :: r)) = none := by
      cases xs <;> simp [tSepTail, hne]
    have := tSepTail_len pr hl xs x (cl :: r)
    simp only [pSeq, tSeq, expect_self, hne']
    exact pSepTail_ok pr p cl hcl hp xs x r _ (by omega)

theorem pStr_ok (s : String) (r : List Tok) : pStr (tStr s r) = some (s, r) := by
  simp [pStr, tStr, String.ofList_toList]
theorem pNum_ok (n : Nat) (r : List Tok) : pNum (tNum n r) = some (n, r) := rfl
theorem pKV_ok (kv : String × Nat) (r : List Tok) : pKV (tKV kv r) = some (kv, r) := by
  simp [pKV, tKV, String.ofList_toList]
theorem pNode_ok (n : Node) (r : List Tok) : pNode (tNode n r) = some (n, r) := by
  cases n; simp [pNode, tNode, expect_self, pNum]
theorem pPair_ok (q : Node × Nat) (r : List Tok) : pPair (tPair q r) = some (q, r) := by
  simp [pPair, tPair, expect_self, pNode_ok, pNum]

theorem pNames_ok (xs : List String) (r : List Tok) : pSeq .lk .rk pStr (tSeq .lk .rk tStr xs r) = some (xs, r) :=
  pSeq_ok _ _ _ _ (by decide) pStr_ok (by intro x r; simp [tStr]) (by intro x r; simp [tStr, expect]) xs r
theorem pMapping_ok (xs : List (String × Nat)) (r : List Tok) : pSeq .lb .rb pKV (tSeq .lb .rb tKV xs r) = some (xs, r) :=
  pSeq_ok _ _ _ _ (by decide) pKV_ok (by intro x r; simp [tKV]; omega) (by intro x r; simp [tKV, expect]) xs r
theorem pNodes_ok (xs : List Node) (r : List Tok) : pSeq .lk .rk pNode (tSeq .lk .rk tNode xs r) = some (xs, r) :=
  pSeq_ok _ _ _ _ (by decide) pNode_ok (by intro x r; simp [tNode]; omega) (by intro x r; simp [tNode, expect]) xs r
theorem pCache_ok (xs : List (Node × Nat)) (r : List Tok) : pSeq .lk .rk pPair (tSeq .lk .rk tPair xs r) = some (xs, r) :=
  pSeq_ok _ _ _ _ (by decide) pPair_ok (by intro x r; simp [tPair, tNode]; omega) (by intro x r; simp [tPair, expect]) xs r
theorem pAc_ok (xs : List Nat) (r : List Tok) : pSeq .lk .rk pNum (tSeq .lk .rk tNum xs r) = some (xs, r) :=
  pSeq_ok _ _ _ _ (by decide) pNum_ok (by intro x r; simp [tNum]) (by intro x r; simp [tNum, expect]) xs r

/-- the strict reader reads the tokens back -/
theorem parseStrictToks_toks (e : TextAdf) : parseStrictToks (toks e) = some e := by
  simp [parseStrictToks, pAdf, toks, expect_self, pNames_ok, pMapping_ok, pNodes_ok, pCache_ok, pAc_ok]

/-! ### the general reader: values -/

mutual
theorem tJ_len : ∀ (v : J) (r : List Tok), r.length < (tJ v r).length
  | .num n, r => by simp [tJ]
  | .str s, r => by simp [tJ]
  | .arr [], r => by simp [tJ]; omega
  | .arr (x :: xs), r => by
    have a := tJ_len x (tJs xs (.rk :: r))
    have b := tJs_len xs (.rk :: r)
    simp only [tJ, List.length_cons] at a b ⊢; omega
  | .obj [], r => by simp [tJ]; omega
  | .obj ((k, v) :: kvs), r => by
    have a := tJ_len v (tJm kvs (.rb :: r))
    have b := tJm_len kvs (.rb :: r)
    simp only [tJ, List.length_cons] at a b ⊢; omega
theorem tJs_len : ∀ (xs : List J) (r : List Tok), r.length ≤ (tJs xs r).length
  | [], r => by simp [tJs]
  | x :: xs, r => by
    have a := tJ_len x (tJs xs r)
    have b := tJs_len xs r
    simp only [tJs, List.length_cons] at a b ⊢; omega
theorem tJm_len : ∀ (kvs : List (List Char × J)) (r : List Tok), r.length ≤ (tJm kvs r).length
  | [], r => by simp [tJm]
  | (k, v) :: kvs, r => by
    have a := tJ_len v (tJm kvs r)
    have b := tJm_len kvs r
    simp only [tJm, List.length_cons] at a b ⊢; omega
end

theorem tJ_ne_rk (v : J) (r r' : List Tok) : tJ v r ≠ .rk :: r' := by
  cases v with
  | num n => simp [tJ]
  | str s => simp [tJ]
  | arr xs => cases xs <;> simp [tJ]
  | obj kvs =>
    cases kvs with
    | nil => simp [tJ]
    | cons kv kvs => obtain ⟨k, v⟩ := kv; simp [tJ]

theorem pJ_lk (f : Nat) (ts : List Tok) (h : ∀ r', ts ≠ .rk :: r') :
    pJ (f + 1) (.lk :: ts) =
      match pJ f ts with
      | none => none
      | some (x, r) =>
        match pJs f r with
        | none => none
        | some (xs, r) => some (.arr (x :: xs), r) := by
  cases ts with
  | nil => simp [pJ]; rfl
  | cons t ts =>
    cases t <;> first | (exfalso; exact h ts rfl) | (simp [pJ]; rfl)

mutual
theorem pJ_ok : ∀ (v : J) (f : Nat) (r : List Tok), (tJ v r).length ≤ f → pJ f (tJ v r) = some (v, r)
  | .num n, f, r, h => by
    obtain ⟨f, rfl⟩ : ∃ g, f = g + 1 := ⟨f - 1, by simp [tJ] at h; omega⟩
    simp [tJ, pJ]
  | .str s, f, r, h => by
    obtain ⟨f, rfl⟩ : ∃ g, f = g + 1 := ⟨f - 1, by simp [tJ] at h; omega⟩
    simp [tJ, pJ]
  | .arr [], f, r, h => by
    obtain ⟨f, rfl⟩ : ∃ g, f = g + 1 := ⟨f - 1, by simp [tJ] at h; omega⟩
    simp [tJ, pJ]
  | .arr (x :: xs), f, r, h => by
    obtain ⟨f, rfl⟩ : ∃ g, f = g + 1 := ⟨f - 1, by simp [tJ] at h; omega⟩
    simp only [tJ, List.length_cons] at h
    have l1 := tJ_len x (tJs xs (.rk :: r))
    have a := pJ_ok x f (tJs xs (.rk :: r)) (by omega)
    have b := pJs_ok xs f r (by omega)
    rw [tJ, pJ_lk _ _ (fun r' => tJ_ne_rk x _ r'), a]
    simp only [b]
  | .obj [], f, r, h => by
    obtain ⟨f, rfl⟩ : ∃ g, f = g + 1 := ⟨f - 1, by simp [tJ] at h; omega⟩
    simp [tJ, pJ]
  | .obj ((k, v) :: kvs), f, r, h => by
    obtain ⟨f, rfl⟩ : ∃ g, f = g + 1 := ⟨f - 1, by simp [tJ] at h; omega⟩
    simp only [tJ, List.length_cons] at h
    have l1 := tJ_len v (tJm kvs (.rb :: r))
    have a := pJ_ok v f (tJm kvs (.rb :: r)) (by omega)
    have b := pJm_ok kvs f r (by omega)
    simp only [tJ, pJ, a, b]
theorem pJs_ok : ∀ (xs : List J) (f : Nat) (r : List Tok), (tJs xs (.rk :: r)).length ≤ f →
    pJs f (tJs xs (.rk :: r)) = some (xs, r)
  | [], f, r, h => by
    obtain ⟨f, rfl⟩ : ∃ g, f = g + 1 := ⟨f - 1, by simp [tJs] at h; omega⟩
    simp [tJs, pJs]
  | x :: xs, f, r, h => by
    obtain ⟨f, rfl⟩ : ∃ g, f = g + 1 := ⟨f - 1, by simp [tJs] at h; omega⟩
    simp only [tJs, List.length_cons] at h
    have l1 := tJ_len x (tJs xs (.rk :: r))
    have a := pJ_ok x f (tJs xs (.rk :: r)) (by omega)
    have b := pJs_ok xs f r (by omega)
    simp only [tJs, pJs, a, b]
theorem pJm_ok : ∀ (kvs : List (List Char × J)) (f : Nat) (r : List Tok), (tJm kvs (.rb :: r)).length ≤ f →
    pJm f (tJm kvs (.rb :: r)) = some (kvs, r)
  | [], f, r, h => by
    obtain ⟨f, rfl⟩ : ∃ g, f = g + 1 := ⟨f - 1, by simp [tJm] at h; omega⟩
    simp [tJm, pJm]
  | (k, v) :: kvs, f, r, h => by
    obtain ⟨f, rfl⟩ : ∃ g, f = g + 1 := ⟨f - 1, by simp [tJm] at h; omega⟩
    simp only [tJm, List.length_cons] at h
    have l1 := tJ_len v (tJm kvs (.rb :: r))
    have a := pJ_ok v f (tJm kvs (.rb :: r)) (by omega)
    have b := pJm_ok kvs f r (by omega)
    simp only [tJm, pJm, a, b]
end

/-- **value reader ∘ value tokens = id**, for every JSON value of this fragment -/
theorem pJ_tJ (v : J) : pJ (tJ v []).length (tJ v []) = some (v, []) := pJ_ok v _ [] (Nat.le_refl _)

/-! ### the tokens of the object are the tokens of its JSON value -/

theorem tJs_map {α : Type} (g : α → J) (pr : α → List Tok → List Tok) (h : ∀ x r, tJ (g x) r = pr x r) :
    ∀ (ys : List α) (x : α) (r : List Tok), tJ (g x) (tJs (ys.map g) r) = tSepTail pr x ys r := by
  intro ys
  induction ys with
  | nil => intro x r; simp [tJs, tSepTail, h]
  | cons y ys ih => intro x r; simp only [List.map_cons, tJs, tSepTail, h, ← ih y r]

theorem tJ_arr_map {α : Type} (g : α → J) (pr : α → List Tok → List Tok) (h : ∀ x r, tJ (g x) r = pr x r)
    (xs : List α) (r : List Tok) : tJ (.arr (xs.map g)) r = tSeq .lk .rk pr xs r := by
  cases xs with
  | nil => simp [tJ, tSeq]
  | cons x xs => simp only [List.map_cons, tJ, tSeq, tJs_map g pr h]

theorem tJm_map : ∀ (ys : List (String × Nat)) (x : String × Nat) (r : List Tok),
    Tok.str x.1.toList :: .colon :: tJ (.num x.2) (tJm (ys.map fun kv => (kv.1.toList, J.num kv.2)) r) =
      tSepTail tKV x ys r := by
  intro ys
  induction ys with
  | nil => intro x r; simp [tJm, tJ, tSepTail, tKV]
  | cons y ys ih =>
    intro x r
    have := ih y r
    simp only [tJ] at this
    simp only [List.map_cons, tJm, tJ, tSepTail, tKV, this]

theorem tJ_obj_map (xs : List (String × Nat)) (r : List Tok) :
    tJ (.obj (xs.map fun kv => (kv.1.toList, J.num kv.2))) r = tSeq .lb .rb tKV xs r := by
  cases xs with
  | nil => simp [tJ, tSeq]
  | cons x xs =>
    have := tJm_map xs x (.rb :: r)
    simp only [tJ] at this
    simp only [List.map_cons, tJ, tSeq, this]

theorem tJ_eNode (n : Node) (r : List Tok) : tJ (eNode n) r = tNode n r := by
  simp [eNode, tJ, tJm, tNode]

theorem toks_eq (e : TextAdf) : toks e = tJ (enc e) [] := by
  simp only [enc, tJ, tJm, toks]
  rw [tJ_arr_map (fun s : String => J.str s.toList) tStr (fun x r => by simp [tJ, tStr]),
    tJ_obj_map,
    tJ_arr_map eNode tNode tJ_eNode,
    tJ_arr_map (fun q : Node × Nat => J.arr [eNode q.1, .num q.2]) tPair
      (fun x r => by simp [tJ, tJs, tPair, tJ_eNode]),
    tJ_arr_map J.num tNum (fun x r => by simp [tJ, tNum])]

/-! ### serde's visitors on the value of the object -/

theorem mapM_map_ok {α β : Type} (g : α → β) (d : β → Option α) (h : ∀ x, d (g x) = some x) :
    ∀ xs : List α, (xs.map g).mapM d = some xs := by
  intro xs
  induction xs with
  | nil => rfl
  | cons x xs ih => simp [List.mapM_cons, h, ih]

theorem dNode_eNode (n : Node) : dNode (eNode n) = some n := by
  cases n
  simp [dNode, eNode, field, dNat, kVar, kLo, kHi]

theorem dAdf_enc (e : TextAdf) : dAdf (enc e) = some e := by
  have h1 := mapM_map_ok (fun s : String => J.str s.toList) dStr (fun s => by simp [dStr, String.ofList_toList]) e.names
  have h2 := mapM_map_ok (fun kv : String × Nat => (kv.1.toList, J.num kv.2))
    (fun kv => (dNat kv.2).map (fun n => (String.ofList kv.1, n))) (fun kv => by simp [dNat, String.ofList_toList]) e.mapping
  have h3 := mapM_map_ok eNode dNode dNode_eNode e.nodes
  have h4 := mapM_map_ok (fun q : Node × Nat => J.arr [eNode q.1, .num q.2]) dPair
    (fun q => by simp [dPair, dNode_eNode, dNat]) e.cache
  have h5 := mapM_map_ok J.num dNat (fun _ => rfl) e.ac
  simp [dAdf, enc, field, dOrdering, dBdd, dList, dMap, h1, h2, h3, h4, h5,
    kOrdering, kBdd, kAc, kNames, kMapping, kNodes, kCache]

/-! ### what the general reader tolerates: member order, unknown members -/

theorem field_perm (k : List Char) {o o' : List (List Char × J)} (h : o.Perm o') : field k o = field k o' := by
  unfold field
  have hp := h.filter (fun kv => kv.1 == k)
  generalize o.filter (fun kv => kv.1 == k) = l at hp
  generalize o'.filter (fun kv => kv.1 == k) = l' at hp
  have hl := hp.length_eq
  match l, l', hp, hl with
  | [], [], _, _ => rfl
  | [a], [b], hp, _ => rw [List.perm_singleton.mp hp.symm] 
  | _ :: _ :: _, _ :: _ :: _, _, _ => rfl

theorem field_unknown (k k' : List Char) (v : J) (o : List (List Char × J)) (h : k' ≠ k) :
    field k ((k', v) :: o) = field k o := by
  unfold field
  rw [List.filter_cons_of_neg (by simpa using h)]

/-- the members of the outer struct may come in any order -/
theorem dAdf_perm {o o' : List (List Char × J)} (h : o.Perm o') : dAdf (.obj o) = dAdf (.obj o') := by
  simp only [dAdf, field_perm _ h]

/-- a member with another name is skipped (e.g. `"count_cache":{}` of older exports) -/
theorem dAdf_unknown (k : List Char) (v : J) (o : List (List Char × J))
    (h1 : k ≠ kOrdering) (h2 : k ≠ kBdd) (h3 : k ≠ kAc) : dAdf (.obj ((k, v) :: o)) = dAdf (.obj o) := by
  simp only [dAdf, field_unknown _ _ _ _ h1, field_unknown _ _ _ _ h2, field_unknown _ _ _ _ h3]

/-- **reader ∘ tokens = id** (general reader) -/
theorem parseToks_toks (e : TextAdf) : parseToks (toks e) = some e := by
  unfold parseToks
  rw [toks_eq, pJ_tJ]
  exact dAdf_enc e

/-! ### the tokens of an exported object are `Good` -/

theorem good_punct (t : Tok) (ht : isPunct t = true) (r : List Tok) : Good (t :: r) ↔ Good r := by
  cases t <;> simp [isPunct] at ht <;> simp [Good]
theorem good_str (s : List Char) (r : List Tok) : Good (.str s :: r) ↔ Good r := by simp [Good]
theorem startsNum_punct (t : Tok) (ht : isPunct t = true) (r : List Tok) : startsNum (t :: r) = false := by
  cases t <;> simp [isPunct] at ht <;> rfl

theorem good_tSepTail {α : Type} (pr : α → List Tok → List Tok) (ok : α → Prop) (cl : Tok) (hcl : isPunct cl = true)
    (hg : ∀ x r, ok x → startsNum r = false → Good r → Good (pr x r)) :
    ∀ (ys : List α) (x : α) (r : List Tok), ok x → (∀ y ∈ ys, ok y) → Good r → Good (tSepTail pr x ys (cl :: r)) := by
  intro ys
  induction ys with
  | nil =>
    intro x r hx _ g
    exact hg x _ hx (startsNum_punct cl hcl r) ((good_punct cl hcl r).mpr g)
  | cons y ys ih =>
    intro x r hx hys g
    exact hg x _ hx rfl (ih y r (hys y (by simp)) (fun z hz => hys z (by simp [hz])) g)

theorem good_tSeq {α : Type} (op cl : Tok) (pr : α → List Tok → List Tok) (ok : α → Prop)
    (hop : isPunct op = true) (hcl : isPunct cl = true)
    (hg : ∀ x r, ok x → startsNum r = false → Good r → Good (pr x r))
    (xs : List α) (r : List Tok) (hxs : ∀ x ∈ xs, ok x) (g : Good r) : Good (tSeq op cl pr xs r) := by
  cases xs with
  | nil => exact (good_punct op hop _).mpr ((good_punct cl hcl _).mpr g)
  | cons x xs =>
    exact (good_punct op hop _).mpr
      (good_tSepTail pr ok cl hcl hg xs x r (hxs x (by simp)) (fun y hy => hxs y (by simp [hy])) g)

def NodeFits (n : Node) : Prop := n.var < B64 ∧ n.lo < B64 ∧ n.hi < B64

/-- every number of the object is a `usize` -/
structure Fits (e : TextAdf) : Prop where
  mapping : ∀ kv ∈ e.mapping, kv.2 < B64
  nodes : ∀ n ∈ e.nodes, NodeFits n
  cache : ∀ q ∈ e.cache, NodeFits q.1 ∧ q.2 < B64
  ac : ∀ t ∈ e.ac, t < B64

theorem good_tNode (n : Node) (r : List Tok) (h : NodeFits n) (g : Good r) : Good (tNode n r) := by
  obtain ⟨a, b, c⟩ := h
  simp only [tNode, Good, startsNum, a, b, c, true_and]
  exact g

theorem good_toks (e : TextAdf) (f : Fits e) : Good (toks e) := by
  unfold toks
  simp only [Good]
  refine good_tSeq _ _ _ (fun _ => True) rfl rfl (fun x r _ _ g => by simpa [tStr, Good] using g) _ _ (fun _ _ => trivial) ?_
  simp only [Good]
  refine good_tSeq _ _ _ (fun kv => kv.2 < B64) rfl rfl
    (fun x r hx hs g => by simp only [tKV, Good]; exact ⟨hx, hs, g⟩) _ _ f.mapping ?_
  simp only [Good]
  refine good_tSeq _ _ _ NodeFits rfl rfl
    (fun x r hx _ g => good_tNode x r hx g) _ _ f.nodes ?_
  simp only [Good]
  refine good_tSeq _ _ _ (fun q => NodeFits q.1 ∧ q.2 < B64) rfl rfl
    (fun x r hx _ g => by
      simp only [tPair, Good]
      refine good_tNode x.1 _ hx.1 ?_
      simp only [Good]; exact ⟨hx.2, rfl, g⟩) _ _ f.cache ?_
  simp only [Good]
  refine good_tSeq _ _ _ (fun t => t < B64) rfl rfl
    (fun x r hx hs g => by simp only [tNum, Good]; exact ⟨hx, hs, g⟩) _ _ f.ac ?_
  simp [Good]

/-- **text round trip**: what `parse` reads from the rendering of the object's tokens — with ANY
whitespace between them, in particular none (`print`) — is the object -/
theorem parse_render (w : Nat → List Char) (hw : WsOnly w) (e : TextAdf) (f : Fits e) :
    parse (render w 0 (toks e)) = some e := by
  unfold parse
  rw [lex_render w hw _ 0 (good_toks e f)]
  exact parseToks_toks e

theorem parse_print (e : TextAdf) (f : Fits e) : parse (print e) = some e :=
  parse_render noWs (fun _ _ h => by simp [noWs] at h) e f

end Json
