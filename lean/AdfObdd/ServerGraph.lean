import AdfObdd.ServerAdf
/-! Helper lemmas for C16: the graph DTO builder `graphOf` — its node set is the reachable set, and
    walking the DTO from a node evaluates the diagram of that node. -/
namespace ServerAdf

theorem gnodes_length (ns : Array Node) : (gnodes ns).length = ns.size := by simp [gnodes]

theorem gnodes_get (ns : Array Node) (i : Nat) :
    (gnodes ns)[i]? = (ns[i]?).map (fun n => (⟨n.lo, n.hi⟩ : GraphM.GNode)) := by
  simp [gnodes]

/-- what the builder needs of the ADF: a well-formed table, an ordering with distinct names that
names every variable tested at a node reachable from the roots, roots inside the table (derived from
the parser facts / from the functions the roots denote in `ServerVars.lean`) -/
structure GraphHyp (names : List String) (ns : Array Node) (ac : List Nat) : Prop where
  wf : TableWF ns
  nodup : names.Nodup
  vars : ∀ (i : Nat) (n : Node), 2 ≤ i → GraphM.Reachable (gnodes ns) ac i → ns[i]? = some n → n.var < names.length
  roots : ∀ r ∈ ac, r < ns.size

theorem vbot_lt_vtop : VBOT < VTOP := by unfold VBOT VTOP; omega

theorem inRange_of_hyp {names : List String} {ns : Array Node} {ac : List Nat} (h : GraphHyp names ns ac) :
    GraphM.InRange (gnodes ns) ac := by
  refine ⟨?_, ?_⟩
  · intro r hr; rw [gnodes_length]; exact h.roots r hr
  · intro i n hn
    rw [gnodes_get] at hn
    rw [gnodes_length]
    cases hi : ns[i]? with
    | none => rw [hi] at hn; cases hn
    | some t =>
      rw [hi] at hn
      simp only [Option.map_some, Option.some.injEq] at hn
      subst hn
      simp only
      have hlen := h.wf.len
      by_cases h2 : 2 ≤ i
      · have := h.wf.inner i t h2 hi
        have hilt : i < ns.size := by
          rcases Nat.lt_or_ge i ns.size with hlt | hge
          · exact hlt
          · have : ns[i]? = none := by simp [hge]
            rw [this] at hi; cases hi
        omega
      · have : i = 0 ∨ i = 1 := by omega
        rcases this with h0 | h1
        · subst h0
          have := h.wf.bot; rw [hi] at this; simp only [Option.some.injEq] at this; subst this
          simp only; omega
        · subst h1
          have := h.wf.top; rw [hi] at this; simp only [Option.some.injEq] at this; subst this
          simp only; omega

/-- **the node set is exactly the reachable set** (and the loop ends within its fuel) -/
theorem nodeSet_spec {names : List String} {ns : Array Node} {ac : List Nat} (h : GraphHyp names ns ac) :
    ∀ x, x ∈ nodeSet ns ac ↔ GraphM.Reachable (gnodes ns) ac x := by
  obtain ⟨res, hres, hspec⟩ := GraphM.expandD_total (gnodes ns) ac (inRange_of_hyp h)
  intro x
  unfold nodeSet
  rw [gnodes_length] at hres
  rw [hres]
  exact hspec x

theorem reachable_lt {names : List String} {ns : Array Node} {ac : List Nat} (h : GraphHyp names ns ac) :
    ∀ x, GraphM.Reachable (gnodes ns) ac x → x < ns.size := by
  intro x hx
  induction hx with
  | root r hr => exact h.roots r hr
  | step i c _ hc _ =>
    have := GraphM.children_lt (gnodes ns) (inRange_of_hyp h).2 i c hc
    rwa [gnodes_length] at this

/-- the ids of the DTO's nodes -/
def idsOf (ns : Array Node) (ac : List Nat) : List Nat :=
  (List.range ns.size).filter (fun i => (nodeSet ns ac).contains i)

theorem mem_idsOf {names : List String} {ns : Array Node} {ac : List Nat} (h : GraphHyp names ns ac) (x : Nat) :
    x ∈ idsOf ns ac ↔ GraphM.Reachable (gnodes ns) ac x := by
  unfold idsOf
  rw [List.mem_filter, List.mem_range]
  constructor
  · intro hx; exact (nodeSet_spec h x).mp (by simpa using hx.2)
  · intro hx; exact ⟨reachable_lt h x hx, by simpa using (nodeSet_spec h x).mpr hx⟩

theorem graphOf_ids (names : List String) (ns : Array Node) (ac : List Nat) :
    (graphOf names ns ac).nodes.map (·.id) = idsOf ns ac := by
  simp [graphOf, idsOf, List.map_map, Function.comp_def]

/-! ### finding edges and nodes in the DTO -/

theorem find_pair_map (f : Nat → Nat) (x : Nat) : ∀ l : List Nat,
    (l.map (fun i => (i, f i))).find? (fun e => e.1 == x) = if x ∈ l then some (x, f x) else none := by
  intro l
  induction l with
  | nil => simp
  | cons y ys ih =>
    simp only [List.map_cons, List.find?_cons, List.mem_cons]
    by_cases hy : y = x
    · subst hy; simp
    · have : (y == x) = false := by simpa using hy
      simp only [this, ih]
      have hxy : ¬ x = y := fun h => hy h.symm
      simp [hxy]

theorem find_node_map (lab : Nat → String) (rts : Nat → List String) (x : Nat) : ∀ l : List Nat, x ∈ l →
    (l.map (fun i => (⟨i, lab i, rts i⟩ : GNodeD))).find? (fun n => n.id == x) = some ⟨x, lab x, rts x⟩ := by
  intro l
  induction l with
  | nil => intro h; cases h
  | cons y ys ih =>
    intro h
    simp only [List.map_cons, List.find?_cons]
    by_cases hy : y = x
    · subst hy; simp
    · have : (y == x) = false := by simpa using hy
      simp only [this]
      rcases List.mem_cons.mp h with h' | h'
      · exact absurd h'.symm hy
      · exact ih h'

theorem indexOf_getD : ∀ (names : List String) (v : Nat), names.Nodup → v < names.length →
    indexOf (names.getD v "?") names = some v := by
  intro names
  induction names with
  | nil => intro v _ h; simp at h
  | cons y ys ih =>
    intro v hnd hv
    have hnd' := List.nodup_cons.mp hnd
    cases v with
    | zero => simp [indexOf]
    | succ k =>
      have hk : k < ys.length := by simpa using hv
      have hget : (y :: ys).getD (k + 1) "?" = ys.getD k "?" := by simp
      rw [hget]
      have hmem : ys.getD k "?" ∈ ys := by
        have : ys.getD k "?" = ys[k] := by simp [List.getD, hk]
        rw [this]; exact List.getElem_mem hk
      have hne : (ys.getD k "?" == y) = false := by
        have : ys.getD k "?" ≠ y := fun h => hnd'.1 (h ▸ hmem)
        simpa using this
      unfold indexOf
      rw [hne]
      simp only [Bool.false_eq_true, if_false]
      rw [ih k hnd'.2 hk]
      rfl

/-- **walking the DTO evaluates the diagram**: from every node of the graph, following the lo/hi
edges according to `σ` (the variable tested at a node is the statement its label names, a node
without outgoing edges is a terminal) ends in the value `evalF` computes on the node table -/
theorem walk_eval {names : List String} {ns : Array Node} {ac : List Nat} (h : GraphHyp names ns ac) (σ : Asg) :
    ∀ (fuel x : Nat), x < fuel → GraphM.Reachable (gnodes ns) ac x →
      walk (graphOf names ns ac) names σ fuel x = some (evalF ns fuel x σ) := by
  intro fuel
  induction fuel with
  | zero => intro x hx; exact absurd hx (Nat.not_lt_zero _)
  | succ f ih =>
    intro x hxf hreach
    have hxlt : x < ns.size := reachable_lt h x hreach
    have hxid : x ∈ idsOf ns ac := (mem_idsOf h x).mpr hreach
    have hlo : (graphOf names ns ac).lo.find? (fun e => e.1 == x) =
        if x ∈ (idsOf ns ac).filter (isInner ns) then some (x, (ns.getD x ⟨0, 0, 0⟩).lo) else none := by
      simp only [graphOf]; exact find_pair_map _ x _
    have hhi : (graphOf names ns ac).hi.find? (fun e => e.1 == x) =
        if x ∈ (idsOf ns ac).filter (isInner ns) then some (x, (ns.getD x ⟨0, 0, 0⟩).hi) else none := by
      simp only [graphOf]; exact find_pair_map _ x _
    obtain ⟨t, ht⟩ : ∃ t, ns[x]? = some t := ⟨ns[x], by simp [hxlt]⟩
    have hgetD : ∀ d, ns.getD x d = t := by
      intro d; simp [Array.getD, hxlt]; simpa [hxlt] using ht
    unfold walk evalF
    rw [hlo, hhi]
    by_cases h2 : 2 ≤ x
    · -- an inner node
      have hin := h.wf.inner x t h2 ht
      have hvar : t.var ≠ VTOP ∧ t.var ≠ VBOT := by
        have := vbot_lt_vtop
        constructor <;> omega
      have hinner : isInner ns x = true := by simp [isInner, ht, hvar.1, hvar.2]
      have hmem : x ∈ (idsOf ns ac).filter (isInner ns) := List.mem_filter.mpr ⟨hxid, hinner⟩
      have hx0 : x ≠ 0 := by omega
      have hx1 : x ≠ 1 := by omega
      simp only [hmem, if_true, hx0, hx1, if_false, ht, hgetD]
      have hnode : (graphOf names ns ac).nodes.find? (fun n => n.id == x) =
          some ⟨x, nameOfVar names ((ns.getD x ⟨VTOP, 0, 0⟩).var), rootsOf names ac x⟩ := by
        simp only [graphOf]; exact find_node_map _ _ x _ hxid
      rw [hnode]
      simp only [hgetD]
      have hname : nameOfVar names t.var = names.getD t.var "?" := by simp [nameOfVar, hvar.1, hvar.2]
      rw [hname, indexOf_getD names t.var h.nodup (h.vars x t h2 hreach ht)]
      simp only
      have hchild : ∀ c, c = t.lo ∨ c = t.hi → GraphM.Reachable (gnodes ns) ac c ∧ c < f := by
        intro c hc
        refine ⟨GraphM.Reachable.step x c hreach ?_, ?_⟩
        · simp only [GraphM.children, gnodes_get, ht, Option.map_some, List.mem_cons, List.not_mem_nil, or_false]
          exact hc
        · rcases hc with hc | hc <;> omega
      by_cases hs : σ t.var = true
      · simp only [hs, if_true]
        exact ih t.hi (hchild t.hi (Or.inr rfl)).2 (hchild t.hi (Or.inr rfl)).1
      · simp only [hs, Bool.false_eq_true, if_false]
        exact ih t.lo (hchild t.lo (Or.inl rfl)).2 (hchild t.lo (Or.inl rfl)).1
    · -- a terminal
      have hx01 : x = 0 ∨ x = 1 := by omega
      have hnot : ¬ x ∈ (idsOf ns ac).filter (isInner ns) := by
        intro hm
        have hi := (List.mem_filter.mp hm).2
        rcases hx01 with h0 | h1
        · subst h0
          have := h.wf.bot; rw [ht] at this; simp only [Option.some.injEq] at this; subst this
          simp [isInner, ht] at hi
        · subst h1
          have := h.wf.top; rw [ht] at this; simp only [Option.some.injEq] at this; subst this
          simp [isInner, ht] at hi
      simp only [hnot, if_false]
      rcases hx01 with h0 | h1
      · subst h0; simp
      · subst h1; simp

end ServerAdf
