import AdfObdd.FeatureQueries
/-! C12: the public diagram-building operations under a feature set (`stepOpC`, `runOpsC`,
    mirroring `stepOp`, `runOps` of `OpsModel`) and the simulation with the feature-free
    reference: every operation sequence issues the same handles and builds the same node table
    under every feature set. No Mathlib in the import closure. -/

def opIteC (c : Cfg) (fs : FStore) (i t e : Nat) : FStore × Nat := iteCfg c (i + t + e + 1) fs i t e
def opNotC (c : Cfg) (fs : FStore) (t : Nat) : FStore × Nat := opIteC c fs t 0 1

/-- one operation of `obdd.rs` under the feature set `c` -/
def stepOpC (c : Cfg) (fs : FStore) (hist : List Nat) : Op → FStore × Nat
  | .var v => nodeC c fs v 0 1
  | .const b => (fs, if b then 1 else 0)
  | .not a => opNotC c fs (hget hist a)
  | .and a b => opIteC c fs (hget hist a) (hget hist b) 0
  | .or a b => opIteC c fs (hget hist a) 1 (hget hist b)
  | .imp a b => opIteC c fs (hget hist a) (hget hist b) 1
  | .iff a b => let nb := opNotC c fs (hget hist b); opIteC c nb.1 (hget hist a) (hget hist b) nb.2
  | .xor a b => let nb := opNotC c fs (hget hist b); opIteC c nb.1 (hget hist a) nb.2 (hget hist b)
  | .restrict a v b => restrictC c (hget hist a + 1) fs (hget hist a) v b

def runOpsC (c : Cfg) : List Op → FStore → List Nat → FStore × List Nat
  | [], fs, hist => (fs, hist)
  | op :: ops, fs, hist => let r := stepOpC c fs hist op; runOpsC c ops r.1 (hist ++ [r.2])

/-- the store under feature set `c` and the feature-free reference store: both well formed,
same node table, ite memos answering alike (restrict memos unrelated) -/
structure Rel (c : Cfg) (z : Bool) (fs : FStore) (s : Store) : Prop where
  inv : FInv c z fs
  wf : WF s
  nodes : fs.base.nodes = s.nodes
  ite : IteAgree fs.base s

theorem Rel.new (c : Cfg) : Rel c true (newC c) Store.init :=
  ⟨newC_inv c, WF_init, rfl, fun _ => rfl⟩

theorem node_rel {c : Cfg} {z : Bool} {fs : FStore} {s : Store} (r : Rel c z fs s) (v lo hi : Nat)
    (hlo : lo < s.nodes.size) (hhi : hi < s.nodes.size) (hv : v < VBOT)
    (hvlo : v < topVar s lo) (hvhi : v < topVar s hi) :
    (nodeC c fs v lo hi).2 = (mkNode s v lo hi).2 ∧ Rel c z (nodeC c fs v lo hi).1 (mkNode s v lo hi).1 := by
  have ⟨eb, qb⟩ := nodeC_base c fs v lo hi
  have ⟨nM, qM⟩ := mkNode_congr r.inv.wf r.wf r.nodes v lo hi
  have tv : ∀ x, topVar fs.base x = topVar s x := topVar_congr r.nodes
  have ⟨w1, _, _, _, _⟩ := mkNode_spec fs.base r.inv.wf v lo hi (by rw [r.nodes]; exact hlo)
    (by rw [r.nodes]; exact hhi) hv (by rw [tv]; exact hvlo) (by rw [tv]; exact hvhi)
  have ⟨w2, _, _, _, _⟩ := mkNode_spec s r.wf v lo hi hlo hhi hv hvlo hvhi
  have tab := nodeC_tab c z fs v lo hi r.inv.wf.table r.inv.tab (by rw [r.nodes]; exact hlo) (by rw [r.nodes]; exact hhi)
  refine ⟨qb.trans qM, ⟨by rw [eb]; exact w1, tab⟩, w2, by rw [eb]; exact nM, ?_⟩
  intro k
  rw [eb, mkNode_iteC, mkNode_iteC]; exact r.ite k

theorem restrict_rel {c : Cfg} {z : Bool} {fs : FStore} {s : Store} (r : Rel c z fs s) (t v : Nat) (b : Bool)
    (ht : t < s.nodes.size) :
    (restrictC c (t+1) fs t v b).2 = (restrictF (t+1) s t v b).2 ∧
    Rel c z (restrictC c (t+1) fs t v b).1 (restrictF (t+1) s t v b).1 := by
  have ht' : t < fs.base.nodes.size := by rw [r.nodes]; exact ht
  have ⟨e1, q1, _⟩ := restrictC_sim c z (t+1) fs t v b r.inv ht' (Nat.lt_succ_self _)
  have inv1 := restrictC_inv c z (t+1) fs t v b r.inv ht' (Nat.lt_succ_self _)
  have ⟨n2, q2⟩ := restrictS_indep (scOf c) scNone (scOf_sound c) scNone_sound (t+1) fs.base s t v b
    r.inv.wf r.wf r.nodes ht' (Nat.lt_succ_self _)
  have i1 := restrictS_iteC (scOf c) (t+1) fs.base t v b
  have i2 := restrictS_iteC scNone (t+1) s t v b
  rw [restrictS_none] at n2 q2 i2
  have ⟨w2, _, _, _, _⟩ := restrictF_spec (t+1) s t v b r.wf ht (Nat.lt_succ_self _)
  refine ⟨q1.trans q2, inv1, w2, by rw [e1]; exact n2, ?_⟩
  intro k
  rw [e1, i1, i2]; exact r.ite k

theorem ite_rel {c : Cfg} {z : Bool} {fs : FStore} {s : Store} (r : Rel c z fs s) (i t e : Nat)
    (hi : i < s.nodes.size) (ht : t < s.nodes.size) (he : e < s.nodes.size) :
    (opIteC c fs i t e).2 = (opIte s i t e).2 ∧ Rel c z (opIteC c fs i t e).1 (opIte s i t e).1 := by
  unfold opIteC opIte
  have hi' : i < fs.base.nodes.size := by rw [r.nodes]; exact hi
  have ht' : t < fs.base.nodes.size := by rw [r.nodes]; exact ht
  have he' : e < fs.base.nodes.size := by rw [r.nodes]; exact he
  have hf : i + t + e < i + t + e + 1 := Nat.lt_succ_self _
  have ⟨e1, q1, _⟩ := iteCfg_sim c z _ fs i t e r.inv hi' ht' he' hf
  have inv1 := iteCfg_inv c z _ fs i t e r.inv hi' ht' he' hf
  have ⟨n2, q2, a2⟩ := iteS_indep (scOf c) scNone (scOf_sound c) scNone_sound _ fs.base s i t e
    r.inv.wf r.wf r.nodes r.ite hi' ht' he' hf
  rw [iteS_none] at n2 q2 a2
  have ⟨w2, _, _, _, _⟩ := iteF_spec _ s i t e r.wf hi ht he hf
  exact ⟨q1.trans q2, inv1, w2, by rw [e1]; exact n2, by rw [e1]; exact a2⟩

theorem Rel.size {c : Cfg} {z : Bool} {fs : FStore} {s : Store} (r : Rel c z fs s) :
    fs.base.nodes.size = s.nodes.size := by rw [r.nodes]

/-- one operation: same handle, and the relation is kept -/
theorem step_rel {c : Cfg} {z : Bool} {fs : FStore} {s : Store} (r : Rel c z fs s)
    (hist : List Nat) (fns : List BoolFn) (op : Op) (h : HistOK s hist fns) (hv : op.valid hist.length) :
    (stepOpC c fs hist op).2 = (stepOp s hist op).2 ∧
    Rel c z (stepOpC c fs hist op).1 (stepOp s hist op).1 := by
  have w := r.wf
  have z0 := zero_lt s w
  have o1 := one_lt s w
  cases op with
  | var v =>
    have hv' : v < VBOT := hv
    exact node_rel r v 0 1 z0 o1 hv' (by rw [topVar_bot w]; exact hv')
      (by rw [topVar_top w]; unfold VTOP; unfold VBOT at hv'; omega)
  | const b => exact ⟨rfl, r⟩
  | not a =>
    have ⟨ha, _⟩ := h.ok a hv
    exact ite_rel r _ 0 1 ha z0 o1
  | and a b =>
    have ⟨ha, _⟩ := h.ok a hv.1
    have ⟨hb, _⟩ := h.ok b hv.2
    exact ite_rel r _ _ 0 ha hb z0
  | or a b =>
    have ⟨ha, _⟩ := h.ok a hv.1
    have ⟨hb, _⟩ := h.ok b hv.2
    exact ite_rel r _ 1 _ ha o1 hb
  | imp a b =>
    have ⟨ha, _⟩ := h.ok a hv.1
    have ⟨hb, _⟩ := h.ok b hv.2
    exact ite_rel r _ _ 1 ha hb o1
  | iff a b =>
    have ⟨ha, _⟩ := h.ok a hv.1
    have ⟨hb, _⟩ := h.ok b hv.2
    have h1 : (opNotC c fs (hget hist b)).2 = (opNot s (hget hist b)).2 ∧
        Rel c z (opNotC c fs (hget hist b)).1 (opNot s (hget hist b)).1 := ite_rel r (hget hist b) 0 1 hb z0 o1
    obtain ⟨q1, r1⟩ := h1
    have gn := opNot_good s w _ hb
    have ha' := Nat.lt_of_lt_of_le ha gn.ext.1
    have hb' := Nat.lt_of_lt_of_le hb gn.ext.1
    have ⟨q2, r2⟩ := ite_rel r1 (hget hist a) (hget hist b) (opNot s (hget hist b)).2 ha' hb' gn.lt
    show (opIteC c (opNotC c fs (hget hist b)).1 (hget hist a) (hget hist b) (opNotC c fs (hget hist b)).2).2
        = (opIte (opNot s (hget hist b)).1 (hget hist a) (hget hist b) (opNot s (hget hist b)).2).2 ∧
      Rel c z (opIteC c (opNotC c fs (hget hist b)).1 (hget hist a) (hget hist b) (opNotC c fs (hget hist b)).2).1
        (opIte (opNot s (hget hist b)).1 (hget hist a) (hget hist b) (opNot s (hget hist b)).2).1
    rw [q1]; exact ⟨q2, r2⟩
  | xor a b =>
    have ⟨ha, _⟩ := h.ok a hv.1
    have ⟨hb, _⟩ := h.ok b hv.2
    have h1 : (opNotC c fs (hget hist b)).2 = (opNot s (hget hist b)).2 ∧
        Rel c z (opNotC c fs (hget hist b)).1 (opNot s (hget hist b)).1 := ite_rel r (hget hist b) 0 1 hb z0 o1
    obtain ⟨q1, r1⟩ := h1
    have gn := opNot_good s w _ hb
    have ha' := Nat.lt_of_lt_of_le ha gn.ext.1
    have hb' := Nat.lt_of_lt_of_le hb gn.ext.1
    have ⟨q2, r2⟩ := ite_rel r1 (hget hist a) (opNot s (hget hist b)).2 (hget hist b) ha' gn.lt hb'
    show (opIteC c (opNotC c fs (hget hist b)).1 (hget hist a) (opNotC c fs (hget hist b)).2 (hget hist b)).2
        = (opIte (opNot s (hget hist b)).1 (hget hist a) (opNot s (hget hist b)).2 (hget hist b)).2 ∧
      Rel c z (opIteC c (opNotC c fs (hget hist b)).1 (hget hist a) (opNotC c fs (hget hist b)).2 (hget hist b)).1
        (opIte (opNot s (hget hist b)).1 (hget hist a) (opNot s (hget hist b)).2 (hget hist b)).1
    rw [q1]; exact ⟨q2, r2⟩
  | restrict a v b =>
    have ⟨ha, _⟩ := h.ok a hv
    exact restrict_rel r _ v b ha

/-- every sequence of valid operations: same history of handles, and the relation is kept -/
theorem run_rel (c : Cfg) (z : Bool) : ∀ (ops : List Op) (fs : FStore) (s : Store) (hist : List Nat) (fns : List BoolFn),
    Rel c z fs s → HistOK s hist fns → opsValid ops hist.length →
    (runOpsC c ops fs hist).2 = (runOps ops s hist).2 ∧
    Rel c z (runOpsC c ops fs hist).1 (runOps ops s hist).1 := by
  intro ops
  induction ops with
  | nil => intro fs s hist fns r _ _; exact ⟨rfl, r⟩
  | cons op ops ih =>
    intro fs s hist fns r h hv
    have ⟨q, r'⟩ := step_rel r hist fns op h hv.1
    have h' := HistOK.step s hist fns op r.wf h hv.1
    have hv' : opsValid ops (hist ++ [(stepOp s hist op).2]).length := by simpa using hv.2
    show (runOpsC c ops (stepOpC c fs hist op).1 (hist ++ [(stepOpC c fs hist op).2])).2 =
        (runOps ops (stepOp s hist op).1 (hist ++ [(stepOp s hist op).2])).2 ∧
      Rel c z (runOpsC c ops (stepOpC c fs hist op).1 (hist ++ [(stepOpC c fs hist op).2])).1
        (runOps ops (stepOp s hist op).1 (hist ++ [(stepOp s hist op).2])).1
    rw [q]
    exact ih _ _ _ _ r' h' hv'

#print axioms step_rel
#print axioms run_rel
