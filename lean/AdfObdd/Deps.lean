import AdfObdd.StoreCanon
/-! prototype 20: the variables occurring in a diagram are exactly the variables its function
    depends on (C13, support clause) -/

/-- `var_dependencies` without the cache (the recursive body of the non-`variablelist` build) -/
def depsF (s : Store) : Nat → Nat → List Nat
  | 0, _ => []
  | fuel+1, t =>
    if t < 2 then [] else
    match s.nodes[t]? with
    | none => []
    | some n => n.var :: (depsF s fuel n.lo ++ depsF s fuel n.hi)

def Essential (f : Asg → Bool) (x : Nat) : Prop := ∃ σ, f (upd σ x true) ≠ f (upd σ x false)

theorem upd_comm' (σ : Asg) {k j : Nat} (h : k ≠ j) (b c : Bool) :
    upd (upd σ k b) j c = upd (upd σ j c) k b := by
  funext x; simp only [upd]; split <;> split <;> first | rfl | omega

theorem upd_same (σ : Asg) (v : Nat) (b : Bool) : upd σ v b v = b := by simp [upd]
theorem upd_other (σ : Asg) {v x : Nat} (b : Bool) (h : x ≠ v) : upd σ v b x = σ x := by simp [upd, h]

/-- every listed variable is at least the top variable -/
theorem depsF_ge (s : Store) (w : WF s) : ∀ (fuel t x : Nat), t < s.nodes.size → x ∈ depsF s fuel t →
    topVar s t ≤ x := by
  intro fuel
  induction fuel with
  | zero => intro t x _ h; simp [depsF] at h
  | succ f ih =>
    intro t x ht hx
    unfold depsF at hx
    by_cases h2 : t < 2
    · rw [if_pos h2] at hx; cases hx
    · rw [if_neg h2] at hx
      obtain ⟨n, hn⟩ := get_of_lt ht
      simp only [hn] at hx
      have ⟨_, hlo, hhi, _, hvlo, hvhi⟩ := w.inner t n (by omega) hn
      have htv : topVar s t = n.var := by simp [topVar, hn]
      rcases List.mem_cons.mp hx with rfl | hx
      · omega
      · rcases List.mem_append.mp hx with h | h
        · have := ih n.lo x (by omega) h
          obtain ⟨m, hm⟩ := get_of_lt (ns := s.nodes) (i := n.lo) (by omega)
          have : topVar s n.lo = m.var := by simp [topVar, hm]
          have := hvlo m hm; omega
        · have := ih n.hi x (by omega) h
          obtain ⟨m, hm⟩ := get_of_lt (ns := s.nodes) (i := n.hi) (by omega)
          have : topVar s n.hi = m.var := by simp [topVar, hm]
          have := hvhi m hm; omega

/-- a variable that is not listed does not matter -/
theorem depsF_indep (s : Store) (w : WF s) : ∀ (fuel t x : Nat), t < s.nodes.size → t < fuel →
    x ∉ depsF s fuel t → ∀ σ b, eval s t (upd σ x b) = eval s t σ := by
  intro fuel
  induction fuel with
  | zero => intro t x _ h; omega
  | succ f ih =>
    intro t x ht hf hx σ b
    unfold depsF at hx
    by_cases h2 : t < 2
    · have h01 : t = 0 ∨ t = 1 := by omega
      rcases h01 with h | h <;> subst h <;> simp [eval_zero, eval_one]
    · rw [if_neg h2] at hx
      obtain ⟨n, hn⟩ := get_of_lt ht
      simp only [hn] at hx
      have ⟨_, hlo, hhi, _, _, _⟩ := w.inner t n (by omega) hn
      have hxv : x ≠ n.var := fun e => hx (e ▸ List.mem_cons_self ..)
      have hxlo : x ∉ depsF s f n.lo := fun m => hx (List.mem_cons_of_mem _ (List.mem_append_left _ m))
      have hxhi : x ∉ depsF s f n.hi := fun m => hx (List.mem_cons_of_mem _ (List.mem_append_right _ m))
      rw [eval_node s w t n (by omega) hn, eval_node s w t n (by omega) hn,
          upd_other σ b (Ne.symm hxv),
          ih n.hi x (by omega) (by omega) hxhi σ b, ih n.lo x (by omega) (by omega) hxlo σ b]

/-- an inner node depends on its own variable (the heart of canonicity, restated) -/
theorem node_essential (s : Store) (w : WF s) (t : Nat) (n : Node) (ht2 : 2 ≤ t) (hn : s.nodes[t]? = some n) :
    Essential (eval s t) n.var := by
  have ⟨_, hlo, hhi, hne, _, _⟩ := w.inner t n ht2 hn
  have ht := lt_of_get hn
  false_or_by_contra
  rename_i hcon
  apply hne
  apply (canonical s w n.lo n.hi (by omega) (by omega)).mp
  intro σ
  rw [eval_lo s w t n ht2 hn, eval_hi s w t n ht2 hn]
  false_or_by_contra
  rename_i hd
  exact hcon ⟨σ, fun e => hd e.symm⟩

/-- every listed variable matters -/
theorem depsF_essential (s : Store) (w : WF s) : ∀ (fuel t x : Nat), t < s.nodes.size →
    x ∈ depsF s fuel t → Essential (eval s t) x := by
  intro fuel
  induction fuel with
  | zero => intro t x _ h; simp [depsF] at h
  | succ f ih =>
    intro t x ht hx
    have hxorig := hx
    unfold depsF at hx
    by_cases h2 : t < 2
    · rw [if_pos h2] at hx; cases hx
    · rw [if_neg h2] at hx
      obtain ⟨n, hn⟩ := get_of_lt ht
      simp only [hn] at hx
      have ⟨_, hlo, hhi, _, hvlo, hvhi⟩ := w.inner t n (by omega) hn
      rcases List.mem_cons.mp hx with rfl | hx
      · exact node_essential s w t n (by omega) hn
      · rcases List.mem_append.mp hx with h | h
        · obtain ⟨σ, hσ⟩ := ih n.lo x (by omega) h
          have hge := depsF_ge s w f n.lo x (by omega) h
          obtain ⟨m, hm⟩ := get_of_lt (ns := s.nodes) (i := n.lo) (by omega)
          have hxv : x ≠ n.var := by
            have : topVar s n.lo = m.var := by simp [topVar, hm]
            have := hvlo m hm; omega
          refine ⟨upd σ n.var false, ?_⟩
          rw [upd_comm' σ (Ne.symm hxv), upd_comm' σ (Ne.symm hxv),
              ← eval_lo s w t n (by omega) hn, ← eval_lo s w t n (by omega) hn]
          exact hσ
        · obtain ⟨σ, hσ⟩ := ih n.hi x (by omega) h
          have hge := depsF_ge s w f n.hi x (by omega) h
          obtain ⟨m, hm⟩ := get_of_lt (ns := s.nodes) (i := n.hi) (by omega)
          have hxv : x ≠ n.var := by
            have : topVar s n.hi = m.var := by simp [topVar, hm]
            have := hvhi m hm; omega
          refine ⟨upd σ n.var true, ?_⟩
          rw [upd_comm' σ (Ne.symm hxv), upd_comm' σ (Ne.symm hxv),
              ← eval_hi s w t n (by omega) hn, ← eval_hi s w t n (by omega) hn]
          exact hσ

/-- C13, support clause: listed ⇔ essential -/
theorem deps_exact (s : Store) (w : WF s) (t x : Nat) (ht : t < s.nodes.size) :
    x ∈ depsF s (t+1) t ↔ Essential (eval s t) x := by
  constructor
  · exact depsF_essential s w (t+1) t x ht
  · intro ⟨σ, hσ⟩
    false_or_by_contra
    rename_i hx
    apply hσ
    rw [depsF_indep s w (t+1) t x ht (by omega) hx σ true, depsF_indep s w (t+1) t x ht (by omega) hx σ false]
#print axioms deps_exact
