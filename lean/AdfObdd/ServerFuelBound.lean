import AdfObdd.ServerFuel
import AdfObdd.ServerConcreteProofs
import AdfObdd.ServerHybrid
import AdfObdd.CliFuelBound
/-! # The server's fuel hypothesis `strategyHalts` holds from the EXPLICIT bound `2^(n+3)` on

`SrvA.stored_answers_exact_every_large_bound` / `SrvC.strategyHalts_eventually` say "from SOME bound on".
With `NConc.ngSearch_halts_within`: for a stored framework that denotes `n` conditions the search of the
`StableNogood` strategy has halted within `NConc.ngBound n = 2^(n+3)` iterations; `2^(16+3) ≤ 10^6`, so
the bound of the executable model (`solveAdf = solveAdfF 1000000`) provably suffices for `n ≤ 16`
statements. Beyond that size the hypothesis `strategyHalts 1000000 a s` remains (evaluation only). -/
namespace SrvA
open ServerM ServerAdf

/-- the strategy's search halts within every bound `≥ 2^(n+3)` -/
theorem strategyHalts_within (a : SAdf) (n : Nat) (fms : List Fm) (s : Strategy) (h : Denotes a n fms) :
    ∀ fuel, NConc.ngBound n ≤ fuel → strategyHalts fuel a s = true := by
  have ⟨wr, hv, _⟩ := rebuilt_facts h
  have hlen := h.len
  subst hlen
  intro fuel hf
  exact CliF.section_halts_within .simple (secOf s) (rebuild a.nodes) a.ac.length a.ac wr rfl hv fuel hf

/-- … in particular within the 10^6 of the executable model when there are at most 16 statements -/
theorem strategyHalts_of_le_16 (a : SAdf) (n : Nat) (fms : List Fm) (s : Strategy) (h : Denotes a n fms)
    (h16 : n ≤ 16) : strategyHalts 1000000 a s = true :=
  strategyHalts_within a n fms s h 1000000 ((NConc.ngBound_le_million_iff n).mpr h16)

/-- the stored answers are exact for EVERY bound `≥ 2^(n+3)` (no halting hypothesis), and they are the
same for all these bounds -/
theorem stored_answers_exact_within (a : SAdf) (n : Nat) (fms : List Fm) (s : Strategy) (h : Denotes a n fms) :
    ∃ res, (∀ F, NConc.ngBound n ≤ F → solveAdfF F a s = .ok res ∧ strategyHalts F a s = true) ∧
      (storedI3 res).Perm (Cli.specSection n (CliF.tablesOf n fms) (secOf s)) :=
  stored_answers_exact_from_bound (NConc.ngBound n) a n fms s h
    (strategyHalts_within a n fms s h _ (Nat.le_refl _))

end SrvA

namespace SrvC
open ServerM ServerAdf

/-- `served_answer_for_code` WITHOUT the fuel hypothesis for frameworks with at most 16 statements -/
theorem served_answer_for_code_le_16 (o : Oracle) (st : State String SHash SAdf SRes) (j n jar : Nat)
    (t : TaskRec String SAdf) (code : String) (a : SAdf) (r : SRes) (s : Strategy)
    (ht : nthOf j n st.db.tasks = some t) (hin : t.input = .solve a s)
    (hlive : t.blockingDone = true ∧ t.written = false)
    (hparse : (libEnv o).parse .naive code = .ok (a, r)) (h16 : a.names.length ≤ 16)
    (p : Problem String SAdf SRes) (hp : st.db.problems.find? (isProb t.username t.name) = some p)
    (hs : st.sess jar = some t.username) :
    ∃ (fms : List Fm) (res : SRes) (i : Info String SRes),
      conditions code = .ok (a.names, fms) ∧
      (step (libEnv o) (stepEv (libEnv o) st (.write j n)).1 ⟨jar, .get t.name⟩).2 = ⟨200, .keep, .problem i⟩ ∧
      i.res.get s = .some res ∧ (∀ s', s' ≠ s → i.res.get s' = p.res.get s') ∧
      SrvA.PropAnswer a.names.length (fms.map Fm.sem) s (SrvA.storedI3 res) := by
  have hn : a.names.length ≤ VBOT := by unfold VBOT; omega
  obtain ⟨fms, _, hd⟩ := SrvA.parseNaive_denotes _ code a r hparse hn
  exact served_answer_for_code o st j n jar t code a r s ht hin hlive hparse hn
    (SrvA.strategyHalts_of_le_16 a _ fms s hd h16) p hp hs

/-- `served_answer_for_code_any_parsing` (both parsing strategies, modelled hybrid arm) WITHOUT the fuel
hypothesis for frameworks with at most 16 statements -/
theorem served_answer_for_code_any_parsing_le_16 {T : Type} (Lf : Nat → Bio.Lib T) (dumpf : Nat → T → List Node)
    (st : State String SHash SAdf SRes) (j n jar : Nat)
    (t : TaskRec String SAdf) (pg : Parsing) (code : String) (a : SAdf) (r : SRes) (s : Strategy)
    (ht : nthOf j n st.db.tasks = some t) (hin : t.input = .solve a s)
    (hlive : t.blockingDone = true ∧ t.written = false)
    (hparse : (hybEnv Lf dumpf).parse pg code = .ok (a, r)) (h16 : a.names.length ≤ 16)
    (W : Bio.Lawful (Lf a.names.length) a.names.length) (hdump : Bio.DumpSpec W (dumpf a.names.length))
    (p : Problem String SAdf SRes) (hp : st.db.problems.find? (isProb t.username t.name) = some p)
    (hs : st.sess jar = some t.username) :
    ∃ (fms : List Fm) (res : SRes) (i : Info String SRes),
      conditions code = .ok (a.names, fms) ∧
      (step (hybEnv Lf dumpf) (ServerM.stepEv (hybEnv Lf dumpf) st (.write j n)).1 ⟨jar, .get t.name⟩).2 =
        ⟨200, .keep, .problem i⟩ ∧
      i.res.get s = .some res ∧ (∀ s', s' ≠ s → i.res.get s' = p.res.get s') ∧
      SrvA.PropAnswer a.names.length (fms.map Fm.sem) s (SrvA.storedI3 res) := by
  have hn : a.names.length ≤ VBOT := by unfold VBOT; omega
  obtain ⟨fms, _, hd⟩ := parse_denotes_any Lf dumpf pg code a r hparse (fun _ => hn) W (fun _ => hdump)
  exact served_answer_for_code_any_parsing Lf dumpf st j n jar t pg code a r s ht hin hlive hparse (fun _ => hn) W hdump
    (SrvA.strategyHalts_of_le_16 a _ fms s hd h16) p hp hs

/-- `served_answer_for_code_hybrid_checked` (the driver's service, adopted table that passed the printed
check) WITHOUT the fuel hypothesis for frameworks with at most 16 statements -/
theorem served_answer_for_code_hybrid_checked_le_16 (o : Oracle) (st : State String SHash SAdf SRes) (j n jar : Nat)
    (t : TaskRec String SAdf) (code : String) (a : SAdf) (r : SRes) (s : Strategy)
    (ht : nthOf j n st.db.tasks = some t) (hin : t.input = .solve a s)
    (hlive : t.blockingDone = true ∧ t.written = false)
    (hparse : (libEnv o).parse .hybrid code = .ok (a, r)) (hchk : storedAdfOK' code a = "ok")
    (h16 : a.names.length ≤ 16)
    (p : Problem String SAdf SRes) (hp : st.db.problems.find? (isProb t.username t.name) = some p)
    (hs : st.sess jar = some t.username) :
    ∃ (fms : List Fm) (res : SRes) (i : Info String SRes),
      conditions code = .ok (a.names, fms) ∧
      (step (libEnv o) (ServerM.stepEv (libEnv o) st (.write j n)).1 ⟨jar, .get t.name⟩).2 = ⟨200, .keep, .problem i⟩ ∧
      i.res.get s = .some res ∧ (∀ s', s' ≠ s → i.res.get s' = p.res.get s') ∧
      SrvA.PropAnswer a.names.length (fms.map Fm.sem) s (SrvA.storedI3 res) := by
  obtain ⟨fms, _, hd⟩ := storedAdfOK'_denotes code a hchk
  exact served_answer_for_code_hybrid_checked o st j n jar t code a r s ht hin hlive hparse hchk
    (SrvA.strategyHalts_of_le_16 a _ fms s hd h16) p hp hs

end SrvC
#print axioms SrvA.strategyHalts_within
#print axioms SrvC.served_answer_for_code_le_16
