import AdfObdd.CliModes
import AdfObdd.JsonModel
import AdfObdd.Persist
/-! # `--export <path>` and `--import` of the `adf-bdd` binary: the CLI with a file system

`CliM.runText` (CliModes.lean) is the binary as a function of the invocation and the TEXT of the input
file. This file adds the two options that touch persistence (bin/src/main.rs, the `_ =>` arm, i.e.
`--lib naive` or any value other than `hybrid` / `biodivine`):

* `--import`: the arm does NOT run the ADF parser; the input text goes to
  `serde_json::from_str::<Adf>(..).expect(..)` (`Json.parse`; `Err` → panic → exit status 101, nothing
  printed), then `fix_import()`; `--lx` / `--an` are not looked at on this path. The sections then
  run on the imported object: `n` is `ac.len()` (no function of `Adf` asks `ordering` for a size), the
  lines are printed with the imported `ordering.names`.
* `--export p` (after the object is built or imported, BEFORE `--counter` and every section):
  `if p.exists() { log::error!("Cannot write JSON file <p>, as it already exists") }` - nothing is
  written, the run goes on, exit status and stdout are those of the run without `--export` (the message
  goes to the logger, i.e. stderr: field `refused`); otherwise `File::create(p)` and
  `serde_json::to_writer(file, &adf)`: the file system gains the one file `p` with the compact JSON
  text of the object (`Json.print`), the two hash maps (`ordering.mapping`, `bdd.cache` through
  `vectorize`) in their iteration orders: parameter `Orders`.
* the `hybrid` and `biodivine` arms contain no code for either option: both are ignored there (so
  `--lib hybrid --import x.json` hands the JSON text to the ADF parser, which rejects it).

The file system is a finite map from paths to contents (an association list, first binding wins);
contents are texts (`List Char`, as everywhere in `Json`: the UTF-8 bytes of the file and its
code points determine each other; `read_to_string` panics on a file that is not UTF-8, which is
outside the model like a missing file is for `runTextIO` - `runFileIO` covers the missing file).
NOT modelled: directories and permissions (`File::create` failing → panic with exit status 101 AFTER
nothing was printed; `exists()` is `false` for a dangling symlink or an unreadable directory), other
processes (the `exists()` / `create` pair is check-then-act), a full disk, `--counter` (CliCounter.lean;
it runs after the export and does not interact with it). Paths are compared as TEXTS: no normalisation, links
or case folding - one path text per file (`x.json` and `./x.json` are different keys here, while `Path::exists`
would see one file; "never overwrites" holds in both, for different reasons).

The import arm is claimed for texts that ARE exports of a well-formed object (`C14` round trip): on an
arbitrary JSON text (handles beyond the node table, fewer names than conditions, cyclic node table)
the Rust code can panic or overflow its stack in places this model does not track. -/
namespace CliM
open ParserM FromParser Cli

abbrev Path := List Char

/-- a file-system snapshot: finitely many files, `get` returns the first binding of the path -/
abbrev FS := List (Path × List Char)

def FS.get : FS → Path → Option (List Char)
  | [], _ => none
  | (q, c) :: r, p => if q = p then some c else FS.get r p

/-- `Path::exists` -/
def FS.has (fs : FS) (p : Path) : Bool := (fs.get p).isSome

/-- the paths of the snapshot -/
def FS.paths (fs : FS) : List Path := fs.map (·.1)

/-- an invocation with the two persistence options -/
structure InvIO where
  inv : Inv
  /-- `--export <path>` -/
  exportTo : Option Path := none
  /-- `--import` -/
  imp : Bool := false

/-- the orders in which the two hash maps are iterated when the object is serialised -/
structure Orders where
  ml : List (String × Nat)
  cl : List (Node × Nat)

/-- the `Adf` object of the naive arm as far as export and the sections look at it -/
structure NaiveObj where
  /-- `ordering.names` -/
  names : List Label
  /-- `ordering.mapping` -/
  mapping : Std.HashMap String Nat
  /-- `bdd` (node table, unique table, memo tables) -/
  store : Store
  ac : List Nat
  /-- the number of statements the searches work with -/
  n : Nat

structure OutIO where
  out : Out
  fs : FS
  /-- the error message "Cannot write JSON file <…>, as it already exists" was logged -/
  refused : Bool

/-- `AdfParser::parse`, sorting flag, `Adf::from_parser`; `none` = panic -/
def parsedObj {T : Type} (W : World T) (i : Inv) (t : List Char) : Option NaiveObj :=
  match parsed W i t with
  | none => none
  | some st => (fromParser st).map fun b =>
    { names := st.namelist, mapping := Std.HashMap.ofList (st.namelist.map String.ofList).zipIdx,
      store := b.1, ac := b.2, n := dictSizeOf st }

/-- `serde_json::from_str::<Adf>` + `fix_import`; `none` = the `expect` panics -/
def importObj (t : List Char) : Option NaiveObj :=
  (Json.parse t).map fun e =>
    let b := Persist.fixImport (Persist.importB ⟨e.nodes.toArray, e.cache⟩)
    { names := e.names.map String.toList, mapping := Std.HashMap.ofList e.mapping,
      store := b.st, ac := e.ac, n := e.ac.length }

/-- what serde sees of the object, the maps in the given orders -/
def textAdfOf (o : NaiveObj) (ord : Orders) : Json.TextAdf :=
  { names := o.names.map String.ofList, mapping := ord.ml, nodes := o.store.nodes.toList, cache := ord.cl, ac := o.ac }

/-- `serde_json::to_writer(file, &adf)` -/
def exportText (o : NaiveObj) (ord : Orders) : List Char := Json.print (textAdfOf o ord)

/-- the orders are iteration orders of the object's two maps -/
def ValidOrders (o : NaiveObj) (ord : Orders) : Prop :=
  ord.ml.Perm o.mapping.toList ∧ ord.cl.Perm o.store.uniq.toList

/-- the blocks the naive arm prints on an object -/
def blocksOn (fuel : Nat) (i : Inv) (o : NaiveObj) : List Block :=
  (runWith (secNaive fuel i.heu o.n o.ac) (sections .naive i.flags) (o.store, [])).2

def outOn (fuel : Nat) (i : Inv) (o : NaiveObj) : Out :=
  ⟨0, (blocksOn fuel i o).flatMap fun b => b.2.map (render o.names)⟩

/-- the naive arm from the built object on: the export, then the sections -/
def runObjIO (fuel : Nat) (io : InvIO) (ord : Orders) (o : NaiveObj) (fs : FS) : OutIO :=
  match io.exportTo with
  | none => ⟨outOn fuel io.inv o, fs, false⟩
  | some p =>
    if fs.has p then ⟨outOn fuel io.inv o, fs, true⟩
    else ⟨outOn fuel io.inv o, (p, exportText o ord) :: fs, false⟩

/-- the object of the naive arm: imported or parsed -/
def objOf {T : Type} (W : World T) (io : InvIO) (t : List Char) : Option NaiveObj :=
  if io.imp then importObj t else parsedObj W io.inv t

/-- **the binary on the text of the input file and a file system**: exit status, stdout, the file
system afterwards. `ord` = the iteration orders of the hash maps if a file is written. -/
def runTextIO {T : Type} (W : World T) (fuel : Nat) (io : InvIO) (ord : Orders) (t : List Char) (fs : FS) : OutIO :=
  match io.inv.mode with
  | .naive =>
    match objOf W io t with
    | none => ⟨rejected, fs, false⟩
    | some o => runObjIO fuel io ord o fs
  | _ => ⟨runText W fuel io.inv t, fs, false⟩

/-- the same with the input file taken from the file system (`read_to_string(..).expect("Error Reading
File")`: a missing file is a panic) -/
def runFileIO {T : Type} (W : World T) (fuel : Nat) (io : InvIO) (ord : Orders) (input : Path) (fs : FS) : OutIO :=
  match fs.get input with
  | none => ⟨rejected, fs, false⟩
  | some t => runTextIO W fuel io ord t fs

/-- relational form: SOME iteration orders of the object's maps -/
def RunsIO {T : Type} (W : World T) (fuel : Nat) (io : InvIO) (t : List Char) (fs : FS) (r : OutIO) : Prop :=
  ∃ ord : Orders, (∀ o, objOf W io t = some o → ValidOrders o ord) ∧ runTextIO W fuel io ord t fs = r

end CliM
