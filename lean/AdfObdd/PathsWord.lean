import AdfObdd.CountsWord
import AdfObdd.PathsDepth
/-! # path counts in 64-bit arithmetic (C13, review round 2, row 2)

`Bdd::paths` / the path components of `modelcount_naive` add `usize` numbers (release build:
wrapping; ASSUMES a 64-bit target, `usize` = u64; a debug build panics instead of wrapping - also on the MODEL-count
overflow of the shared `modelcount_naive` at depth ≥ 65, even when the path total is small). `pathsW` is `pathsF` with every `+` wrapped to 64 bits. Whenever the TOTAL number of
root-to-leaf paths of the unfolding fits a word, no intermediate sum wraps (sub-diagrams have
fewer paths) and the two agree; a diagram of depth ≤ 63 has at most `2^63` paths. -/

/-- `pathsF` as a release build computes it -/
def pathsW (s : Store) : Nat → Nat → Nat × Nat
  | 0, _ => (0, 0)
  | fuel+1, t =>
    if t = 1 then (0, 1) else if t = 0 then (1, 0) else
    match s.nodes[t]? with
    | none => (0, 0)
    | some n =>
      let l := pathsW s fuel n.lo; let h := pathsW s fuel n.hi
      (wadd l.1 h.1, wadd l.2 h.2)

theorem wadd_small {a b : Nat} (h : a + b < 2 ^ 64) : wadd a b = a + b := Nat.mod_eq_of_lt h

/-- if the total path count fits a word, the wrapped recursion returns the unbounded numbers
(no hypothesis on the store: sub-counts are summands of the total) -/
theorem pathsW_eq_pathsF (s : Store) : ∀ (fuel t : Nat),
    (pathsF s fuel t).1 + (pathsF s fuel t).2 < 2 ^ 64 → pathsW s fuel t = pathsF s fuel t := by
  intro fuel
  induction fuel with
  | zero => intro t _; rfl
  | succ f ih =>
    intro t hb
    unfold pathsW pathsF
    unfold pathsF at hb
    by_cases h1 : t = 1
    · simp only [h1, if_true]
    · by_cases h0 : t = 0
      · simp only [h0, if_true]
      · simp only [h1, h0, if_false] at hb ⊢
        cases hn : s.nodes[t]? with
        | none => rfl
        | some n =>
          simp only [hn] at hb ⊢
          have el := ih n.lo (by omega)
          have eh := ih n.hi (by omega)
          rw [el, eh, wadd_small (by omega), wadd_small (by omega)]

/-- a diagram has at most `2^depth` root-to-leaf paths (same fuel on both sides) -/
theorem paths_le_pow_depth (s : Store) : ∀ (fuel t : Nat),
    (pathsF s fuel t).1 + (pathsF s fuel t).2 ≤ 2 ^ (countF s fuel t).2.2 := by
  intro fuel
  induction fuel with
  | zero => intro t; simp [pathsF, countF]
  | succ f ih =>
    intro t
    unfold pathsF countF
    by_cases h1 : t = 1
    · simp only [h1, if_true]; decide
    · by_cases h0 : t = 0
      · simp only [h0, if_true]; decide
      · simp only [h1, h0, if_false]
        cases hn : s.nodes[t]? with
        | none => simp
        | some n =>
          simp only []
          have a := ih n.lo
          have b := ih n.hi
          have pl : 2 ^ (countF s f n.lo).2.2 ≤ 2 ^ max (countF s f n.lo).2.2 (countF s f n.hi).2.2 :=
            Nat.pow_le_pow_right (by decide) (Nat.le_max_left _ _)
          have ph : 2 ^ (countF s f n.hi).2.2 ≤ 2 ^ max (countF s f n.lo).2.2 (countF s f n.hi).2.2 :=
            Nat.pow_le_pow_right (by decide) (Nat.le_max_right _ _)
          rw [Nat.pow_succ]
          omega

/-- depth ≤ 63 ⇒ the 64-bit path counts are the unbounded ones -/
theorem pathsW_eq_of_depth (s : Store) (fuel t : Nat) (hd : (countF s fuel t).2.2 ≤ 63) :
    pathsW s fuel t = pathsF s fuel t := by
  apply pathsW_eq_pathsF
  have := paths_le_pow_depth s fuel t
  have : 2 ^ (countF s fuel t).2.2 ≤ 2 ^ 63 := Nat.pow_le_pow_right (by decide) hd
  have : (2:Nat) ^ 63 < 2 ^ 64 := by decide
  omega

#print axioms pathsW_eq_pathsF
#print axioms pathsW_eq_of_depth
