import AdfObdd.Deps
/-! executable models of the counting queries of `obdd.rs` (no Mathlib in the import closure) -/

/-- `modelcount_naive`: (counter-models, models, depth) -/
def countF (s : Store) : Nat → Nat → Nat × Nat × Nat
  | 0, _ => (0, 0, 0)
  | fuel+1, t =>
    if t = 1 then (0, 1, 0) else if t = 0 then (1, 0, 0) else
    match s.nodes[t]? with
    | none => (0, 0, 0)
    | some n =>
      let l := countF s fuel n.lo
      let h := countF s fuel n.hi
      let D := max l.2.2 h.2.2
      (l.1 * 2 ^ (D - l.2.2) + h.1 * 2 ^ (D - h.2.2), l.2.1 * 2 ^ (D - l.2.2) + h.2.1 * 2 ^ (D - h.2.2), D + 1)


/-- path counts (counter-model paths, model paths) -/
def pathsF (s : Store) : Nat → Nat → Nat × Nat
  | 0, _ => (0, 0)
  | fuel+1, t =>
    if t = 1 then (0, 1) else if t = 0 then (1, 0) else
    match s.nodes[t]? with
    | none => (0, 0)
    | some n =>
      let l := pathsF s fuel n.lo; let h := pathsF s fuel n.hi
      (l.1 + h.1, l.2 + h.2)

def paths (s : Store) (t : Nat) : Nat × Nat := pathsF s (t+1) t
def minPaths (s : Store) (t : Nat) : Nat := min (paths s t).1 (paths s t).2
def moreModels (p : Nat × Nat) : Bool := p.2 ≥ p.1          -- repaired (D4)

def depsOf (s : Store) (t : Nat) : List Nat := depsF s (t+1) t
def passive (s : Store) (v : Nat) (interp : List Nat) : Nat := (interp.filter (fun t => (depsOf s t).contains v)).length
def active (s : Store) (v : Nat) (interp : List Nat) : Nat :=
  ((List.range interp.length).filter (fun i => (depsOf s (interp.getD v 0)).contains i)).length

