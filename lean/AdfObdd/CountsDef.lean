import AdfObdd.MeasMemo
/-! executable models of the counting queries of `obdd.rs` (no Mathlib in the import closure) -/

/-- `modelcount_naive`: (counter-models, models, depth) -/
def countF (s : Store) : Nat → Nat → Nat × Nat × Nat
  | 0, _ => (0, 0, 0)
  | fuel+1, t =>
    if t = 1 then (0, 1, 0) else if t = 0 then (1, 0, 0) else
    match s.nodes[t]? with
    | none => (0, 0, 0)
    | some n =>
      let l := countF s fuel n.lo
      let h := countF s fuel n.hi
      let D := max l.2.2 h.2.2
      (l.1 * 2 ^ (D - l.2.2) + h.1 * 2 ^ (D - h.2.2), l.2.1 * 2 ^ (D - l.2.2) + h.2.1 * 2 ^ (D - h.2.2), D + 1)


/-- path counts (counter-model paths, model paths) -/
def pathsF (s : Store) : Nat → Nat → Nat × Nat
  | 0, _ => (0, 0)
  | fuel+1, t =>
    if t = 1 then (0, 1) else if t = 0 then (1, 0) else
    match s.nodes[t]? with
    | none => (0, 0)
    | some n =>
      let l := pathsF s fuel n.lo; let h := pathsF s fuel n.hi
      (l.1 + h.1, l.2 + h.2)

/-! ### memoised twins (one cache entry per node, as `count_cache` of the code)

`countF`/`pathsF` recompute shared sub-diagrams; the compiled driver runs `countFM`/`pathsFM`
(`Memo.Meas.go`: a per-call `Std.HashMap` keyed by the node), proved equal on every table and
substituted by the compiler (`@[csimp]`); all theorems keep speaking about `countF`/`pathsF`. -/
namespace Memo

def cntG : Meas (Nat × Nat × Nat) where
  z := (0, 0, 0)
  l0 := (1, 0, 0)
  l1 := (0, 1, 0)
  nn := (0, 0, 0)
  node := fun _ l h =>
    let D := max l.2.2 h.2.2
    (l.1 * 2 ^ (D - l.2.2) + h.1 * 2 ^ (D - h.2.2), l.2.1 * 2 ^ (D - l.2.2) + h.2.1 * 2 ^ (D - h.2.2), D + 1)

def pathG : Meas (Nat × Nat) where
  z := (0, 0)
  l0 := (1, 0)
  l1 := (0, 1)
  nn := (0, 0)
  node := fun _ l h => (l.1 + h.1, l.2 + h.2)

theorem countF_eq_F (s : Store) : ∀ (fuel t : Nat), countF s fuel t = cntG.F s fuel t := by
  intro fuel
  induction fuel with
  | zero => intro t; rfl
  | succ f ih =>
    intro t
    unfold countF Meas.F
    by_cases h1 : t = 1
    · simp only [if_pos h1]; rfl
    rw [if_neg h1, if_neg h1]
    by_cases h0 : t = 0
    · simp only [if_pos h0]; rfl
    rw [if_neg h0, if_neg h0]
    cases s.nodes[t]? with
    | none => rfl
    | some n => simp only [ih]; rfl

theorem pathsF_eq_F (s : Store) : ∀ (fuel t : Nat), pathsF s fuel t = pathG.F s fuel t := by
  intro fuel
  induction fuel with
  | zero => intro t; rfl
  | succ f ih =>
    intro t
    unfold pathsF Meas.F
    by_cases h1 : t = 1
    · simp only [if_pos h1]; rfl
    rw [if_neg h1, if_neg h1]
    by_cases h0 : t = 0
    · simp only [if_pos h0]; rfl
    rw [if_neg h0, if_neg h0]
    cases s.nodes[t]? with
    | none => rfl
    | some n => simp only [ih]; rfl

end Memo

/-- `countF` with one cache entry per node (what the compiled driver runs) -/
def countFM (s : Store) (fuel t : Nat) : Nat × Nat × Nat := Memo.cntG.FM s fuel t
/-- `pathsF` with one cache entry per node (what the compiled driver runs) -/
def pathsFM (s : Store) (fuel t : Nat) : Nat × Nat := Memo.pathG.FM s fuel t

@[csimp] theorem countF_eq_countFM : @countF = @countFM := by
  funext s fuel t; rw [countFM, Memo.FM_eq, Memo.countF_eq_F]
@[csimp] theorem pathsF_eq_pathsFM : @pathsF = @pathsFM := by
  funext s fuel t; rw [pathsFM, Memo.FM_eq, Memo.pathsF_eq_F]

def paths (s : Store) (t : Nat) : Nat × Nat := pathsF s (t+1) t
def minPaths (s : Store) (t : Nat) : Nat := min (paths s t).1 (paths s t).2
def moreModels (p : Nat × Nat) : Bool := p.2 ≥ p.1          -- repaired (D4)

def depsOf (s : Store) (t : Nat) : List Nat := depsF s (t+1) t
def passive (s : Store) (v : Nat) (interp : List Nat) : Nat := (interp.filter (fun t => (depsOf s t).contains v)).length
def active (s : Store) (v : Nat) (interp : List Nat) : Nat :=
  ((List.range interp.length).filter (fun i => (depsOf s (interp.getD v 0)).contains i)).length

/-! ### dependency sets as increasing lists

`depsF` lists a variable once per PATH through it (an exponentially long list on a parity diagram);
its callers in the searches only ask `contains`. `setG` is the same recursion with the list replaced
by the set of its members, kept as a strictly increasing duplicate-free list (the cost of a union
depends on the number of members, not on their magnitude: variable indices may be 2^32);
`passive`/`active` are compiled to twins that evaluate it with one cache entry per node (`var_deps` of
the code). -/
namespace Memo

def setG : Meas (List Nat) where
  z := []
  l0 := []
  l1 := []
  nn := []
  node := fun n l h => umerge [n.var] (umerge l h)

theorem mem_depsF (s : Store) : ∀ (fuel t v : Nat), v ∈ depsF s fuel t ↔ v ∈ setG.F s fuel t := by
  intro fuel
  induction fuel with
  | zero => intro t v; simp [depsF, Meas.F, setG]
  | succ f ih =>
    intro t v
    unfold depsF Meas.F
    by_cases h1 : t = 1
    · subst h1; simp [setG]
    by_cases h0 : t = 0
    · subst h0; simp [setG]
    rw [if_neg (by omega : ¬ t < 2), if_neg h1, if_neg h0]
    cases hn : s.nodes[t]? with
    | none => simp [setG]
    | some n =>
      show v ∈ n.var :: (depsF s f n.lo ++ depsF s f n.hi) ↔
        v ∈ umerge [n.var] (umerge (setG.F s f n.lo) (setG.F s f n.hi))
      rw [mem_umerge, mem_umerge, List.mem_cons, List.mem_append, ih n.lo v, ih n.hi v, List.mem_singleton]

theorem depsF_contains (s : Store) (fuel t v : Nat) :
    (depsF s fuel t).contains v = (setG.F s fuel t).contains v := by
  rw [Bool.eq_iff_iff, List.contains_iff_mem, List.contains_iff_mem]
  exact mem_depsF s fuel t v

/-- the sets are strictly increasing lists -/
theorem setF_sorted (s : Store) : ∀ (fuel t : Nat), (setG.F s fuel t).Pairwise (· < ·) := by
  intro fuel
  induction fuel with
  | zero => intro t; exact List.Pairwise.nil
  | succ f ih =>
    intro t
    unfold Meas.F
    by_cases h1 : t = 1
    · rw [if_pos h1]; exact List.Pairwise.nil
    by_cases h0 : t = 0
    · rw [if_neg h1, if_pos h0]; exact List.Pairwise.nil
    rw [if_neg h1, if_neg h0]
    cases s.nodes[t]? with
    | none => exact List.Pairwise.nil
    | some n => exact umerge_sorted _ _ (List.pairwise_singleton _ _) (umerge_sorted _ _ (ih n.lo) (ih n.hi))

/-- the dependency set of a handle -/
def setOf (s : Store) (t : Nat) : List Nat := setG.F s (t+1) t

theorem depsOf_contains (s : Store) (t v : Nat) : (depsOf s t).contains v = (setOf s t).contains v :=
  depsF_contains s (t+1) t v

theorem setOf_zero (s : Store) : setOf s 0 = [] := by simp [setOf, Meas.F, setG]

/-- `passive` from the dependency sets of all handles of the interpretation -/
def passiveB (bl : List (List Nat)) (v : Nat) : Nat := (bl.filter (fun b => b.contains v)).length
/-- `active` from the dependency sets of all handles of the interpretation -/
def activeB (bl : List (List Nat)) (v : Nat) : Nat :=
  ((List.range bl.length).filter (fun i => (bl.getD v []).contains i)).length

theorem passive_eq_B (s : Store) (v : Nat) (interp : List Nat) :
    passive s v interp = passiveB (setG.mapL s interp) v := by
  unfold passive passiveB Meas.mapL
  rw [List.filter_map, List.length_map]
  congr 1
  apply List.filter_congr
  intro t _
  exact depsOf_contains s t v

theorem getD_map_nil (s : Store) (interp : List Nat) (v : Nat) :
    (setG.mapL s interp).getD v [] = setOf s (interp.getD v 0) := by
  unfold Meas.mapL
  rw [List.getD_eq_getElem?_getD, List.getD_eq_getElem?_getD, List.getElem?_map]
  cases interp[v]? with
  | none => simp [setOf_zero]
  | some t => rfl

theorem active_eq_B (s : Store) (v : Nat) (interp : List Nat) :
    active s v interp = activeB (setG.mapL s interp) v := by
  unfold active activeB
  rw [getD_map_nil]
  simp only [Meas.mapL, List.length_map]
  congr 1
  apply List.filter_congr
  intro i _
  exact depsOf_contains s _ i

end Memo

def passiveM (s : Store) (v : Nat) (interp : List Nat) : Nat := Memo.passiveB (Memo.setG.mapL s interp) v
def activeM (s : Store) (v : Nat) (interp : List Nat) : Nat :=
  let b := Memo.setG.FM s (interp.getD v 0 + 1) (interp.getD v 0)
  ((List.range interp.length).filter (fun i => b.contains i)).length

@[csimp] theorem passive_eq_passiveM : @passive = @passiveM := by
  funext s v interp; exact Memo.passive_eq_B s v interp
@[csimp] theorem active_eq_activeM : @active = @activeM := by
  funext s v interp
  unfold active activeM
  rw [Memo.FM_eq]
  simp only
  congr 1
  apply List.filter_congr
  intro i _
  exact Memo.depsOf_contains s _ i
