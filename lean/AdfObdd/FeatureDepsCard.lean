import AdfObdd.FeatureQueries
/-! # cardinality of `var_dependencies` (C12 / C13, review round 2, C12 row 1)

`Bdd::var_dependencies` returns a `HashSet<Var>` in both builds (obdd.rs); `facet_count`
(adf.rs:741) and the heuristics read its `.len()`. The model returns a LIST: with `variablelist`
the maintained table entry (built by `setInsert`/`setUnion`), without it `depsOf`, the raw
recursion `var :: (lo ++ hi)` — which lists a variable once per occurrence on the way down
(`x0 ⊕ x1`: `[0, 1, 1]`). The `HashSet` the code builds from the same recursion has as many
elements as the list has DISTINCT entries, `l.eraseDups.length`. This file proves that this number
is the number of variables the function depends on. -/

namespace DepsCard

/-- `eraseDups` has no duplicates -/
theorem nodup_eraseDups : ∀ (k : Nat) (l : List Nat), l.length ≤ k → l.eraseDups.Nodup := by
  intro k
  induction k with
  | zero =>
    intro l h
    have : l = [] := List.eq_nil_of_length_eq_zero (by omega)
    subst this; simp
  | succ k ih =>
    intro l h
    cases l with
    | nil => simp
    | cons a as =>
      rw [List.eraseDups_cons, List.nodup_cons]
      refine ⟨?_, ih _ ?_⟩
      · intro hm
        rw [List.mem_eraseDups, List.mem_filter] at hm
        simp at hm
      · have := List.length_filter_le (fun b => !b == a) as
        simp only [List.length_cons] at h
        omega

/-- two lists with the same members have the same number of distinct entries -/
theorem distinct_congr {l₁ l₂ : List Nat} (h : ∀ x, x ∈ l₁ ↔ x ∈ l₂) :
    l₁.eraseDups.length = l₂.eraseDups.length := by
  apply List.Perm.length_eq
  rw [List.perm_ext_iff_of_nodup (nodup_eraseDups _ _ (Nat.le_refl _)) (nodup_eraseDups _ _ (Nat.le_refl _))]
  intro x
  rw [List.mem_eraseDups, List.mem_eraseDups]
  exact h x

/-- on a duplicate-free list the number of distinct entries is the length -/
theorem distinct_of_nodup {l : List Nat} (h : l.Nodup) : l.eraseDups.length = l.length := by
  apply List.Perm.length_eq
  rw [List.perm_ext_iff_of_nodup (nodup_eraseDups _ _ (Nat.le_refl _)) h]
  intro x
  exact List.mem_eraseDups

/-- the number of distinct entries of a list with a given membership predicate is the length of
ANY duplicate-free enumeration of that predicate -/
theorem distinct_eq_enum {l L : List Nat} {P : Nat → Prop} (hl : ∀ x, x ∈ l ↔ P x) (hL : L.Nodup)
    (hP : ∀ x, x ∈ L ↔ P x) : l.eraseDups.length = L.length := by
  rw [← distinct_of_nodup hL]
  exact distinct_congr (fun x => (hl x).trans (hP x).symm)

/-! ### the maintained table entries are duplicate-free (so under `variablelist` the list length
itself is the cardinality) -/

theorem nodup_setUnion {a b : List Nat} (ha : a.Nodup) (hb : b.Nodup) : (setUnion a b).Nodup := by
  unfold setUnion
  rw [List.nodup_append]
  refine ⟨ha, hb.sublist List.filter_sublist, ?_⟩
  intro x hx y hy e
  subst e
  rw [List.mem_filter] at hy
  simp at hy
  exact hy.2 hx

theorem nodup_setInsert {a : List Nat} (v : Nat) (ha : a.Nodup) : (setInsert v a).Nodup := by
  unfold setInsert
  by_cases hc : a.contains v = true
  · rw [if_pos hc]; exact ha
  · rw [if_neg hc, List.nodup_cons]
    exact ⟨fun hm => hc (List.contains_iff_mem.mpr hm), ha⟩

theorem nodup_getD (tbl : Array (List Nat)) (h : ∀ l ∈ tbl.toList, l.Nodup) (i : Nat) : (tbl.getD i []).Nodup := by
  unfold Array.getD
  split
  · next hi => exact h _ (by simp)
  · simp

theorem nodup_depsEntry (tbl : Array (List Nat)) (h : ∀ l ∈ tbl.toList, l.Nodup) (v lo hi : Nat) :
    (depsEntry tbl v lo hi).Nodup :=
  nodup_setInsert v (nodup_setUnion (nodup_getD tbl h lo) (nodup_getD tbl h hi))

/-- pushing a node's entry keeps every table entry duplicate-free -/
theorem nodup_push_depsEntry (tbl : Array (List Nat)) (h : ∀ l ∈ tbl.toList, l.Nodup) (v lo hi : Nat) :
    ∀ l ∈ (tbl.push (depsEntry tbl v lo hi)).toList, l.Nodup := by
  intro l hl
  rw [Array.toList_push, List.mem_append] at hl
  rcases hl with hl | hl
  · exact h l hl
  · rw [List.mem_singleton] at hl
    subst hl
    exact nodup_depsEntry tbl h v lo hi

theorem nodup_genDepsStep (tbl : Array (List Nat)) (h : ∀ l ∈ tbl.toList, l.Nodup) (n : Node) :
    ∀ l ∈ (genDepsStep tbl n).toList, l.Nodup := by
  unfold genDepsStep
  split
  · intro l hl
    rw [Array.toList_push, List.mem_append] at hl
    rcases hl with hl | hl
    · exact h l hl
    · rw [List.mem_singleton] at hl; subst hl; simp
  · exact nodup_push_depsEntry tbl h _ _ _

/-- `generate_var_dependencies` started on a duplicate-free table builds a duplicate-free table -/
theorem nodup_genDeps (ns : Array Node) : ∀ (tbl : Array (List Nat)), (∀ l ∈ tbl.toList, l.Nodup) →
    ∀ l ∈ (genDeps tbl ns).toList, l.Nodup := by
  unfold genDeps
  simp only [← Array.foldl_toList]
  generalize ns.toList = L
  induction L with
  | nil => intro tbl h; simpa using h
  | cons n L ih =>
    intro tbl h
    rw [List.foldl_cons]
    exact ih _ (nodup_genDepsStep tbl h n)

/-! ### the cardinality statements -/

/-- the number of distinct entries of the model's `var_dependencies` list, under every feature
set, equals the length of any duplicate-free enumeration of the essential variables of the
diagram's function -/
theorem varDepsC_card (c : Cfg) (z : Bool) (fs : FStore) (inv : FInv c z fs) (t : Nat)
    (ht : t < fs.base.nodes.size) (L : List Nat) (hL : L.Nodup)
    (hE : ∀ x, x ∈ L ↔ Essential (eval fs.base t) x) :
    (varDepsC c fs t).eraseDups.length = L.length := by
  apply distinct_eq_enum (P := Essential (eval fs.base t)) _ hL hE
  intro x
  rw [varDepsC_exact c z fs t inv ht x]
  exact deps_exact fs.base inv.wf t x ht

/-- the same for the bare recursion on a well-formed store -/
theorem depsOf_card (s : Store) (w : WF s) (t : Nat) (ht : t < s.nodes.size) (L : List Nat) (hL : L.Nodup)
    (hE : ∀ x, x ∈ L ↔ Essential (eval s t) x) : (depsOf s t).eraseDups.length = L.length :=
  distinct_eq_enum (P := Essential (eval s t)) (fun x => deps_exact s w t x ht) hL hE

open Classical in
/-- the essential variables below `n`, as a list (classical: `Essential` quantifies over all
assignments) -/
noncomputable def essentialBelow (f : Asg → Bool) (n : Nat) : List Nat :=
  (List.range n).filter (fun x => decide (Essential f x))

theorem essentialBelow_nodup (f : Asg → Bool) (n : Nat) : (essentialBelow f n).Nodup :=
  List.nodup_range.sublist List.filter_sublist

theorem mem_essentialBelow (f : Asg → Bool) (n : Nat) (hn : ∀ x, Essential f x → x < n) (x : Nat) :
    x ∈ essentialBelow f n ↔ Essential f x := by
  unfold essentialBelow
  rw [List.mem_filter, List.mem_range]
  constructor
  · intro ⟨_, h⟩; simpa using h
  · intro h; exact ⟨hn x h, by simpa using h⟩

/-- every variable of a diagram is below `n` as soon as every listed variable is -/
theorem essential_lt_of_deps (s : Store) (w : WF s) (t : Nat) (ht : t < s.nodes.size) (n : Nat)
    (hn : ∀ x ∈ depsOf s t, x < n) : ∀ x, Essential (eval s t) x → x < n :=
  fun x hx => hn x ((deps_exact s w t x ht).mpr hx)

end DepsCard
