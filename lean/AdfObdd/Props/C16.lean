import AdfObdd.ServerGraph
import AdfObdd.ServerProofs
import AdfObdd.StoreCanon
import AdfObdd.ServerAnswers
/-! # C16 — the web service returns the library's answers through its storage round trip

    Theorems about the executable models the correspondence runs compare with the real server:
    the graph DTO builder (`ServerAdf.graphOf` = `DoubleLabeledGraph::from_adf_and_ac`), and the
    task life cycle of `ServerM` (parse error stored and shown as an error; running entry removed
    when the blocking part ends — with the `RunningGuard` of the D7 repair also when it panics).
    That the *answers* are the definitional ones is section 6 (`stored_answers_exact` and its
    variants, `ServerAnswers.lean`): the composition of the storage round trip (C14), `from_parser`
    (C09) and C01–C05; at run time every stored answer is in addition judged against the
    brute-force semantics (`Spec/WebSem.lean`) by the `result` / `taskdone` monitors. -/
namespace C16
open ServerM ServerAdf

/-! ## 1. the graph -/

/-- **graph_reachable.** The node set of the graph DTO is exactly the set of nodes reachable from
the roots (the shown acceptance conditions) along lo/hi edges of the node table — nothing dropped,
nothing extra — and the builder's `while` loop ends (its fuel, table size + 2, is enough: every
round but the last adds a new index below the table size). -/
theorem graph_reachable {names : List String} {ns : Array Node} {ac : List Nat} (h : GraphHyp names ns ac) :
    (∃ res, GraphM.expandD (gnodes ns) (ns.size + 2) [] (GraphM.dedupN ac) = some res) ∧
    ∀ x, x ∈ (graphOf names ns ac).nodes.map (·.id) ↔ GraphM.Reachable (gnodes ns) ac x := by
  constructor
  · obtain ⟨res, hres, _⟩ := GraphM.expandD_total (gnodes ns) ac (inRange_of_hyp h)
    rw [gnodes_length] at hres
    exact ⟨res, hres⟩
  · intro x
    rw [graphOf_ids]
    exact mem_idsOf h x

/-- the edges shown are the table's: an inner node of the graph has exactly its lo and hi child -/
theorem graph_edges {names : List String} {ns : Array Node} {ac : List Nat} (h : GraphHyp names ns ac)
    (x : Nat) (t : Node) (hx : GraphM.Reachable (gnodes ns) ac x) (h2 : 2 ≤ x) (ht : ns[x]? = some t) :
    (graphOf names ns ac).lo.find? (fun e => e.1 == x) = some (x, t.lo) ∧
    (graphOf names ns ac).hi.find? (fun e => e.1 == x) = some (x, t.hi) := by
  have hxid : x ∈ idsOf ns ac := (mem_idsOf h x).mpr hx
  have hxlt : x < ns.size := reachable_lt h x hx
  have hin := h.wf.inner x t h2 ht
  have hvar : t.var ≠ VTOP ∧ t.var ≠ VBOT := by
    have := vbot_lt_vtop
    constructor <;> omega
  have hinner : isInner ns x = true := by simp [isInner, ht, hvar.1, hvar.2]
  have hmem : x ∈ (idsOf ns ac).filter (isInner ns) := List.mem_filter.mpr ⟨hxid, hinner⟩
  have hgetD : ∀ d, ns.getD x d = t := by
    intro d; simp [Array.getD, hxlt]; simpa [hxlt] using ht
  have hlo : (graphOf names ns ac).lo.find? (fun e => e.1 == x) =
      if x ∈ (idsOf ns ac).filter (isInner ns) then some (x, (ns.getD x ⟨0, 0, 0⟩).lo) else none := by
    simp only [graphOf]; exact find_pair_map _ x _
  have hhi : (graphOf names ns ac).hi.find? (fun e => e.1 == x) =
      if x ∈ (idsOf ns ac).filter (isInner ns) then some (x, (ns.getD x ⟨0, 0, 0⟩).hi) else none := by
    simp only [graphOf]; exact find_pair_map _ x _
  rw [hlo, hhi, if_pos hmem, if_pos hmem, hgetD]
  exact ⟨rfl, rfl⟩

/-- **graph_walk.** The node with id `ac[s]` carries the root label of statement `s`, and walking the
DTO from it — at a node labelled `l` take the hi edge iff `σ` makes statement `l` true; a node
without outgoing edges is a terminal, `1` true and `0` false — yields the value of the diagram
`ac[s]` of the node table under `σ`, for every assignment `σ` and any fuel above the node id. -/
theorem graph_walk {names : List String} {ns : Array Node} {ac : List Nat} (h : GraphHyp names ns ac)
    (s : Nat) (hs : s < ac.length) (σ : Asg) (fuel : Nat) (hf : ac.getD s 0 < fuel) :
    (∃ nd ∈ (graphOf names ns ac).nodes, nd.id = ac.getD s 0 ∧ names.getD s "?" ∈ nd.roots) ∧
    walk (graphOf names ns ac) names σ fuel (ac.getD s 0) = some (eval ⟨ns, {}, {}, {}⟩ (ac.getD s 0) σ) := by
  have hmem : ac.getD s 0 ∈ ac := by
    have : ac.getD s 0 = ac[s] := by simp [List.getD, hs]
    rw [this]; exact List.getElem_mem hs
  have hreach : GraphM.Reachable (gnodes ns) ac (ac.getD s 0) := GraphM.Reachable.root _ hmem
  constructor
  · refine ⟨⟨ac.getD s 0, nameOfVar names ((ns.getD (ac.getD s 0) ⟨VTOP, 0, 0⟩).var), rootsOf names ac (ac.getD s 0)⟩, ?_, rfl, ?_⟩
    · simp only [graphOf, List.mem_map]
      exact ⟨ac.getD s 0, (mem_idsOf h _).mpr hreach, rfl⟩
    · simp only [rootsOf, List.mem_map, List.mem_filter, List.mem_range]
      exact ⟨s, ⟨hs, by simp⟩, rfl⟩
  · rw [walk_eval h σ fuel _ hf hreach]
    unfold eval
    rw [Tab.evalF_fuel ⟨ns, {}, {}, {}⟩ h.wf _ fuel σ hf]

/-! ## 2. parse errors are reported as errors -/

section lifecycle
variable {T H A R : Type} [DecidableEq T]

theorem find_updFirst {α : Type} (q : α → Bool) (f : α → α) (hq : ∀ x, q x = true → q (f x) = true) :
    ∀ l : List α, (updFirst q f l).find? q = (l.find? q).map f := by
  intro l
  induction l with
  | nil => rfl
  | cons x xs ih =>
    by_cases h : q x = true
    · simp [updFirst, h, hq x h]
    · simp [updFirst, h, ih]

/-- **parse_error_reported (model of the task).** When the library reports an error for the
submitted code (the parser rejects it, or building the ADF panics), the final write of the parse
task stores that error in `adf` *and* in `acs_per_strategy.parse_only` of the addressed problem —
never an empty answer. -/
theorem parse_error_reported (E : Env T H A R) (db : Db T H A R) (j n : Nat) (t : TaskRec T A) (code : T)
    (parsing : Parsing) (e : Err) (ht : nthOf j n db.tasks = some t) (hin : t.input = .parse code parsing)
    (hlive : t.blockingDone = true ∧ t.written = false) (herr : E.parse parsing code = .error e)
    (p : Problem T A R) (hp : db.problems.find? (isProb t.username t.name) = some p) :
    (dbEv E db (.write j n)).problems.find? (isProb t.username t.name) =
      some { p with adf := .error e, parseOnly := .error e } := by
  simp only [dbEv, ht, hlive.1, hlive.2, Bool.not_false, Bool.and_self, if_true, ServerM.exec, hin, taskWrite, herr]
  rw [find_updFirst _ _ (by
    intro x hx
    simp only [isProb, Bool.and_eq_true, decide_eq_true_eq] at hx ⊢
    exact hx), hp]
  rfl

/-- … and the owner sees it: `GET` shows the error … -/
theorem error_visible (E : Env T H A R) (st : State T H A R) (jar : Nat) (u name : T) (p : Problem T A R) (e : Err)
    (hs : st.sess jar = some u) (hf : st.db.problems.find? (isProb u name) = some p) (hp : p.parseOnly = .error e) :
    ∃ i, (ServerM.step E st ⟨jar, .get name⟩).2.body = .problem i ∧ i.parseOnly = .error e := by
  simp only [ServerM.step, ServerM.stepT, ServerM.handler, hGet, hs, ServerM.run, ServerM.exec, hf]
  exact ⟨_, rfl, by simp [infoOf, hp]⟩

/-- … and solving is refused with that error -/
theorem error_blocks_solve (E : Env T H A R) (st : State T H A R) (jar : Nat) (u name : T) (p : Problem T A R)
    (e : Err) (s : Strategy) (hs : st.sess jar = some u) (hf : st.db.problems.find? (isProb u name) = some p)
    (hp : p.adf = .error e) :
    (ServerM.step E st ⟨jar, .solve name s⟩).2 = ⟨400, .keep, .msg (.couldNotParse e)⟩ := by
  simp only [ServerM.step, ServerM.stepT, ServerM.handler, hSolve, hs, ServerM.run, ServerM.exec, hf, hp, reply]

/-! ## 3. a task that has ended is not reported as running -/

/-- **running_cleared.** When the blocking part of a task ends — whatever it computed, and also if
it panicked: the event does not look at the outcome (that is the `RunningGuard` of the D7 repair) —
no entry equal to its `RunningInfo` remains in `currently_running`. -/
theorem running_cleared (E : Env T H A R) (db : Db T H A R) (j n : Nat) (t : TaskRec T A)
    (ht : nthOf j n db.tasks = some t) (hlive : t.blockingDone = false) :
    ∀ x ∈ (dbEv E db (.finish j n)).running, isInfo t.info x = false := by
  intro x hx
  simp only [dbEv, ht, hlive, Bool.false_eq_true, if_false, eraseInfo, List.mem_filter] at hx
  simpa using hx.2

/-- hence `GET` does not list it among `running_tasks` any more -/
theorem not_listed_after_finish (E : Env T H A R) (db : Db T H A R) (j n : Nat) (t : TaskRec T A)
    (ht : nthOf j n db.tasks = some t) (hlive : t.blockingDone = false) :
    t.input.task ∉ (ServerM.exec (dbEv E db (.finish j n)) (.rTasks t.username t.name : Cmd T H A R)).2 := by
  intro hmem
  simp only [ServerM.exec, List.mem_map, List.mem_filter, Bool.and_eq_true, decide_eq_true_eq] at hmem
  obtain ⟨x, ⟨hx, hname, huser⟩, htask⟩ := hmem
  have := running_cleared E db j n t ht hlive x hx
  simp [isInfo, TaskRec.info, hname, huser, htask] at this

/-- a running task is listed until then (the entry is there from the spawn on) -/
theorem listed_while_running (db : Db T H A R) (t : TaskRec T A) :
    t.input.task ∈ (ServerM.exec (ServerM.exec db (.spawn t)).1 (.rTasks t.username t.name : Cmd T H A R)).2 := by
  simp only [ServerM.exec, List.mem_map, List.mem_filter, Bool.and_eq_true, decide_eq_true_eq]
  by_cases h : db.running.any (isInfo t.info) = true
  · simp only [h, if_true]
    obtain ⟨x, hx, hxi⟩ := List.any_eq_true.mp h
    simp only [isInfo, TaskRec.info, Bool.and_eq_true] at hxi
    exact ⟨x, ⟨hx, of_decide_eq_true hxi.1.2, of_decide_eq_true hxi.1.1⟩, of_decide_eq_true hxi.2⟩
  · simp only [h, Bool.false_eq_true, if_false]
    exact ⟨t.info, ⟨by simp, rfl, rfl⟩, rfl⟩

end lifecycle

/-! ## 4. the concrete library: unparseable or panicking code gives an error, never an answer -/

theorem parseNaive_error (key code : String) (e : Err) (h : conditions code = .error e) :
    parseNaive key code = .error e := by
  unfold conditions at h
  unfold parseNaive
  cases hp : parseText code with
  | none => rw [hp] at h; simpa using h
  | some p =>
    rw [hp] at h
    simp only at h ⊢
    cases hr : resolve p with
    | error e' => rw [hr] at h; simpa using h
    | ok l => rw [hr] at h; cases h

theorem parseNaive_ok (key code : String) (x : List String × List Fm) (h : conditions code = .ok x) :
    ∃ a r, parseNaive key code = .ok (a, r) ∧ a.names = x.1 ∧ r.length = 1 := by
  unfold conditions at h
  unfold parseNaive
  cases hp : parseText code with
  | none => rw [hp] at h; cases h
  | some p =>
    rw [hp] at h
    simp only at h ⊢
    cases hr : resolve p with
    | error e' => rw [hr] at h; cases h
    | ok l =>
      rw [hr] at h
      simp only [Except.ok.injEq] at h
      exact ⟨_, _, rfl, by rw [← h], rfl⟩

/-! ## 5. non-vacuity -/

/-- the table of `s(a).s(b).ac(a,neg(b)).ac(b,neg(a)).` as the server stores it -/
def tab1 : Array Node := #[⟨VBOT, 0, 0⟩, ⟨VTOP, 1, 1⟩, ⟨0, 0, 1⟩, ⟨1, 0, 1⟩, ⟨1, 1, 0⟩, ⟨0, 1, 0⟩]

theorem hyp1 : GraphHyp ["a", "b"] tab1 [4, 5] where
  wf := wfCheck_sound tab1 (by decide)
  nodup := by decide
  vars := by
    intro i n hi hn
    have hlt : i < 6 := by
      rcases Nat.lt_or_ge i 6 with h | h
      · exact h
      · have : tab1[i]? = none := by simp [tab1, h]
        rw [this] at hn; cases hn
    have : i = 2 ∨ i = 3 ∨ i = 4 ∨ i = 5 := by omega
    rcases this with h | h | h | h <;> subst h <;> simp [tab1] at hn <;> subst hn <;> decide
  roots := by decide

-- the graph of the parse result: the two roots, their children 0 and 1; nodes 2 and 3 (the plain
-- variables) are not reachable and not shown
example : (graphOf ["a", "b"] tab1 [4, 5]).nodes.map (·.id) = [0, 1, 4, 5] := by decide
example : (graphOf ["a", "b"] tab1 [4, 5]).lo = [(4, 1), (5, 1)] := by decide
example : (graphOf ["a", "b"] tab1 [4, 5]).nodes.map (·.roots) = [[], [], ["a"], ["b"]] := by decide
-- walking from the root of `a` under b = true gives false (ac(a) = neg(b))
example : walk (graphOf ["a", "b"] tab1 [4, 5]) ["a", "b"] (fun v => v == 1) 6 4 = some false := by decide
example : walk (graphOf ["a", "b"] tab1 [4, 5]) ["a", "b"] (fun _ => false) 6 4 = some true := by decide

-- a parse task whose library call fails: error stored, shown and blocking
def Eerr : Env Nat Nat Nat Nat where
  emp := 0
  hash := fun s p => s + p
  verify := fun h p => h == p
  parse := fun _ code => if code = 9 then .error .parseError else .ok (code, code)
  solve := fun a _ => .ok a

def histErr : List (Event Nat) :=
  [.req ⟨0, .register 1 7 0⟩, .req ⟨0, .login 1 7⟩, .req ⟨0, .add 5 (some 9) none .naive 100 101⟩]

example : ((runAll Eerr {} histErr).1.db.running).length = 1 := by decide
example : ((runAll Eerr {} (histErr ++ [.finish 0 0])).1.db.running) = [] := by decide
example : ((runAll Eerr {} (histErr ++ [.finish 0 0, .write 0 0])).1.db.problems.map (·.parseOnly)) = [.error .parseError] := by
  decide
example : (ServerM.step Eerr (runAll Eerr {} (histErr ++ [.finish 0 0, .write 0 0])).1 ⟨0, .solve 5 .ground⟩).2 =
    ⟨400, .keep, .msg (.couldNotParse .parseError)⟩ := by decide

/-! ## 6. the stored answers are the definitional ones

`SrvA.solveAdfF fuel` is the solve task (`rebuild` of the stored node list, the strategy = a CLI
section, the graphs) with the fuel-based model `SM.ngSearch .simple fuel` of `stable_nogood(Simple)`;
for the five other strategies it is `ServerAdf.solveAdf`, the function the driver runs
(`solve_model_agrees`). `SrvA.Denotes a n fms`: the stored ADF `a` has a well-formed table and one
valid handle per statement with the Boolean function of its condition. `SrvA.storedI3`: the stored
vectors (`AcAndGraph.ac`) read as three-valued interpretations. `ServerAdf.solveAdf` runs
`StableNogood` through the same fuel-based search with the fixed bound 10^6
(`solve_model_is_bound_instance`: it IS `SrvA.solveAdfF 1000000`), so the statement about the very
function the driver runs covers all six strategies (`stored_answers_exact_driver_model`), the sixth
under the hypothesis "the search halted within the bound" (as in C15), which holds for every large
bound (`stored_answers_exact_every_large_bound`). -/

/-- the storage round trip works for ANY well-formed stored table (also one adopted from biodivine's
dump): `Bdd::from(Vec<BddNode>)` gives a well-formed store with exactly that table -/
theorem rebuild_any_wellformed_table (ns : Array Node) (w : TableWF ns) : WF (rebuild ns) ∧ (rebuild ns).nodes = ns :=
  SrvA.rebuild_table ns w

/-- naive parsing: what a successful parse task stores denotes the conditions of the submitted code
(`ServerAdf.conditions`: per statement the last `ac` fact, falsum without one) -/
theorem naive_parse_denotes_code (key code : String) (a : SAdf) (r : SRes) (h : parseNaive key code = .ok (a, r))
    (hn : a.names.length ≤ VBOT) :
    ∃ fms, conditions code = .ok (a.names, fms) ∧ SrvA.Denotes a a.names.length fms :=
  SrvA.parseNaive_denotes key code a r h hn

/-- `solveAdfF` is the driver's model wherever that model is transparent -/
theorem solve_model_agrees (fuel : Nat) (a : SAdf) (s : Strategy) (h : s ≠ .stableNogood) :
    SrvA.solveAdfF fuel a s = solveAdf a s := SrvA.solveAdfF_eq fuel a s h

/-- since the server model's StableNogood arm runs the fuel-based search of C05 (bound 10^6), the
bound-parametric function at that bound IS the model the driver runs, for ALL six strategies -/
theorem solve_model_is_bound_instance (a : SAdf) (s : Strategy) : SrvA.solveAdfF 1000000 a s = solveAdf a s := by
  cases s <;> rfl

/-- hence the exactness statement holds of `ServerAdf.solveAdf` itself for every strategy, under the
halting hypothesis of its nogood search (vacuous for the other five strategies) -/
theorem stored_answers_exact_driver_model (a : SAdf) (n : Nat) (fms : List Fm) (s : Strategy)
    (h : SrvA.Denotes a n fms) (hh : SrvA.strategyHalts 1000000 a s = true) :
    ∃ res, solveAdf a s = .ok res ∧
      (SrvA.storedI3 res).Perm (Cli.specSection n (CliF.tablesOf n fms) (SrvA.secOf s)) := by
  have := SrvA.stored_answers_exact_any_table 1000000 a n fms s h hh
  rwa [solve_model_is_bound_instance] at this

/-- **stored_answers_exact** (naive parsing, from the submitted text): if the parse task stored `a`
for `code`, then for EVERY strategy the solve task run on the ADF rebuilt from what was stored
succeeds and stores — as a multiset of three-valued interpretations — exactly the specification's
answer for the conditions of the submitted code; `StableNogood`: provided its search halted within
the bound -/
theorem stored_answers_exact (fuel : Nat) (key code : String) (a : SAdf) (r : SRes) (s : Strategy)
    (h : parseNaive key code = .ok (a, r)) (hn : a.names.length ≤ VBOT)
    (hh : SrvA.strategyHalts fuel a s = true) :
    ∃ fms res, conditions code = .ok (a.names, fms) ∧ SrvA.solveAdfF fuel a s = .ok res ∧
      (SrvA.storedI3 res).Perm
        (Cli.specSection a.names.length (CliF.tablesOf a.names.length fms) (SrvA.secOf s)) :=
  SrvA.stored_answers_exact fuel key code a r s h hn hh

/-- **stored_answers_exact, any stored table** (hybrid parsing as well): the same for ANY stored ADF
that denotes the conditions — a well-formed table whose `ac` handles have the conditions' functions,
which is what the run-time checks of the adopted table establish (`wfCheck`, `isoCheck` / the semantic
comparison `storedAdfOK`) -/
theorem stored_answers_exact_any_table (fuel : Nat) (a : SAdf) (n : Nat) (fms : List Fm) (s : Strategy)
    (h : SrvA.Denotes a n fms) (hh : SrvA.strategyHalts fuel a s = true) :
    ∃ res, SrvA.solveAdfF fuel a s = .ok res ∧
      (SrvA.storedI3 res).Perm (Cli.specSection n (CliF.tablesOf n fms) (SrvA.secOf s)) :=
  SrvA.stored_answers_exact_any_table fuel a n fms s h hh

/-- the hypothesis about the bound can always be met: from some bound on the search halts and the
stored answers are exact — every strategy, nothing assumed -/
theorem stored_answers_exact_every_large_bound (a : SAdf) (n : Nat) (fms : List Fm) (s : Strategy)
    (h : SrvA.Denotes a n fms) :
    ∃ F0, ∀ fuel, F0 ≤ fuel → SrvA.strategyHalts fuel a s = true ∧
      ∃ res, SrvA.solveAdfF fuel a s = .ok res ∧
        (SrvA.storedI3 res).Perm (Cli.specSection n (CliF.tablesOf n fms) (SrvA.secOf s)) :=
  SrvA.stored_answers_exact_every_large_bound a n fms s h

/-- the five strategies without nogood search, any stored table: no hypothesis about bounds at all
(the name is historical: the sixth strategy is covered by `stored_answers_exact_driver_model`) -/
theorem stored_answers_exact_driver_model_partial (a : SAdf) (n : Nat) (fms : List Fm) (s : Strategy)
    (h : SrvA.Denotes a n fms) (hs : s ≠ .stableNogood) :
    ∃ res, solveAdf a s = .ok res ∧
      (SrvA.storedI3 res).Perm (Cli.specSection n (CliF.tablesOf n fms) (SrvA.secOf s)) :=
  SrvA.solveAdf_answers_exact_partial a n fms s h hs

/-- … and from the submitted text (naive parsing → storage → rebuild → `solveAdf`) -/
theorem stored_answers_exact_naive_driver_model_partial (key code : String) (a : SAdf) (r : SRes) (s : Strategy)
    (h : parseNaive key code = .ok (a, r)) (hn : a.names.length ≤ VBOT) (hs : s ≠ .stableNogood) :
    ∃ fms res, conditions code = .ok (a.names, fms) ∧ solveAdf a s = .ok res ∧
      (SrvA.storedI3 res).Perm
        (Cli.specSection a.names.length (CliF.tablesOf a.names.length fms) (SrvA.secOf s)) := by
  obtain ⟨fms, hc, hd⟩ := SrvA.parseNaive_denotes key code a r h hn
  obtain ⟨res, h1, h2⟩ := SrvA.solveAdf_answers_exact_partial a _ fms s hd hs
  exact ⟨fms, res, hc, h1, h2⟩

/-- **the same at the level of the definitions** (`SrvA.PropAnswer`): ground stores the least fixpoint
of Γ, complete stores every fixpoint of Γ exactly once, the four stable strategies store every stable
model exactly once — for the Boolean functions `fms.map Fm.sem` of the submitted conditions -/
theorem stored_answers_definitional (fuel : Nat) (a : SAdf) (n : Nat) (fms : List Fm) (s : Strategy)
    (h : SrvA.Denotes a n fms) (hh : SrvA.strategyHalts fuel a s = true) :
    ∃ res, SrvA.solveAdfF fuel a s = .ok res ∧ SrvA.PropAnswer n (fms.map Fm.sem) s (SrvA.storedI3 res) :=
  SrvA.stored_answers_definitional fuel a n fms s h hh

/-! ### non-vacuity of section 6 -/

/-- the stored ADF of `s(a).s(b).ac(a,neg(b)).ac(b,neg(a)).` (table `tab1`, handles 4 and 5) denotes
its conditions -/
theorem denotes1 : SrvA.Denotes { names := ["a", "b"], nodes := tab1, ac := [4, 5] } 2 [.not (.atom 1), .not (.atom 0)] where
  table := hyp1.wf
  len := rfl
  flen := rfl
  atoms := by
    intro φ hφ
    simp at hφ
    rcases hφ with h | h <;> subst h <;> simp [NConc.atomsLt]
  den := by
    intro i t f ht hf
    have hi : i = 0 ∨ i = 1 := by
      have := (List.getElem?_eq_some_iff.mp ht).1
      simp at this; omega
    rcases hi with h | h <;> subst h <;> simp at ht hf <;> subst ht <;> subst hf
    · refine ⟨by decide, fun σ => ?_⟩
      simp [eval, evalF, tab1, Fm.sem]
    · refine ⟨by decide, fun σ => ?_⟩
      simp [eval, evalF, tab1, Fm.sem]

/-- hence the driver's model stores, for `Stable`, exactly the two stable models `a¬b`, `¬a b` (the
specification's answer, evaluated by the kernel) — a statement with content in both directions -/
example : ∃ res, solveAdf { names := ["a", "b"], nodes := tab1, ac := [4, 5] } .stable = .ok res ∧
    (SrvA.storedI3 res).Perm [[some true, some false], [some false, some true]] := by
  obtain ⟨res, h1, h2⟩ := stored_answers_exact_driver_model_partial _ 2 _ .stable denotes1 (by decide)
  refine ⟨res, h1, ?_⟩
  have e : Cli.specSection 2 (CliF.tablesOf 2 [.not (.atom 1), .not (.atom 0)]) (SrvA.secOf .stable) =
      [[some true, some false], [some false, some true]] := by decide
  rw [e] at h2
  exact h2

/-- … and for `Complete` additionally the all-undecided interpretation -/
example : ∃ res, solveAdf { names := ["a", "b"], nodes := tab1, ac := [4, 5] } .complete = .ok res ∧
    (SrvA.storedI3 res).Perm [[none, none], [some true, some false], [some false, some true]] := by
  obtain ⟨res, h1, h2⟩ := stored_answers_exact_driver_model_partial _ 2 _ .complete denotes1 (by decide)
  refine ⟨res, h1, ?_⟩
  have e : Cli.specSection 2 (CliF.tablesOf 2 [.not (.atom 1), .not (.atom 0)]) (SrvA.secOf .complete) =
      [[none, none], [some true, some false], [some false, some true]] := by decide
  rw [e] at h2
  exact h2

/-! replay by evaluation (the store's hash tables do not reduce in the kernel): the parse task on that
code stores `tab1` with handles 4, 5; the transparent model `solveAdfF` and the driver's `solveAdf`
store the same vectors for all six strategies, `StableNogood` included, and its search halts -/
def code1 : String := "s(a).s(b).ac(a,neg(b)).ac(b,neg(a))."
def allSix : List Strategy := [.ground, .complete, .stable, .stableCountingA, .stableCountingB, .stableNogood]

#guard (match parseNaive "k" code1 with
  | .ok (a, _) => a.names == ["a", "b"] && a.nodes == tab1 && a.ac == [4, 5]
  | .error _ => false)
#guard (match parseNaive "k" code1 with
  | .ok (a, _) => allSix.all (fun s =>
      SrvA.strategyHalts 1000000 a s &&
      (match SrvA.solveAdfF 1000000 a s, solveAdf a s with
       | .ok r, .ok r' => r.map AcG.ac == r'.map AcG.ac
       | _, _ => false))
  | .error _ => false)
#guard (match parseNaive "k" code1 with
  | .ok (a, _) => (match solveAdf a .stableNogood with | .ok r => r.map AcG.ac == [[1, 0], [0, 1]] | .error _ => false)
  | .error _ => false)

end C16
