import AdfObdd.ServerGraph
import AdfObdd.ServerProofs
import AdfObdd.StoreCanon
import AdfObdd.ServerAnswers
import AdfObdd.ServerConcreteProofs
import AdfObdd.ServerHybrid
import AdfObdd.HybridExample
import AdfObdd.ServerFuel
import AdfObdd.ServerFuelBound
import AdfObdd.ServerLive
import AdfObdd.ServerParseLink
import AdfObdd.Props.C17
/-! # C16 — the web service returns the library's answers through its storage round trip

    Theorems about the executable models the correspondence runs compare with the real server:
    the graph DTO builder (`ServerAdf.graphOf` = `DoubleLabeledGraph::from_adf_and_ac`), and the
    task life cycle of `ServerM` (parse error stored and shown as an error; running entry removed
    when the blocking part ends — with the `RunningGuard` of the D7 repair also when it panics).
    That the *answers* are the definitional ones is section 6 (`stored_answers_exact` and its
    variants, `ServerAnswers.lean`): the composition of the storage round trip (C14), `from_parser`
    (C09) and C01–C05; at run time every stored answer is in addition judged against the
    brute-force semantics (`Spec/WebSem.lean`) by the `result` / `taskdone` monitors. -/
namespace C16
open ServerM ServerAdf

/-! ## 1. the graph -/

/-- **graph_reachable.** The node set of the graph DTO is exactly the set of nodes reachable from
the roots (the shown acceptance conditions) along lo/hi edges of the node table — nothing dropped,
nothing extra — and the builder's `while` loop ends (its fuel, table size + 2, is enough: every
round but the last adds a new index below the table size). -/
theorem graph_reachable {names : List String} {ns : Array Node} {ac : List Nat} (h : GraphHyp names ns ac) :
    (∃ res, GraphM.expandD (gnodes ns) (ns.size + 2) [] (GraphM.dedupN ac) = some res) ∧
    ∀ x, x ∈ (graphOf names ns ac).nodes.map (·.id) ↔ GraphM.Reachable (gnodes ns) ac x := by
  constructor
  · obtain ⟨res, hres, _⟩ := GraphM.expandD_total (gnodes ns) ac (inRange_of_hyp h)
    rw [gnodes_length] at hres
    exact ⟨res, hres⟩
  · intro x
    rw [graphOf_ids]
    exact mem_idsOf h x

/-- the edges shown are the table's: an inner node of the graph has exactly its lo and hi child -/
theorem graph_edges {names : List String} {ns : Array Node} {ac : List Nat} (h : GraphHyp names ns ac)
    (x : Nat) (t : Node) (hx : GraphM.Reachable (gnodes ns) ac x) (h2 : 2 ≤ x) (ht : ns[x]? = some t) :
    (graphOf names ns ac).lo.find? (fun e => e.1 == x) = some (x, t.lo) ∧
    (graphOf names ns ac).hi.find? (fun e => e.1 == x) = some (x, t.hi) := by
  have hxid : x ∈ idsOf ns ac := (mem_idsOf h x).mpr hx
  have hxlt : x < ns.size := reachable_lt h x hx
  have hin := h.wf.inner x t h2 ht
  have hvar : t.var ≠ VTOP ∧ t.var ≠ VBOT := by
    have := vbot_lt_vtop
    constructor <;> omega
  have hinner : isInner ns x = true := by simp [isInner, ht, hvar.1, hvar.2]
  have hmem : x ∈ (idsOf ns ac).filter (isInner ns) := List.mem_filter.mpr ⟨hxid, hinner⟩
  have hgetD : ∀ d, ns.getD x d = t := by
    intro d; simp [Array.getD, hxlt]; simpa [hxlt] using ht
  have hlo : (graphOf names ns ac).lo.find? (fun e => e.1 == x) =
      if x ∈ (idsOf ns ac).filter (isInner ns) then some (x, (ns.getD x ⟨0, 0, 0⟩).lo) else none := by
    simp only [graphOf]; exact find_pair_map _ x _
  have hhi : (graphOf names ns ac).hi.find? (fun e => e.1 == x) =
      if x ∈ (idsOf ns ac).filter (isInner ns) then some (x, (ns.getD x ⟨0, 0, 0⟩).hi) else none := by
    simp only [graphOf]; exact find_pair_map _ x _
  rw [hlo, hhi, if_pos hmem, if_pos hmem, hgetD]
  exact ⟨rfl, rfl⟩

/-- **graph_walk.** The node with id `ac[s]` carries the root label of statement `s`, and walking the
DTO from it — at a node labelled `l` take the hi edge iff `σ` makes statement `l` true; a node
without outgoing edges is a terminal, `1` true and `0` false — yields the value of the diagram
`ac[s]` of the node table under `σ`, for every assignment `σ` and any fuel above the node id. -/
theorem graph_walk {names : List String} {ns : Array Node} {ac : List Nat} (h : GraphHyp names ns ac)
    (s : Nat) (hs : s < ac.length) (σ : Asg) (fuel : Nat) (hf : ac.getD s 0 < fuel) :
    (∃ nd ∈ (graphOf names ns ac).nodes, nd.id = ac.getD s 0 ∧ names.getD s "?" ∈ nd.roots) ∧
    walk (graphOf names ns ac) names σ fuel (ac.getD s 0) = some (eval ⟨ns, {}, {}, {}⟩ (ac.getD s 0) σ) := by
  have hmem : ac.getD s 0 ∈ ac := by
    have : ac.getD s 0 = ac[s] := by simp [List.getD, hs]
    rw [this]; exact List.getElem_mem hs
  have hreach : GraphM.Reachable (gnodes ns) ac (ac.getD s 0) := GraphM.Reachable.root _ hmem
  constructor
  · refine ⟨⟨ac.getD s 0, nameOfVar names ((ns.getD (ac.getD s 0) ⟨VTOP, 0, 0⟩).var), rootsOf names ac (ac.getD s 0)⟩, ?_, rfl, ?_⟩
    · simp only [graphOf, List.mem_map]
      exact ⟨ac.getD s 0, (mem_idsOf h _).mpr hreach, rfl⟩
    · simp only [rootsOf, List.mem_map, List.mem_filter, List.mem_range]
      exact ⟨s, ⟨hs, by simp⟩, rfl⟩
  · rw [walk_eval h σ fuel _ hf hreach]
    unfold eval
    rw [Tab.evalF_fuel ⟨ns, {}, {}, {}⟩ h.wf _ fuel σ hf]

/-! ## 2. parse errors are reported as errors -/

section lifecycle
variable {T H A R : Type} [DecidableEq T]

theorem find_updFirst {α : Type} (q : α → Bool) (f : α → α) (hq : ∀ x, q x = true → q (f x) = true) :
    ∀ l : List α, (updFirst q f l).find? q = (l.find? q).map f := by
  intro l
  induction l with
  | nil => rfl
  | cons x xs ih =>
    by_cases h : q x = true
    · simp [updFirst, h, hq x h]
    · simp [updFirst, h, ih]

/-- **parse_error_reported (model of the task).** When the library reports an error for the
submitted code (the parser rejects it, or building the ADF panics), the final write of the parse
task stores that error in `adf` *and* in `acs_per_strategy.parse_only` of the addressed problem —
never an empty answer. -/
theorem parse_error_reported (E : Env T H A R) (db : Db T H A R) (j n : Nat) (t : TaskRec T A) (code : T)
    (parsing : Parsing) (e : Err) (ht : nthOf j n db.tasks = some t) (hin : t.input = .parse code parsing)
    (hlive : t.blockingDone = true ∧ t.written = false) (herr : E.parse parsing code = .error e)
    (p : Problem T A R) (hp : db.problems.find? (isProb t.username t.name) = some p) :
    (dbEv E db (.write j n)).problems.find? (isProb t.username t.name) =
      some { p with adf := .error e, parseOnly := .error e } := by
  simp only [dbEv, ht, hlive.1, hlive.2, Bool.not_false, Bool.and_self, if_true, ServerM.exec, hin, taskWrite, herr]
  rw [find_updFirst _ _ (by
    intro x hx
    simp only [isProb, Bool.and_eq_true, decide_eq_true_eq] at hx ⊢
    exact hx), hp]
  rfl

/-- … and the owner sees it: `GET` shows the error … -/
theorem error_visible (E : Env T H A R) (st : State T H A R) (jar : Nat) (u name : T) (p : Problem T A R) (e : Err)
    (hs : st.sess jar = some u) (hf : st.db.problems.find? (isProb u name) = some p) (hp : p.parseOnly = .error e) :
    ∃ i, (ServerM.step E st ⟨jar, .get name⟩).2.body = .problem i ∧ i.parseOnly = .error e := by
  simp only [ServerM.step, ServerM.stepT, ServerM.handler, hGet, hs, ServerM.run, ServerM.exec, hf]
  exact ⟨_, rfl, by simp [infoOf, hp]⟩

/-- … and solving is refused with that error -/
theorem error_blocks_solve (E : Env T H A R) (st : State T H A R) (jar : Nat) (u name : T) (p : Problem T A R)
    (e : Err) (s : Strategy) (hs : st.sess jar = some u) (hf : st.db.problems.find? (isProb u name) = some p)
    (hp : p.adf = .error e) :
    (ServerM.step E st ⟨jar, .solve name s⟩).2 = ⟨400, .keep, .msg (.couldNotParse e)⟩ := by
  simp only [ServerM.step, ServerM.stepT, ServerM.handler, hSolve, hs, ServerM.run, ServerM.exec, hf, hp, reply]

/-! ## 3. a task that has ended is not reported as running -/

/-- **running_cleared.** When the blocking part of a task ends — whatever it computed, and also if
it panicked: the event does not look at the outcome (that is the `RunningGuard` of the D7 repair) —
no entry equal to its `RunningInfo` remains in `currently_running`. -/
theorem running_cleared (E : Env T H A R) (db : Db T H A R) (j n : Nat) (t : TaskRec T A)
    (ht : nthOf j n db.tasks = some t) (hlive : t.blockingDone = false) :
    ∀ x ∈ (dbEv E db (.finish j n)).running, isInfo t.info x = false := by
  intro x hx
  simp only [dbEv, ht, hlive, Bool.false_eq_true, if_false, eraseInfo, List.mem_filter] at hx
  simpa using hx.2

/-- hence `GET` does not list it among `running_tasks` any more -/
theorem not_listed_after_finish (E : Env T H A R) (db : Db T H A R) (j n : Nat) (t : TaskRec T A)
    (ht : nthOf j n db.tasks = some t) (hlive : t.blockingDone = false) :
    t.input.task ∉ (ServerM.exec (dbEv E db (.finish j n)) (.rTasks t.username t.name : Cmd T H A R)).2 := by
  intro hmem
  simp only [ServerM.exec, List.mem_map, List.mem_filter, Bool.and_eq_true, decide_eq_true_eq] at hmem
  obtain ⟨x, ⟨hx, hname, huser⟩, htask⟩ := hmem
  have := running_cleared E db j n t ht hlive x hx
  simp [isInfo, TaskRec.info, hname, huser, htask] at this

/-- a running task is listed until then. In the MODEL the entry is there from the spawn command of the
request on; in the Rust the `RunningGuard` is created as the first statement inside the `spawn_blocking`
closure (adf.rs:433, 583), i.e. some time after the `200` - a modelled-not-verified timing difference, see
`ServerLive.lean` (d): two quick solves of one strategy may both be accepted by the real server where the
model answers `409`; the stored answer is not affected -/
theorem listed_while_running (db : Db T H A R) (t : TaskRec T A) :
    t.input.task ∈ (ServerM.exec (ServerM.exec db (.spawn t)).1 (.rTasks t.username t.name : Cmd T H A R)).2 := by
  simp only [ServerM.exec, List.mem_map, List.mem_filter, Bool.and_eq_true, decide_eq_true_eq]
  by_cases h : db.running.any (isInfo t.info) = true
  · simp only [h, if_true]
    obtain ⟨x, hx, hxi⟩ := List.any_eq_true.mp h
    simp only [isInfo, TaskRec.info, Bool.and_eq_true] at hxi
    exact ⟨x, ⟨hx, of_decide_eq_true hxi.1.2, of_decide_eq_true hxi.1.1⟩, of_decide_eq_true hxi.2⟩
  · simp only [h, Bool.false_eq_true, if_false]
    exact ⟨t.info, ⟨by simp, rfl, rfl⟩, rfl⟩

/-- **running_entries_are_unfinished_tasks** (review 2 item 5c): an INVARIANT over all histories, not only
the state right after `.finish`: in every state reached from the empty server every entry of
`currently_running` is the `RunningInfo` of a spawned task whose blocking part has not ended -/
theorem running_entries_are_unfinished_tasks (E : Env T H A R) (es : List (Event T)) :
    ∀ x ∈ (runAll E {} es).1.db.running, ∃ t ∈ (runAll E {} es).1.db.tasks, t.info = x ∧ t.blockingDone = false :=
  runInv_reachable E es

/-- **not_reported_as_running**: in every reachable state, a task kind `GET` lists for the document
`(u, n)` belongs to a task of that kind and key that is still in its blocking part; so once every task of
that kind spawned under the key has ended, the kind is not listed. (The converse fails - in the Rust too:
the running set is a set of (user, problem, kind) triples, twins share one entry: `histTwin` below.) -/
theorem not_reported_as_running (E : Env T H A R) (es : List (Event T)) (u n : T) (k : Task)
    (hended : ∀ t ∈ (runAll E {} es).1.db.tasks, t.username = u → t.name = n → t.input.task = k → t.blockingDone = true) :
    k ∉ (ServerM.exec (runAll E {} es).1.db (.rTasks u n : Cmd T H A R)).2 := by
  intro h
  obtain ⟨t, ht, h1, h2, h3, h4⟩ := listed_only_if_unfinished E es u n k h
  rw [hended t ht h1 h2 h3] at h4
  cases h4

end lifecycle

/-! ## 4. the concrete library: unparseable or panicking code gives an error, never an answer -/

theorem parseNaive_error (key code : String) (e : Err) (h : conditions code = .error e) :
    parseNaive key code = .error e := by
  unfold conditions at h
  unfold parseNaive
  cases hp : parseText code with
  | none => rw [hp] at h; simpa using h
  | some p =>
    rw [hp] at h
    simp only at h ⊢
    cases hr : resolve p with
    | error e' => rw [hr] at h; simpa using h
    | ok l => rw [hr] at h; cases h

theorem parseNaive_ok (key code : String) (x : List String × List Fm) (h : conditions code = .ok x) :
    ∃ a r, parseNaive key code = .ok (a, r) ∧ a.names = x.1 ∧ r.length = 1 := by
  unfold conditions at h
  unfold parseNaive
  cases hp : parseText code with
  | none => rw [hp] at h; cases h
  | some p =>
    rw [hp] at h
    simp only at h ⊢
    cases hr : resolve p with
    | error e' => rw [hr] at h; cases h
    | ok l =>
      rw [hr] at h
      simp only [Except.ok.injEq] at h
      exact ⟨_, _, rfl, by rw [← h], rfl⟩

/-! ## 5. non-vacuity -/

/-- the table of `s(a).s(b).ac(a,neg(b)).ac(b,neg(a)).` as the server stores it -/
def tab1 : Array Node := #[⟨VBOT, 0, 0⟩, ⟨VTOP, 1, 1⟩, ⟨0, 0, 1⟩, ⟨1, 0, 1⟩, ⟨1, 1, 0⟩, ⟨0, 1, 0⟩]

theorem hyp1 : GraphHyp ["a", "b"] tab1 [4, 5] where
  wf := wfCheck_sound tab1 (by decide)
  nodup := by decide
  vars := by
    intro i n hi _ hn
    have hlt : i < 6 := by
      rcases Nat.lt_or_ge i 6 with h | h
      · exact h
      · have : tab1[i]? = none := by simp [tab1, h]
        rw [this] at hn; cases hn
    have : i = 2 ∨ i = 3 ∨ i = 4 ∨ i = 5 := by omega
    rcases this with h | h | h | h <;> subst h <;> simp [tab1] at hn <;> subst hn <;> decide
  roots := by decide

-- the graph of the parse result: the two roots, their children 0 and 1; nodes 2 and 3 (the plain
-- variables) are not reachable and not shown
example : (graphOf ["a", "b"] tab1 [4, 5]).nodes.map (·.id) = [0, 1, 4, 5] := by decide
example : (graphOf ["a", "b"] tab1 [4, 5]).lo = [(4, 1), (5, 1)] := by decide
example : (graphOf ["a", "b"] tab1 [4, 5]).nodes.map (·.roots) = [[], [], ["a"], ["b"]] := by decide
-- walking from the root of `a` under b = true gives false (ac(a) = neg(b))
example : walk (graphOf ["a", "b"] tab1 [4, 5]) ["a", "b"] (fun v => v == 1) 6 4 = some false := by decide
example : walk (graphOf ["a", "b"] tab1 [4, 5]) ["a", "b"] (fun _ => false) 6 4 = some true := by decide

-- a parse task whose library call fails: error stored, shown and blocking
def Eerr : Env Nat Nat Nat Nat where
  emp := 0
  hash := fun s p => s + p
  verify := fun h p => h == p
  parse := fun _ code => if code = 9 then .error .parseError else .ok (code, code)
  solve := fun a _ => .ok a

def histErr : List (Event Nat) :=
  [.req ⟨0, .register 1 7 0⟩, .req ⟨0, .login 1 7⟩, .req ⟨0, .add 5 (some 9) none .naive 100 101⟩]

example : ((runAll Eerr {} histErr).1.db.running).length = 1 := by decide
example : ((runAll Eerr {} (histErr ++ [.finish 0 0])).1.db.running) = [] := by decide
example : ((runAll Eerr {} (histErr ++ [.finish 0 0, .write 0 0])).1.db.problems.map (·.parseOnly)) = [.error .parseError] := by
  decide
example : (ServerM.step Eerr (runAll Eerr {} (histErr ++ [.finish 0 0, .write 0 0])).1 ⟨0, .solve 5 .ground⟩).2 =
    ⟨400, .keep, .msg (.couldNotParse .parseError)⟩ := by decide

/-! ## 6. the stored answers are the definitional ones

`SrvA.solveAdfF fuel` is the solve task (`rebuild` of the stored node list, the strategy = a CLI
section, the graphs) with the fuel-based model `SM.ngSearch .simple fuel` of `stable_nogood(Simple)`;
for the five other strategies it is `ServerAdf.solveAdf`, the function the driver runs
(`solve_model_agrees`). `SrvA.Denotes a n fms`: the stored ADF `a` has a well-formed table and one
valid handle per statement with the Boolean function of its condition. `SrvA.storedI3`: the stored
vectors (`AcAndGraph.ac`) read as three-valued interpretations. `ServerAdf.solveAdf` runs
`StableNogood` through the same fuel-based search with the fixed bound 10^6
(`solve_model_is_bound_instance`: it IS `SrvA.solveAdfF 1000000`), so the statement about the very
function the driver runs covers all six strategies (`stored_answers_exact_driver_model`), the sixth
under the hypothesis "the search halted within the bound" (as in C15), which holds for every large
bound (`stored_answers_exact_every_large_bound`). -/

/-- the storage round trip works for ANY well-formed stored table (also one adopted from biodivine's
dump): `Bdd::from(Vec<BddNode>)` gives a well-formed store with exactly that table -/
theorem rebuild_any_wellformed_table (ns : Array Node) (w : TableWF ns) : WF (rebuild ns) ∧ (rebuild ns).nodes = ns :=
  SrvA.rebuild_table ns w

/-- naive parsing: what a successful parse task stores denotes the conditions of the submitted code
(`ServerAdf.conditions`: per statement the last `ac` fact, falsum without one) -/
theorem naive_parse_denotes_code (key code : String) (a : SAdf) (r : SRes) (h : parseNaive key code = .ok (a, r))
    (hn : a.names.length ≤ VBOT) :
    ∃ fms, conditions code = .ok (a.names, fms) ∧ SrvA.Denotes a a.names.length fms :=
  SrvA.parseNaive_denotes key code a r h hn

/-- `solveAdfF` is the driver's model wherever that model is transparent -/
theorem solve_model_agrees (fuel : Nat) (a : SAdf) (s : Strategy) (h : s ≠ .stableNogood) :
    SrvA.solveAdfF fuel a s = solveAdf a s := SrvA.solveAdfF_eq fuel a s h

/-- since the server model's StableNogood arm runs the fuel-based search of C05 (bound 10^6), the
bound-parametric function at that bound IS the model the driver runs, for ALL six strategies -/
theorem solve_model_is_bound_instance (a : SAdf) (s : Strategy) : SrvA.solveAdfF 1000000 a s = solveAdf a s := by
  cases s <;> rfl

/-- hence the exactness statement holds of `ServerAdf.solveAdf` itself for every strategy, under the
halting hypothesis of its nogood search (vacuous for the other five strategies) -/
theorem stored_answers_exact_driver_model (a : SAdf) (n : Nat) (fms : List Fm) (s : Strategy)
    (h : SrvA.Denotes a n fms) (hh : SrvA.strategyHalts 1000000 a s = true) :
    ∃ res, solveAdf a s = .ok res ∧
      (SrvA.storedI3 res).Perm (Cli.specSection n (CliF.tablesOf n fms) (SrvA.secOf s)) := by
  have := SrvA.stored_answers_exact_any_table 1000000 a n fms s h hh
  rwa [solve_model_is_bound_instance] at this

/-- **stored_answers_exact** (naive parsing, from the submitted text): if the parse task stored `a`
for `code`, then for EVERY strategy the solve task run on the ADF rebuilt from what was stored
succeeds and stores — as a multiset of three-valued interpretations — exactly the specification's
answer for the conditions of the submitted code; `StableNogood`: provided its search halted within
the bound -/
theorem stored_answers_exact (fuel : Nat) (key code : String) (a : SAdf) (r : SRes) (s : Strategy)
    (h : parseNaive key code = .ok (a, r)) (hn : a.names.length ≤ VBOT)
    (hh : SrvA.strategyHalts fuel a s = true) :
    ∃ fms res, conditions code = .ok (a.names, fms) ∧ SrvA.solveAdfF fuel a s = .ok res ∧
      (SrvA.storedI3 res).Perm
        (Cli.specSection a.names.length (CliF.tablesOf a.names.length fms) (SrvA.secOf s)) :=
  SrvA.stored_answers_exact fuel key code a r s h hn hh

/-- **stored_answers_exact, any stored table** (hybrid parsing as well): the same for ANY stored ADF
that denotes the conditions — a well-formed table whose `ac` handles have the conditions' functions,
which is what the run-time checks of the adopted table establish (`wfCheck`, `isoCheck` / the semantic
comparison `storedAdfOK`) -/
theorem stored_answers_exact_any_table (fuel : Nat) (a : SAdf) (n : Nat) (fms : List Fm) (s : Strategy)
    (h : SrvA.Denotes a n fms) (hh : SrvA.strategyHalts fuel a s = true) :
    ∃ res, SrvA.solveAdfF fuel a s = .ok res ∧
      (SrvA.storedI3 res).Perm (Cli.specSection n (CliF.tablesOf n fms) (SrvA.secOf s)) :=
  SrvA.stored_answers_exact_any_table fuel a n fms s h hh

/-- the hypothesis about the bound can always be met: from some bound on the search halts and the
stored answers are exact — every strategy, nothing assumed -/
theorem stored_answers_exact_every_large_bound (a : SAdf) (n : Nat) (fms : List Fm) (s : Strategy)
    (h : SrvA.Denotes a n fms) :
    ∃ F0, ∀ fuel, F0 ≤ fuel → SrvA.strategyHalts fuel a s = true ∧
      ∃ res, SrvA.solveAdfF fuel a s = .ok res ∧
        (SrvA.storedI3 res).Perm (Cli.specSection n (CliF.tablesOf n fms) (SrvA.secOf s)) :=
  SrvA.stored_answers_exact_every_large_bound a n fms s h

/-- the five strategies without nogood search, any stored table: no hypothesis about bounds at all
(complete as it stands; the sixth strategy is `stored_answers_exact_driver_model`; formerly
`…_driver_model_partial`) -/
theorem stored_answers_exact_driver_model_no_search (a : SAdf) (n : Nat) (fms : List Fm) (s : Strategy)
    (h : SrvA.Denotes a n fms) (hs : s ≠ .stableNogood) :
    ∃ res, solveAdf a s = .ok res ∧
      (SrvA.storedI3 res).Perm (Cli.specSection n (CliF.tablesOf n fms) (SrvA.secOf s)) :=
  SrvA.solveAdf_answers_exact_no_search a n fms s h hs

/-- … and from the submitted text (naive parsing → storage → rebuild → `solveAdf`; formerly
`…_naive_driver_model_partial`) -/
theorem stored_answers_exact_naive_driver_model_no_search (key code : String) (a : SAdf) (r : SRes) (s : Strategy)
    (h : parseNaive key code = .ok (a, r)) (hn : a.names.length ≤ VBOT) (hs : s ≠ .stableNogood) :
    ∃ fms res, conditions code = .ok (a.names, fms) ∧ solveAdf a s = .ok res ∧
      (SrvA.storedI3 res).Perm
        (Cli.specSection a.names.length (CliF.tablesOf a.names.length fms) (SrvA.secOf s)) := by
  obtain ⟨fms, hc, hd⟩ := SrvA.parseNaive_denotes key code a r h hn
  obtain ⟨res, h1, h2⟩ := SrvA.solveAdf_answers_exact_no_search a _ fms s hd hs
  exact ⟨fms, res, hc, h1, h2⟩

/-- **the same at the level of the definitions** (`SrvA.PropAnswer`): ground stores the least fixpoint
of Γ, complete stores every fixpoint of Γ exactly once, the four stable strategies store every stable
model exactly once — for the Boolean functions `fms.map Fm.sem` of the submitted conditions -/
theorem stored_answers_definitional (fuel : Nat) (a : SAdf) (n : Nat) (fms : List Fm) (s : Strategy)
    (h : SrvA.Denotes a n fms) (hh : SrvA.strategyHalts fuel a s = true) :
    ∃ res, SrvA.solveAdfF fuel a s = .ok res ∧ SrvA.PropAnswer n (fms.map Fm.sem) s (SrvA.storedI3 res) :=
  SrvA.stored_answers_definitional fuel a n fms s h hh

/-! ### non-vacuity of section 6 -/

/-- the stored ADF of `s(a).s(b).ac(a,neg(b)).ac(b,neg(a)).` (table `tab1`, handles 4 and 5) denotes
its conditions -/
theorem denotes1 : SrvA.Denotes { names := ["a", "b"], nodes := tab1, ac := [4, 5] } 2 [.not (.atom 1), .not (.atom 0)] where
  table := hyp1.wf
  len := rfl
  flen := rfl
  atoms := by
    intro φ hφ
    simp at hφ
    rcases hφ with h | h <;> subst h <;> simp [NConc.atomsLt]
  den := by
    intro i t f ht hf
    have hi : i = 0 ∨ i = 1 := by
      have := (List.getElem?_eq_some_iff.mp ht).1
      simp at this; omega
    rcases hi with h | h <;> subst h <;> simp at ht hf <;> subst ht <;> subst hf
    · refine ⟨by decide, fun σ => ?_⟩
      simp [eval, evalF, tab1, Fm.sem]
    · refine ⟨by decide, fun σ => ?_⟩
      simp [eval, evalF, tab1, Fm.sem]

/-- hence the driver's model stores, for `Stable`, exactly the two stable models `a¬b`, `¬a b` (the
specification's answer, evaluated by the kernel) — a statement with content in both directions -/
example : ∃ res, solveAdf { names := ["a", "b"], nodes := tab1, ac := [4, 5] } .stable = .ok res ∧
    (SrvA.storedI3 res).Perm [[some true, some false], [some false, some true]] := by
  obtain ⟨res, h1, h2⟩ := stored_answers_exact_driver_model_no_search _ 2 _ .stable denotes1 (by decide)
  refine ⟨res, h1, ?_⟩
  have e : Cli.specSection 2 (CliF.tablesOf 2 [.not (.atom 1), .not (.atom 0)]) (SrvA.secOf .stable) =
      [[some true, some false], [some false, some true]] := by decide
  rw [e] at h2
  exact h2

/-- … and for `Complete` additionally the all-undecided interpretation -/
example : ∃ res, solveAdf { names := ["a", "b"], nodes := tab1, ac := [4, 5] } .complete = .ok res ∧
    (SrvA.storedI3 res).Perm [[none, none], [some true, some false], [some false, some true]] := by
  obtain ⟨res, h1, h2⟩ := stored_answers_exact_driver_model_no_search _ 2 _ .complete denotes1 (by decide)
  refine ⟨res, h1, ?_⟩
  have e : Cli.specSection 2 (CliF.tablesOf 2 [.not (.atom 1), .not (.atom 0)]) (SrvA.secOf .complete) =
      [[none, none], [some true, some false], [some false, some true]] := by decide
  rw [e] at h2
  exact h2

/-! replay by evaluation (the store's hash tables do not reduce in the kernel): the parse task on that
code stores `tab1` with handles 4, 5; the transparent model `solveAdfF` and the driver's `solveAdf`
store the same vectors for all six strategies, `StableNogood` included, and its search halts -/
def code1 : String := "s(a).s(b).ac(a,neg(b)).ac(b,neg(a))."
def allSix : List Strategy := [.ground, .complete, .stable, .stableCountingA, .stableCountingB, .stableNogood]

#guard (match parseNaive "k" code1 with
  | .ok (a, _) => a.names == ["a", "b"] && a.nodes == tab1 && a.ac == [4, 5]
  | .error _ => false)
#guard (match parseNaive "k" code1 with
  | .ok (a, _) => allSix.all (fun s =>
      SrvA.strategyHalts 1000000 a s &&
      (match SrvA.solveAdfF 1000000 a s, solveAdf a s with
       | .ok r, .ok r' => r.map AcG.ac == r'.map AcG.ac
       | _, _ => false))
  | .error _ => false)
#guard (match parseNaive "k" code1 with
  | .ok (a, _) => (match solveAdf a .stableNogood with | .ok r => r.map AcG.ac == [[1, 0], [0, 1]] | .error _ => false)
  | .error _ => false)

/-! ## 7. the service: the server model instantiated with the concrete library models

`SrvC.libEnv o = SrvC.mkEnv true o` is the environment the driver runs (`Drv/Http.lean` imports the
definition from `ServerConcrete.lean`): `parse .naive = parseNaive`, `solve = solveAdf`; for HYBRID
parsing the outcome class is computed (`parseOutcome`) and the stored table is the one adopted from
the implementation (`o.hyb`) — the theorems of THIS section about hybrid parsing assume `SrvA.Denotes` of
the adopted table; section 9 discharges it (from the printed run-time check `storedAdfOK'`, and for the
modelled hybrid arm).
All statements hold in EVERY server state (so in every reachable one). Hypotheses of the form
"the task `(j, n)` is …, the addressed document exists" describe the moment of the write; in the Rust
(and the model) a document can be deleted and re-created, or its owner renamed, while a task runs —
then the write goes to whatever document carries the (user, name) pair at that moment (finding D9) —
which is why these are hypotheses and not consequences of reachability. -/

section service
open SrvC

/-- the service's environment is the library: the theorems of section 6 about `parseNaive` /
`solveAdf` are statements about what the service's tasks compute -/
theorem service_env_is_library (o : Oracle) :
    (∀ code, (libEnv o).parse .naive code = parseNaive (parseKey .naive code) code) ∧
    (∀ a s, (libEnv o).solve a s = solveAdf a s) := ⟨fun _ => rfl, fun _ _ => rfl⟩

/-- **parse task, success path** (naive parsing): see `SrvC.parse_task_stores_framework` -/
theorem parse_task_stores_framework (o : Oracle) (db : Db String SHash SAdf SRes) (j n : Nat)
    (t : TaskRec String SAdf) (code : String) (names : List String) (fms : List Fm)
    (ht : nthOf j n db.tasks = some t) (hin : t.input = .parse code .naive)
    (hlive : t.blockingDone = true ∧ t.written = false)
    (hacc : conditions code = .ok (names, fms)) (hn : names.length ≤ VBOT)
    (p : Problem String SAdf SRes) (hp : db.problems.find? (isProb t.username t.name) = some p) :
    ∃ a : SAdf,
      (dbEv (libEnv o) db (.write j n)).problems.find? (isProb t.username t.name) =
        some { p with adf := .some a, parseOnly := .some [⟨a.ac, graphOf a.names a.nodes a.ac⟩] } ∧
      (libEnv o).parse .naive code = .ok (a, [⟨a.ac, graphOf a.names a.nodes a.ac⟩]) ∧
      a.names = names ∧ SrvA.Denotes a names.length fms ∧ GraphHyp a.names a.nodes a.ac :=
  SrvC.parse_task_stores_framework o db j n t code names fms ht hin hlive hacc hn p hp

/-- **parse task, success path** (hybrid parsing): the adopted table and its graph are stored -/
theorem parse_task_stores_adopted (o : Oracle) (db : Db String SHash SAdf SRes) (j n : Nat)
    (t : TaskRec String SAdf) (code : String) (x : List String × List Fm) (a : SAdf)
    (ht : nthOf j n db.tasks = some t) (hin : t.input = .parse code .hybrid)
    (hlive : t.blockingDone = true ∧ t.written = false)
    (hacc : conditions code = .ok x) (hl : lookupS (parseKey .hybrid code) o.hyb = some a)
    (p : Problem String SAdf SRes) (hp : db.problems.find? (isProb t.username t.name) = some p) :
    (dbEv (libEnv o) db (.write j n)).problems.find? (isProb t.username t.name) =
      some { p with adf := .some a, parseOnly := .some [⟨a.ac, graphOf a.names a.nodes a.ac⟩] } :=
  SrvC.parse_task_stores_adopted o db j n t code x a ht hin hlive hacc hl p hp

/-- **unparseable code, the service, both parsing strategies**: an error is stored in `adf` and in
`parse_only` — never an answer (`parse_error_reported` with the concrete library) -/
theorem parse_task_stores_error (o : Oracle) (db : Db String SHash SAdf SRes) (j n : Nat)
    (t : TaskRec String SAdf) (code : String) (parsing : Parsing) (e : Err)
    (ht : nthOf j n db.tasks = some t) (hin : t.input = .parse code parsing)
    (hlive : t.blockingDone = true ∧ t.written = false) (herr : conditions code = .error e)
    (p : Problem String SAdf SRes) (hp : db.problems.find? (isProb t.username t.name) = some p) :
    (dbEv (libEnv o) db (.write j n)).problems.find? (isProb t.username t.name) =
      some { p with adf := .error e, parseOnly := .error e } :=
  parse_error_reported (libEnv o) db j n t code parsing e ht hin hlive (libEnv_parse_error_iff o code e herr parsing) p hp

/-- **the solve request works on the STORED framework**: an accepted `PUT /adf/{name}/solve` found the
document, read its stored framework `a`, and spawned exactly the task `solve a s` for this user,
problem and strategy -/
theorem solve_request_uses_stored_framework (o : Oracle) (st : State String SHash SAdf SRes) (jar : Nat)
    (name : String) (s : Strategy) (h : (ServerM.step (libEnv o) st ⟨jar, .solve name s⟩).2.status = 200) :
    ∃ u p a, st.sess jar = some u ∧ st.db.problems.find? (isProb u name) = some p ∧ p.adf = .some a ∧
      (ServerM.step (libEnv o) st ⟨jar, .solve name s⟩).1.db.tasks =
        st.db.tasks ++ [{ jar := jar, username := u, name := name, input := .solve a s }] ∧
      (ServerM.step (libEnv o) st ⟨jar, .solve name s⟩).1.db.problems = st.db.problems :=
  solve_accepted (libEnv o) st jar name s h

/-- **solve task, success path**: the document stores exactly `solveAdf a s` — the library model's
answer for the stored framework — under the addressed strategy, and that answer is the definitional
one for the conditions `a` denotes (`hh`: the nogood search halted within the bound; `rfl` unless
`s = StableNogood`) -/
theorem solve_task_stores_answer (o : Oracle) (db : Db String SHash SAdf SRes) (j n : Nat)
    (t : TaskRec String SAdf) (a : SAdf) (s : Strategy) (nn : Nat) (fms : List Fm)
    (ht : nthOf j n db.tasks = some t) (hin : t.input = .solve a s)
    (hlive : t.blockingDone = true ∧ t.written = false)
    (hd : SrvA.Denotes a nn fms) (hh : SrvA.strategyHalts 1000000 a s = true)
    (p : Problem String SAdf SRes) (hp : db.problems.find? (isProb t.username t.name) = some p) :
    ∃ res : SRes,
      (dbEv (libEnv o) db (.write j n)).problems.find? (isProb t.username t.name) =
        some { p with res := p.res.set s (.some res) } ∧
      (libEnv o).solve a s = .ok res ∧
      (SrvA.storedI3 res).Perm (Cli.specSection nn (CliF.tablesOf nn fms) (SrvA.secOf s)) ∧
      SrvA.PropAnswer nn (fms.map Fm.sem) s (SrvA.storedI3 res) :=
  SrvC.solve_task_stores_answer o db j n t a s nn fms ht hin hlive hd hh p hp

/-- **… and nowhere else**: a task's write leaves the document of every other (user, problem) pair,
the users and the running set as they were; within the addressed document only the addressed
strategy's slot changes (the record update in `solve_task_stores_answer` and `Results.get_set_other`) -/
theorem write_touches_only_its_target (o : Oracle) (db : Db String SHash SAdf SRes) (j n : Nat) :
    (∀ u' n', (∀ t, nthOf j n db.tasks = some t → ¬ (u' = t.username ∧ n' = t.name)) →
      (dbEv (libEnv o) db (.write j n)).problems.find? (isProb u' n') = db.problems.find? (isProb u' n')) ∧
    (dbEv (libEnv o) db (.write j n)).users = db.users ∧ (dbEv (libEnv o) db (.write j n)).running = db.running ∧
    (∀ (r : Results SRes) (s s' : Strategy) (v : OWE SRes), s' ≠ s → (r.set s v).get s' = r.get s') :=
  ⟨fun u' n' h => write_elsewhere_unchanged (libEnv o) db j n u' n' h, (write_users_running (libEnv o) db j n).1,
   (write_users_running (libEnv o) db j n).2, fun r s s' v h => Results.get_set_other r s s' v h⟩

/-- **`GET` returns what is stored** (and changes nothing, so repeated gets agree) -/
theorem get_returns_stored (o : Oracle) (st : State String SHash SAdf SRes) (jar : Nat) (u name : String)
    (p : Problem String SAdf SRes) (hs : st.sess jar = some u) (hf : st.db.problems.find? (isProb u name) = some p) :
    ∃ ts, (ServerM.step (libEnv o) st ⟨jar, .get name⟩).2 =
        ⟨200, .keep, .problem ⟨p.name, p.code, p.parsing, p.parseOnly, p.res, ts⟩⟩ ∧
      (ServerM.step (libEnv o) st ⟨jar, .get name⟩).1.db = st.db :=
  ServerM.get_returns_stored (libEnv o) st jar u name p hs hf

/-- **served_answer**: the answer a user retrieves after the solve task has written -/
theorem served_answer (o : Oracle) (st : State String SHash SAdf SRes) (j n jar : Nat)
    (t : TaskRec String SAdf) (a : SAdf) (s : Strategy) (nn : Nat) (fms : List Fm)
    (ht : nthOf j n st.db.tasks = some t) (hin : t.input = .solve a s)
    (hlive : t.blockingDone = true ∧ t.written = false)
    (hd : SrvA.Denotes a nn fms) (hh : SrvA.strategyHalts 1000000 a s = true)
    (p : Problem String SAdf SRes) (hp : st.db.problems.find? (isProb t.username t.name) = some p)
    (hs : st.sess jar = some t.username) :
    ∃ (res : SRes) (i : Info String SRes),
      (ServerM.step (libEnv o) (stepEv (libEnv o) st (.write j n)).1 ⟨jar, .get t.name⟩).2 = ⟨200, .keep, .problem i⟩ ∧
      i.name = p.name ∧ i.code = p.code ∧ i.parsing = p.parsing ∧ i.parseOnly = p.parseOnly ∧
      i.res.get s = .some res ∧ (∀ s', s' ≠ s → i.res.get s' = p.res.get s') ∧
      (libEnv o).solve a s = .ok res ∧
      SrvA.PropAnswer nn (fms.map Fm.sem) s (SrvA.storedI3 res) :=
  SrvC.served_answer o st j n jar t a s nn fms ht hin hlive hd hh p hp hs

/-- **served_answer_for_code** (the final corollary, naive parsing): the answer a user retrieves for
strategy `s` on the submitted text `code` is the set of grounded / complete / stable models of the
framework denoted by the text — for each of the six strategies. `hparse`: the framework the solve
task works on is the service's parse result for `code` (stored by `parse_task_stores_framework`, read
by `solve_request_uses_stored_framework`). `hh` (`SrvA.strategyHalts 1000000 a s`): the nogood-learning
search of `StableNogood` reached its `done` state within the 10^6 iterations the executable model
allows (the Rust loop has no bound); it is `true` by `rfl` for the other five strategies
(`strategyHalts_five`) and holds for every sufficiently large bound (`strategyHalts_eventually`). -/
theorem served_answer_for_code (o : Oracle) (st : State String SHash SAdf SRes) (j n jar : Nat)
    (t : TaskRec String SAdf) (code : String) (a : SAdf) (r : SRes) (s : Strategy)
    (ht : nthOf j n st.db.tasks = some t) (hin : t.input = .solve a s)
    (hlive : t.blockingDone = true ∧ t.written = false)
    (hparse : (libEnv o).parse .naive code = .ok (a, r)) (hn : a.names.length ≤ VBOT)
    (hh : SrvA.strategyHalts 1000000 a s = true)
    (p : Problem String SAdf SRes) (hp : st.db.problems.find? (isProb t.username t.name) = some p)
    (hs : st.sess jar = some t.username) :
    ∃ (fms : List Fm) (res : SRes) (i : Info String SRes),
      conditions code = .ok (a.names, fms) ∧
      (ServerM.step (libEnv o) (stepEv (libEnv o) st (.write j n)).1 ⟨jar, .get t.name⟩).2 = ⟨200, .keep, .problem i⟩ ∧
      i.res.get s = .some res ∧ (∀ s', s' ≠ s → i.res.get s' = p.res.get s') ∧
      SrvA.PropAnswer a.names.length (fms.map Fm.sem) s (SrvA.storedI3 res) :=
  SrvC.served_answer_for_code o st j n jar t code a r s ht hin hlive hparse hn hh p hp hs

theorem strategyHalts_five (fuel : Nat) (a : SAdf) (s : Strategy) (h : s ≠ .stableNogood) :
    SrvA.strategyHalts fuel a s = true := SrvC.strategyHalts_five fuel a s h

theorem strategyHalts_eventually (a : SAdf) (nn : Nat) (fms : List Fm) (s : Strategy) (hd : SrvA.Denotes a nn fms) :
    ∃ F0, ∀ fuel, F0 ≤ fuel → SrvA.strategyHalts fuel a s = true := SrvC.strategyHalts_eventually a nn fms s hd

/-! ### the storage round trip -/

/-- **storage_roundtrip_identity**: `Adf → SimplifiedAdf` (every index printed as a decimal string,
the name map entry-wise) `→ Adf` (every string parsed back, node list replayed through `Bdd::node`)
never panics and is the identity on (ordering, node table, acceptance conditions); the re-hydrated
store is well formed and every handle denotes the function it denoted before -/
theorem storage_roundtrip_identity (a : SrvRT.LibAdf) (w : WF a.bdd) :
    ∃ b, (SrvRT.SimpAdf.ofLib a).toLib = some b ∧ b.ordering = a.ordering ∧ b.bdd.nodes = a.bdd.nodes ∧
      b.ac = a.ac ∧ WF b.bdd ∧ ∀ t σ, eval b.bdd t σ = eval a.bdd t σ :=
  SrvRT.roundtrip_identity a w

/-- the model's stored `SAdf` is the decoded document, and the model's solve task is solving the
re-hydrated object -/
theorem solve_task_is_solving_rehydrated (fuel : Nat) (key : String) (a : SrvRT.LibAdf) (s : Strategy) :
    ∃ b sa, (SrvRT.SimpAdf.ofLib a).toLib = some b ∧ (SrvRT.SimpAdf.ofLib a).toSAdf key = some sa ∧
      SrvA.solveAdfF fuel sa s = .ok (SrvRT.solveOn fuel b.ordering.names b.bdd b.ac s) :=
  SrvRT.solve_rehydrated fuel key a s

/-- **solving after the round trip = solving the original object** (same multiset of three-valued
interpretations, namely the specification's) -/
theorem solve_after_roundtrip_same (fuel : Nat) (a : SrvRT.LibAdf) (n : Nat) (fms : List Fm) (s : Strategy)
    (w : WF a.bdd) (hd : SrvA.Denotes { names := a.ordering.names, nodes := a.bdd.nodes, ac := a.ac } n fms)
    (hh1 : CliF.sectionHaltsF fuel .simple (SrvA.secOf s) a.bdd n a.ac = true)
    (hh2 : SrvA.strategyHalts fuel { names := a.ordering.names, nodes := a.bdd.nodes, ac := a.ac } s = true) :
    (SrvA.storedI3 (SrvRT.solveOn fuel a.ordering.names a.bdd a.ac s)).Perm
      (SrvA.storedI3 (SrvRT.solveOn fuel a.ordering.names (rebuild a.bdd.nodes) a.ac s)) ∧
    (SrvA.storedI3 (SrvRT.solveOn fuel a.ordering.names a.bdd a.ac s)).Perm
      (Cli.specSection n (CliF.tablesOf n fms) (SrvA.secOf s)) :=
  SrvRT.solve_roundtrip_same fuel a n fms s w hd hh1 hh2

/-! ### the graph builder's assumptions are consequences -/

/-- **graph_hyp_of_accepted_text**: for every framework that came from an accepted text (naive
parsing) the assumptions `GraphHyp` of `graph_reachable` / `graph_edges` / `graph_walk` hold: distinct
names (the parser keeps the first occurrence of a statement), every inner node tests a named
statement (store operations only reuse variables), well-formed table, roots inside it -/
theorem graph_hyp_of_accepted_text (key code : String) (a : SAdf) (r : SRes) (h : parseNaive key code = .ok (a, r))
    (hn : a.names.length ≤ VBOT) : GraphHyp a.names a.nodes a.ac :=
  parseNaive_graphHyp key code a r h hn

/-- **graph_hyp_of_functions**: … and for ANY well-formed table (e.g. the store after solving) whose
roots denote functions of the named statements only -/
theorem graph_hyp_of_functions {names : List String} {ns : Array Node} {ac : List Nat} (w : TableWF ns)
    (hnd : names.Nodup) (hr : ∀ r ∈ ac, r < ns.size)
    (hdet : ∀ r ∈ ac, TT.DetBy names.length (eval ⟨ns, {}, {}, {}⟩ r)) : GraphHyp names ns ac :=
  graphHyp_of_detBy w hnd hr hdet

/-- the parse-only graph of an accepted text: walking from the root of statement `i` evaluates the
condition of statement `i` as written in the text -/
theorem parse_graph_walk (key code : String) (a : SAdf) (r : SRes) (h : parseNaive key code = .ok (a, r))
    (hn : a.names.length ≤ VBOT) :
    ∃ fms, conditions code = .ok (a.names, fms) ∧
      ∀ (i : Nat) (f : Fm), fms[i]? = some f → ∀ (σ : Asg) (fuel : Nat), a.ac.getD i 0 < fuel →
        walk (graphOf a.names a.nodes a.ac) a.names σ fuel (a.ac.getD i 0) = some (f.sem σ) := by
  obtain ⟨fms, hc, hd⟩ := SrvA.parseNaive_denotes key code a r h hn
  refine ⟨fms, hc, ?_⟩
  intro i f hf σ fuel hfu
  have hi : i < a.ac.length := by rw [hd.len, ← hd.flen]; exact (List.getElem?_eq_some_iff.mp hf).1
  rw [SrvC.walk_root (parseNaive_graphHyp key code a r h hn) i hi σ fuel hfu]
  have : a.ac[i]? = some (a.ac.getD i 0) := by simp [List.getD, hi]
  rw [(hd.den i _ f this hf).2 σ]

/-! ### "restricted by the shown model" -/

/-- **ground_graph_restricted**: see `SrvC.ground_graph_restricted` -/
theorem ground_graph_restricted (a : SAdf) (nn : Nat) (fms : List Fm) (hd : SrvA.Denotes a nn fms)
    (hnd : a.names.Nodup) (hlen : a.names.length = nn) :
    ∃ (v : List Nat) (ns : Array Node) (g : I3),
      solveAdf a .ground = .ok [⟨v, graphOf a.names ns v⟩] ∧ GraphHyp a.names ns v ∧ v.length = nn ∧
      g = v.map storeIsConst ∧ IsLfp (fms.map Fm.sem) g ∧
      ∀ (i : Nat) (f : Fm), fms[i]? = some f → ∀ (σ : Asg) (fuel : Nat), v.getD i 0 < fuel →
        walk (graphOf a.names ns v) a.names σ fuel (v.getD i 0) = some (f.sem (over σ 0 g)) :=
  SrvC.ground_graph_restricted a nn fms hd hnd hlen

/-- **stable_graph_restricted**: see `SrvC.stable_graph_restricted` -/
theorem stable_graph_restricted (a : SAdf) (nn : Nat) (fms : List Fm) (s : Strategy) (hd : SrvA.Denotes a nn fms)
    (hnd : a.names.Nodup) (hs : s ≠ .ground ∧ s ≠ .complete) (hh : SrvA.strategyHalts 1000000 a s = true) :
    ∃ (res : SRes) (ns : Array Node), solveAdf a s = .ok res ∧
      ∀ x ∈ res, x.graph = graphOf a.names ns x.ac ∧ GraphHyp a.names ns x.ac ∧
        x.ac.length = nn ∧ Gam (fms.map Fm.sem) (x.ac.map storeIsConst) = x.ac.map storeIsConst ∧
        ∀ (i : Nat) (_ : i < x.ac.length) (σ : Asg) (fuel : Nat), x.ac.getD i 0 < fuel →
          ∃ b, storeIsConst (x.ac.getD i 0) = some b ∧
            walk x.graph a.names σ fuel (x.ac.getD i 0) = some b :=
  SrvC.stable_graph_restricted a nn fms s hd hnd hs hh

/-- **graphs_faithful_under_the_shown_model** — the property's graph clause for ALL six strategies, in
the form the run-time monitor `graphOK` checks it: for a stored framework `a` (distinct names, one per
statement) denoting the conditions `fms`, every stored `AcAndGraph` `x` of the solve task's answer
carries the graph of the final store's table for the roots `x.ac`; that graph satisfies `GraphHyp`
(hence `graph_reachable`: exactly the reachable nodes, `graph_edges`: the table's lo/hi edges,
`graph_walk`: root labels); and for EVERY assignment `σ` that extends the shown interpretation
(`Agree σ (x.ac.map storeIsConst)`) walking from the root of statement `i` yields the value of
statement `i`'s acceptance condition under `σ` — i.e. the diagram shown for `i` is the condition
restricted by the shown model (a constant for a decided statement) -/
theorem graphs_faithful_under_the_shown_model (a : SAdf) (nn : Nat) (fms : List Fm) (s : Strategy)
    (hd : SrvA.Denotes a nn fms) (hnd : a.names.Nodup) (hlen : a.names.length = nn)
    (hh : SrvA.strategyHalts 1000000 a s = true) :
    ∃ (res : SRes) (ns : Array Node), solveAdf a s = .ok res ∧
      ∀ x ∈ res, x.graph = graphOf a.names ns x.ac ∧ GraphHyp a.names ns x.ac ∧
        ∀ (i : Nat) (f : Fm), fms[i]? = some f → ∀ (σ : Asg), Agree σ (x.ac.map storeIsConst) →
          ∀ fuel, x.ac.getD i 0 < fuel → walk x.graph a.names σ fuel (x.ac.getD i 0) = some (f.sem σ) := by
  by_cases hg : s = .ground
  · subst hg
    obtain ⟨v, ns, h1, h2, h3⟩ := SrvC.ground_graph_under_model a nn fms hd hnd hlen
    refine ⟨_, ns, h1, fun x hx => ?_⟩
    simp only [List.mem_singleton] at hx
    subst hx
    exact ⟨rfl, h2, h3⟩
  · by_cases hc : s = .complete
    · subst hc
      exact SrvC.complete_graph_under_model a nn fms hd hnd hlen
    · exact SrvC.stable_graph_under_model a nn fms s hd hnd ⟨hg, hc⟩ hh

end service

/-! ### non-vacuity of section 7 -/
open SrvC

/-- the stored framework of `s(a).s(b).ac(a,neg(b)).ac(b,neg(a)).` -/
def a1 : SAdf := { names := ["a", "b"], nodes := tab1, ac := [4, 5] }
/-- a document of user `u` holding it (not yet solved), a solve task for `Stable` whose blocking part
has ended, and `u`'s session in jar 0 -/
def p1 : Problem String SAdf SRes := { name := "p", username := "u", code := code1, parsing := .naive, adf := .some a1 }
def t1 : TaskRec String SAdf := { jar := 0, username := "u", name := "p", input := .solve a1 .stable, blockingDone := true }
def st1 : State String SHash SAdf SRes :=
  { db := { problems := [p1], tasks := [t1] }, sess := fun j => if j = 0 then some "u" else none }

/-- `served_answer` on this state: after the write, `GET /adf/p` by `u` returns under `stable` exactly
the two stable models `a¬b`, `¬a b`, and still nothing under `complete` -/
example (o : Oracle) : ∃ (res : SRes) (i : Info String SRes),
    (ServerM.step (libEnv o) (stepEv (libEnv o) st1 (.write 0 0)).1 ⟨0, .get "p"⟩).2 = ⟨200, .keep, .problem i⟩ ∧
    i.res.get .stable = .some res ∧ i.res.get .complete = .none ∧
    (SrvA.storedI3 res).Perm [[some true, some false], [some false, some true]] := by
  obtain ⟨res, i, h1, _, _, _, _, h6, h7, h8, _⟩ := served_answer o st1 0 0 0 t1 a1 .stable 2 _ rfl rfl ⟨rfl, rfl⟩
    denotes1 rfl p1 (by simp [st1, isProb, p1, t1]) rfl
  obtain ⟨res', e1, e2⟩ := stored_answers_exact_driver_model_no_search a1 2 _ .stable denotes1 (by decide)
  have e : Cli.specSection 2 (CliF.tablesOf 2 [.not (.atom 1), .not (.atom 0)]) (SrvA.secOf .stable) =
      [[some true, some false], [some false, some true]] := by decide
  rw [e] at e2
  have : res = res' := by
    have h8' : solveAdf a1 .stable = .ok res := h8
    rw [e1] at h8'; cases h8'; rfl
  subst this
  exact ⟨res, i, h1, h6, by rw [h7 .complete (by decide)]; rfl, e2⟩

/-- an accepted solve request (hypothesis of `solve_request_uses_stored_framework`) -/
example : (ServerM.step (libEnv {}) { st1 with db := { problems := [p1] } } ⟨0, .solve "p" .complete⟩).2.status = 200 := by
  decide

/-- `ground_graph_restricted` on this framework: the grounded interpretation decides nothing, so the
graph shows the conditions themselves -/
example : ∃ (v : List Nat) (ns : Array Node) (g : I3),
    solveAdf a1 .ground = .ok [⟨v, graphOf a1.names ns v⟩] ∧ GraphHyp a1.names ns v ∧ IsLfp ([Fm.not (.atom 1), Fm.not (.atom 0)].map Fm.sem) g ∧
    ∀ σ fuel, v.getD 0 0 < fuel → walk (graphOf a1.names ns v) a1.names σ fuel (v.getD 0 0) = some (!(over σ 0 g 1)) := by
  obtain ⟨v, ns, g, h1, h2, _, _, h5, h6⟩ := ground_graph_restricted a1 2 _ denotes1 (by decide) rfl
  exact ⟨v, ns, g, h1, h2, h5, fun σ fuel hf => h6 0 _ rfl σ fuel hf⟩

/-- `graphs_faithful_under_the_shown_model` on this framework, `Complete`: three stored interpretations
(section 6), each with a faithful graph -/
example : ∃ (res : SRes) (ns : Array Node), solveAdf a1 .complete = .ok res ∧
    (SrvA.storedI3 res).Perm [[none, none], [some true, some false], [some false, some true]] ∧
    ∀ x ∈ res, x.graph = graphOf a1.names ns x.ac ∧ GraphHyp a1.names ns x.ac ∧
      ∀ (σ : Asg), Agree σ (x.ac.map storeIsConst) → ∀ fuel, x.ac.getD 0 0 < fuel →
        walk x.graph a1.names σ fuel (x.ac.getD 0 0) = some (!σ 1) := by
  obtain ⟨res, ns, h1, h2⟩ := graphs_faithful_under_the_shown_model a1 2 _ .complete denotes1 (by decide) rfl rfl
  obtain ⟨res', e1, e2⟩ := stored_answers_exact_driver_model_no_search a1 2 _ .complete denotes1 (by decide)
  have e : Cli.specSection 2 (CliF.tablesOf 2 [.not (.atom 1), .not (.atom 0)]) (SrvA.secOf .complete) =
      [[none, none], [some true, some false], [some false, some true]] := by decide
  rw [e] at e2
  rw [h1] at e1; cases e1
  exact ⟨res, ns, h1, e2, fun x hx => ⟨(h2 x hx).1, (h2 x hx).2.1, fun σ hag fuel hf => (h2 x hx).2.2 0 _ rfl σ hag fuel hf⟩⟩

/-- the round trip on a well-formed store (the rebuilt table `tab1`) -/
example : ∃ b, (SrvRT.SimpAdf.ofLib ⟨⟨["a", "b"], [("a", 0), ("b", 1)]⟩, rebuild tab1, [4, 5]⟩).toLib = some b ∧
    b.ordering.mapping = [("a", 0), ("b", 1)] ∧ b.bdd.nodes = tab1 ∧ b.ac = [4, 5] := by
  obtain ⟨b, h1, h2, h3, h4, _⟩ := storage_roundtrip_identity ⟨⟨["a", "b"], [("a", 0), ("b", 1)]⟩, rebuild tab1, [4, 5]⟩
    (rebuild_any_wellformed_table tab1 hyp1.wf).1
  exact ⟨b, h1, by rw [h2], by rw [h3]; exact (rebuild_any_wellformed_table tab1 hyp1.wf).2, h4⟩

/-! the hypotheses of `parse_task_stores_framework` / `served_answer_for_code` that need the parser run
on a string literal (not reducible in the kernel) are checked by evaluation: the text is accepted with
two statements, and the bound hypothesis holds for all six strategies on its framework (see also the
`#guard`s of section 6) -/
#guard (match conditions code1 with | .ok (ns, fs) => ns == ["a", "b"] && fs.length == 2 | .error _ => false)
#guard (match (SrvC.libEnv {}).parse .naive code1 with
  | .ok (a, _) => allSix.all (fun s => SrvA.strategyHalts 1000000 a s)
  | .error _ => false)

/-! ## 8. every reachable state of a deletion-free history

The hypotheses "at the moment of the write" of section 7 are consequences of reachability for
histories without `DELETE /adf/{name}`, `DELETE /users/delete`, `PUT /users/update` (`Event.keeps`);
with them they are not (`histStale` below, finding D9); section 10 treats ALL histories. -/

/-- **reachable_results_belong_to_the_code** (any environment): see `ServerReach.lean` -/
theorem reachable_results_belong_to_the_code {T H A R : Type} [DecidableEq T] (E : Env T H A R) (es : List (Event T))
    (hk : ∀ e ∈ es, e.keeps = true) (p : Problem T A R) (hp : p ∈ (runAll E {} es).1.db.problems) :
    (∀ a, p.adf = .some a → ∃ r, E.parse p.parsing p.code = .ok (a, r)) ∧
    (∀ s res, p.res.get s = .some res → ∃ a r, E.parse p.parsing p.code = .ok (a, r) ∧ E.solve a s = .ok res) :=
  ServerM.reachable_results_belong_to_the_code E es hk p hp

/-- a toy library: code `9` does not parse, every other code `c` parses to the framework `c`, whose
answer under every strategy is `c + 100` -/
def Etoy : Env Nat Nat Nat Nat where
  emp := 0
  hash := fun s p => s + p
  verify := fun h p => h == p
  parse := fun _ code => if code = 9 then .error .parseError else .ok (code, code)
  solve := fun a _ => .ok (a + 100)

/-- register, login, add problem 5 with code 7, parse task ends and writes, solve (Ground), the solve
task ends and writes, a second user does the same with code 8 and `Complete` in between -/
def histOk : List (Event Nat) :=
  [.req ⟨0, .register 1 7 0⟩, .req ⟨0, .login 1 7⟩, .req ⟨0, .add 5 (some 7) none .naive 100 101⟩,
   .req ⟨1, .add 5 (some 8) none .naive 200 201⟩, .finish 0 0, .write 0 0, .req ⟨0, .solve 5 .ground⟩,
   .finish 1 0, .write 1 0, .req ⟨1, .solve 5 .complete⟩, .finish 1 1, .finish 0 1, .write 0 1, .write 1 1,
   .req ⟨0, .get 5⟩]

example : ∀ e ∈ histOk, e.keeps = true := by decide
-- the reachable state: both documents carry the answer for their OWN code under the strategy asked for
example : (runAll Etoy {} histOk).1.db.problems.map (fun p => (p.username, p.code, p.adf, p.res.ground, p.res.complete)) =
    [(1, 7, .some 7, .some 107, .none), (200, 8, .some 8, .none, .some 108)] := by decide

/-- the restriction to deletion-free histories is needed (finding D9): delete the problem while its
parse task runs and re-create it with another code — the stale task's write lands in the new document,
which then stores the framework of code 7 for code 8 -/
def histStale : List (Event Nat) :=
  [.req ⟨0, .register 1 7 0⟩, .req ⟨0, .login 1 7⟩, .req ⟨0, .add 5 (some 7) none .naive 100 101⟩,
   .req ⟨0, .delete 5⟩, .req ⟨0, .add 5 (some 8) none .naive 100 101⟩, .finish 0 0, .write 0 0]

example : (runAll Etoy {} histStale).1.db.problems.map (fun p => (p.code, p.adf)) = [(8, .some 7)] := by decide

/-- **reachable_served_answer**: see `SrvC.reachable_served_answer` -/
theorem reachable_served_answer (o : Oracle) (es : List (Event String)) (hk : ∀ e ∈ es, e.keeps = true)
    (jar : Nat) (u name : String) (p : Problem String SAdf SRes) (s : Strategy) (res : SRes)
    (hs : (runAll (libEnv o) {} es).1.sess jar = some u)
    (hf : (runAll (libEnv o) {} es).1.db.problems.find? (isProb u name) = some p)
    (hres : p.res.get s = .some res)
    (hb : ∀ a r, (libEnv o).parse p.parsing p.code = .ok (a, r) →
      ∃ nn fms, SrvA.Denotes a nn fms ∧ SrvA.strategyHalts 1000000 a s = true) :
    ∃ (i : Info String SRes) (a : SAdf) (r : SRes) (nn : Nat) (fms : List Fm),
      (ServerM.step (libEnv o) (runAll (libEnv o) {} es).1 ⟨jar, .get name⟩).2 = ⟨200, .keep, .problem i⟩ ∧
      i.code = p.code ∧ i.res.get s = .some res ∧
      (libEnv o).parse p.parsing p.code = .ok (a, r) ∧ SrvA.Denotes a nn fms ∧
      SrvA.PropAnswer nn (fms.map Fm.sem) s (SrvA.storedI3 res) :=
  SrvC.reachable_served_answer o es hk jar u name p s res hs hf hres hb

/-- **reachable_served_answer_naive** (the property's first sentence for naive parsing, over histories):
in every state reached from the empty server by a deletion-free history, the models `GET` shows under
strategy `s` for a naively parsed document are exactly the definitional answer for the framework
denoted by the document's code -/
theorem reachable_served_answer_naive (o : Oracle) (es : List (Event String)) (hk : ∀ e ∈ es, e.keeps = true)
    (jar : Nat) (u name : String) (p : Problem String SAdf SRes) (s : Strategy) (res : SRes)
    (hs : (runAll (libEnv o) {} es).1.sess jar = some u)
    (hf : (runAll (libEnv o) {} es).1.db.problems.find? (isProb u name) = some p)
    (hnaive : p.parsing = .naive) (hres : p.res.get s = .some res)
    (hb : ∀ a r, (libEnv o).parse .naive p.code = .ok (a, r) →
      a.names.length ≤ VBOT ∧ SrvA.strategyHalts 1000000 a s = true) :
    ∃ (i : Info String SRes) (names : List String) (fms : List Fm),
      (ServerM.step (libEnv o) (runAll (libEnv o) {} es).1 ⟨jar, .get name⟩).2 = ⟨200, .keep, .problem i⟩ ∧
      i.code = p.code ∧ i.res.get s = .some res ∧
      conditions p.code = .ok (names, fms) ∧
      SrvA.PropAnswer names.length (fms.map Fm.sem) s (SrvA.storedI3 res) :=
  SrvC.reachable_served_answer_naive o es hk jar u name p s res hs hf hnaive hres hb

/-! the hypotheses of `reachable_served_answer_naive` on a concrete history of the concrete service, by
evaluation (the parser on a string literal does not reduce in the kernel): a deletion-free history after
which `GET` finds the document, naively parsed, with a `StableNogood` result, and the bound hypothesis
holds for its parse result -/
def histSrv : List (Event String) :=
  [.req ⟨0, .register "u" "pw" 0⟩, .req ⟨0, .login "u" "pw"⟩, .req ⟨0, .add "p" (some code1) none .naive "~t" "~p"⟩,
   .finish 0 0, .write 0 0, .req ⟨0, .solve "p" .stableNogood⟩, .finish 0 1, .write 0 1]

#guard histSrv.all Event.keeps
#guard (match (runAll (libEnv {}) {} histSrv).1.db.problems.find? (isProb "u" "p") with
  | some p => p.parsing == .naive && (p.res.get .stableNogood).isSome &&
      (match (libEnv {}).parse .naive p.code with
       | .ok (a, _) => decide (a.names.length ≤ VBOT) && SrvA.strategyHalts 1000000 a .stableNogood
       | .error _ => false)
  | none => false)

/-! ## 9. hybrid parsing in the service: the check, and the model of the `Parsing::Hybrid` arm

Section 7 adopts the table stored by hybrid parsing from the implementation and ASSUMES `SrvA.Denotes`
for it. Two repairs (`ServerHybrid.lean`): (a) the run-time check the driver prints for every adopted
table is now `storedAdfOK'` (= `storedAdfChk`: `storedAdfOK` plus "every root is an index of the table"
and "every inner node tests a declared statement"), and it IMPLIES `Denotes`; (b) `parseHybrid` models
the arm itself (`BdAdf::from_parser` + `hybrid_step_opt(false)` over a lawful biodivine library with
`Bio.DumpSpec`), and what it stores denotes the code. `SrvC.hybEnv` is the service with that arm. -/

section hybrid
open SrvC

/-- **stored_adf_check_implies_denotes**: a stored ADF for which the driver's check prints `ok` denotes
the conditions of the submitted text -/
theorem stored_adf_check_implies_denotes (code : String) (a : SAdf) (h : storedAdfOK' code a = "ok") :
    ∃ fms, conditions code = .ok (a.names, fms) ∧ SrvA.Denotes a a.names.length fms :=
  storedAdfOK'_denotes code a h

/-- the new check says `ok` exactly when the Boolean `storedAdfChk` holds, and repeats the old check's
objection whenever the old check objects -/
theorem stored_adf_check_messages (code : String) (a : SAdf) :
    (storedAdfOK' code a = "ok" ↔ storedAdfChk (conditions code) a = true) ∧
    (storedAdfOK code a ≠ "ok" → storedAdfChk (conditions code) a = false → storedAdfOK' code a = storedAdfOK code a) :=
  ⟨storedAdfOK'_ok_iff code a, storedAdfOK'_old_message code a⟩

/-- **hybrid_parse_denotes_code**: what the model of the `Parsing::Hybrid` arm stores denotes the
conditions of the submitted text (lawful library for the declared statements, dump as specified) -/
theorem hybrid_parse_denotes_code {T : Type} (Lf : Nat → Bio.Lib T) (dumpf : Nat → T → List Node) (key code : String)
    (a : SAdf) (r : SRes) (h : parseHybrid Lf dumpf key code = .ok (a, r))
    (W : Bio.Lawful (Lf a.names.length) a.names.length) (hd : Bio.DumpSpec W (dumpf a.names.length)) :
    ∃ fms, conditions code = .ok (a.names, fms) ∧ SrvA.Denotes a a.names.length fms ∧
      r = [⟨a.ac, graphOf a.names a.nodes a.ac⟩] :=
  parseHybrid_denotes Lf dumpf key code a r h W hd

/-- unparseable / panicking code: the hybrid arm reports the error of `conditions`, like the naive one -/
theorem hybrid_parse_error {T : Type} (Lf : Nat → Bio.Lib T) (dumpf : Nat → T → List Node) (key code : String) (e : Err)
    (h : conditions code = .error e) : parseHybrid Lf dumpf key code = .error e :=
  parseHybrid_of_conditions_error Lf dumpf key code e h

/-- **per submitted code**: the driver's service answers the parse of `code` as the service with the modelled arm does
whenever the table adopted for `code` is the model's: the model's table if the model parses `code` (`h`), no table if
the model's hybrid arm panics on biodivine's name / size check (`hbad`).  Non-vacuity: `adopted_service_example` -/
theorem adopted_service_is_modelled_service_at {T : Type} (Lf : Nat → Bio.Lib T) (dumpf : Nat → T → List Node)
    (o : Oracle) (code : String)
    (h : ∀ a r, parseHybrid Lf dumpf (parseKey .hybrid code) code = .ok (a, r) →
      lookupS (parseKey .hybrid code) o.hyb = some a)
    (hbad : ∀ x, conditions code = .ok x → bioVarsOK x.1 = false →
      lookupS (parseKey .hybrid code) o.hyb = none) :
    ∀ p, (libEnv o).parse p code = (hybEnv Lf dumpf).parse p code :=
  libEnv_eq_hybEnv_at Lf dumpf o code h hbad

-- (the all-codes form of this theorem was vacuous - no finite oracle satisfies its hypothesis - and was removed after the third review)

/-- a successful hybrid parse: every statement name passed `BddVariableSetBuilder::make_variable`'s checks
(none of `! & | ^ = < > ( ) ? :`, at most 65 534 names) - the `bioNameOK` condition of the CLI theorems,
here a CONSEQUENCE of success -/
theorem hybrid_parse_names_ok {T : Type} (Lf : Nat → Bio.Lib T) (dumpf : Nat → T → List Node) (key code : String)
    (a : SAdf) (r : SRes) (h : parseHybrid Lf dumpf key code = .ok (a, r)) :
    (∀ n ∈ a.names, CliM.bioNameOK n.toList = true) ∧ a.names.length ≤ 65534 := by
  have hv := parseHybrid_names_ok Lf dumpf key code a r h
  refine ⟨?_, bioVarsOK_length hv⟩
  unfold bioVarsOK at hv
  simp only [Bool.and_eq_true, List.all_eq_true] at hv
  exact hv.1

/-- … and with the name condition as a HYPOTHESIS valid code is parsed by the hybrid arm too -/
theorem hybrid_parse_ok_of_names {T : Type} (Lf : Nat → Bio.Lib T) (dumpf : Nat → T → List Node) (key code : String)
    (x : List String × List Fm) (h : conditions code = .ok x) (hv : bioVarsOK x.1 = true) :
    ∃ a, parseHybrid Lf dumpf key code = .ok (a, [⟨a.ac, graphOf a.names a.nodes a.ac⟩]) ∧ a.names = x.1 :=
  parseHybrid_of_conditions_ok Lf dumpf key code x h hv

/-- **hybrid_parse_rejects_special_labels - finding D6 through the web service, model level**: VALID code
(the parser accepts it, every `ac` names declared statements: `conditions code = .ok …`) one of whose
statement names contains a character of `! & | ^ = < > ( ) ? :` (possible only for a quoted label) is parsed
by naive parsing but makes the `Parsing::Hybrid` arm panic inside the blocking task
(`BddVariableSetBuilder::make_variable`); the parse function answers `Error` - C16's "unparseable code is
reported as error" has the unwanted converse "some valid code is reported as error" -/
theorem hybrid_parse_rejects_special_labels {T : Type} (Lf : Nat → Bio.Lib T) (dumpf : Nat → T → List Node) (key code : String)
    (x : List String × List Fm) (h : conditions code = .ok x)
    (hbad : ∃ n ∈ x.1, CliM.bioNameOK n.toList = false) :
    (∃ a r, parseNaive key code = .ok (a, r) ∧ a.names = x.1) ∧
    parseHybrid Lf dumpf key code = .error .panic := by
  constructor
  · obtain ⟨a, r, h1, h2, _⟩ := parseNaive_ok key code x h
    exact ⟨a, r, h1, h2⟩
  · apply parseHybrid_rejects_of_bad_names Lf dumpf key code x h
    obtain ⟨n, hn, hb⟩ := hbad
    unfold bioVarsOK
    have : x.1.all (fun n => CliM.bioNameOK n.toList) = false := by
      rw [List.all_eq_false]
      exact ⟨n, hn, by simp [hb]⟩
    simp [this]

/-- … what the service stores then: the hybrid parse task writes `Error` into `adf` and `parse_only`
(and `error_blocks_solve`: every solve request is refused) although the code is valid -/
theorem hybrid_parse_task_stores_error_for_special_labels {T : Type} (Lf : Nat → Bio.Lib T) (dumpf : Nat → T → List Node)
    (db : Db String SHash SAdf SRes) (j n : Nat) (t : TaskRec String SAdf) (code : String)
    (x : List String × List Fm) (hc : conditions code = .ok x) (hbad : ∃ n ∈ x.1, CliM.bioNameOK n.toList = false)
    (ht : nthOf j n db.tasks = some t) (hin : t.input = .parse code .hybrid)
    (hlive : t.blockingDone = true ∧ t.written = false)
    (p : Problem String SAdf SRes) (hp : db.problems.find? (isProb t.username t.name) = some p) :
    (dbEv (hybEnv Lf dumpf) db (.write j n)).problems.find? (isProb t.username t.name) =
      some { p with adf := .error .panic, parseOnly := .error .panic } :=
  parse_error_reported (hybEnv Lf dumpf) db j n t code .hybrid .panic ht hin hlive
    (hybrid_parse_rejects_special_labels Lf dumpf _ code x hc hbad).2 p hp

/-- the DRIVER's service in that case today: the implementation stored an error, so no table was adopted;
`libEnv` stores `Error:panic` as well (and the run-time monitor prints `violated valid-code-not-stored`) -/
theorem adopted_service_unadopted_valid_code (o : Oracle) (code : String) (x : List String × List Fm)
    (hacc : conditions code = .ok x) (hl : lookupS (parseKey .hybrid code) o.hyb = none) :
    (libEnv o).parse .hybrid code = .error .panic :=
  libEnv_parse_hybrid_unadopted o code x hacc hl

/-- **hybrid_parse_denotes_code on an executable arm, nothing assumed** (review 2 item 1): over the generic
truth-table library `Bio.ttLib` with the generic decision-tree dump `Bio.ttDump` -/
theorem hybrid_parse_denotes_code_tt (key code : String) (a : SAdf) (r : SRes)
    (h : parseHybrid Bio.ttLib Bio.ttDump key code = .ok (a, r)) :
    ∃ fms, conditions code = .ok (a.names, fms) ∧ SrvA.Denotes a a.names.length fms ∧
      r = [⟨a.ac, graphOf a.names a.nodes a.ac⟩] :=
  parseHybrid_tt_denotes key code a r h

/-- **served_answer_for_code_any_parsing** (the final corollary of section 7 for BOTH parsing strategies,
without a `Denotes` hypothesis): see `SrvC.served_answer_for_code_any_parsing` -/
theorem served_answer_for_code_any_parsing {T : Type} (Lf : Nat → Bio.Lib T) (dumpf : Nat → T → List Node)
    (st : State String SHash SAdf SRes) (j n jar : Nat)
    (t : TaskRec String SAdf) (pg : Parsing) (code : String) (a : SAdf) (r : SRes) (s : Strategy)
    (ht : nthOf j n st.db.tasks = some t) (hin : t.input = .solve a s)
    (hlive : t.blockingDone = true ∧ t.written = false)
    (hparse : (hybEnv Lf dumpf).parse pg code = .ok (a, r)) (hn : pg = .naive → a.names.length ≤ VBOT)
    (W : Bio.Lawful (Lf a.names.length) a.names.length) (hdump : Bio.DumpSpec W (dumpf a.names.length))
    (hh : SrvA.strategyHalts 1000000 a s = true)
    (p : Problem String SAdf SRes) (hp : st.db.problems.find? (isProb t.username t.name) = some p)
    (hs : st.sess jar = some t.username) :
    ∃ (fms : List Fm) (res : SRes) (i : Info String SRes),
      conditions code = .ok (a.names, fms) ∧
      (ServerM.step (hybEnv Lf dumpf) (ServerM.stepEv (hybEnv Lf dumpf) st (.write j n)).1 ⟨jar, .get t.name⟩).2 =
        ⟨200, .keep, .problem i⟩ ∧
      i.res.get s = .some res ∧ (∀ s', s' ≠ s → i.res.get s' = p.res.get s') ∧
      SrvA.PropAnswer a.names.length (fms.map Fm.sem) s (SrvA.storedI3 res) :=
  SrvC.served_answer_for_code_any_parsing Lf dumpf st j n jar t pg code a r s ht hin hlive hparse hn W hdump hh p hp hs

/-- … and on the driver's service (adopted tables), from the printed check: see
`SrvC.served_answer_for_code_hybrid_checked` -/
theorem served_answer_for_code_hybrid_checked (o : Oracle) (st : State String SHash SAdf SRes) (j n jar : Nat)
    (t : TaskRec String SAdf) (code : String) (a : SAdf) (r : SRes) (s : Strategy)
    (ht : nthOf j n st.db.tasks = some t) (hin : t.input = .solve a s)
    (hlive : t.blockingDone = true ∧ t.written = false)
    (hparse : (libEnv o).parse .hybrid code = .ok (a, r)) (hchk : storedAdfOK' code a = "ok")
    (hh : SrvA.strategyHalts 1000000 a s = true)
    (p : Problem String SAdf SRes) (hp : st.db.problems.find? (isProb t.username t.name) = some p)
    (hs : st.sess jar = some t.username) :
    ∃ (fms : List Fm) (res : SRes) (i : Info String SRes),
      conditions code = .ok (a.names, fms) ∧
      (ServerM.step (libEnv o) (ServerM.stepEv (libEnv o) st (.write j n)).1 ⟨jar, .get t.name⟩).2 = ⟨200, .keep, .problem i⟩ ∧
      i.res.get s = .some res ∧ (∀ s', s' ≠ s → i.res.get s' = p.res.get s') ∧
      SrvA.PropAnswer a.names.length (fms.map Fm.sem) s (SrvA.storedI3 res) :=
  SrvC.served_answer_for_code_hybrid_checked o st j n jar t code a r s ht hin hlive hparse hchk hh p hp hs

end hybrid

/-! ### non-vacuity of section 9

The Boolean check on the two-statement framework of section 6 (kernel-checked), and - by evaluation, the
parser on a string literal does not reduce in the kernel - the modelled hybrid arm over the computable
lawful library `Bio.ttLib` with the dump `Bio.ttDump2` (`Bio.ttDump2_spec : DumpSpec (ttLawful 2) ttDump2`):
it accepts `code1`, stores a table for the names `a`, `b` that passes the driver's check, and the
bound hypothesis holds for all six strategies on it. -/

example : storedAdfChk (.ok (["a", "b"], [.not (.atom 1), .not (.atom 0)])) a1 = true := by decide +kernel
-- a table the OLD check accepted although it does not denote the conditions everywhere: the root of `a`
-- tests the undeclared variable 7 below the declared ones (the new check objects)
def tabBad : Array Node := #[⟨VBOT, 0, 0⟩, ⟨VTOP, 1, 1⟩, ⟨7, 1, 0⟩, ⟨1, 2, 0⟩, ⟨0, 1, 0⟩]
example : storedAdfOKC (.ok (["a", "b"], [.not (.atom 1), .not (.atom 0)])) { names := ["a", "b"], nodes := tabBad, ac := [3, 4] } = "ok" := by
  decide +kernel
example : storedAdfChk (.ok (["a", "b"], [.not (.atom 1), .not (.atom 0)])) { names := ["a", "b"], nodes := tabBad, ac := [3, 4] } = false := by
  decide +kernel
example : ∃ W : Bio.Lawful (Bio.ttLib 2) 2, Bio.DumpSpec W Bio.ttDump2 := ⟨Bio.ttLawful 2, Bio.ttDump2_spec⟩

#guard (match parseHybrid (fun n => Bio.ttLib n) (fun _ => Bio.ttDump2) "k" code1 with
  | .ok (a, _) => a.names == ["a", "b"] && a.ac.length == 2 && storedAdfOK' code1 a == "ok" &&
      allSix.all (fun s => SrvA.strategyHalts 1000000 a s) &&
      (match solveAdf a .stable with | .ok r => r.length == 2 | .error _ => false)
  | .error _ => false)

/-- the repaired dump hypothesis `∀ n ≤ VBOT` HAS an instance (the old `∀ n` had none) -/
example : ∃ W : ∀ n, Bio.Lawful (Bio.ttLib n) n, ∀ n, n ≤ VBOT → Bio.DumpSpec (W n) (Bio.ttDump n) := SrvC.tt_hyps

/-- the code of finding D6 (quoted label `a&b`): valid, naive parsing stores a framework, the modelled
hybrid arm answers `Error:panic` - and with harmless labels the arm over `Bio.ttLib` / `Bio.ttDump` (the
generic library, any number of statements) stores a table that passes the driver's check -/
def codeD6 : String := "s(\"a&b\").s(c).ac(\"a&b\",c).ac(c,\"a&b\")."
example : bioVarsOK ["a&b", "c"] = false := by decide
example : bioVarsOK ["a", "b"] = true := by decide
#guard (match conditions codeD6 with | .ok (ns, _) => ns == ["a&b", "c"] | .error _ => false)
#guard (match parseNaive "k" codeD6 with | .ok (a, _) => a.names == ["a&b", "c"] | .error _ => false)
#guard (match parseHybrid Bio.ttLib Bio.ttDump "k" codeD6 with | .error .panic => true | _ => false)
#guard (match parseHybrid Bio.ttLib Bio.ttDump "k" code1 with
  | .ok (a, _) => a.names == ["a", "b"] && storedAdfOK' code1 a == "ok"
  | .error _ => false)

/-! ## 10. every reachable state of EVERY history, with finding D9 as the explicit carve-out

Section 8 excludes the three requests that remove or rename documents. `ServerStale.lean`,
`ServerProv.lean`, `ServerD9.lean` prove, for ALL histories (any environment):

* `reachable_untainted_belong_to_the_code`: along the history a ghost set of TAINTED keys (user name,
  problem name) is computed from the observable state changes (`taintRun`); a key becomes tainted exactly
  in D9's shape - a document appears under it (created, or moved there by a rename) while an unwritten
  task spawned under that key exists, or while another document already carries it, or it is moved from
  a tainted key - and is cleared when a document is created under a key with no document and no unwritten
  task. Every document under an untainted key stores only what belongs to its OWN code.
* `no_d9_all_belong`, `recreated_clean_belongs`: the two readable corollaries (no D9 shape anywhere /
  the last creation under this key met no unwritten task of the key).
* `reachable_results_from_submitted_codes`: even under a tainted key, every stored result is
  `E.solve a s` for `a = E.parse parsing code` of a (parsing, code) RECORDED FOR THAT KEY: the code of a
  document that carried the key at some point of the history, or - after a rename `u → u'` - one recorded
  for the old key. -/

section allHistories
variable {T H A R : Type} [DecidableEq T]

/-- **reachable_untainted_belong_to_the_code**: see `ServerM.reachable_untainted_belong_to_the_code` -/
theorem reachable_untainted_belong_to_the_code (E : Env T H A R) (es : List (Event T)) (p : Problem T A R)
    (hp : p ∈ (runAll E {} es).1.db.problems)
    (hn : taintRun E {} (fun _ _ => false) es p.username p.name = false) :
    (∀ a, p.adf = .some a → ∃ r, E.parse p.parsing p.code = .ok (a, r)) ∧
    (∀ s res, p.res.get s = .some res → ∃ a r, E.parse p.parsing p.code = .ok (a, r) ∧ E.solve a s = .ok res) :=
  ServerM.reachable_untainted_belong_to_the_code E es p hp hn

/-- **no_d9_all_belong**: histories without D9's shape (deletions, account removals, renames allowed) -/
theorem no_d9_all_belong (E : Env T H A R) (es : List (Event T)) (hd : NoStaleWrite E {} es) (p : Problem T A R)
    (hp : p ∈ (runAll E {} es).1.db.problems) :
    (∀ a, p.adf = .some a → ∃ r, E.parse p.parsing p.code = .ok (a, r)) ∧
    (∀ s res, p.res.get s = .some res → ∃ a r, E.parse p.parsing p.code = .ok (a, r) ∧ E.solve a s = .ok res) :=
  ServerM.no_d9_all_belong E es hd p hp

/-- **recreated_clean_belongs**: D9's history shape is the ONLY exception, key by key: if the last event
that made a document appear under `(u, n)` was not a rename and met no document and NO UNWRITTEN TASK of
that key, the document under `(u, n)` stores only what belongs to its own code, whatever happened before -/
theorem recreated_clean_belongs (E : Env T H A R) (es1 es2 : List (Event T)) (e : Event T) (u n : T)
    (hz : docsAt (runAll E {} es1).1.db u n = 0)
    (happ : 0 < docsAt (ServerM.stepEv E (runAll E {} es1).1 e).1.db u n)
    (hpend : pendingAt (runAll E {} es1).1.db u n = false)
    (hren : renameOf (runAll E {} es1).1 e = none)
    (hg : NoGrowAt E u n (ServerM.stepEv E (runAll E {} es1).1 e).1 es2)
    (p : Problem T A R) (hp : p ∈ (runAll E {} (es1 ++ e :: es2)).1.db.problems)
    (hk : p.username = u ∧ p.name = n) :
    (∀ a, p.adf = .some a → ∃ r, E.parse p.parsing p.code = .ok (a, r)) ∧
    (∀ s res, p.res.get s = .some res → ∃ a r, E.parse p.parsing p.code = .ok (a, r) ∧ E.solve a s = .ok res) :=
  ServerM.recreated_clean_belongs E es1 es2 e u n hz happ hpend hren hg p hp hk

/-- the deletion-free histories of section 8 never show D9's shape: `reachable_results_belong_to_the_code`
is `no_d9_all_belong` restricted to them -/
theorem deletion_free_no_d9 (E : Env T H A R) (es : List (Event T)) (hk : ∀ e ∈ es, e.keeps = true) : NoStaleWrite E {} es :=
  noD9_of_keeps E es {} (Good.init E) hk

/-- **reachable_results_from_submitted_codes**: provenance under EVERY key, tainted or not -/
theorem reachable_results_from_submitted_codes (E : Env T H A R) (es : List (Event T)) (p : Problem T A R)
    (hp : p ∈ (runAll E {} es).1.db.problems) (s : Strategy) (res : R) (hr : p.res.get s = .some res) :
    ∃ x ∈ subsRun E {} (fun _ _ => []) es p.username p.name, x ∈ everCodes E {} es ∧
      ∃ a r, E.parse x.1 x.2 = .ok (a, r) ∧ E.solve a s = .ok res :=
  ServerM.reachable_results_from_submitted_codes E es p hp s res hr

end allHistories

/-- **reachable_served_answer_all** (the concrete service with the modelled hybrid arm, BOTH parsing
strategies, histories with deletions and renames but without D9's stale-write shape, the driver's search
bound): see `SrvC.reachable_served_answer_all`. The dump hypothesis is demanded for `n ≤ VBOT` only (review 2
item 1: for all `n` it is unsatisfiable); instance: `reachable_served_answer_tt`. -/
theorem reachable_served_answer_all {T : Type} (Lf : Nat → Bio.Lib T) (dumpf : Nat → T → List Node)
    (W : ∀ n, Bio.Lawful (Lf n) n) (hdump : ∀ n, n ≤ VBOT → Bio.DumpSpec (W n) (dumpf n))
    (es : List (Event String)) (hd9 : NoStaleWrite (SrvC.hybEnv Lf dumpf) {} es)
    (jar : Nat) (u name : String) (p : Problem String SAdf SRes) (s : Strategy) (res : SRes)
    (hs : (runAll (SrvC.hybEnv Lf dumpf) {} es).1.sess jar = some u)
    (hf : (runAll (SrvC.hybEnv Lf dumpf) {} es).1.db.problems.find? (isProb u name) = some p)
    (hres : p.res.get s = .some res)
    (hb : ∀ a r, (SrvC.hybEnv Lf dumpf).parse p.parsing p.code = .ok (a, r) →
      (p.parsing = .naive → a.names.length ≤ VBOT) ∧ SrvA.strategyHalts 1000000 a s = true) :
    ∃ (i : Info String SRes) (names : List String) (fms : List Fm),
      (ServerM.step (SrvC.hybEnv Lf dumpf) (runAll (SrvC.hybEnv Lf dumpf) {} es).1 ⟨jar, .get name⟩).2 = ⟨200, .keep, .problem i⟩ ∧
      i.code = p.code ∧ i.res.get s = .some res ∧
      conditions p.code = .ok (names, fms) ∧
      SrvA.PropAnswer names.length (fms.map Fm.sem) s (SrvA.storedI3 res) :=
  SrvC.reachable_served_answer_all Lf dumpf W hdump es hd9 jar u name p s res hs hf hres hb

/-- **reachable_served_answer_all_bounds** (review 2 items 1 and 4): the same for the service whose solve task
bounds the nogood search by `F`, for EVERY `F ≥ F0`, where `F0` is any bound within which the search halts
on the document's framework. The Rust loop is UNBOUNDED; the stored result is the same for all `F ≥ F0`
(`solve_fuel_monotone`), the driver's `10^6` is one instance (`SrvC.hybEnvF_bound`) -/
theorem reachable_served_answer_all_bounds {T : Type} (F0 F : Nat) (hF : F0 ≤ F)
    (Lf : Nat → Bio.Lib T) (dumpf : Nat → T → List Node)
    (W : ∀ n, Bio.Lawful (Lf n) n) (hdump : ∀ n, n ≤ VBOT → Bio.DumpSpec (W n) (dumpf n))
    (es : List (Event String)) (jar : Nat) (u name : String) (p : Problem String SAdf SRes) (s : Strategy) (res : SRes)
    (hs : (runAll (SrvC.hybEnvF F Lf dumpf) {} es).1.sess jar = some u)
    (hf : (runAll (SrvC.hybEnvF F Lf dumpf) {} es).1.db.problems.find? (isProb u name) = some p)
    (hclean : taintRun (SrvC.hybEnvF F Lf dumpf) {} (fun _ _ => false) es u name = false)
    (hres : p.res.get s = .some res)
    (hb : ∀ a r, (SrvC.hybEnvF F Lf dumpf).parse p.parsing p.code = .ok (a, r) →
      (p.parsing = .naive → a.names.length ≤ VBOT) ∧ SrvA.strategyHalts F0 a s = true) :
    ∃ (i : Info String SRes) (names : List String) (fms : List Fm),
      (ServerM.step (SrvC.hybEnvF F Lf dumpf) (runAll (SrvC.hybEnvF F Lf dumpf) {} es).1 ⟨jar, .get name⟩).2 =
        ⟨200, .keep, .problem i⟩ ∧
      i.code = p.code ∧ i.res.get s = .some res ∧
      conditions p.code = .ok (names, fms) ∧
      SrvA.PropAnswer names.length (fms.map Fm.sem) s (SrvA.storedI3 res) :=
  SrvC.reachable_served_answer_untainted_bound F0 F hF Lf dumpf W hdump es jar u name p s res hs hf hclean hres hb

/-- **reachable_served_answer_tt**: … instantiated with the generic truth-table library and its generic dump
(`Bio.ttLib`, `Bio.ttDump`, `Bio.ttDump_spec`): NO hypothesis about an external library is left, the
service is executable (`#guard`s below), so the two theorems above are demonstrably non-vacuous -/
theorem reachable_served_answer_tt (F0 F : Nat) (hF : F0 ≤ F)
    (es : List (Event String)) (jar : Nat) (u name : String) (p : Problem String SAdf SRes) (s : Strategy) (res : SRes)
    (hs : (runAll (SrvC.hybEnvF F Bio.ttLib Bio.ttDump) {} es).1.sess jar = some u)
    (hf : (runAll (SrvC.hybEnvF F Bio.ttLib Bio.ttDump) {} es).1.db.problems.find? (isProb u name) = some p)
    (hclean : taintRun (SrvC.hybEnvF F Bio.ttLib Bio.ttDump) {} (fun _ _ => false) es u name = false)
    (hres : p.res.get s = .some res)
    (hb : ∀ a r, (SrvC.hybEnvF F Bio.ttLib Bio.ttDump).parse p.parsing p.code = .ok (a, r) →
      (p.parsing = .naive → a.names.length ≤ VBOT) ∧ SrvA.strategyHalts F0 a s = true) :
    ∃ (i : Info String SRes) (names : List String) (fms : List Fm),
      (ServerM.step (SrvC.hybEnvF F Bio.ttLib Bio.ttDump) (runAll (SrvC.hybEnvF F Bio.ttLib Bio.ttDump) {} es).1 ⟨jar, .get name⟩).2 =
        ⟨200, .keep, .problem i⟩ ∧
      i.code = p.code ∧ i.res.get s = .some res ∧
      conditions p.code = .ok (names, fms) ∧
      SrvA.PropAnswer names.length (fms.map Fm.sem) s (SrvA.storedI3 res) :=
  SrvC.reachable_served_answer_tt F0 F hF es jar u name p s res hs hf hclean hres hb

/-! the hypotheses of `reachable_served_answer_tt` on a concrete history with HYBRID parsing, a deletion and a
re-creation, `StableNogood`, search bound 2000 with `F0 = 1000` (by evaluation) -/
def histTT : List (Event String) :=
  [.req ⟨0, .register "u" "pw" 0⟩, .req ⟨0, .login "u" "pw"⟩, .req ⟨0, .add "p" (some code1) none .naive "~t" "~p"⟩,
   .finish 0 0, .write 0 0, .req ⟨0, .delete "p"⟩, .req ⟨0, .add "p" (some code1) none .hybrid "~t" "~p"⟩,
   .finish 0 1, .write 0 1, .req ⟨0, .solve "p" .stableNogood⟩, .finish 0 2, .write 0 2]

#guard taintRun (SrvC.hybEnvF 2000 Bio.ttLib Bio.ttDump) {} (fun _ _ => false) histTT "u" "p" == false
#guard (match (runAll (SrvC.hybEnvF 2000 Bio.ttLib Bio.ttDump) {} histTT).1.db.problems.find? (isProb "u" "p") with
  | some p => p.parsing == .hybrid && (match p.res.get .stableNogood with | .some r => r.length == 2 | _ => false) &&
      (match (SrvC.hybEnvF 2000 Bio.ttLib Bio.ttDump).parse p.parsing p.code with
       | .ok (a, _) => SrvA.strategyHalts 1000 a .stableNogood
       | .error _ => false)
  | none => false)

/-- **reachable_served_answer_checked** (the DRIVER's service, every history, BOTH parsing strategies): if
the key of the document `GET` finds is untainted, the result shown under `s` is the definitional answer
for the framework its own code denotes - given that every adopted hybrid table passed the printed check
`storedAdfOK'`. See `SrvC.reachable_served_answer_checked`; with `taintRun_noD9` (no D9 shape at all) or
`recreated_clean_belongs` (per key) the taint hypothesis becomes a statement about the history's shape. -/
theorem reachable_served_answer_checked (o : SrvC.Oracle)
    (hchk : ∀ code a, SrvC.lookupS (SrvC.parseKey .hybrid code) o.hyb = some a → storedAdfOK' code a = "ok")
    (es : List (Event String)) (jar : Nat) (u name : String) (p : Problem String SAdf SRes) (s : Strategy) (res : SRes)
    (hs : (runAll (SrvC.libEnv o) {} es).1.sess jar = some u)
    (hf : (runAll (SrvC.libEnv o) {} es).1.db.problems.find? (isProb u name) = some p)
    (hclean : taintRun (SrvC.libEnv o) {} (fun _ _ => false) es u name = false)
    (hres : p.res.get s = .some res)
    (hb : ∀ a r, (SrvC.libEnv o).parse p.parsing p.code = .ok (a, r) →
      (p.parsing = .naive → a.names.length ≤ VBOT) ∧ SrvA.strategyHalts 1000000 a s = true) :
    ∃ (i : Info String SRes) (names : List String) (fms : List Fm),
      (ServerM.step (SrvC.libEnv o) (runAll (SrvC.libEnv o) {} es).1 ⟨jar, .get name⟩).2 = ⟨200, .keep, .problem i⟩ ∧
      i.code = p.code ∧ i.res.get s = .some res ∧
      conditions p.code = .ok (names, fms) ∧
      SrvA.PropAnswer names.length (fms.map Fm.sem) s (SrvA.storedI3 res) :=
  SrvC.reachable_served_answer_checked o hchk es jar u name p s res hs hf hclean hres hb

/-! the hypotheses of `reachable_served_answer_checked` on a concrete history of the concrete service WITH a
deletion and a re-creation (by evaluation; the parser on a string literal does not reduce in the kernel):
the document is deleted after its parse task has written, re-created with hybrid parsing from the table the
modelled hybrid arm produces (which passes the check), solved; the key is untainted at the end -/
def oHyb : SrvC.Oracle :=
  { hyb := match parseHybrid (fun n => Bio.ttLib n) (fun _ => Bio.ttDump2) (SrvC.parseKey .hybrid code1) code1 with
      | .ok (a, _) => [(SrvC.parseKey .hybrid code1, a)]
      | .error _ => [] }

/-- non-vacuity of `adopted_service_is_modelled_service_at`: the oracle `oHyb` (the table adopted for `code1`) and
`code1` satisfy both hypotheses for the truth-table library, so the driver's service and the modelled service parse
`code1` alike under both strategies -/
theorem adopted_service_example (p : Parsing) :
    (SrvC.libEnv oHyb).parse p code1 = (hybEnv (fun n => Bio.ttLib n) (fun _ => Bio.ttDump2)).parse p code1 := by
  apply adopted_service_is_modelled_service_at (fun n => Bio.ttLib n) (fun _ => Bio.ttDump2) oHyb code1
  · intro a r hp
    simp only [oHyb, hp]
    simp [SrvC.lookupS]
  · intro x hc hv
    have := parseHybrid_rejects_of_bad_names (fun n => Bio.ttLib n) (fun _ => Bio.ttDump2)
      (SrvC.parseKey .hybrid code1) code1 x hc hv
    simp only [oHyb, this]
    rfl

def histSrvDel : List (Event String) :=
  [.req ⟨0, .register "u" "pw" 0⟩, .req ⟨0, .login "u" "pw"⟩, .req ⟨0, .add "p" (some code1) none .naive "~t" "~p"⟩,
   .finish 0 0, .write 0 0, .req ⟨0, .delete "p"⟩, .req ⟨0, .add "p" (some code1) none .hybrid "~t" "~p"⟩,
   .finish 0 1, .write 0 1, .req ⟨0, .solve "p" .stable⟩, .finish 0 2, .write 0 2]

#guard oHyb.hyb.all (fun x => storedAdfOK' code1 x.2 == "ok") && oHyb.hyb.length == 1
#guard taintRun (SrvC.libEnv oHyb) {} (fun _ _ => false) histSrvDel "u" "p" == false
#guard (match (runAll (SrvC.libEnv oHyb) {} histSrvDel).1.db.problems.find? (isProb "u" "p") with
  | some p => p.parsing == .hybrid && (match p.res.get .stable with | .some r => r.length == 2 | _ => false)
  | none => false)

/-! ### non-vacuity of section 10 (the toy library `Etoy` of section 8) -/

-- D9's history: the key (1, 5) IS tainted at the end, and the shape shows at the re-creation (5th event)
example : taintRun Etoy {} (fun _ _ => false) histStale 1 5 = true := by decide
example : d9Shape Etoy (runAll Etoy {} (histStale.take 4)).1 (.req ⟨0, .add 5 (some 8) none .naive 100 101⟩) 1 5 = true := by decide
-- … and even there the stored framework 7 is the parse result of a code recorded for the key
example : subsRun Etoy {} (fun _ _ => []) histStale 1 5 = [(.naive, 7), (.naive, 8), (.naive, 8), (.naive, 8)] := by decide

/-- delete AFTER the parse task has written, re-create with another code, solve; then rename the account
(1 → 2) and solve again under the new name: deletions and renames, no D9 shape -/
def histRecreate : List (Event Nat) :=
  [.req ⟨0, .register 1 7 0⟩, .req ⟨0, .login 1 7⟩, .req ⟨0, .add 5 (some 7) none .naive 100 101⟩,
   .finish 0 0, .write 0 0, .req ⟨0, .delete 5⟩, .req ⟨0, .add 5 (some 8) none .naive 100 101⟩, .finish 0 1, .write 0 1,
   .req ⟨0, .solve 5 .ground⟩, .finish 0 2, .write 0 2, .req ⟨0, .update 2 7 0⟩, .req ⟨0, .solve 5 .complete⟩,
   .finish 0 3, .write 0 3]

example : NoStaleWrite Etoy {} histRecreate := noD9b_sound Etoy _ _ (by decide)
example : (runAll Etoy {} histRecreate).1.db.problems.map (fun p => (p.username, p.code, p.adf, p.res.ground, p.res.complete)) =
    [(2, 8, .some 8, .some 108, .some 108)] := by decide
-- the hypotheses of `recreated_clean_belongs` at the re-creation (7th event) for the key (1, 5)
example : docsAt (runAll Etoy {} (histRecreate.take 6)).1.db 1 5 = 0 ∧
    0 < docsAt (ServerM.stepEv Etoy (runAll Etoy {} (histRecreate.take 6)).1 (.req ⟨0, .add 5 (some 8) none .naive 100 101⟩)).1.db 1 5 ∧
    pendingAt (runAll Etoy {} (histRecreate.take 6)).1.db 1 5 = false ∧
    renameOf (runAll Etoy {} (histRecreate.take 6)).1 (.req ⟨0, .add 5 (some 8) none .naive 100 101⟩) = none ∧
    NoGrowAt Etoy 1 5 (ServerM.stepEv Etoy (runAll Etoy {} (histRecreate.take 6)).1 (.req ⟨0, .add 5 (some 8) none .naive 100 101⟩)).1
      [.finish 0 1, .write 0 1, .req ⟨0, .solve 5 .ground⟩, .finish 0 2, .write 0 2] := by
  refine ⟨by decide, by decide, by decide, by decide, by decide, by decide, by decide, by decide, by decide, trivial⟩

/-! ## 11. the search bound is irrelevant once the search has halted (review 2 item 4)

`nogood_internal` in the Rust is a `loop` WITHOUT a bound; the model bounds it by a fuel. Every `hybEnv` history theorem
above (third review: NOT the `libEnv` theorems `reachable_served_answer_checked`, `served_answer*`,
`reachable_served_answer(_naive)`, which stay stated at 10^6 - transfer them with `solve_fuel_monotone`)
that mentions `SrvA.strategyHalts 1000000 a s` is the instance `F0 = F = 10^6` of a statement "for every bound
`F ≥ F0`", `F0` any bound within which the search halts - and such an `F0` always exists
(`stored_answers_exact_every_large_bound`); explicitly `F0 = 2^(n+3)` for `n` statements
(`strategy_halts_within_explicit_bound`), which is `≤ 10^6` for `n ≤ 16`
(`strategy_halts_for_small_frameworks`). -/

/-- **solve_fuel_monotone**: if the strategy's search halts within `F` iterations, the solve task returns
the same result, and still halts, for every bound `F' ≥ F` -/
theorem solve_fuel_monotone (F F' : Nat) (a : SAdf) (s : Strategy) (hh : SrvA.strategyHalts F a s = true) (hF : F ≤ F') :
    SrvA.solveAdfF F' a s = SrvA.solveAdfF F a s ∧ SrvA.strategyHalts F' a s = true :=
  ⟨SrvA.solveAdfF_mono F F' a s hh hF, SrvA.strategyHalts_mono F F' a s hh hF⟩

/-- **stored_answers_exact_all_bounds**: ONE result for all bounds `F ≥ F0`, and it is the specification's
answer - the statement about the unbounded loop -/
theorem stored_answers_exact_all_bounds (F0 : Nat) (a : SAdf) (n : Nat) (fms : List Fm) (s : Strategy)
    (h : SrvA.Denotes a n fms) (hh : SrvA.strategyHalts F0 a s = true) :
    ∃ res, (∀ F, F0 ≤ F → SrvA.solveAdfF F a s = .ok res ∧ SrvA.strategyHalts F a s = true) ∧
      (SrvA.storedI3 res).Perm (Cli.specSection n (CliF.tablesOf n fms) (SrvA.secOf s)) :=
  SrvA.stored_answers_exact_from_bound F0 a n fms s h hh

/-- the driver's model `solveAdf` (bound 10^6) is the instance: whenever the search halts within SOME
`F0 ≤ 10^6`, `solveAdf` returns the result of every bound `F ≥ F0` -/
theorem stored_answers_exact_driver_instance (F0 : Nat) (hF0 : F0 ≤ 1000000) (a : SAdf) (n : Nat) (fms : List Fm) (s : Strategy)
    (h : SrvA.Denotes a n fms) (hh : SrvA.strategyHalts F0 a s = true) :
    ∃ res, solveAdf a s = .ok res ∧ (∀ F, F0 ≤ F → SrvA.solveAdfF F a s = .ok res) ∧
      (SrvA.storedI3 res).Perm (Cli.specSection n (CliF.tablesOf n fms) (SrvA.secOf s)) := by
  obtain ⟨res, h1, h2⟩ := stored_answers_exact_all_bounds F0 a n fms s h hh
  exact ⟨res, by rw [← solve_model_is_bound_instance]; exact (h1 _ hF0).1, fun F hF => (h1 F hF).1, h2⟩

/-! ### the explicit bound (both reviews' "fuel" items)

C05's termination argument with the iterations counted (`C05.ng_search_halts_within_explicit_bound`) bounds
the search of a framework with `n` statements by `NConc.ngBound n = 2^(n+3)` iterations. So the hypothesis
`SrvA.strategyHalts 1000000 a s` of the `served_answer*` / `reachable_served_answer*` theorems is PROVED
whenever the stored framework denotes at most 16 conditions (`2^19 = 524288 ≤ 10^6 < 2^20`). Beyond that
size it remains a hypothesis: the Rust loop has no bound, the bound is necessarily exponential, and for
larger frameworks "halted within 10^6" is established by evaluation only. -/

/-- the strategy's search has halted within every bound `≥ 2^(n+3)` -/
theorem strategy_halts_within_explicit_bound (a : SAdf) (n : Nat) (fms : List Fm) (s : Strategy)
    (h : SrvA.Denotes a n fms) : ∀ fuel, NConc.ngBound n ≤ fuel → SrvA.strategyHalts fuel a s = true :=
  SrvA.strategyHalts_within a n fms s h

/-- **`strategyHalts 1000000 a s` holds for every stored framework with at most 16 statements**, all six
strategies -/
theorem strategy_halts_for_small_frameworks (a : SAdf) (n : Nat) (fms : List Fm) (s : Strategy)
    (h : SrvA.Denotes a n fms) (h16 : n ≤ 16) : SrvA.strategyHalts 1000000 a s = true :=
  SrvA.strategyHalts_of_le_16 a n fms s h h16

/-- ONE result for all bounds `≥ 2^(n+3)`, the specification's answer - no halting hypothesis -/
theorem stored_answers_exact_within_explicit_bound (a : SAdf) (n : Nat) (fms : List Fm) (s : Strategy)
    (h : SrvA.Denotes a n fms) :
    ∃ res, (∀ F, NConc.ngBound n ≤ F → SrvA.solveAdfF F a s = .ok res ∧ SrvA.strategyHalts F a s = true) ∧
      (SrvA.storedI3 res).Perm (Cli.specSection n (CliF.tablesOf n fms) (SrvA.secOf s)) :=
  SrvA.stored_answers_exact_within a n fms s h

/-- the driver's model `solveAdf` (bound 10^6) on a stored framework with at most 16 statements: exact for
all six strategies, nothing assumed about bounds -/
theorem stored_answers_exact_driver_model_small (a : SAdf) (n : Nat) (fms : List Fm) (s : Strategy)
    (h : SrvA.Denotes a n fms) (h16 : n ≤ 16) :
    ∃ res, solveAdf a s = .ok res ∧
      (SrvA.storedI3 res).Perm (Cli.specSection n (CliF.tablesOf n fms) (SrvA.secOf s)) := by
  obtain ⟨res, h1, h2⟩ := stored_answers_exact_within_explicit_bound a n fms s h
  refine ⟨res, ?_, h2⟩
  rw [← solve_model_is_bound_instance]
  exact (h1 1000000 ((C05.explicit_bound_within_driver_bound_iff n).mpr h16)).1

/-- **`served_answer_for_code` WITHOUT the fuel hypothesis** (naive parsing) for submitted texts with at
most 16 statements: the hypotheses `hn` and `hh` of `served_answer_for_code` are replaced by `h16` -/
theorem served_answer_for_code_small_frameworks (o : Oracle) (st : State String SHash SAdf SRes) (j n jar : Nat)
    (t : TaskRec String SAdf) (code : String) (a : SAdf) (r : SRes) (s : Strategy)
    (ht : nthOf j n st.db.tasks = some t) (hin : t.input = .solve a s)
    (hlive : t.blockingDone = true ∧ t.written = false)
    (hparse : (SrvC.libEnv o).parse .naive code = .ok (a, r)) (h16 : a.names.length ≤ 16)
    (p : Problem String SAdf SRes) (hp : st.db.problems.find? (isProb t.username t.name) = some p)
    (hs : st.sess jar = some t.username) :
    ∃ (fms : List Fm) (res : SRes) (i : Info String SRes),
      conditions code = .ok (a.names, fms) ∧
      (ServerM.step (SrvC.libEnv o) (stepEv (SrvC.libEnv o) st (.write j n)).1 ⟨jar, .get t.name⟩).2 = ⟨200, .keep, .problem i⟩ ∧
      i.res.get s = .some res ∧ (∀ s', s' ≠ s → i.res.get s' = p.res.get s') ∧
      SrvA.PropAnswer a.names.length (fms.map Fm.sem) s (SrvA.storedI3 res) :=
  SrvC.served_answer_for_code_le_16 o st j n jar t code a r s ht hin hlive hparse h16 p hp hs

/-- the same for BOTH parsing strategies on the service with the modelled hybrid arm -/
theorem served_answer_for_code_any_parsing_small_frameworks {T : Type} (Lf : Nat → Bio.Lib T) (dumpf : Nat → T → List Node)
    (st : State String SHash SAdf SRes) (j n jar : Nat)
    (t : TaskRec String SAdf) (pg : Parsing) (code : String) (a : SAdf) (r : SRes) (s : Strategy)
    (ht : nthOf j n st.db.tasks = some t) (hin : t.input = .solve a s)
    (hlive : t.blockingDone = true ∧ t.written = false)
    (hparse : (hybEnv Lf dumpf).parse pg code = .ok (a, r)) (h16 : a.names.length ≤ 16)
    (W : Bio.Lawful (Lf a.names.length) a.names.length) (hdump : Bio.DumpSpec W (dumpf a.names.length))
    (p : Problem String SAdf SRes) (hp : st.db.problems.find? (isProb t.username t.name) = some p)
    (hs : st.sess jar = some t.username) :
    ∃ (fms : List Fm) (res : SRes) (i : Info String SRes),
      conditions code = .ok (a.names, fms) ∧
      (ServerM.step (hybEnv Lf dumpf) (ServerM.stepEv (hybEnv Lf dumpf) st (.write j n)).1 ⟨jar, .get t.name⟩).2 =
        ⟨200, .keep, .problem i⟩ ∧
      i.res.get s = .some res ∧ (∀ s', s' ≠ s → i.res.get s' = p.res.get s') ∧
      SrvA.PropAnswer a.names.length (fms.map Fm.sem) s (SrvA.storedI3 res) :=
  SrvC.served_answer_for_code_any_parsing_le_16 Lf dumpf st j n jar t pg code a r s ht hin hlive hparse h16 W hdump p hp hs

/-- … and on the driver's service for a hybrid document whose adopted table passed the printed check -/
theorem served_answer_for_code_hybrid_checked_small_frameworks (o : Oracle) (st : State String SHash SAdf SRes)
    (j n jar : Nat) (t : TaskRec String SAdf) (code : String) (a : SAdf) (r : SRes) (s : Strategy)
    (ht : nthOf j n st.db.tasks = some t) (hin : t.input = .solve a s)
    (hlive : t.blockingDone = true ∧ t.written = false)
    (hparse : (SrvC.libEnv o).parse .hybrid code = .ok (a, r)) (hchk : storedAdfOK' code a = "ok")
    (h16 : a.names.length ≤ 16)
    (p : Problem String SAdf SRes) (hp : st.db.problems.find? (isProb t.username t.name) = some p)
    (hs : st.sess jar = some t.username) :
    ∃ (fms : List Fm) (res : SRes) (i : Info String SRes),
      conditions code = .ok (a.names, fms) ∧
      (ServerM.step (SrvC.libEnv o) (ServerM.stepEv (SrvC.libEnv o) st (.write j n)).1 ⟨jar, .get t.name⟩).2 =
        ⟨200, .keep, .problem i⟩ ∧
      i.res.get s = .some res ∧ (∀ s', s' ≠ s → i.res.get s' = p.res.get s') ∧
      SrvA.PropAnswer a.names.length (fms.map Fm.sem) s (SrvA.storedI3 res) :=
  SrvC.served_answer_for_code_hybrid_checked_le_16 o st j n jar t code a r s ht hin hlive hparse hchk h16 p hp hs

/-- non-vacuity, KERNEL-checked (no evaluation): on the stored framework `a1` of
`s(a).s(b).ac(a,neg(b)).ac(b,neg(a)).` the search of `StableNogood` has halted within the driver's bound,
and the driver's model stores exactly the two stable models -/
example : SrvA.strategyHalts 1000000 a1 .stableNogood = true ∧
    ∃ res, solveAdf a1 .stableNogood = .ok res ∧
      (SrvA.storedI3 res).Perm [[some true, some false], [some false, some true]] := by
  refine ⟨strategy_halts_for_small_frameworks a1 2 _ .stableNogood denotes1 (by decide), ?_⟩
  obtain ⟨res, h1, h2⟩ := stored_answers_exact_driver_model_small a1 2 _ .stableNogood denotes1 (by decide)
  have e : Cli.specSection 2 (CliF.tablesOf 2 [.not (.atom 1), .not (.atom 0)]) (SrvA.secOf .stableNogood) =
      [[some true, some false], [some false, some true]] := by decide
  rw [e] at h2
  exact ⟨res, h1, h2⟩

-- non-vacuity (by evaluation): on the framework of `code1` the search of `StableNogood` halts within 50
-- iterations, and the results for the bounds 50, 1000 and 10^6 coincide
#guard (match parseNaive "k" code1 with
  | .ok (a, _) => SrvA.strategyHalts 50 a .stableNogood &&
      (match SrvA.solveAdfF 50 a .stableNogood, SrvA.solveAdfF 1000 a .stableNogood, solveAdf a .stableNogood with
       | .ok r1, .ok r2, .ok r3 => r1.map AcG.ac == r2.map AcG.ac && r2.map AcG.ac == r3.map AcG.ac && r1.length == 2
       | _, _, _ => false)
  | .error _ => false)

/-! ## 12. an accepted solve whose task is written yields a stored result; lost writes (review 2 item 5)

Sections 7-10 are safety statements ("IF a result is stored THEN it is the right one"). `ServerLive.lean`
adds the liveness-flavoured half and names D9's second symptom. -/

section live
variable {T H A R : Type} [DecidableEq T]

/-- **accepted_solve_spawns**: an accepted `PUT /adf/{name}/solve` leaves an unfinished solve task for the
STORED framework under the document's key (`Pending`) -/
theorem accepted_solve_spawns (E : Env T H A R) (st : State T H A R) (jar : Nat) (name : T) (s : Strategy)
    (h : (ServerM.step E st ⟨jar, .solve name s⟩).2.status = 200) :
    ∃ u p a, st.sess jar = some u ∧ st.db.problems.find? (isProb u name) = some p ∧ p.adf = .some a ∧
      Pending u name a s jar (st.db.tasks.filter (fun x => decide (x.jar = jar))).length false
        (ServerM.step E st ⟨jar, .solve name s⟩).1.db :=
  ServerM.accepted_solve_spawns E st jar name s h

/-- **accepted_solve_yields_result**: see `ServerM.accepted_solve_yields_result`. From a `Pending` state,
after ANY events, the end of the task's blocking part, ANY events and the task's write - the events in
between neither delete / rename documents nor belong to this task - the document under the key shows under
`s` exactly the outcome of `E.solve a s` -/
theorem accepted_solve_yields_result (E : Env T H A R) (u name : T) (a : A) (s : Strategy) (j n : Nat)
    (st : State T H A R) (h : Pending u name a s j n false st.db) (es2 es3 : List (Event T))
    (h2 : ∀ e ∈ es2, Quiet j n e = true) (h3 : ∀ e ∈ es3, Quiet j n e = true) :
    ∃ p', (runAll E st (es2 ++ [.finish j n] ++ es3 ++ [.write j n])).1.db.problems.find? (isProb u name) = some p' ∧
      p'.res.get s = solveOutcome E a s :=
  ServerM.accepted_solve_yields_result E u name a s j n st h es2 es3 h2 h3

/-- **accepted_solve_eventually_stored** (the two composed, from the REQUEST): if `PUT /adf/{name}/solve` with
strategy `s` is answered `200` in ANY state `st` (in particular any reachable one), `n` is the number of tasks
the jar spawned before, and the history continues with `es2`, the end of that task's blocking part, `es3`,
and that task's write - `es2`, `es3` arbitrary except for `DELETE /adf/…`, `DELETE /users/delete`,
`PUT /users/update` and events of this very task -, then the document under the requester's key shows under
`s` the outcome of `E.solve a s` for the framework `a` that was stored in the document when the request
arrived: a result DOES get stored -/
theorem accepted_solve_eventually_stored (E : Env T H A R) (st : State T H A R) (jar : Nat) (name : T) (s : Strategy)
    (hacc : (ServerM.step E st ⟨jar, .solve name s⟩).2.status = 200) (es2 es3 : List (Event T))
    (h2 : ∀ e ∈ es2, Quiet jar (st.db.tasks.filter (fun x => decide (x.jar = jar))).length e = true)
    (h3 : ∀ e ∈ es3, Quiet jar (st.db.tasks.filter (fun x => decide (x.jar = jar))).length e = true) :
    ∃ u p a p', st.sess jar = some u ∧ st.db.problems.find? (isProb u name) = some p ∧ p.adf = .some a ∧
      (runAll E st ([.req ⟨jar, .solve name s⟩] ++ es2 ++
          [.finish jar (st.db.tasks.filter (fun x => decide (x.jar = jar))).length] ++ es3 ++
          [.write jar (st.db.tasks.filter (fun x => decide (x.jar = jar))).length])).1.db.problems.find? (isProb u name)
        = some p' ∧
      p'.res.get s = solveOutcome E a s := by
  obtain ⟨u, p, a, h1, hf, ha, hpend⟩ := ServerM.accepted_solve_spawns E st jar name s hacc
  obtain ⟨p', hp', hres⟩ := ServerM.accepted_solve_yields_result E u name a s jar _ _ hpend es2 es3 h2 h3
  refine ⟨u, p, a, p', h1, hf, ha, ?_, hres⟩
  simp only [List.append_assoc, List.singleton_append, runAll] at hp' ⊢
  exact hp'

/-- **write_visible_iff_not_lost**: a due write is visible under the task's key iff a document carries the key
at that moment; otherwise (`lostWrite`) NO document changes - the accepted task's outcome is never stored -/
theorem write_visible_iff_not_lost (E : Env T H A R) (st : State T H A R) (j n : Nat) (t : TaskRec T A)
    (ht : nthOf j n st.db.tasks = some t) (hlive : t.blockingDone = true ∧ t.written = false) :
    (lostWrite st (.write j n) = false →
      ∃ p, st.db.problems.find? (isProb t.username t.name) = some p ∧
        (ServerM.stepEv E st (.write j n)).1.db.problems.find? (isProb t.username t.name) = some ((taskWrite E t.input).apply p)) ∧
    (lostWrite st (.write j n) = true → (ServerM.stepEv E st (.write j n)).1.db.problems = st.db.problems) :=
  ServerM.write_visible_iff_not_lost E st j n t ht hlive

end live

/-- `accepted_solve_yields_result` on the toy library: accepted solve, another user's events in between -/
example : ∃ p', (runAll Etoy (runAll Etoy {} (histOk.take 7)).1
      ([.finish 1 0, .write 1 0] ++ [.finish 0 1] ++ [.req ⟨1, .solve 5 .complete⟩] ++ [.write 0 1])).1.db.problems.find?
        (isProb 1 5) = some p' ∧ p'.res.get .ground = .some 107 := by
  have hp : Pending (1 : Nat) 5 7 .ground 0 1 false (runAll Etoy {} (histOk.take 7)).1.db :=
    ⟨Option.isSome_iff_exists.mp (by decide),
     ⟨{ jar := 0, username := 1, name := 5, input := .solve 7 .ground }, by decide, rfl, rfl, rfl, rfl, rfl⟩⟩
  exact accepted_solve_yields_result Etoy 1 5 7 .ground 0 1 _ hp _ _ (by decide) (by decide)

/-- **D9's LOST write** (reviewer's `histLost`): add, parse, solve accepted, the account is RENAMED while the
solve task runs, the task ends and writes: the write matches nothing. The history shows no stale-write
shape (`NoStaleWrite`, the former `NoD9`, HOLDS), every task has ended and written, nothing is running -
and the accepted solve left no result. `NoLostWrite` is what excludes it. -/
def histLost : List (Event Nat) :=
  [.req ⟨0, .register 1 7 0⟩, .req ⟨0, .login 1 7⟩, .req ⟨0, .add 5 (some 7) none .naive 100 101⟩,
   .finish 0 0, .write 0 0, .req ⟨0, .solve 5 .ground⟩, .req ⟨0, .update 2 7 0⟩, .finish 0 1, .write 0 1]

example : NoStaleWrite Etoy {} histLost := noD9b_sound Etoy _ _ (by decide)
example : ¬ NoLostWrite Etoy {} histLost := fun h => absurd ((noLostWriteB_iff Etoy _ _).mpr h) (by decide)
example : (runAll Etoy {} histLost).1.db.problems.map (fun p => (p.username, p.adf, p.res.ground)) = [(2, .some 7, .none)] := by decide
example : (runAll Etoy {} histLost).1.db.running = [] ∧
    (runAll Etoy {} histLost).1.db.tasks.all (fun t => t.blockingDone && t.written) = true := by decide
-- … while the histories of sections 8 and 10 lose no write
example : NoLostWrite Etoy {} histOk := (noLostWriteB_iff Etoy _ _).mp (by decide)
example : NoLostWrite Etoy {} histRecreate := (noLostWriteB_iff Etoy _ _).mp (by decide)

/-- twins share one running entry: delete + re-add while the parse task runs; when the FIRST parse task ends
the entry is removed although the second task is still in its blocking part (`RunningGuard` on a `HashSet`
of `(user, problem, kind)`: the Rust does the same) - so only one direction of "listed iff running" holds -/
def histTwin : List (Event Nat) :=
  [.req ⟨0, .register 1 7 0⟩, .req ⟨0, .login 1 7⟩, .req ⟨0, .add 5 (some 7) none .naive 100 101⟩,
   .req ⟨0, .delete 5⟩, .req ⟨0, .add 5 (some 8) none .naive 100 101⟩, .finish 0 0]

example : (runAll Etoy {} histTwin).1.db.running = [] ∧
    (runAll Etoy {} histTwin).1.db.tasks.map (fun t => (t.input, t.blockingDone)) =
      [(.parse 7 .naive, true), (.parse 8 .naive, false)] := by decide

/-! ## 13. finding D14: the race in `add_adf_problem` and C16's first sentence

The atomic-request model of sections 7-12 executes each request in one step. The command-granular model
(`ServerCmd.lean`, Props/C17 §7) interleaves requests between their database commands; there
`add_adf_problem`'s check-then-act (`find_one`, later `insert_one`, no unique index on `(username, name)`)
lets two concurrent adds of the same `(user, name)` create TWO documents, and both parse tasks write into the
first: "the models stored and returned for that problem are exactly the answers for the submitted code" FAILS
(`add_race_breaks_the_sentence`). Without interleaved requests it holds (`sequential_requests_sentence_partial`). -/

section race
variable {T H A R : Type} [DecidableEq T]
open ServerCmd

/-- **sequential_requests_sentence_partial**: in the command-granular model, under every schedule in which each
request runs from arrival to response without another command in between (`seqSchedule` of ANY history:
any requests of any users, background-task events anywhere between requests), the state is the atomic
model's, so every document under an untainted key stores only what belongs to its OWN code. PARTIAL: the
hypothesis excludes every interleaving of requests, not only interleaved adds of the same `(user, name)`
(the weaker hypothesis would need a commutation argument for the other request pairs, which is not done;
`C17.add_unique_if_not_interleaved` is the local fact: an uninterleaved add never duplicates a key) -/
theorem sequential_requests_sentence_partial (E : Env T H A R) (es : List (Event T)) (p : Problem T A R)
    (hp : p ∈ (runC E {} (seqSchedule E {} es)).db.problems)
    (hn : taintRun E {} (fun _ _ => false) es p.username p.name = false) :
    (∀ a, p.adf = .some a → ∃ r, E.parse p.parsing p.code = .ok (a, r)) ∧
    (∀ s res, p.res.get s = .some res → ∃ a r, E.parse p.parsing p.code = .ok (a, r) ∧ E.solve a s = .ok res) := by
  rw [(C17.atomic_is_sequential_schedule E es).1] at hp
  exact ServerM.reachable_untainted_belong_to_the_code E es p hp hn

/-- … and an uninterleaved add keeps "at most one document per `(user, name)`" -/
theorem add_not_interleaved_keeps_keys_unique (E : Env T H A R) (s : CState T H A R) (jar : Nat) (name : T)
    (code file : Option T) (parsing : Parsing) (fu fp : T) (h : ProbUnique s.db) :
    ProbUnique (runC E s (seqRequest E ⟨s.db, s.sess⟩ s.pool.length ⟨jar, .add name code file parsing fu fp⟩)).db :=
  C17.add_unique_if_not_interleaved E s jar name code file parsing fu fp h

end race

/-- **add_race_breaks_the_sentence (finding D14)**: two concurrent `POST /adf/add` of one user with the same
problem name and different codes (9 and 4), interleaved between `find_one` and `insert_one`: both are answered
`200`, two documents carry the key, and after both parse tasks have written `GET /adf/5` shows the CODE of the
first request with the parse result of the SECOND - a stored framework that is not the parse result of the
document's own code, with no deletion, rename or stale task involved (`C17.add_race_wrong_answer`) -/
theorem add_race_breaks_the_sentence :
    (ServerCmd.runC C17.E0 C17.aliceIn C17.addRace).out.map (fun x => x.2.status) = [200, 200, 200, 200] ∧
    ServerCmd.keyCount 1 5 (ServerCmd.runC C17.E0 C17.aliceIn C17.addRace).db = 2 ∧
    (ServerCmd.runC C17.E0 (ServerCmd.runC C17.E0 C17.aliceIn C17.addRace)
      ([.finish 0 0, .write 0 0, .finish 0 1, .write 0 1] ++ [.arrive ⟨0, .get 5⟩, .cmd 0, .cmd 0, .deliver 0])).out.getLast?
      = some (0, ⟨200, .keep, .problem ⟨5, 9, .naive, .some 4, {}, []⟩⟩) ∧
    C17.E0.parse .naive 9 ≠ .ok (4, 4) :=
  ⟨C17.add_race_duplicate.1, C17.add_race_duplicate.2.2.1, C17.add_race_wrong_answer.1, by decide⟩

/-! ### third review (audit L1): instantiating examples that were missing; `decide +kernel` DOES evaluate the parser on
a string literal (the comments saying otherwise are out of date) -/
section ThirdReview
open ServerCmd
-- 1. accepted_solve_eventually_stored instantiated from a REQUEST on the toy env
example : True := by
  have h := accepted_solve_eventually_stored Etoy (runAll Etoy {} (histOk.take 6)).1 0 5 .ground (by decide)
    [.finish 1 0, .write 1 0] [.req ⟨1, .solve 5 .complete⟩] (by decide) (by decide)
  trivial
-- 2. not_reported_as_running on histOk
example : Task.solve .ground ∉ (ServerM.exec (runAll Etoy {} histOk).1.db (.rTasks 1 5 : Cmd Nat Nat Nat Nat)).2 :=
  not_reported_as_running Etoy histOk 1 5 (.solve .ground) (by decide)

-- is the hypothesis trivially true (no tasks at all)?
example : ((runAll Etoy {} histOk).1.db.tasks.filter (fun t => t.username == 1 && t.name == 5)).length = 2 := by decide

def aliceT : CState Nat Nat Nat Nat :=
  runC Etoy {} (seqSchedule Etoy {} [.req ⟨0, .register 1 7 0⟩, .req ⟨0, .login 1 7⟩])

/-- **D14 also breaks C08's web sentence**: `Etoy` REFUSES code 9, yet under the `add ∥ add` interleaving of finding D14
(command granularity; no deletion, rename or stale task involved) the document with code 9 ends up showing a framework
- `C08.web_no_answer_for_rejected_text` is a statement about histories of ATOMIC requests only -/
theorem add_race_answers_rejected_code : Etoy.parse .naive 9 = .error .parseError ∧
    (runC Etoy (runC Etoy aliceT C17.addRace)
      ([.finish 0 0, .write 0 0, .finish 0 1, .write 0 1] ++ [.arrive ⟨0, .get 5⟩, .cmd 0, .cmd 0, .deliver 0])).out.getLast?
      = some (0, ⟨200, .keep, .problem ⟨5, 9, .naive, .some 4, {}, []⟩⟩) := by
  constructor <;> decide

-- hypotheses of hybrid_parse_rejects_special_labels, kernel-checked
theorem condD6 : (conditions codeD6).toOption.map (·.1) = some ["a&b", "c"] := by decide +kernel

example : ∃ x, conditions codeD6 = .ok x ∧ (∃ n ∈ x.1, CliM.bioNameOK n.toList = false) ∧
    (∃ a r, parseNaive "k" codeD6 = .ok (a, r) ∧ a.names = x.1) ∧
    parseHybrid Bio.ttLib Bio.ttDump "k" codeD6 = .error .panic := by
  cases hc : conditions codeD6 with
  | error e => have := condD6; rw [hc] at this; cases this
  | ok x =>
    have h1 := condD6
    rw [hc] at h1
    simp only [Except.toOption, Option.map_some, Option.some.injEq] at h1
    have hbad : ∃ n ∈ x.1, CliM.bioNameOK n.toList = false := by
      rw [h1]; exact ⟨"a&b", by simp, by decide⟩
    exact ⟨x, rfl, hbad, hybrid_parse_rejects_special_labels Bio.ttLib Bio.ttDump "k" codeD6 x hc hbad⟩


end ThirdReview

end C16

#print axioms C16.reachable_served_answer_all
#print axioms C16.reachable_served_answer_all_bounds
#print axioms C16.reachable_served_answer_tt
#print axioms C16.hybrid_parse_rejects_special_labels
#print axioms C16.hybrid_parse_task_stores_error_for_special_labels
#print axioms C16.hybrid_parse_denotes_code_tt
#print axioms C16.adopted_service_is_modelled_service_at
#print axioms C16.adopted_service_example
#print axioms C16.add_race_answers_rejected_code
#print axioms C16.hybrid_parse_names_ok
#print axioms C16.hybrid_parse_ok_of_names
#print axioms C16.adopted_service_unadopted_valid_code
#print axioms C16.add_not_interleaved_keeps_keys_unique
#print axioms C16.no_d9_all_belong
#print axioms C16.deletion_free_no_d9
#print axioms C16.running_entries_are_unfinished_tasks
#print axioms C16.not_reported_as_running
#print axioms C16.solve_fuel_monotone
#print axioms C16.stored_answers_exact_all_bounds
#print axioms C16.stored_answers_exact_driver_instance
#print axioms C16.accepted_solve_spawns
#print axioms C16.accepted_solve_yields_result
#print axioms C16.write_visible_iff_not_lost
#print axioms C16.accepted_solve_eventually_stored
#print axioms C16.sequential_requests_sentence_partial
#print axioms C16.add_race_breaks_the_sentence
#print axioms C16.strategy_halts_within_explicit_bound
#print axioms C16.strategy_halts_for_small_frameworks
#print axioms C16.stored_answers_exact_driver_model_small
#print axioms C16.served_answer_for_code_small_frameworks
#print axioms C16.served_answer_for_code_any_parsing_small_frameworks
#print axioms C16.served_answer_for_code_hybrid_checked_small_frameworks
