import AdfObdd.AdfPipeline
import AdfObdd.Bridge
import AdfObdd.IsoCheck
import AdfObdd.PreGround
import AdfObdd.FromParserProofs
import AdfObdd.HybridExample
import AdfObdd.WfCheck
import AdfObdd.HybridCli
import AdfObdd.StoreLib
import AdfObdd.HybridFacts
/-! # C09 — compilation to diagrams preserves every acceptance condition (native + bridge) -/
namespace C09

/-- native compilation of one formula of any size (`Adf::term`), from any well-formed store -/
theorem compile_one (φ : Fm) (s : Store) (w : WF s) (h : φ.atomsOK) :
    WF (compile s φ).1 ∧ Ext s (compile s φ).1 ∧ (compile s φ).2 < (compile s φ).1.nodes.size ∧
    ∀ σ, eval (compile s φ).1 (compile s φ).2 σ = φ.sem σ :=
  let g := compile_correct φ s w h
  ⟨g.wf, g.ext, g.lt, g.ev⟩

/-- the whole framework as `Adf::from_parser` builds it: the handle stored for each statement
denotes exactly the Boolean function of that statement's condition; any number of statements,
any formula sizes, any variable order (the order is the numbering of the atoms) -/
theorem from_parser_correct (n : Nat) (fms : List Fm) (hn : n ≤ VBOT) (hv : ∀ f ∈ fms, f.atomsOK) :
    WF (buildNative n fms).1 ∧ (buildNative n fms).2.length = fms.length ∧
    ∀ (i t : Nat) (f : Fm), (buildNative n fms).2[i]? = some t → fms[i]? = some f →
      t < (buildNative n fms).1.nodes.size ∧ ∀ σ, eval (buildNative n fms).1 t σ = f.sem σ :=
  buildNative_correct n fms hn hv

/-- bridge (`from_biodivine_vector`): replaying an ordered dump (two terminals first, children before
parents with larger variables; reducedness not needed) through `node` into any well-formed store
yields for every dump index a valid handle with that entry's function -/
theorem bridge_preserves (d : List Node) (hd : DumpOK d) (hlen : 2 ≤ d.length) (s : Store) (w : WF s) :
    let r := replayL (d.drop 2) s [0, 1]
    WF r.1 ∧ Ext s r.1 ∧ r.2.length = d.length ∧
    ∀ (j t : Nat) (f : BoolFn), r.2[j]? = some t → Den d j f → t < r.1.nodes.size ∧ ∀ σ, eval r.1 t σ = f σ :=
  bridge_correct d hd hlen s w

/-- verified validator run on every explored real store: if both tables pass `wfCheck` and the
memoised structural comparison says yes, the two handles denote the same Boolean function -/
theorem validator_sound (sa sb : Store) (ca : wfCheck sa.nodes = true) (cb : wfCheck sb.nodes = true)
    (fuel a b : Nat) (h : (isoF sa.nodes sb.nodes fuel {} a b).1 = true) :
    ∀ σ, eval sa a σ = eval sb b σ := isoCheck_sound sa sb ca cb fuel a b h

/-- what `from_biodivine_vector` does with the first two dump entries: NOTHING - for `idx == 0` it pushes
`Term(0)`, for `idx == 1` it pushes `Term(1)`, without parsing the entry. The model (`Bio.termVec`) is
faithful to that: two dumps that differ only in their first two entries are replayed identically. The
assumption "entry 0 is the ⊥ terminal, entry 1 the ⊤ terminal" is therefore not a shape condition the
code could violate or check; it is part of HOW A DUMP IS READ AS A FUNCTION (`Den d 0 = ⊥`, `Den d 1 = ⊤`,
Bridge.lean) and enters every theorem through `Bio.DumpSpec` ("the last entry denotes the diagram").
`Bio.dumpTerminals` is the shape biodivine actually writes (`|nv,0,0|nv,1,1|`); it is NOT checked anywhere:
the harness never sees a biodivine dump (it validates the bridged native table with `wfCheck`/`isoCheck`). -/
theorem bridge_ignores_terminal_entries (a b a' b' : Node) (rest : List Node) (s : Store) :
    Bio.termVec (a :: b :: rest) s = Bio.termVec (a' :: b' :: rest) s ∧
    Bio.termVec (a :: b :: rest) s = replayL ((a :: b :: rest).drop 2) s [0, 1] := ⟨rfl, rfl⟩

/-- **hybrid import** (`hybrid_step_opt(opt)` = optional biodivine grounding + `from_biodivine_vector`; model
`Bio.hybridStep`, HybridModel.lean: every diagram dumped and replayed through `Bdd::node` into ONE fresh
store, in statement order; `is_true` / `is_false` diagrams become `Term(1)` / `Term(0)` without a dump).
The built store is well formed and position by position the handle of statement `i` is valid and denotes
 * `opt = false` (also `Adf::from_biodivine`): the acceptance condition of statement `i` itself;
 * `opt = true` (`hybrid_step`): that condition with the grounded interpretation `g` substituted for the
   decided statements - `g` being the least fixpoint of Γ and the vector biodivine's `grounded` reports.
Assumptions about the external crate, as hypotheses: `W : Bio.Lawful L n`, `hd : Bio.DumpSpec W dump`.
(This replaces the former `pregrounded_function`, which only unfolded the definition of `pre`.) -/
theorem hybrid_import_function {T : Type} (L : Bio.Lib T) (n : Nat) (W : Bio.Lawful L n)
    (dump : T → List Node) (hd : Bio.DumpSpec W dump) (opt : Bool)
    (ac : List T) (hv : ∀ a ∈ ac, W.Valid a) (hn : ac.length = n) :
    let r := Bio.hybridStep L dump opt ac
    let g := (Bio.bioGrounded L ac).map storeIsConst
    WF r.1 ∧ r.2.length = n ∧ IsLfp (ac.map W.den) g ∧
    ∀ (i t : Nat) (a : T), r.2[i]? = some t → ac[i]? = some a →
      t < r.1.nodes.size ∧ ∀ σ, eval r.1 t σ = W.den a (if opt then over σ 0 g else σ) :=
  Bio.hybrid_handles W hd opt ac hv hn

/-- the residual vector handed over by `hybrid_step`: biodivine's `grounded_internal` returns valid
diagrams denoting `pre D g` - every condition restricted by the least fixpoint `g` (not merely by the
snapshots of the individual rounds) -/
theorem biodivine_residual_is_pregrounded {T : Type} (L : Bio.Lib T) (n : Nat) (W : Bio.Lawful L n)
    (ac : List T) (hv : ∀ a ∈ ac, W.Valid a) (hn : ac.length = n) :
    let g := (Bio.groundedInternal L ac).map L.isConst
    (∀ y ∈ Bio.groundedInternal L ac, W.Valid y) ∧ IsLfp (ac.map W.den) g ∧
    (Bio.groundedInternal L ac).map W.den = pre (ac.map W.den) g :=
  let h := Bio.groundedInternal_pre W ac hv (by omega)
  ⟨h.1, h.2.2.1, h.2.2.2⟩

/-- non-vacuity of `hybrid_import_function` (lawful truth-table library over two variables, decision-tree
dump): `s(a). s(b). ac(a,c(v)). ac(b,a).`; with `opt = true` the handle of `b` denotes `a`'s condition …
the constant ⊤ (`a` is true in the grounded interpretation), with `opt = false` it denotes the variable `a` -/
example :
    (let r := Bio.hybridStep (Bio.ttLib 2) Bio.ttDump2 true (Bio.fromFormulas (Bio.ttLib 2) Bio.exChain2)
     ∀ t, r.2[1]? = some t → ∀ σ, eval r.1 t σ = true) ∧
    (let r := Bio.hybridStep (Bio.ttLib 2) Bio.ttDump2 false (Bio.fromFormulas (Bio.ttLib 2) Bio.exChain2)
     ∀ t, r.2[1]? = some t → ∀ σ, eval r.1 t σ = σ 0) := by
  have ⟨a, b, c, _⟩ := Bio.fromFormulas_spec Bio.exChain2 (Bio.ttLawful 2) Bio.exChain2_ok
  have hg : (Bio.bioGrounded (Bio.ttLib 2) (Bio.fromFormulas (Bio.ttLib 2) Bio.exChain2)).map storeIsConst =
      [some true, some true] := by decide
  have hden : ∀ x, (Bio.fromFormulas (Bio.ttLib 2) Bio.exChain2)[1]? = some x →
      (Bio.ttLawful 2).den x = fun σ => σ 0 := by
    intro x hx
    have h1 : ((Bio.fromFormulas (Bio.ttLib 2) Bio.exChain2).map (Bio.ttLawful 2).den)[1]? =
        some ((Bio.ttLawful 2).den x) := by simp [hx]
    rw [c] at h1
    simp only [Bio.exChain2, List.map_cons, List.getElem?_cons_succ, List.getElem?_cons_zero,
      Option.some.injEq] at h1
    rw [← h1]; rfl
  have hx : ∃ x, (Bio.fromFormulas (Bio.ttLib 2) Bio.exChain2)[1]? = some x :=
    ⟨_, List.getElem?_eq_getElem (by rw [a]; decide)⟩
  obtain ⟨x, hx⟩ := hx
  constructor
  · intro r t ht σ
    have h := (hybrid_import_function (Bio.ttLib 2) 2 (Bio.ttLawful 2) Bio.ttDump2 Bio.ttDump2_spec true
      _ b a).2.2.2 1 t x ht hx
    rw [h.2 σ, hden x hx, hg]
    simp [over, upd]
  · intro r t ht σ
    have h := (hybrid_import_function (Bio.ttLib 2) 2 (Bio.ttLawful 2) Bio.ttDump2 Bio.ttDump2_spec false
      _ b a).2.2.2 1 t x ht hx
    rw [h.2 σ, hden x hx]
    simp

/-- the same in terms of the WRITTEN conditions (biodivine `from_parser` = `Bio.fromFormulas`): the handle
of statement `i` denotes the written condition `fms[i]` (`opt = false`) resp. that condition with the
grounded interpretation substituted (`opt = true`) -/
theorem hybrid_import_written_condition {T : Type} (L : Bio.Lib T) (fms : List Fm) (W : Bio.Lawful L fms.length)
    (dump : T → List Node) (hd : Bio.DumpSpec W dump) (opt : Bool)
    (hv : ∀ f ∈ fms, NConc.atomsLt fms.length f) :
    let r := Bio.hybridStep L dump opt (Bio.fromFormulas L fms)
    let g := (Bio.bioGrounded L (Bio.fromFormulas L fms)).map storeIsConst
    WF r.1 ∧ r.2.length = fms.length ∧ IsLfp (fms.map Fm.sem) g ∧
    ∀ (i t : Nat) (f : Fm), r.2[i]? = some t → fms[i]? = some f →
      t < r.1.nodes.size ∧ ∀ σ, eval r.1 t σ = f.sem (if opt then over σ 0 g else σ) := by
  intro r g
  have ⟨a, b, c, _⟩ := Bio.fromFormulas_spec fms W hv
  have h := hybrid_import_function L fms.length W dump hd opt _ b a
  simp only at h
  rw [c] at h
  refine ⟨h.1, h.2.1, h.2.2.1, ?_⟩
  intro i t f ht hf
  have hi : i < (Bio.fromFormulas L fms).length := by
    rw [a]
    rcases Nat.lt_or_ge i fms.length with h' | h'
    · exact h'
    · rw [List.getElem?_eq_none h'] at hf; cases hf
  have hx : (Bio.fromFormulas L fms)[i]? = some (Bio.fromFormulas L fms)[i] := List.getElem?_eq_getElem hi
  have hden : W.den (Bio.fromFormulas L fms)[i] = f.sem := by
    have h1 : ((Bio.fromFormulas L fms).map W.den)[i]? = some (W.den (Bio.fromFormulas L fms)[i]) := by
      simp [hx]
    rw [c] at h1
    simp only [List.getElem?_map, hf, Option.map_some, Option.some.injEq] at h1
    exact h1.symm
  have := h.2.2.2 i t _ ht hx
  rw [hden] at this
  exact this

/-! ### the bridge the CLI model runs is the bridge of these theorems (review 2, item 3)

Two models of `from_biodivine_vector` exist: `Bio.bridgeOne / bridgeAll / hybridStep` (HybridModel.lean;
every hybrid theorem of C01-C03 and `hybrid_import_function` above) and `CliM.bridgeOne / bridgeAll /
hybridStep` (CliModes.lean; what `CliM.runText`, C15 and the model driver execute). They are the same
function wherever a non-constant diagram has a dump with its two terminal entries - in particular under
`Bio.DumpSpec` - and differ only on a one-entry dump (the last pushed term is the initial `Term(0)`; the
CLI model reads index `length - 1` of `[0, 1]`), which no lawful world produces. -/

theorem cli_bridge_is_this_bridge {T : Type} (L : Bio.Lib T) (dump : T → List Node) (s : Store) (t : T)
    (h : L.isTrue t = false → L.isFalse t = false → 2 ≤ (dump t).length) :
    CliM.bridgeOne L dump s t = Bio.bridgeOne L dump s t := Bio.bridgeOne_agree L dump s t h

/-- **`CliM.hybridStep` = `Bio.hybridStep … true`** (`hybrid_step()`, what `main.rs` calls) for every
lawful library and dump satisfying `DumpSpec`: the hybrid theorems of C01, C02, C03 and C09 are about the
function the driver runs in its hybrid arm -/
theorem cli_hybrid_step_is_this_hybrid_step {T : Type} (L : Bio.Lib T) (n : Nat) (W : Bio.Lawful L n)
    (dump : T → List Node) (hd : Bio.DumpSpec W dump) (ac : List T) (hv : ∀ a ∈ ac, W.Valid a)
    (hn : ac.length ≤ n) :
    CliM.hybridStep L dump ac = Bio.hybridStep L dump true ac := Bio.hybridStep_agree W hd ac hv hn

/-- the only difference between the two models (unreachable under `DumpSpec`): a one-entry dump of a
non-constant diagram -/
example : (Bio.bridgeOne (Bio.ttLib 1) (fun _ => [⟨1, 0, 0⟩]) Store.init 2).2 = 0 ∧
    (CliM.bridgeOne (Bio.ttLib 1) (fun _ => [⟨1, 0, 0⟩]) Store.init 2).2 = 1 := by decide

/-! ### `DumpSpec` is satisfiable by dumps of the shape biodivine writes (review 2, item 7)

The instances used in the examples above (`Bio.ttDump2_spec`, `Bio.ttDump_spec`) dump FULL, UNREDUCED
decision trees. Real dumps are reduced and shared and skip levels, e.g. `|3,0,0|3,1,1|2,0,1|1,0,2|0,3,2|`.
`Bio.storeLib` (StoreLib.lean) is the project's own verified ROBDD store as a `Bio.Lib`: a diagram is a
pair (node table, handle), binary operations import the second operand by replaying its dump
(`Bio.importInto` - the loop of `from_biodivine_vector` itself), `restrict` is the store's cofactor,
`sat_valuations` walks the diagram. It is lawful for every number of variables the store can number,
and its dump - the node table up to the handle: terminals first, children before parents, root last,
REDUCED, SHARED, levels skipped - satisfies `DumpSpec`. NOTE: `DumpSpec` remains an assumption about the
external crate; no real biodivine dump is ever checked (the harness validates the bridged native table
with `wfCheck` / `isoCheck`, it never sees the dump text). -/

/-- the store-based library is lawful and its (reduced, shared) dumps satisfy `DumpSpec` -/
theorem dump_spec_holds_for_reduced_shared_diagrams (nv : Nat) (hn : nv ≤ VBOT) :
    ∃ W : Bio.Lawful (Bio.storeLib nv) nv, Bio.DumpSpec W Bio.storeDump :=
  ⟨Bio.storeLawful nv hn, Bio.storeDump_spec nv hn⟩

/-- the dump of ANY handle of ANY well-formed store is an ordered dump whose entry `j` denotes the
function of handle `j` - in particular its last entry the function of the dumped handle -/
theorem store_dump_is_ordered (s : Store) (w : WF s) (t : Nat) (ht : t < s.nodes.size) :
    DumpOK (Bio.storeDump (s, t)) ∧ (Bio.storeDump (s, t)).length = t + 1 ∧
    Den (Bio.storeDump (s, t)) ((Bio.storeDump (s, t)).length - 1) (eval s t) := by
  have hl := Bio.storeDump_len s t ht
  refine ⟨Bio.storeDump_ok s w t, hl, ?_⟩
  rw [hl]
  exact Bio.storeDump_den s w t ht t (Nat.le_refl t)

/-- a concrete dump in biodivine's own layout (terminal entries `|3,0,0|3,1,1|`): `(x0 ∧ x2) ∨ (x1 ∧ x2)`
over three variables; node 2 (`x2`) is SHARED by nodes 3 and 4, the high edge of the root SKIPS level 1.
It is ordered and its last entry denotes the function; and it is (up to the two terminal entries, which
the bridge never reads) the dump of a valid diagram of `Bio.storeLib 3` -/
theorem real_shaped_dump :
    Bio.realDump = [⟨3, 0, 0⟩, ⟨3, 1, 1⟩, ⟨2, 0, 1⟩, ⟨1, 0, 2⟩, ⟨0, 3, 2⟩] ∧ DumpOK Bio.realDump ∧
    (∃ f, Den Bio.realDump (Bio.realDump.length - 1) f ∧ ∀ σ, f σ = ((σ 0 && σ 2) || (σ 1 && σ 2))) ∧
    (Bio.storeDump (Bio.exStore, 4)).drop 2 = Bio.realDump.drop 2 :=
  ⟨rfl, Bio.realDump_ok, ⟨_, Bio.realDump_den, Bio.realDump_sem⟩, Bio.exStore_dump_real⟩

/-- two tables holding `x0 ∧ x1` under DIFFERENT handles (the second has an extra node and another
numbering) -/
def isoA : Store :=
  { nodes := #[⟨VBOT, 0, 0⟩, ⟨VTOP, 1, 1⟩, ⟨1, 0, 1⟩, ⟨0, 0, 2⟩], uniq := {}, resC := {}, iteC := {} }
def isoB : Store :=
  { nodes := #[⟨VBOT, 0, 0⟩, ⟨VTOP, 1, 1⟩, ⟨5, 0, 1⟩, ⟨1, 0, 1⟩, ⟨0, 0, 3⟩], uniq := {}, resC := {}, iteC := {} }

/-- non-vacuity of `validator_sound`: both tables pass `wfCheck`, the comparison of handle 3 with handle 4
says YES (`isoF … = true`, two inner levels, the memo is used), hence the functions are equal; and it says
NO for handle 3 against handle 3 (`x0 ∧ x1` vs `x1`) -/
example : wfCheck isoA.nodes = true ∧ wfCheck isoB.nodes = true ∧
    (isoF isoA.nodes isoB.nodes 3 {} 3 4).1 = true ∧ (isoF isoA.nodes isoB.nodes 3 {} 3 3).1 = false ∧
    ∀ σ, eval isoA 3 σ = eval isoB 4 σ := by
  have h : (isoF isoA.nodes isoB.nodes 3 {} 3 4).1 = true := by simp [isoF, isoA, isoB]
  exact ⟨by decide, by decide, h, by simp [isoF, isoA, isoB],
    validator_sound isoA isoB (by decide) (by decide) 3 3 4 h⟩

example : (Fm.and (.atom 0) (.not (.atom 1))).atomsOK := by simp [Fm.atomsOK, VBOT]

end C09

/-! ## `from_parser` on files with the facts in ANY order (`FromParser`, `FromParserProofs`)

`FromParser.fromParser : PState → Option (Store × List Nat)` is `Adf::from_parser` on the parser object
(`none` = panic): variables `0 .. dict_size`, `ac = vec![Term(0); dict_size]`, then every condition in
FILE order compiled on the running store and written at `formula_order[k]`, atoms resolved through the
dictionary. `condFns fs` = for the `p`-th declared label the index-level Boolean function of the LAST
condition written for it (⊥ if none). `from_parser_correct` above (`buildNative`) is the special case
"one condition per statement, in declaration order" (`FromParser.buildNative_eq_placeCompile`). -/
namespace C09
open ParserM FromParser

/-- `from_parser` panics exactly on the files that are not well-formed ADFs: some condition is
given for an undeclared label (the `expect` in `formula_order`) or mentions an undeclared label
(the `expect` in `term`); declarations may follow their uses -/
theorem from_parser_panics_exactly (fs : List Fact) :
    ((fromParser (PState.ofFacts fs)).isSome = true ↔ WellFormedAdf fs) ∧
    (WellFormedAdf fs ↔ ∀ l f, Fact.ac l f ∈ fs → Fact.stmt l ∈ fs ∧ ∀ a ∈ atomsOf f, Fact.stmt a ∈ fs) := by
  refine ⟨fromParser_isSome_iff fs, ?_⟩
  constructor
  · intro h l f hm
    have ⟨h1, h2⟩ := h (l, f) ((acsOf_mem fs l f).mpr hm)
    exact ⟨(namesOf_mem fs l).mp h1, fun a ha => (namesOf_mem fs a).mp (h2 a ha)⟩
  · intro h lf hlf
    have ⟨h1, h2⟩ := h lf.1 lf.2 ((acsOf_mem fs lf.1 lf.2).mp hlf)
    exact ⟨(namesOf_mem fs lf.1).mpr h1, fun a ha => (namesOf_mem fs a).mpr (h2 a ha)⟩

/-- whatever the order of the facts (conditions before declarations, conditions in another order
than the declarations, no or several conditions for a statement): the built store is well formed and
position `p` of `ac` is a valid handle of the function of the `p`-th declared statement's condition -/
theorem from_parser_any_order_correct (fs : List Fact) (s : Store) (ac : List Nat)
    (h : fromParser (PState.ofFacts fs) = some (s, ac)) (hn : (namesOf fs).length ≤ VBOT) :
    WF s ∧ ac.length = (namesOf fs).length ∧ (∀ t ∈ ac, t < s.nodes.size) ∧ ac.map (eval s) = condFns fs :=
  fromParser_correct fs s ac h hn

/-- **the library-side `from_parser` preserves every acceptance condition, facts in ANY order** (the
counterpart of `from_parser_any_order_correct` for `adfbiodivine::Adf::from_parser`, model
`CliM.bioBuild`): on a well-formed file whose labels the library accepts it does not panic, yields one
valid diagram per statement, and diagram `p` denotes the function of the last condition written for the
`p`-th declared statement (⊥ if none) -/
theorem biodivine_from_parser_any_order {T : Type} (L : Bio.Lib T) (fs : List Fact)
    (W : Bio.Lawful L (namesOf fs).length) (hwf : WellFormedAdf fs) (hn : (namesOf fs).length ≤ VBOT)
    (hnames : (namesOf fs).all CliM.bioNameOK = true) (rew : Bool) :
    ∃ (acB : List T) (rw : Option T), CliM.bioBuild L (PState.ofFacts fs) rew = some (acB, rw) ∧
      acB.length = (namesOf fs).length ∧ (∀ x ∈ acB, W.Valid x) ∧ acB.map W.den = condFns fs :=
  Bio.bioBuild_from_facts L fs W hwf hn hnames rew

/-- … hence the hybrid pipeline from such a file (C02/C03 composed; these corollaries live here because
`CliModesProofs` imports `Props/C02`, `Props/C03`): `complete` lists exactly the fixpoints of Γ for
`condFns fs`, `stable` exactly its stable models, each once -/
theorem hybrid_complete_stable_from_facts {T : Type} (L : Bio.Lib T) (fs : List Fact)
    (W : Bio.Lawful L (namesOf fs).length) (dump : T → List Node) (hd : Bio.DumpSpec W dump) (opt : Bool)
    (hwf : WellFormedAdf fs) (hn : (namesOf fs).length ≤ VBOT)
    (hnames : (namesOf fs).all CliM.bioNameOK = true) :
    ∃ (acB : List T) (rw : Option T), CliM.bioBuild L (PState.ofFacts fs) false = some (acB, rw) ∧
      let n := (namesOf fs).length
      let r := Bio.hybridStep L dump opt acB
      let co := (completeAll r.1 n r.2).2.2.map (fun v => v.map storeIsConst)
      let sb := (stableAll r.1 n r.2).2.map (fun v => v.map storeIsConst)
      (co.Nodup ∧ ∀ w : I3, w ∈ co ↔ (w.length = n ∧ Gam (condFns fs) w = w)) ∧
      (sb.Nodup ∧ ∀ v : I3, v ∈ sb ↔ (v.length = n ∧ StableExact.StableI (condFns fs) v)) := by
  obtain ⟨acB, rw, hb, hl, hv, hden⟩ := Bio.bioBuild_from_facts L fs W hwf hn hnames false
  refine ⟨acB, rw, hb, ?_⟩
  have h1 := Bio.hybrid_complete W hd opt acB hv hl
  have h2 := Bio.hybrid_stable W hd opt acB hv hl
  rw [hden] at h1 h2
  exact ⟨⟨h1.1, h1.2.1⟩, ⟨h2.1, h2.2.1⟩⟩

/-- no condition: ⊥, and the entry is the initial `Term(0)`; several conditions: the last one -/
theorem from_parser_zero_or_several (fs : List Fact) :
    (∀ l, (∀ f, Fact.ac l f ∉ fs) → condOf fs l = .bot) ∧
    (∀ (s : Store) (ac : List Nat) (p : Nat) (l : Label), fromParser (PState.ofFacts fs) = some (s, ac) → (namesOf fs)[p]? = some l →
      (∀ f, Fact.ac l f ∉ fs) → ac[p]? = some 0) ∧
    (∀ pre post l f, fs = pre ++ Fact.ac l f :: post → (∀ g, Fact.ac l g ∉ post) → condOf fs l = f) :=
  ⟨fun l h => condOf_no_condition fs l h,
   fun s ac p l h hp hno => fromParser_no_condition fs s ac h p l hp hno,
   fun pre post l f e h => e ▸ condOf_last_wins pre post l f h⟩

/-- two files with the same facts, the same order of declarations and at most one condition per
statement: both are built and yield position-wise the same Boolean functions. Handles may differ
(two stores, node numbers follow the compilation order — example below). -/
theorem from_parser_any_fact_order (fs gs : List Fact) (hp : fs.Perm gs)
    (hnames : namesOf fs = namesOf gs) (hone : ((acsOf fs).map (·.1)).Nodup)
    (hwf : WellFormedAdf fs) (hn : (namesOf fs).length ≤ VBOT) :
    ∃ s ac s' ac', fromParser (PState.ofFacts fs) = some (s, ac) ∧
      fromParser (PState.ofFacts gs) = some (s', ac') ∧
      ac.length = (namesOf fs).length ∧ ac'.length = (namesOf fs).length ∧
      ac.map (eval s) = ac'.map (eval s') ∧
      ∀ (p t t' : Nat), ac[p]? = some t → ac'[p]? = some t' → ∀ σ, eval s t σ = eval s' t' σ :=
  fromParser_same_functions_any_fact_order fs gs hp hnames hone hwf hn

/-- `ac(b,neg(b)). s(a). s(b). ac(a,neg(a)).` — the condition of `b` before every declaration, the
conditions in the order b, a -/
private def exA : List Fact :=
  [.ac ['b'] (.not (.atom ['b'])), .stmt ['a'], .stmt ['b'], .ac ['a'] (.not (.atom ['a']))]
/-- `s(a). ac(a,neg(a)). s(b). ac(b,neg(b)).` — the same facts in the usual order -/
private def exB : List Fact :=
  [.stmt ['a'], .ac ['a'] (.not (.atom ['a'])), .stmt ['b'], .ac ['b'] (.not (.atom ['b']))]

/-- non-vacuity of `from_parser_any_fact_order`: all hypotheses hold for `exA`, `exB` -/
example : ∃ s ac s' ac', fromParser (PState.ofFacts exA) = some (s, ac) ∧
    fromParser (PState.ofFacts exB) = some (s', ac') ∧ ac.length = 2 ∧ ac'.length = 2 ∧
    ac.map (eval s) = ac'.map (eval s') := by
  have hp : exA.Perm exB := by decide
  have ⟨s, ac, s', ac', h1, h2, h3, h4, h5, _⟩ := from_parser_any_fact_order exA exB hp
    (by decide) (by decide) (by decide) (by simp [VBOT, exA, namesOf])
  exact ⟨s, ac, s', ac', h1, h2, h3, h4, h5⟩
-- … and the handles do differ: the nodes of ¬b and ¬a are created in the other order
#guard (fromParser (PState.ofFacts exA)).map (·.2) == some [5, 4]
#guard (fromParser (PState.ofFacts exB)).map (·.2) == some [4, 5]
-- non-vacuity of `from_parser_panics_exactly`: a well-formed file with a use before the declaration,
-- a condition for an undeclared label, an undeclared atom
example : WellFormedAdf exA := by decide
example : ¬ WellFormedAdf [.stmt ['a'], .ac ['b'] .top] := by decide
example : ¬ WellFormedAdf [.stmt ['a'], .ac ['a'] (.atom ['b'])] := by decide
#guard (fromParser (PState.ofFacts [.stmt ['a'], .ac ['b'] .top])).isNone
#guard (fromParser (PState.ofFacts [.stmt ['a'], .ac ['a'] (.atom ['b'])])).isNone
-- zero / several conditions: `s(a). s(b). ac(a,c(v)). ac(a,b).` — `a` gets `b` (last wins), `b` gets ⊥
example : condOf [.stmt ['a'], .stmt ['b'], .ac ['a'] .top, .ac ['a'] (.atom ['b'])] ['a'] = .atom ['b'] ∧
    condOf [.stmt ['a'], .stmt ['b'], .ac ['a'] .top, .ac ['a'] (.atom ['b'])] ['b'] = .bot := by decide
#guard (fromParser (PState.ofFacts [.stmt ['a'], .stmt ['b'], .ac ['a'] .top, .ac ['a'] (.atom ['b'])])).map (·.2)
  == some [3, 0]
-- without "at most one condition per statement" the order of the facts matters
#guard (fromParser (PState.ofFacts [.stmt ['a'], .stmt ['b'], .ac ['a'] (.atom ['b']), .ac ['a'] .top])).map (·.2)
  == some [1, 0]

end C09

#print axioms C09.hybrid_import_written_condition
#print axioms C09.cli_bridge_is_this_bridge
#print axioms C09.cli_hybrid_step_is_this_hybrid_step
#print axioms C09.dump_spec_holds_for_reduced_shared_diagrams
#print axioms C09.store_dump_is_ordered
#print axioms C09.real_shaped_dump
#print axioms C09.biodivine_from_parser_any_order
#print axioms C09.hybrid_complete_stable_from_facts
