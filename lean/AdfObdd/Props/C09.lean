import AdfObdd.AdfPipeline
import AdfObdd.Bridge
import AdfObdd.IsoCheck
import AdfObdd.PreGround
import AdfObdd.FromParserProofs
/-! # C09 — compilation to diagrams preserves every acceptance condition (native + bridge) -/
namespace C09

/-- native compilation of one formula of any size (`Adf::term`), from any well-formed store -/
theorem compile_one (φ : Fm) (s : Store) (w : WF s) (h : φ.atomsOK) :
    WF (compile s φ).1 ∧ Ext s (compile s φ).1 ∧ (compile s φ).2 < (compile s φ).1.nodes.size ∧
    ∀ σ, eval (compile s φ).1 (compile s φ).2 σ = φ.sem σ :=
  let g := compile_correct φ s w h
  ⟨g.wf, g.ext, g.lt, g.ev⟩

/-- the whole framework as `Adf::from_parser` builds it: the handle stored for each statement
denotes exactly the Boolean function of that statement's condition; any number of statements,
any formula sizes, any variable order (the order is the numbering of the atoms) -/
theorem from_parser_correct (n : Nat) (fms : List Fm) (hn : n ≤ VBOT) (hv : ∀ f ∈ fms, f.atomsOK) :
    WF (buildNative n fms).1 ∧ (buildNative n fms).2.length = fms.length ∧
    ∀ (i t : Nat) (f : Fm), (buildNative n fms).2[i]? = some t → fms[i]? = some f →
      t < (buildNative n fms).1.nodes.size ∧ ∀ σ, eval (buildNative n fms).1 t σ = f.sem σ :=
  buildNative_correct n fms hn hv

/-- bridge (`from_biodivine_vector`): replaying an ordered dump (two terminals first, children before
parents with larger variables; reducedness not needed) through `node` into any well-formed store
yields for every dump index a valid handle with that entry's function -/
theorem bridge_preserves (d : List Node) (hd : DumpOK d) (hlen : 2 ≤ d.length) (s : Store) (w : WF s) :
    let r := replayL (d.drop 2) s [0, 1]
    WF r.1 ∧ Ext s r.1 ∧ r.2.length = d.length ∧
    ∀ (j t : Nat) (f : BoolFn), r.2[j]? = some t → Den d j f → t < r.1.nodes.size ∧ ∀ σ, eval r.1 t σ = f σ :=
  bridge_correct d hd hlen s w

/-- verified validator run on every explored real store: if both tables pass `wfCheck` and the
memoised structural comparison says yes, the two handles denote the same Boolean function -/
theorem validator_sound (sa sb : Store) (ca : wfCheck sa.nodes = true) (cb : wfCheck sb.nodes = true)
    (fuel a b : Nat) (h : (isoF sa.nodes sb.nodes fuel {} a b).1 = true) :
    ∀ σ, eval sa a σ = eval sb b σ := isoCheck_sound sa sb ca cb fuel a b h

/-- pre-grounded import: the function expected there is the condition with the grounded truth values
substituted (`pre D g`), position by position -/
theorem pregrounded_function (D : List BoolFn) (g : I3) (i : Nat) (f : BoolFn) (h : D[i]? = some f) :
    (pre D g)[i]? = some (fun σ => f (over σ 0 g)) := pre_get D g i f h

example : (Fm.and (.atom 0) (.not (.atom 1))).atomsOK := by simp [Fm.atomsOK, VBOT]

end C09

/-! ## `from_parser` on files with the facts in ANY order (`FromParser`, `FromParserProofs`)

`FromParser.fromParser : PState → Option (Store × List Nat)` is `Adf::from_parser` on the parser object
(`none` = panic): variables `0 .. dict_size`, `ac = vec![Term(0); dict_size]`, then every condition in
FILE order compiled on the running store and written at `formula_order[k]`, atoms resolved through the
dictionary. `condFns fs` = for the `p`-th declared label the index-level Boolean function of the LAST
condition written for it (⊥ if none). `from_parser_correct` above (`buildNative`) is the special case
"one condition per statement, in declaration order" (`FromParser.buildNative_eq_placeCompile`). -/
namespace C09
open ParserM FromParser

/-- `from_parser` panics exactly on the files that are not well-formed ADFs: some condition is
given for an undeclared label (the `expect` in `formula_order`) or mentions an undeclared label
(the `expect` in `term`); declarations may follow their uses -/
theorem from_parser_panics_exactly (fs : List Fact) :
    ((fromParser (PState.ofFacts fs)).isSome = true ↔ WellFormedAdf fs) ∧
    (WellFormedAdf fs ↔ ∀ l f, Fact.ac l f ∈ fs → Fact.stmt l ∈ fs ∧ ∀ a ∈ atomsOf f, Fact.stmt a ∈ fs) := by
  refine ⟨fromParser_isSome_iff fs, ?_⟩
  constructor
  · intro h l f hm
    have ⟨h1, h2⟩ := h (l, f) ((acsOf_mem fs l f).mpr hm)
    exact ⟨(namesOf_mem fs l).mp h1, fun a ha => (namesOf_mem fs a).mp (h2 a ha)⟩
  · intro h lf hlf
    have ⟨h1, h2⟩ := h lf.1 lf.2 ((acsOf_mem fs lf.1 lf.2).mp hlf)
    exact ⟨(namesOf_mem fs lf.1).mpr h1, fun a ha => (namesOf_mem fs a).mpr (h2 a ha)⟩

/-- whatever the order of the facts (conditions before declarations, conditions in another order
than the declarations, no or several conditions for a statement): the built store is well formed and
position `p` of `ac` is a valid handle of the function of the `p`-th declared statement's condition -/
theorem from_parser_any_order_correct (fs : List Fact) (s : Store) (ac : List Nat)
    (h : fromParser (PState.ofFacts fs) = some (s, ac)) (hn : (namesOf fs).length ≤ VBOT) :
    WF s ∧ ac.length = (namesOf fs).length ∧ (∀ t ∈ ac, t < s.nodes.size) ∧ ac.map (eval s) = condFns fs :=
  fromParser_correct fs s ac h hn

/-- no condition: ⊥, and the entry is the initial `Term(0)`; several conditions: the last one -/
theorem from_parser_zero_or_several (fs : List Fact) :
    (∀ l, (∀ f, Fact.ac l f ∉ fs) → condOf fs l = .bot) ∧
    (∀ (s : Store) (ac : List Nat) (p : Nat) (l : Label), fromParser (PState.ofFacts fs) = some (s, ac) → (namesOf fs)[p]? = some l →
      (∀ f, Fact.ac l f ∉ fs) → ac[p]? = some 0) ∧
    (∀ pre post l f, fs = pre ++ Fact.ac l f :: post → (∀ g, Fact.ac l g ∉ post) → condOf fs l = f) :=
  ⟨fun l h => condOf_no_condition fs l h,
   fun s ac p l h hp hno => fromParser_no_condition fs s ac h p l hp hno,
   fun pre post l f e h => e ▸ condOf_last_wins pre post l f h⟩

/-- two files with the same facts, the same order of declarations and at most one condition per
statement: both are built and yield position-wise the same Boolean functions. Handles may differ
(two stores, node numbers follow the compilation order — example below). -/
theorem from_parser_any_fact_order (fs gs : List Fact) (hp : fs.Perm gs)
    (hnames : namesOf fs = namesOf gs) (hone : ((acsOf fs).map (·.1)).Nodup)
    (hwf : WellFormedAdf fs) (hn : (namesOf fs).length ≤ VBOT) :
    ∃ s ac s' ac', fromParser (PState.ofFacts fs) = some (s, ac) ∧
      fromParser (PState.ofFacts gs) = some (s', ac') ∧
      ac.length = (namesOf fs).length ∧ ac'.length = (namesOf fs).length ∧
      ac.map (eval s) = ac'.map (eval s') ∧
      ∀ (p t t' : Nat), ac[p]? = some t → ac'[p]? = some t' → ∀ σ, eval s t σ = eval s' t' σ :=
  fromParser_same_functions_any_fact_order fs gs hp hnames hone hwf hn

/-- `ac(b,neg(b)). s(a). s(b). ac(a,neg(a)).` — the condition of `b` before every declaration, the
conditions in the order b, a -/
private def exA : List Fact :=
  [.ac ['b'] (.not (.atom ['b'])), .stmt ['a'], .stmt ['b'], .ac ['a'] (.not (.atom ['a']))]
/-- `s(a). ac(a,neg(a)). s(b). ac(b,neg(b)).` — the same facts in the usual order -/
private def exB : List Fact :=
  [.stmt ['a'], .ac ['a'] (.not (.atom ['a'])), .stmt ['b'], .ac ['b'] (.not (.atom ['b']))]

/-- non-vacuity of `from_parser_any_fact_order`: all hypotheses hold for `exA`, `exB` -/
example : ∃ s ac s' ac', fromParser (PState.ofFacts exA) = some (s, ac) ∧
    fromParser (PState.ofFacts exB) = some (s', ac') ∧ ac.length = 2 ∧ ac'.length = 2 ∧
    ac.map (eval s) = ac'.map (eval s') := by
  have hp : exA.Perm exB := by decide
  have ⟨s, ac, s', ac', h1, h2, h3, h4, h5, _⟩ := from_parser_any_fact_order exA exB hp
    (by decide) (by decide) (by decide) (by simp [VBOT, exA, namesOf])
  exact ⟨s, ac, s', ac', h1, h2, h3, h4, h5⟩
-- … and the handles do differ: the nodes of ¬b and ¬a are created in the other order
#guard (fromParser (PState.ofFacts exA)).map (·.2) == some [5, 4]
#guard (fromParser (PState.ofFacts exB)).map (·.2) == some [4, 5]
-- non-vacuity of `from_parser_panics_exactly`: a well-formed file with a use before the declaration,
-- a condition for an undeclared label, an undeclared atom
example : WellFormedAdf exA := by decide
example : ¬ WellFormedAdf [.stmt ['a'], .ac ['b'] .top] := by decide
example : ¬ WellFormedAdf [.stmt ['a'], .ac ['a'] (.atom ['b'])] := by decide
#guard (fromParser (PState.ofFacts [.stmt ['a'], .ac ['b'] .top])).isNone
#guard (fromParser (PState.ofFacts [.stmt ['a'], .ac ['a'] (.atom ['b'])])).isNone
-- zero / several conditions: `s(a). s(b). ac(a,c(v)). ac(a,b).` — `a` gets `b` (last wins), `b` gets ⊥
example : condOf [.stmt ['a'], .stmt ['b'], .ac ['a'] .top, .ac ['a'] (.atom ['b'])] ['a'] = .atom ['b'] ∧
    condOf [.stmt ['a'], .stmt ['b'], .ac ['a'] .top, .ac ['a'] (.atom ['b'])] ['b'] = .bot := by decide
#guard (fromParser (PState.ofFacts [.stmt ['a'], .stmt ['b'], .ac ['a'] .top, .ac ['a'] (.atom ['b'])])).map (·.2)
  == some [3, 0]
-- without "at most one condition per statement" the order of the facts matters
#guard (fromParser (PState.ofFacts [.stmt ['a'], .stmt ['b'], .ac ['a'] (.atom ['b']), .ac ['a'] .top])).map (·.2)
  == some [1, 0]

end C09
