import AdfObdd.AdfPipeline
import AdfObdd.Bridge
import AdfObdd.IsoCheck
import AdfObdd.PreGround
/-! # C09 — compilation to diagrams preserves every acceptance condition (native + bridge) -/
namespace C09

/-- native compilation of one formula of any size (`Adf::term`), from any well-formed store -/
theorem compile_one (φ : Fm) (s : Store) (w : WF s) (h : φ.atomsOK) :
    WF (compile s φ).1 ∧ Ext s (compile s φ).1 ∧ (compile s φ).2 < (compile s φ).1.nodes.size ∧
    ∀ σ, eval (compile s φ).1 (compile s φ).2 σ = φ.sem σ :=
  let g := compile_correct φ s w h
  ⟨g.wf, g.ext, g.lt, g.ev⟩

/-- the whole framework as `Adf::from_parser` builds it: the handle stored for each statement
denotes exactly the Boolean function of that statement's condition; any number of statements,
any formula sizes, any variable order (the order is the numbering of the atoms) -/
theorem from_parser_correct (n : Nat) (fms : List Fm) (hn : n ≤ VBOT) (hv : ∀ f ∈ fms, f.atomsOK) :
    WF (buildNative n fms).1 ∧ (buildNative n fms).2.length = fms.length ∧
    ∀ (i t : Nat) (f : Fm), (buildNative n fms).2[i]? = some t → fms[i]? = some f →
      t < (buildNative n fms).1.nodes.size ∧ ∀ σ, eval (buildNative n fms).1 t σ = f.sem σ :=
  buildNative_correct n fms hn hv

/-- bridge (`from_biodivine_vector`): replaying an ordered dump (two terminals first, children before
parents with larger variables; reducedness not needed) through `node` into any well-formed store
yields for every dump index a valid handle with that entry's function -/
theorem bridge_preserves (d : List Node) (hd : DumpOK d) (hlen : 2 ≤ d.length) (s : Store) (w : WF s) :
    let r := replayL (d.drop 2) s [0, 1]
    WF r.1 ∧ Ext s r.1 ∧ r.2.length = d.length ∧
    ∀ (j t : Nat) (f : BoolFn), r.2[j]? = some t → Den d j f → t < r.1.nodes.size ∧ ∀ σ, eval r.1 t σ = f σ :=
  bridge_correct d hd hlen s w

/-- verified validator run on every explored real store: if both tables pass `wfCheck` and the
memoised structural comparison says yes, the two handles denote the same Boolean function -/
theorem validator_sound (sa sb : Store) (ca : wfCheck sa.nodes = true) (cb : wfCheck sb.nodes = true)
    (fuel a b : Nat) (h : (isoF sa.nodes sb.nodes fuel {} a b).1 = true) :
    ∀ σ, eval sa a σ = eval sb b σ := isoCheck_sound sa sb ca cb fuel a b h

/-- pre-grounded import: the function expected there is the condition with the grounded truth values
substituted (`pre D g`), position by position -/
theorem pregrounded_function (D : List BoolFn) (g : I3) (i : Nat) (f : BoolFn) (h : D[i]? = some f) :
    (pre D g)[i]? = some (fun σ => f (over σ 0 g)) := pre_get D g i f h

example : (Fm.and (.atom 0) (.not (.atom 1))).atomsOK := by simp [Fm.atomsOK, VBOT]

end C09
