import AdfObdd.AdfPipeline
import AdfObdd.PreGround
import AdfObdd.PreGround2
import AdfObdd.Bridge
import AdfObdd.FnRA
import AdfObdd.FromParserProofs
import AdfObdd.HybridExample
import AdfObdd.HybridFacts
import AdfObdd.CliWorldProofs
/-! # C01 — the grounded interpretation is the least fixpoint, on every back-end

`Gam D` is the three-valued consequence operator of the acceptance conditions `D` (a statement is
true / false in `Gam D w` iff its condition is valid / unsatisfiable once the decided statements
of `w` are substituted, undecided otherwise; `Lfp.lean`). `IsLfp D g` = fixpoint below every fixpoint.
The algorithm (`groundedLoop`: snapshot of the decided statements at the start of a round, every
undecided condition restricted by all of them, stop when the number of constants does not grow) is
written once over a lawful restriction algebra `RA`; the native store is an instance (laws =
C06/C07), a faithful Boolean-function library such as biodivine is modelled by any lawful instance. -/
namespace C01

/-- generic algorithm, any lawful back-end, any conditions: the result is a fixpoint of Γ that lies
below every fixpoint; `n + 1` rounds suffice (termination) -/
theorem grounded_is_lfp_any_backend {S T : Type} (A : RA S T) (fuel : Nat) (s : S) (ac : List T)
    (hi : A.Inv s) (hv : AllValid A s ac) (hf : ac.length < fuel) :
    IsLfp (ac.map (A.den s)) (asg3 A (groundedLoop A fuel s ac).2) :=
  grounded_correct A fuel s ac hi hv hf

/-- the biodivine back-end, modelled as the ideal Boolean-function library (terms are functions,
restriction is the cofactor, constant detection exact — a lawful instance `FnRA`): its grounding
loop (same round function: snapshot of the decided statements, every undecided condition
restricted by all of them, stop when nothing new became constant) returns the least fixpoint -/
theorem grounded_biodivine_model_is_lfp (D : List BoolFn) :
    IsLfp D (asg3 FnRA (groundedLoop FnRA (D.length + 1) () D).2) :=
  grounded_ideal_library D

/-- native back-end on the efficient store (unique table, memo tables) -/
theorem grounded_native_is_lfp (fuel : Nat) (s : Store) (ac : List Nat) (w : WF s)
    (hv : ∀ t ∈ ac, t < s.nodes.size) (hf : ac.length < fuel) :
    IsLfp (ac.map (eval s)) ((groundedLoop StoreRA fuel s ac).2.map storeIsConst) :=
  grounded_native fuel s ac w hv hf

/-- native back-end end to end from the written formulas (`from_parser` then `grounded`): the framework
has exactly the statements `0 … fms.length-1`, one condition each, and every atom is one of them -/
theorem grounded_native_from_formulas (fms : List Fm) (hn : fms.length ≤ VBOT)
    (hv : ∀ f ∈ fms, NConc.atomsLt fms.length f) :
    let b := buildNative fms.length fms
    IsLfp (fms.map Fm.sem) ((groundedLoop StoreRA (fms.length + 1) b.1 b.2).2.map storeIsConst) :=
  grounded_native_end_to_end fms.length fms hn (fun f hf => NConc.atomsOK_of_lt hn f (hv f hf))
    (fms.length + 1) (Nat.lt_succ_self _)

/-- the former, more general form (kept): `n` variable nodes created in advance for ANY `n ≤ Var::BOT`,
conditions over any atoms below `Var::BOT` - also frameworks whose conditions mention variables that
are not statements (`n` and `fms.length` unrelated) -/
theorem grounded_native_from_formulas_any_n (n : Nat) (fms : List Fm) (hn : n ≤ VBOT) (hv : ∀ f ∈ fms, f.atomsOK) :
    let b := buildNative n fms
    IsLfp (fms.map Fm.sem) ((groundedLoop StoreRA (fms.length + 1) b.1 b.2).2.map storeIsConst) :=
  grounded_native_end_to_end n fms hn hv (fms.length + 1) (Nat.lt_succ_self _)

/-- kernel-checked instance where a round really propagates: `s(a). s(b). s(c). ac(a,c(v)). ac(b,a).
ac(c,neg(b)).` - round 1 decides `a`, round 2 `b`, round 3 `c`; the model's `grounded` on the compiled
store reports `T T F` (through the theorem: least fixpoints are unique, and the least fixpoint of these
three functions is computed by evaluation on the truth-table library, `Bio.tt_lfp`) -/
example : (groundedLoop StoreRA 4 (buildNative 3 Bio.exChain).1 (buildNative 3 Bio.exChain).2).2.map storeIsConst =
    [some true, some true, some false] := by
  have h := grounded_native_from_formulas Bio.exChain (by simp [Bio.exChain, VBOT]) Bio.exChain_ok
  have e := isLfp_unique h (Bio.tt_lfp Bio.exChain Bio.exChain_ok)
  exact e.trans (by decide)

/-- exactly one grounded interpretation: least fixpoints of the same length are equal, so all
back-ends report the same one -/
theorem grounded_unique (D : List BoolFn) (g g' : I3) (h : IsLfp D g) (h' : IsLfp D g') : g = g' := by
  have l1 : g.length = D.length := by have := congrArg List.length h.1; rw [Gam_length] at this; omega
  have l2 : g'.length = D.length := by have := congrArg List.length h'.1; rw [Gam_length] at this; omega
  exact Le3_antisymm (by omega) (h.2 g' h'.1) (h'.2 g h.1)

/-- hybrid back-end with biodivine pre-grounding: substituting the grounded interpretation into
the conditions (what `hybrid_step` hands to the native store) leaves the least fixpoint unchanged -/
theorem pregrounded_same_lfp (D : List BoolFn) (g : I3) (h : IsLfp D g) : IsLfp (pre D g) g := pre_lfp D g h

/-- hybrid back-end without pre-grounding: the bridged handles denote the dump's functions in a
well-formed store (C09), so `grounded_native_is_lfp` applies to them -/
theorem hybrid_bridge_then_native (d : List Node) (hd : DumpOK d) (hlen : 2 ≤ d.length) (s : Store) (w : WF s) :
    WF (replayL (d.drop 2) s [0, 1]).1 ∧
    ∀ (j t : Nat) (f : BoolFn), (replayL (d.drop 2) s [0, 1]).2[j]? = some t → Den d j f →
      t < (replayL (d.drop 2) s [0, 1]).1.nodes.size ∧ ∀ σ, eval (replayL (d.drop 2) s [0, 1]).1 t σ = f σ :=
  let x := bridge_correct d hd hlen s w
  ⟨x.1, x.2.2.2⟩

/-- **hybrid back-end, end to end** (`adfbiodivine::Adf::hybrid_step_opt(opt)` then the native
`Adf::grounded`; model `Bio.hybridStep`, HybridModel.lean): optional biodivine grounding → residual
diagrams → dump of each diagram → replay through `Bdd::node` into ONE fresh native store, in statement
order → native grounding loop. For BOTH values of the flag the reported vector is the least fixpoint of Γ
for the ORIGINAL conditions `ac.map W.den`, and it is the vector biodivine's own `grounded` reports.

ASSUMPTIONS ABOUT THE EXTERNAL CRATE (hypotheses, not axioms): `W : Bio.Lawful L n` (its operations
compute what their names say, BioModel.lean) and `hd : Bio.DumpSpec W dump` (the textual dump of a
non-constant diagram is an ordered table - two terminal entries first, children before parents, larger
variables below - whose last entry denotes the diagram; DESIGN §4). `hd` is an ASSUMPTION, it is not
checked on real dumps: the harness never sees biodivine's dump text, it validates the BRIDGED native
table (`wfCheck`, and `isoCheck` against the natively compiled conditions). The assumption about the
library includes the law of its inherent `restrict` (`Lawful.restrict_spec`: cofactor), which is what
`ac.restrict(..)` in `adfbiodivine.rs` calls - NOT the file's own `select`-then-`exists`, which is dead
code. Instances of both hypotheses: truth tables with their decision-tree dump (`Bio.ttDump2_spec`)
and the project's own reduced, shared diagrams (`Bio.storeLawful`, `Bio.storeDump_spec`, StoreLib.lean). -/
theorem hybrid_grounded_is_lfp {T : Type} (L : Bio.Lib T) (n : Nat) (W : Bio.Lawful L n)
    (dump : T → List Node) (hd : Bio.DumpSpec W dump) (opt : Bool)
    (ac : List T) (hv : ∀ a ∈ ac, W.Valid a) (hn : ac.length = n) :
    let r := Bio.hybridStep L dump opt ac
    let out := (groundedLoop StoreRA (n + 1) r.1 r.2).2.map storeIsConst
    IsLfp (ac.map W.den) out ∧ out = (Bio.bioGrounded L ac).map storeIsConst :=
  Bio.hybrid_grounded W hd opt ac hv hn

/-- the same from the WRITTEN framework: biodivine `from_parser` (`Bio.fromFormulas`: `eval_expression` of
`to_boolean_expr` of each condition), `hybrid_step_opt`, native `grounded` = least fixpoint of Γ for the
written conditions -/
theorem hybrid_grounded_from_formulas {T : Type} (L : Bio.Lib T) (fms : List Fm) (W : Bio.Lawful L fms.length)
    (dump : T → List Node) (hd : Bio.DumpSpec W dump) (opt : Bool)
    (hv : ∀ f ∈ fms, NConc.atomsLt fms.length f) :
    let r := Bio.hybridStep L dump opt (Bio.fromFormulas L fms)
    IsLfp (fms.map Fm.sem) ((groundedLoop StoreRA (fms.length + 1) r.1 r.2).2.map storeIsConst) := by
  have ⟨a, b, c, _⟩ := Bio.fromFormulas_spec fms W hv
  have := (Bio.hybrid_grounded W hd opt _ b a).1
  rw [c] at this; exact this

/-- non-vacuity of the hybrid theorems: the truth-table library over two variables is lawful
(`Bio.ttLawful 2`), its decision-tree dump satisfies `Bio.DumpSpec` (`Bio.ttDump2_spec`); on
`s(a). s(b). ac(a,c(v)). ac(b,a).` the hybrid-built object's `grounded` reports `T T` for both flags - with
`opt = true` biodivine propagates and the bridge only sees constants, with `opt = false` the diagram of
`b`'s condition is dumped, replayed and the native loop propagates -/
example (opt : Bool) :
    let r := Bio.hybridStep (Bio.ttLib 2) Bio.ttDump2 opt (Bio.fromFormulas (Bio.ttLib 2) Bio.exChain2)
    (groundedLoop StoreRA 3 r.1 r.2).2.map storeIsConst = [some true, some true] := by
  have h := hybrid_grounded_from_formulas (Bio.ttLib 2) Bio.exChain2 (Bio.ttLawful 2) Bio.ttDump2
    Bio.ttDump2_spec opt Bio.exChain2_ok
  have e := isLfp_unique h (Bio.tt_lfp Bio.exChain2 Bio.exChain2_ok)
  exact e.trans (by decide)

/-- non-vacuity: `s(a). s(b). ac(a, c(v)). ac(b, a).` satisfies the hypotheses -/
example : (∀ f ∈ [Fm.top, Fm.atom 0], f.atomsOK) ∧ 2 ≤ VBOT := by
  refine ⟨?_, by simp [VBOT]⟩
  intro f hf
  simp at hf
  rcases hf with h | h <;> subst h <;> simp [Fm.atomsOK, VBOT]

/-- non-vacuity of `grounded_native_is_lfp` / `grounded_is_lfp_any_backend`: the fresh store with the
two constant conditions ⊤, ⊥ meets the hypotheses, and the ideal library any list of functions -/
example : WF Store.init ∧ (∀ t ∈ [1, 0], t < Store.init.nodes.size) ∧ [1, 0].length < 3 := by
  refine ⟨WF_init', ?_, by simp⟩
  intro t ht
  simp at ht
  rcases ht with h | h <;> subst h <;> simp [Store.init]

end C01

/-! ## end to end from the TEXT, facts in any order (`FromParser`, `FromParserProofs`) -/
namespace C01
open ParserM FromParser

/-- **from the text to the grounded interpretation.** If the parser (C08 model `parse`) accepts the
text `t`, then `t` spells a non-empty list of facts `fs` (unique: C08.grammar_unambiguous);
`from_parser` on the parser object panics iff `fs` is not a well-formed ADF; otherwise — whatever the
order of the facts in the text — the store is well formed, `ac` denotes position-wise the
index-level functions `condFns fs` of the written conditions (last condition per statement, ⊥ if
none), and the vector `grounded` computes on it is the least fixpoint of Γ for them. -/
theorem grounded_from_text (t : List Char) (st : PState) (h : parse t = some st) :
    ∃ fs, fs ≠ [] ∧ DerFile fs t ∧ st = PState.ofFacts fs ∧ dictSizeOf st = (namesOf fs).length ∧
      ((fromParser st).isSome = true ↔ WellFormedAdf fs) ∧
      ∀ s ac, fromParser st = some (s, ac) → dictSizeOf st ≤ VBOT →
        WF s ∧ (∀ t ∈ ac, t < s.nodes.size) ∧ ac.map (eval s) = condFns fs ∧
        IsLfp (condFns fs) ((groundedLoop StoreRA (dictSizeOf st + 1) s ac).2.map storeIsConst) :=
  FromParser.grounded_from_text t st h

/-- the same for the complete interpretations (exactly the fixpoints of Γ, once each, the grounded
one first) and the stable models (exactly those of the definition, once each) -/
theorem complete_stable_from_text (t : List Char) (st : PState) (h : parse t = some st)
    (s : Store) (ac : List Nat) (hb : fromParser st = some (s, ac)) (hn : dictSizeOf st ≤ VBOT) :
    ∃ fs, fs ≠ [] ∧ DerFile fs t ∧ st = PState.ofFacts fs ∧
      (let n := dictSizeOf st
       ((completeAll s n ac).2.2.map (fun v => v.map storeIsConst)).Nodup ∧
       (∀ w : I3, w ∈ (completeAll s n ac).2.2.map (fun v => v.map storeIsConst) ↔
         (w.length = n ∧ Gam (condFns fs) w = w)) ∧
       (completeAll s n ac).2.2.head? = some (completeAll s n ac).2.1) ∧
      (let n := dictSizeOf st
       let out := (stableAll s n ac).2.map (fun v => v.map storeIsConst)
       out.Nodup ∧ ∀ v : I3, v ∈ out ↔ (v.length = n ∧ StableExact.StableI (condFns fs) v)) :=
  FromParser.complete_stable_from_text t st h s ac hb hn

/-- `ac(c,and(a,b)).s(a).s(b).s(c).ac(b,a).ac(a,c(v)).` — the condition of `c` before every
declaration, the conditions in the order c, b, a -/
private def exT : List Char :=
  ['a','c','(','c',',','a','n','d','(','a',',','b',')',')','.','s','(','a',')','.','s','(','b',')','.',
   's','(','c',')','.','a','c','(','b',',','a',')','.','a','c','(','a',',','c','(','v',')',')','.']
private def exF : List Fact :=
  [.ac ['c'] (.and (.atom ['a']) (.atom ['b'])), .stmt ['a'], .stmt ['b'], .stmt ['c'],
   .ac ['b'] (.atom ['a']), .ac ['a'] .top]

/-- non-vacuity of `grounded_from_text`: the text is accepted with these facts, they are a
well-formed ADF, so `from_parser` returns some `(s, ac)`, and three statements are below the bound -/
example : parse exT = some (PState.ofFacts exF) ∧ WellFormedAdf exF ∧
    (∃ s ac, fromParser (PState.ofFacts exF) = some (s, ac)) ∧ dictSizeOf (PState.ofFacts exF) ≤ VBOT := by
  refine ⟨by decide, by decide, ?_, by rw [dictSizeOf_ofFacts]; simp [VBOT, exF, namesOf]⟩
  cases hb : fromParser (PState.ofFacts exF) with
  | none => have := fromParser_isSome exF (by decide); rw [hb] at this; cases this
  | some r => exact ⟨r.1, r.2, rfl⟩
/-- **hybrid back-end from a file with the facts in ANY order** (conditions before declarations, several
or no condition for a statement, any `formula_order`): the library-side `from_parser` (`CliM.bioBuild`:
variables from the name list, every condition of the file written at `formula_order[k]`) does not panic
on a well-formed file whose labels the library accepts, and `hybrid_step_opt(opt)` + native `grounded` on
its result is the least fixpoint of Γ for `condFns fs` (the last condition written per statement, ⊥ if
none) - the same framework `grounded_from_text` gives the native arm -/
theorem hybrid_grounded_from_facts {T : Type} (L : Bio.Lib T) (fs : List Fact)
    (W : Bio.Lawful L (namesOf fs).length) (dump : T → List Node) (hd : Bio.DumpSpec W dump) (opt : Bool)
    (hwf : WellFormedAdf fs) (hn : (namesOf fs).length ≤ VBOT)
    (hnames : (namesOf fs).all CliM.bioNameOK = true) :
    ∃ (acB : List T) (rw : Option T), CliM.bioBuild L (PState.ofFacts fs) false = some (acB, rw) ∧
      let r := Bio.hybridStep L dump opt acB
      IsLfp (condFns fs) ((groundedLoop StoreRA ((namesOf fs).length + 1) r.1 r.2).2.map storeIsConst) := by
  obtain ⟨acB, rw, hb, hl, hv, hden⟩ := Bio.bioBuild_from_facts L fs W hwf hn hnames false
  refine ⟨acB, rw, hb, ?_⟩
  have := (Bio.hybrid_grounded W hd opt acB hv hl).1
  rw [hden] at this
  exact this

/-- non-vacuity: `ac(c,and(a,b)).s(a).s(b).s(c).ac(b,a).ac(a,c(v)).` (the condition of `c` before every
declaration, conditions in the order c, b, a) on the truth-table library with its decision-tree dump:
grounded through the hybrid pipeline = `T T T`, for both flags -/
example (opt : Bool) : ∃ acB rw, CliM.bioBuild (Bio.ttLib 3) (PState.ofFacts exF) false = some (acB, rw) ∧
    IsLfp (condFns exF) ((groundedLoop StoreRA 4 (Bio.hybridStep (Bio.ttLib 3) (Bio.ttDump 3) opt acB).1
      (Bio.hybridStep (Bio.ttLib 3) (Bio.ttDump 3) opt acB).2).2.map storeIsConst) :=
  hybrid_grounded_from_facts (Bio.ttLib 3) exF (Bio.ttLawful 3) (Bio.ttDump 3) (Bio.ttDump_spec 3 (by simp [VBOT]))
    opt (by decide) (by simp [VBOT, exF, namesOf]) (by decide)

-- the evaluation on this text: a ↦ ⊤, b ↦ a, c ↦ a ∧ b at positions 0, 1, 2; grounded = T T T
#guard ((parse exT).bind fromParser).map (fun r => (groundedLoop StoreRA 4 r.1 r.2).2) == some [1, 1, 1]
#guard ((parse exT).bind fromParser).map (·.2) == some [1, 2, 5]

end C01

#print axioms C01.grounded_is_lfp_any_backend
#print axioms C01.grounded_biodivine_model_is_lfp
#print axioms C01.grounded_native_is_lfp
#print axioms C01.grounded_native_from_formulas
#print axioms C01.grounded_native_from_formulas_any_n
#print axioms C01.grounded_unique
#print axioms C01.pregrounded_same_lfp
#print axioms C01.hybrid_bridge_then_native
#print axioms C01.hybrid_grounded_is_lfp
#print axioms C01.hybrid_grounded_from_formulas
#print axioms C01.grounded_from_text
#print axioms C01.complete_stable_from_text
#print axioms C01.hybrid_grounded_from_facts
