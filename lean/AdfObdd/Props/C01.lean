import AdfObdd.AdfPipeline
import AdfObdd.PreGround
import AdfObdd.PreGround2
import AdfObdd.Bridge
import AdfObdd.FnRA
import AdfObdd.FromParserProofs
/-! # C01 — the grounded interpretation is the least fixpoint, on every back-end

`Gam D` is the three-valued consequence operator of the acceptance conditions `D` (a statement is
true / false in `Gam D w` iff its condition is valid / unsatisfiable once the decided statements
of `w` are substituted, undecided otherwise; `Lfp.lean`). `IsLfp D g` = fixpoint below every fixpoint.
The algorithm (`groundedLoop`: snapshot of the decided statements at the start of a round, every
undecided condition restricted by all of them, stop when the number of constants does not grow) is
written once over a lawful restriction algebra `RA`; the native store is an instance (laws =
C06/C07), a faithful Boolean-function library such as biodivine is modelled by any lawful instance. -/
namespace C01

/-- generic algorithm, any lawful back-end, any conditions: the result is a fixpoint of Γ that lies
below every fixpoint; `n + 1` rounds suffice (termination) -/
theorem grounded_is_lfp_any_backend {S T : Type} (A : RA S T) (fuel : Nat) (s : S) (ac : List T)
    (hi : A.Inv s) (hv : AllValid A s ac) (hf : ac.length < fuel) :
    IsLfp (ac.map (A.den s)) (asg3 A (groundedLoop A fuel s ac).2) :=
  grounded_correct A fuel s ac hi hv hf

/-- the biodivine back-end, modelled as the ideal Boolean-function library (terms are functions,
restriction is the cofactor, constant detection exact — a lawful instance `FnRA`): its grounding
loop (same round function: snapshot of the decided statements, every undecided condition
restricted by all of them, stop when nothing new became constant) returns the least fixpoint -/
theorem grounded_biodivine_model_is_lfp (D : List BoolFn) :
    IsLfp D (asg3 FnRA (groundedLoop FnRA (D.length + 1) () D).2) :=
  grounded_ideal_library D

/-- native back-end on the efficient store (unique table, memo tables) -/
theorem grounded_native_is_lfp (fuel : Nat) (s : Store) (ac : List Nat) (w : WF s)
    (hv : ∀ t ∈ ac, t < s.nodes.size) (hf : ac.length < fuel) :
    IsLfp (ac.map (eval s)) ((groundedLoop StoreRA fuel s ac).2.map storeIsConst) :=
  grounded_native fuel s ac w hv hf

/-- native back-end end to end from the written formulas (`from_parser` then `grounded`) -/
theorem grounded_native_from_formulas (n : Nat) (fms : List Fm) (hn : n ≤ VBOT) (hv : ∀ f ∈ fms, f.atomsOK) :
    let b := buildNative n fms
    IsLfp (fms.map Fm.sem) ((groundedLoop StoreRA (fms.length + 1) b.1 b.2).2.map storeIsConst) :=
  grounded_native_end_to_end n fms hn hv (fms.length + 1) (Nat.lt_succ_self _)

/-- exactly one grounded interpretation: least fixpoints of the same length are equal, so all
back-ends report the same one -/
theorem grounded_unique (D : List BoolFn) (g g' : I3) (h : IsLfp D g) (h' : IsLfp D g') : g = g' := by
  have l1 : g.length = D.length := by have := congrArg List.length h.1; rw [Gam_length] at this; omega
  have l2 : g'.length = D.length := by have := congrArg List.length h'.1; rw [Gam_length] at this; omega
  exact Le3_antisymm (by omega) (h.2 g' h'.1) (h'.2 g h.1)

/-- hybrid back-end with biodivine pre-grounding: substituting the grounded interpretation into
the conditions (what `hybrid_step` hands to the native store) leaves the least fixpoint unchanged -/
theorem pregrounded_same_lfp (D : List BoolFn) (g : I3) (h : IsLfp D g) : IsLfp (pre D g) g := pre_lfp D g h

/-- hybrid back-end without pre-grounding: the bridged handles denote the dump's functions in a
well-formed store (C09), so `grounded_native_is_lfp` applies to them -/
theorem hybrid_bridge_then_native (d : List Node) (hd : DumpOK d) (hlen : 2 ≤ d.length) (s : Store) (w : WF s) :
    WF (replayL (d.drop 2) s [0, 1]).1 ∧
    ∀ (j t : Nat) (f : BoolFn), (replayL (d.drop 2) s [0, 1]).2[j]? = some t → Den d j f →
      t < (replayL (d.drop 2) s [0, 1]).1.nodes.size ∧ ∀ σ, eval (replayL (d.drop 2) s [0, 1]).1 t σ = f σ :=
  let x := bridge_correct d hd hlen s w
  ⟨x.1, x.2.2.2⟩

/-- non-vacuity: `s(a). s(b). ac(a, c(v)). ac(b, a).` satisfies the hypotheses -/
example : (∀ f ∈ [Fm.top, Fm.atom 0], f.atomsOK) ∧ 2 ≤ VBOT := by
  refine ⟨?_, by simp [VBOT]⟩
  intro f hf
  simp at hf
  rcases hf with h | h <;> subst h <;> simp [Fm.atomsOK, VBOT]

/-- non-vacuity of `grounded_native_is_lfp` / `grounded_is_lfp_any_backend`: the fresh store with the
two constant conditions ⊤, ⊥ meets the hypotheses, and the ideal library any list of functions -/
example : WF Store.init ∧ (∀ t ∈ [1, 0], t < Store.init.nodes.size) ∧ [1, 0].length < 3 := by
  refine ⟨WF_init', ?_, by simp⟩
  intro t ht
  simp at ht
  rcases ht with h | h <;> subst h <;> simp [Store.init]

end C01

/-! ## end to end from the TEXT, facts in any order (`FromParser`, `FromParserProofs`) -/
namespace C01
open ParserM FromParser

/-- **from the text to the grounded interpretation.** If the parser (C08 model `parse`) accepts the
text `t`, then `t` spells a non-empty list of facts `fs` (unique: C08.grammar_unambiguous);
`from_parser` on the parser object panics iff `fs` is not a well-formed ADF; otherwise — whatever the
order of the facts in the text — the store is well formed, `ac` denotes position-wise the
index-level functions `condFns fs` of the written conditions (last condition per statement, ⊥ if
none), and the vector `grounded` computes on it is the least fixpoint of Γ for them. -/
theorem grounded_from_text (t : List Char) (st : PState) (h : parse t = some st) :
    ∃ fs, fs ≠ [] ∧ DerFile fs t ∧ st = PState.ofFacts fs ∧ dictSizeOf st = (namesOf fs).length ∧
      ((fromParser st).isSome = true ↔ WellFormedAdf fs) ∧
      ∀ s ac, fromParser st = some (s, ac) → dictSizeOf st ≤ VBOT →
        WF s ∧ (∀ t ∈ ac, t < s.nodes.size) ∧ ac.map (eval s) = condFns fs ∧
        IsLfp (condFns fs) ((groundedLoop StoreRA (dictSizeOf st + 1) s ac).2.map storeIsConst) :=
  FromParser.grounded_from_text t st h

/-- the same for the complete interpretations (exactly the fixpoints of Γ, once each, the grounded
one first) and the stable models (exactly those of the definition, once each) -/
theorem complete_stable_from_text (t : List Char) (st : PState) (h : parse t = some st)
    (s : Store) (ac : List Nat) (hb : fromParser st = some (s, ac)) (hn : dictSizeOf st ≤ VBOT) :
    ∃ fs, fs ≠ [] ∧ DerFile fs t ∧ st = PState.ofFacts fs ∧
      (let n := dictSizeOf st
       ((completeAll s n ac).2.2.map (fun v => v.map storeIsConst)).Nodup ∧
       (∀ w : I3, w ∈ (completeAll s n ac).2.2.map (fun v => v.map storeIsConst) ↔
         (w.length = n ∧ Gam (condFns fs) w = w)) ∧
       (completeAll s n ac).2.2.head? = some (completeAll s n ac).2.1) ∧
      (let n := dictSizeOf st
       let out := (stableAll s n ac).2.map (fun v => v.map storeIsConst)
       out.Nodup ∧ ∀ v : I3, v ∈ out ↔ (v.length = n ∧ StableExact.StableI (condFns fs) v)) :=
  FromParser.complete_stable_from_text t st h s ac hb hn

/-- `ac(c,and(a,b)).s(a).s(b).s(c).ac(b,a).ac(a,c(v)).` — the condition of `c` before every
declaration, the conditions in the order c, b, a -/
private def exT : List Char :=
  ['a','c','(','c',',','a','n','d','(','a',',','b',')',')','.','s','(','a',')','.','s','(','b',')','.',
   's','(','c',')','.','a','c','(','b',',','a',')','.','a','c','(','a',',','c','(','v',')',')','.']
private def exF : List Fact :=
  [.ac ['c'] (.and (.atom ['a']) (.atom ['b'])), .stmt ['a'], .stmt ['b'], .stmt ['c'],
   .ac ['b'] (.atom ['a']), .ac ['a'] .top]

/-- non-vacuity of `grounded_from_text`: the text is accepted with these facts, they are a
well-formed ADF, so `from_parser` returns some `(s, ac)`, and three statements are below the bound -/
example : parse exT = some (PState.ofFacts exF) ∧ WellFormedAdf exF ∧
    (∃ s ac, fromParser (PState.ofFacts exF) = some (s, ac)) ∧ dictSizeOf (PState.ofFacts exF) ≤ VBOT := by
  refine ⟨by decide, by decide, ?_, by rw [dictSizeOf_ofFacts]; simp [VBOT, exF, namesOf]⟩
  cases hb : fromParser (PState.ofFacts exF) with
  | none => have := fromParser_isSome exF (by decide); rw [hb] at this; cases this
  | some r => exact ⟨r.1, r.2, rfl⟩
-- the evaluation on this text: a ↦ ⊤, b ↦ a, c ↦ a ∧ b at positions 0, 1, 2; grounded = T T T
#guard ((parse exT).bind fromParser).map (fun r => (groundedLoop StoreRA 4 r.1 r.2).2) == some [1, 1, 1]
#guard ((parse exT).bind fromParser).map (·.2) == some [1, 2, 5]

end C01
