import AdfObdd.AdfPipeline
import AdfObdd.PreGround
import AdfObdd.PreGround2
import AdfObdd.Bridge
import AdfObdd.FnRA
/-! # C01 — the grounded interpretation is the least fixpoint, on every back-end

`Gam D` is the three-valued consequence operator of the acceptance conditions `D` (a statement is
true / false in `Gam D w` iff its condition is valid / unsatisfiable once the decided statements
of `w` are substituted, undecided otherwise; `Lfp.lean`). `IsLfp D g` = fixpoint below every fixpoint.
The algorithm (`groundedLoop`: snapshot of the decided statements at the start of a round, every
undecided condition restricted by all of them, stop when the number of constants does not grow) is
written once over a lawful restriction algebra `RA`; the native store is an instance (laws =
C06/C07), a faithful Boolean-function library such as biodivine is modelled by any lawful instance. -/
namespace C01

/-- generic algorithm, any lawful back-end, any conditions: the result is a fixpoint of Γ that lies
below every fixpoint; `n + 1` rounds suffice (termination) -/
theorem grounded_is_lfp_any_backend {S T : Type} (A : RA S T) (fuel : Nat) (s : S) (ac : List T)
    (hi : A.Inv s) (hv : AllValid A s ac) (hf : ac.length < fuel) :
    IsLfp (ac.map (A.den s)) (asg3 A (groundedLoop A fuel s ac).2) :=
  grounded_correct A fuel s ac hi hv hf

/-- the biodivine back-end, modelled as the ideal Boolean-function library (terms are functions,
restriction is the cofactor, constant detection exact — a lawful instance `FnRA`): its grounding
loop (same round function: snapshot of the decided statements, every undecided condition
restricted by all of them, stop when nothing new became constant) returns the least fixpoint -/
theorem grounded_biodivine_model_is_lfp (D : List BoolFn) :
    IsLfp D (asg3 FnRA (groundedLoop FnRA (D.length + 1) () D).2) :=
  grounded_ideal_library D

/-- native back-end on the efficient store (unique table, memo tables) -/
theorem grounded_native_is_lfp (fuel : Nat) (s : Store) (ac : List Nat) (w : WF s)
    (hv : ∀ t ∈ ac, t < s.nodes.size) (hf : ac.length < fuel) :
    IsLfp (ac.map (eval s)) ((groundedLoop StoreRA fuel s ac).2.map storeIsConst) :=
  grounded_native fuel s ac w hv hf

/-- native back-end end to end from the written formulas (`from_parser` then `grounded`) -/
theorem grounded_native_from_formulas (n : Nat) (fms : List Fm) (hn : n ≤ VBOT) (hv : ∀ f ∈ fms, f.atomsOK) :
    let b := buildNative n fms
    IsLfp (fms.map Fm.sem) ((groundedLoop StoreRA (fms.length + 1) b.1 b.2).2.map storeIsConst) :=
  grounded_native_end_to_end n fms hn hv (fms.length + 1) (Nat.lt_succ_self _)

/-- exactly one grounded interpretation: least fixpoints of the same length are equal, so all
back-ends report the same one -/
theorem grounded_unique (D : List BoolFn) (g g' : I3) (h : IsLfp D g) (h' : IsLfp D g') : g = g' := by
  have l1 : g.length = D.length := by have := congrArg List.length h.1; rw [Gam_length] at this; omega
  have l2 : g'.length = D.length := by have := congrArg List.length h'.1; rw [Gam_length] at this; omega
  exact Le3_antisymm (by omega) (h.2 g' h'.1) (h'.2 g h.1)

/-- hybrid back-end with biodivine pre-grounding: substituting the grounded interpretation into
the conditions (what `hybrid_step` hands to the native store) leaves the least fixpoint unchanged -/
theorem pregrounded_same_lfp (D : List BoolFn) (g : I3) (h : IsLfp D g) : IsLfp (pre D g) g := pre_lfp D g h

/-- hybrid back-end without pre-grounding: the bridged handles denote the dump's functions in a
well-formed store (C09), so `grounded_native_is_lfp` applies to them -/
theorem hybrid_bridge_then_native (d : List Node) (hd : DumpOK d) (hlen : 2 ≤ d.length) (s : Store) (w : WF s) :
    WF (replayL (d.drop 2) s [0, 1]).1 ∧
    ∀ (j t : Nat) (f : BoolFn), (replayL (d.drop 2) s [0, 1]).2[j]? = some t → Den d j f →
      t < (replayL (d.drop 2) s [0, 1]).1.nodes.size ∧ ∀ σ, eval (replayL (d.drop 2) s [0, 1]).1 t σ = f σ :=
  let x := bridge_correct d hd hlen s w
  ⟨x.1, x.2.2.2⟩

/-- non-vacuity: `s(a). s(b). ac(a, c(v)). ac(b, a).` satisfies the hypotheses -/
example : (∀ f ∈ [Fm.top, Fm.atom 0], f.atomsOK) ∧ 2 ≤ VBOT := by
  refine ⟨?_, by simp [VBOT]⟩
  intro f hf
  simp at hf
  rcases hf with h | h <;> subst h <;> simp [Fm.atomsOK, VBOT]

/-- non-vacuity of `grounded_native_is_lfp` / `grounded_is_lfp_any_backend`: the fresh store with the
two constant conditions ⊤, ⊥ meets the hypotheses, and the ideal library any list of functions -/
example : WF Store.init ∧ (∀ t ∈ [1, 0], t < Store.init.nodes.size) ∧ [1, 0].length < 3 := by
  refine ⟨WF_init', ?_, by simp⟩
  intro t ht
  simp at ht
  rcases ht with h | h <;> subst h <;> simp [Store.init]

end C01
