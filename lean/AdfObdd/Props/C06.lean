import AdfObdd.OpsProofs
import AdfObdd.WfCheck
import AdfObdd.Rebuild
import AdfObdd.Bridge
/-! # C06 — the diagram store stays canonical: same handle iff same Boolean function

Reachable states are the results of `runOps` on the fresh store (any operation sequence, so any
order of construction, interleaved restrictions and cache contents), of the node-list rebuild
(re-import) and of the bridge replay. -/
namespace C06

/-- after any operation sequence the node table is reduced, ordered and duplicate free -/
theorem table_wf_reachable (ops : List Op) (hv : opsValid ops 2) :
    TableWF (runOps ops Store.init [0, 1]).1.nodes :=
  (runOps_refines ops Store.init [0, 1] _ WF_init HistOK.init hv).1.table

/-- two issued handles are equal exactly when the formulas denote the same Boolean function -/
theorem same_handle_iff_same_function (ops : List Op) (hv : opsValid ops 2) (i j : Nat)
    (hi : i < (runOps ops Store.init [0, 1]).2.length) (hj : j < (runOps ops Store.init [0, 1]).2.length) :
    let r := runOps ops Store.init [0, 1]
    let fs := semOps ops [fun _ => false, fun _ => true]
    hget r.2 i = hget r.2 j ↔ ∀ σ, fget fs i σ = fget fs j σ := by
  intro r fs
  have ⟨w, _, h⟩ := runOps_refines ops Store.init [0, 1] _ WF_init HistOK.init hv
  have ⟨vi, ei⟩ := h.ok i hi
  have ⟨vj, ej⟩ := h.ok j hj
  rw [← canonical r.1 w _ _ vi vj]
  constructor
  · intro e σ; rw [← ei σ, ← ej σ]; exact e σ
  · intro e σ; rw [ei σ, ej σ]; exact e σ

/-- a formula collapses to the top (bottom) handle iff it is valid (unsatisfiable) -/
theorem const_iff (ops : List Op) (hv : opsValid ops 2) (i : Nat)
    (hi : i < (runOps ops Store.init [0, 1]).2.length) :
    let r := runOps ops Store.init [0, 1]
    let fs := semOps ops [fun _ => false, fun _ => true]
    (hget r.2 i = 1 ↔ ∀ σ, fget fs i σ = true) ∧ (hget r.2 i = 0 ↔ ∀ σ, fget fs i σ = false) := by
  intro r fs
  have ⟨w, _, h⟩ := runOps_refines ops Store.init [0, 1] _ WF_init HistOK.init hv
  have ⟨vi, ei⟩ := h.ok i hi
  constructor
  · rw [← canonical r.1 w _ 1 vi (one_lt r.1 w)]
    constructor
    · intro e σ; rw [← ei σ, e σ, eval_one]
    · intro e σ; rw [ei σ, e σ, eval_one]
  · rw [← canonical r.1 w _ 0 vi (zero_lt r.1 w)]
    constructor
    · intro e σ; rw [← ei σ, e σ, eval_zero]
    · intro e σ; rw [ei σ, e σ, eval_zero]

/-- the same from any well-formed state (so also after a re-import or a bridge conversion) -/
theorem canonical_any (s : Store) (w : WF s) (a b : Nat) (ha : a < s.nodes.size) (hb : b < s.nodes.size) :
    (∀ σ, eval s a σ = eval s b σ) ↔ a = b := canonical s w a b ha hb

/-- re-import by replaying the plain node list: same numbering, exact unique table -/
theorem rebuild_same_table (orig : Store) (w : WF orig) :
    (rebuild orig.nodes).nodes = orig.nodes ∧
    ∀ n t, (rebuild orig.nodes).uniq[n]? = some t ↔ (2 ≤ t ∧ orig.nodes[t]? = some n) :=
  rebuild_id orig w

/-- bridge conversion: replaying an ordered dump into any well-formed store keeps it well formed -/
theorem bridge_wf (d : List Node) (hd : DumpOK d) (hlen : 2 ≤ d.length) (s : Store) (w : WF s) :
    WF (replayL (d.drop 2) s [0, 1]).1 ∧ Ext s (replayL (d.drop 2) s [0, 1]).1 :=
  let x := bridge_correct d hd hlen s w
  ⟨x.1, x.2.1⟩

/-- verified checker run on every dumped *real* node table: if it says yes the table is reduced,
ordered and duplicate free … -/
theorem checker_sound (ns : Array Node) (h : wfCheck ns = true) : TableWF ns := wfCheck_sound ns h

/-- … hence canonical: on that very table equal functions have equal handles -/
theorem checked_table_canonical (s : Store) (h : wfCheck s.nodes = true) (a b : Nat)
    (ha : a < s.nodes.size) (hb : b < s.nodes.size) :
    (∀ σ, eval s a σ = eval s b σ) ↔ a = b := canonical_of_check s h a b ha hb

/-- non-vacuity: the fresh store is well formed and a concrete sequence is valid -/
example : WF Store.init ∧ opsValid [.var 0, .not 2, .or 2 3] 2 :=
  ⟨WF_init, by simp [opsValid, Op.valid, VBOT]⟩

/-- non-vacuity of `canonical_any` / `bridge_wf`: the fresh store is well formed and the dump consisting
of the two terminals and the variable x0 is an ordered dump -/
example : WF Store.init ∧ DumpOK [⟨VBOT, 0, 0⟩, ⟨VTOP, 1, 1⟩, ⟨0, 0, 1⟩] := by
  refine ⟨WF_init, ?_⟩
  intro j n hj hn
  have : j = 2 := by
    have := (List.getElem?_eq_some_iff.mp hn).1
    simp at this; omega
  subst this
  simp at hn
  subst hn
  refine ⟨by simp [VBOT], by simp, by simp, ?_, ?_⟩ <;> intro m h2 <;> simp at h2

end C06
