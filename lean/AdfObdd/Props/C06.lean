import AdfObdd.OpsProofs
import AdfObdd.WfCheck
import AdfObdd.Rebuild
import AdfObdd.Bridge
import AdfObdd.WfCheckFast
import AdfObdd.Reach
/-! # C06 — the diagram store stays canonical: same handle iff same Boolean function

Reachable states are the results of `runOps` on the fresh store (any operation sequence, so any
order of construction, interleaved restrictions and cache contents), of the node-list rebuild
(re-import) and of the bridge replay. -/
namespace C06

/-- after any operation sequence the node table is reduced, ordered and duplicate free -/
theorem table_wf_reachable (ops : List Op) (hv : opsValid ops 2) :
    TableWF (runOps ops Store.init [0, 1]).1.nodes :=
  (runOps_refines ops Store.init [0, 1] _ WF_init HistOK.init hv).1.table

/-- two issued handles are equal exactly when the formulas denote the same Boolean function -/
theorem same_handle_iff_same_function (ops : List Op) (hv : opsValid ops 2) (i j : Nat)
    (hi : i < (runOps ops Store.init [0, 1]).2.length) (hj : j < (runOps ops Store.init [0, 1]).2.length) :
    let r := runOps ops Store.init [0, 1]
    let fs := semOps ops [fun _ => false, fun _ => true]
    hget r.2 i = hget r.2 j ↔ ∀ σ, fget fs i σ = fget fs j σ := by
  intro r fs
  have ⟨w, _, h⟩ := runOps_refines ops Store.init [0, 1] _ WF_init HistOK.init hv
  have ⟨vi, ei⟩ := h.ok i hi
  have ⟨vj, ej⟩ := h.ok j hj
  rw [← canonical r.1 w _ _ vi vj]
  constructor
  · intro e σ; rw [← ei σ, ← ej σ]; exact e σ
  · intro e σ; rw [ei σ, ej σ]; exact e σ

/-- a formula collapses to the top (bottom) handle iff it is valid (unsatisfiable) -/
theorem const_iff (ops : List Op) (hv : opsValid ops 2) (i : Nat)
    (hi : i < (runOps ops Store.init [0, 1]).2.length) :
    let r := runOps ops Store.init [0, 1]
    let fs := semOps ops [fun _ => false, fun _ => true]
    (hget r.2 i = 1 ↔ ∀ σ, fget fs i σ = true) ∧ (hget r.2 i = 0 ↔ ∀ σ, fget fs i σ = false) := by
  intro r fs
  have ⟨w, _, h⟩ := runOps_refines ops Store.init [0, 1] _ WF_init HistOK.init hv
  have ⟨vi, ei⟩ := h.ok i hi
  constructor
  · rw [← canonical r.1 w _ 1 vi (one_lt r.1 w)]
    constructor
    · intro e σ; rw [← ei σ, e σ, eval_one]
    · intro e σ; rw [ei σ, e σ, eval_one]
  · rw [← canonical r.1 w _ 0 vi (zero_lt r.1 w)]
    constructor
    · intro e σ; rw [← ei σ, e σ, eval_zero]
    · intro e σ; rw [ei σ, e σ, eval_zero]

/-- the same from any well-formed state (so also after a re-import or a bridge conversion) -/
theorem canonical_any (s : Store) (w : WF s) (a b : Nat) (ha : a < s.nodes.size) (hb : b < s.nodes.size) :
    (∀ σ, eval s a σ = eval s b σ) ↔ a = b := canonical s w a b ha hb

/-- re-import by replaying the plain node list: same numbering, exact unique table -/
theorem rebuild_same_table (orig : Store) (w : WF orig) :
    (rebuild orig.nodes).nodes = orig.nodes ∧
    ∀ n t, (rebuild orig.nodes).uniq[n]? = some t ↔ (2 ≤ t ∧ orig.nodes[t]? = some n) :=
  rebuild_id orig w

/-- bridge conversion: replaying an ordered dump into any well-formed store keeps it well formed -/
theorem bridge_wf (d : List Node) (hd : DumpOK d) (hlen : 2 ≤ d.length) (s : Store) (w : WF s) :
    WF (replayL (d.drop 2) s [0, 1]).1 ∧ Ext s (replayL (d.drop 2) s [0, 1]).1 :=
  let x := bridge_correct d hd hlen s w
  ⟨x.1, x.2.1⟩

/-- verified checker run on every dumped *real* node table: if it says yes the table is reduced,
ordered and duplicate free … -/
theorem checker_sound (ns : Array Node) (h : wfCheck ns = true) : TableWF ns := wfCheck_sound ns h

/-- … hence canonical: on that very table equal functions have equal handles -/
theorem checked_table_canonical (s : Store) (h : wfCheck s.nodes = true) (a b : Nat)
    (ha : a < s.nodes.size) (hb : b < s.nodes.size) :
    (∀ σ, eval s a σ = eval s b σ) ↔ a = b := canonical_of_check s h a b ha hb

/-- non-vacuity: the fresh store is well formed and a concrete sequence is valid -/
example : WF Store.init ∧ opsValid [.var 0, .not 2, .or 2 3] 2 :=
  ⟨WF_init, by simp [opsValid, Op.valid, VBOT]⟩

/-- non-vacuity of `canonical_any` / `bridge_wf`: the fresh store is well formed and the dump consisting
of the two terminals and the variable x0 is an ordered dump -/
example : WF Store.init ∧ DumpOK [⟨VBOT, 0, 0⟩, ⟨VTOP, 1, 1⟩, ⟨0, 0, 1⟩] := by
  refine ⟨WF_init, ?_⟩
  intro j n hj hn
  have : j = 2 := by
    have := (List.getElem?_eq_some_iff.mp hn).1
    simp at this; omega
  subst this
  simp at hn
  subst hn
  refine ⟨by simp [VBOT], by simp, by simp, ?_, ?_⟩ <;> intro m h2 <;> simp at h2

end C06

/-! ## the linear-time checker for large dumped tables

`wfCheck` tests for duplicate nodes by comparing all pairs, which is too slow for dumped real
tables with 100 000+ nodes. `wfCheckFast` (`WfCheckFast.lean`) makes one pass with a hash set of
the nodes seen so far; it is sound, complete, and the same function as `wfCheck`. -/
namespace C06

/-- the fast checker is sound: if it says yes the table is reduced, ordered and duplicate free -/
theorem fast_checker_sound (ns : Array Node) (h : wfCheckFast ns = true) : TableWF ns :=
  wfCheckFast_sound ns h

/-- … and complete: it raises no false alarm on a well-formed table -/
theorem fast_checker_complete (ns : Array Node) (h : TableWF ns) : wfCheckFast ns = true :=
  wfCheckFast_complete ns h

/-- the quadratic checker is complete as well, so both compute the same verdict on every table -/
theorem fast_checker_eq (ns : Array Node) : wfCheckFast ns = wfCheck ns := wfCheckFast_eq_wfCheck ns

/-- a table that passes the fast checker is canonical -/
theorem fast_checked_table_canonical (s : Store) (h : wfCheckFast s.nodes = true) (a b : Nat)
    (ha : a < s.nodes.size) (hb : b < s.nodes.size) :
    (∀ σ, eval s a σ = eval s b σ) ↔ a = b := canonical_of_fast_check s h a b ha hb

/-- every node table the model can reach passes the fast checker (so a `false` on a dumped real
table is a difference from every model state, not an artefact of the checker) -/
theorem reachable_tables_pass_fast (ops : List Op) (hv : opsValid ops 2) :
    wfCheckFast (runOps ops Store.init [0, 1]).1.nodes = true :=
  wfCheckFast_complete _ (table_wf_reachable ops hv)

/-- x1, x0 ∧ x1 and x0 → x1 as a node table -/
def fastExample : Array Node := #[⟨VBOT, 0, 0⟩, ⟨VTOP, 1, 1⟩, ⟨1, 0, 1⟩, ⟨0, 0, 2⟩, ⟨0, 1, 2⟩]

/-- non-vacuity: the fast checker says yes on this table — kernel-checked through
`fast_checker_eq` (the hash set itself does not reduce in the kernel), and by evaluation -/
theorem fastExample_passes : wfCheckFast fastExample = true := by
  rw [fast_checker_eq]; decide
#guard wfCheckFast fastExample

example : TableWF fastExample := fast_checker_sound fastExample fastExample_passes

/-- … and no on the same table with a duplicated node, with a redundant test, with a child above
its parent, and without the ⊤ terminal -/
example : wfCheckFast (fastExample.push ⟨0, 0, 2⟩) = false ∧ wfCheckFast (fastExample.push ⟨0, 2, 2⟩) = false ∧
    wfCheckFast (fastExample.push ⟨1, 0, 3⟩) = false ∧ wfCheckFast #[⟨VBOT, 0, 0⟩] = false := by
  simp only [fast_checker_eq]
  refine ⟨?_, ?_, ?_, ?_⟩ <;> decide
#guard !wfCheckFast (fastExample.push ⟨0, 0, 2⟩) && !wfCheckFast (fastExample.push ⟨0, 2, 2⟩) &&
  !wfCheckFast (fastExample.push ⟨1, 0, 3⟩) && !wfCheckFast #[⟨VBOT, 0, 0⟩]

end C06

#print axioms C06.fast_checker_sound
#print axioms C06.fast_checker_complete
#print axioms C06.fast_checker_eq

/-! ## one reachability notion for "any sequence of operations, re-imports or bridge conversions"

`StoreReach` (`Reach.lean`): the fresh store; any diagram operation of `OpsModel` on operands that are
handles of the store; `Bdd::from(nodes)` of the node list (plain, and with the bookkeeping of
`variablelist`/`adhoccounting`); serde export → import → `fix_import`; bridge replay of an ordered
dump — in ANY interleaving. -/
namespace C06

/-- **every reachable store is well formed** (reduced, ordered, duplicate free, exact unique table,
sound memo tables). Preconditions carried by the constructors of `StoreReach`, not by this theorem:
operands must be handles of the store; `.var v` needs `v < VBOT = usize::MAX - 1` (the two largest
values are the terminals' pseudo-variables: the code's `Var::TOP`/`Var::BOT`); a bridge dump must be
ordered (`DumpOK`: children first, larger variables below — what biodivine's export guarantees). -/
theorem reach_wf {s : Store} (r : StoreReach s) : WF s := reach_wf_aux r

/-- … hence canonical: on every reachable store two handles are equal exactly when they denote
the same Boolean function, and a handle is ⊤ (⊥) iff its function is valid (unsatisfiable) -/
theorem reach_same_handle_iff_same_function {s : Store} (r : StoreReach s) (a b : Nat)
    (ha : a < s.nodes.size) (hb : b < s.nodes.size) :
    (a = b ↔ ∀ σ, eval s a σ = eval s b σ) ∧
    (a = 1 ↔ ∀ σ, eval s a σ = true) ∧ (a = 0 ↔ ∀ σ, eval s a σ = false) := by
  have w := reach_wf r
  refine ⟨(canonical s w a b ha hb).symm, ?_, ?_⟩
  · rw [← canonical s w a 1 ha (one_lt s w)]
    constructor
    · intro e σ; rw [e σ, eval_one]
    · intro e σ; rw [e σ, eval_one]
  · rw [← canonical s w a 0 ha (zero_lt s w)]
    constructor
    · intro e σ; rw [e σ, eval_zero]
    · intro e σ; rw [e σ, eval_zero]

/-- … and the node table is reduced, ordered and duplicate free, so both checkers accept it -/
theorem reach_table {s : Store} (r : StoreReach s) : TableWF s.nodes ∧ wfCheckFast s.nodes = true :=
  ⟨(reach_wf r).table, wfCheckFast_complete _ (reach_wf r).table⟩

/-- `runOps` from the fresh store stays inside `StoreReach` (so the earlier theorems of this file are
instances) -/
theorem runOps_reach : ∀ (ops : List Op) (s : Store) (hist : List Nat), StoreReach s →
    (∀ t ∈ hist, t < s.nodes.size) → opsValid ops hist.length → StoreReach (runOps ops s hist).1 := by
  intro ops
  induction ops with
  | nil => intro s hist r _ _; exact r
  | cons o ops ih =>
    intro s hist r hv ho
    have g := stepOp_good s hist _ o (reach_wf r) (HistOK.ofValid s hist hv) ho.1
    apply ih _ _ (StoreReach.op s hist o r hv ho.1)
    · intro t ht
      rcases List.mem_append.mp ht with h | h
      · exact Nat.lt_of_lt_of_le (hv t h) g.ext.1
      · rw [List.mem_singleton.mp h]; exact g.lt
    · simpa using ho.2

/-- non-vacuity, using every constructor once: build x0 and ¬x0 in the fresh store, export and
re-import the object, rebuild it from its node list (both variants), then replay the dump
⊥, ⊤, x0 of a foreign library into it: the result is reachable, hence well formed and canonical -/
example : ∃ s : Store, StoreReach s ∧ WF s := by
  have r1 : StoreReach (runOps [.var 0, .not 2] Store.init [0, 1]).1 :=
    runOps_reach _ _ _ StoreReach.fresh (by simp [Store.init]) (by simp [opsValid, Op.valid, VBOT])
  have r2 := StoreReach.reimport ⟨_, #[], {}⟩ r1
  have r3 := StoreReach.rebuildBook _ (StoreReach.rebuild _ r2)
  have r4 := StoreReach.bridge _ _ r3 dump3_ok (by simp)
  exact ⟨_, r4, reach_wf r4⟩

end C06

#print axioms C06.reach_wf
#print axioms C06.reach_same_handle_iff_same_function
#print axioms C06.runOps_reach
