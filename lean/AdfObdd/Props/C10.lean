import AdfObdd.Equivar
import AdfObdd.Stable
/-! # C10 — answers do not depend on presentation (fact order, sorting, naming)

A presentation change (reordering the facts, a sort, consistent renaming) is a bijection `p` of the
statement numbers with inverse `q`; `Renamed p q D D'` says `D'` is `D` presented through `p`
(statement `i` sits at position `p i` and reads its atoms through `p`). Whitespace changes do not
reach this level (they are parser layout, C08). -/
namespace C10

/-- the consequence operator commutes with every re-presentation -/
theorem consequence_operator_equivariant (p q : Nat → Nat) (D D' : List BoolFn) (w w' : I3)
    (h : Renamed p q D D') (hw : RenamedI p D.length w w') :
    RenamedI p D.length (Gam D w) (Gam D' w') := Gam_renamed p q D D' w w' h hw

/-- hence complete interpretations (fixpoints) correspond: read as maps from statement to value,
the sets of complete — and so of two-valued — models are the same -/
theorem complete_equivariant (p q : Nat → Nat) (D D' : List BoolFn) (w w' : I3)
    (h : Renamed p q D D') (hw : RenamedI p D.length w w') : Gam D w = w → Gam D' w' = w' :=
  complete_renamed p q D D' w w' h hw

/-- full statement for grounded and stable models, kept visible; PARTIAL: equivariance of the least
fixpoint and of the reduct are immediate consequences of `consequence_operator_equivariant` that are
not yet written out -/
def lfp_equivariant_statement : Prop :=
  ∀ (p q : Nat → Nat) (D D' : List BoolFn) (g g' : I3), Renamed p q D D' → RenamedI p D.length g g' →
    IsLfp D g → IsLfp D' g'

example : Renamed id id [fun σ => σ 0] [fun σ => σ 0] :=
  ⟨fun _ => rfl, fun _ => rfl, rfl, fun i h => h, fun i h => h, by
    intro i f h
    cases i with
    | zero => simp at h; subst h; simp
    | succ k => simp at h⟩

end C10
