import AdfObdd.Equivar
import AdfObdd.Stable
import AdfObdd.EquivarMore
import AdfObdd.StableExact
/-! # C10 — answers do not depend on presentation (fact order, sorting, naming)

A presentation change (reordering the facts, a sort, consistent renaming) is a bijection `p` of the
statement numbers with inverse `q`; `Renamed p q D D'` says `D'` is `D` presented through `p`
(statement `i` sits at position `p i` and reads its atoms through `p`). Whitespace changes do not
reach this level (they are parser layout, C08). -/
namespace C10

/-- the consequence operator commutes with every re-presentation -/
theorem consequence_operator_equivariant (p q : Nat → Nat) (D D' : List BoolFn) (w w' : I3)
    (h : Renamed p q D D') (hw : RenamedI p D.length w w') :
    RenamedI p D.length (Gam D w) (Gam D' w') := Gam_renamed p q D D' w w' h hw

/-- hence complete interpretations (fixpoints) correspond: read as maps from statement to value,
the sets of complete — and so of two-valued — models are the same -/
theorem complete_equivariant (p q : Nat → Nat) (D D' : List BoolFn) (w w' : I3)
    (h : Renamed p q D D') (hw : RenamedI p D.length w w') : Gam D w = w → Gam D' w' = w' :=
  complete_renamed p q D D' w w' h hw

/-- a re-presentation can be undone (`Renamed` is symmetric up to swapping the bijection and its
inverse), so every correspondence below holds in both directions -/
theorem presentation_symmetric (p q : Nat → Nat) (D D' : List BoolFn) (h : Renamed p q D D') :
    Renamed q p D' D := EquivarMore.Renamed.symm h

/-- full statement for the grounded interpretation: least fixpoints correspond -/
def lfp_equivariant_statement : Prop :=
  ∀ (p q : Nat → Nat) (D D' : List BoolFn) (g g' : I3), Renamed p q D D' → RenamedI p D.length g g' →
    IsLfp D g → IsLfp D' g'

/-- proved: the fixpoint part is `complete_equivariant`; for leastness a fixpoint of the
re-presented framework is read back through `p` (a fixpoint of the original one, by symmetry) -/
theorem lfp_equivariant : lfp_equivariant_statement :=
  fun p q D D' g g' h hg hl => EquivarMore.lfp_renamed p q D D' g g' h hg hl

/-- and since the least fixpoint is unique, THE grounded interpretations of two presentations
correspond (nothing assumed about `g'` except that it is the grounded interpretation of `D'`) -/
theorem grounded_equivariant (p q : Nat → Nat) (D D' : List BoolFn) (g g' : I3) (h : Renamed p q D D')
    (hg : IsLfp D g) (hg' : IsLfp D' g') : RenamedI p D.length g g' :=
  EquivarMore.grounded_corr p q D D' g g' h hg hg'

/-- the reduct commutes with every re-presentation -/
theorem reduct_equivariant (p q : Nat → Nat) (D D' : List BoolFn) (v v' : I3) (h : Renamed p q D D')
    (hv : RenamedI p D.length v v') : Renamed p q (redu D v) (redu D' v') :=
  EquivarMore.redu_renamed p q D D' v v' h hv

/-- stable models correspond (the definition as in C03: total, a model, every true statement is
true in the least fixpoint of the reduct) -/
theorem stable_equivariant (p q : Nat → Nat) (D D' : List BoolFn) (v v' : I3) (h : Renamed p q D D')
    (hv : RenamedI p D.length v v') :
    (TotalI v ∧ Gam D v = v ∧
      ∀ w : I3, IsLfp (redu D v) w → ∀ i : Nat, v[i]? = some (some true) → w[i]? = some (some true)) →
    (TotalI v' ∧ Gam D' v' = v' ∧
      ∀ w : I3, IsLfp (redu D' v') w → ∀ i : Nat, v'[i]? = some (some true) → w[i]? = some (some true)) :=
  EquivarMore.stable_renamed p q D D' v v' h hv

/-- composition with C01 / C02 / C03 — the functions the driver runs: for two presentations of one
framework on two (arbitrary, well-formed) stores, the grounded vectors correspond, and an
interpretation is among the complete / stable answers of the one iff the corresponding
interpretation is among the answers of the other -/
theorem answers_equivariant (p q : Nat → Nat) (s s' : Store) (n : Nat) (ac ac' : List Nat)
    (hw : WF s) (hw' : WF s') (hn : ac.length = n) (hn' : ac'.length = n)
    (hv : ∀ t ∈ ac, t < s.nodes.size) (hv' : ∀ t ∈ ac', t < s'.nodes.size)
    (h : Renamed p q (ac.map (eval s)) (ac'.map (eval s'))) :
    RenamedI p n ((groundedLoop StoreRA (n + 1) s ac).2.map storeIsConst)
      ((groundedLoop StoreRA (n + 1) s' ac').2.map storeIsConst) ∧
    ∀ v v' : I3, RenamedI p n v v' →
      (v ∈ (completeAll s n ac).2.2.map (fun x => x.map storeIsConst) ↔
        v' ∈ (completeAll s' n ac').2.2.map (fun x => x.map storeIsConst)) ∧
      (v ∈ (stableAll s n ac).2.map (fun x => x.map storeIsConst) ↔
        v' ∈ (stableAll s' n ac').2.map (fun x => x.map storeIsConst)) := by
  have hDl : (ac.map (eval s)).length = n := by simp [hn]
  constructor
  · have := EquivarMore.grounded_corr p q _ _ _ _ h
      (grounded_native (n + 1) s ac hw hv (by omega)) (grounded_native (n + 1) s' ac' hw' hv' (by omega))
    rwa [hDl] at this
  · intro v v' hvv
    have hvv' : RenamedI p (ac.map (eval s)).length v v' := by rw [hDl]; exact hvv
    constructor
    · rw [(CompleteExact.completeAll_exact s n ac hw hn hv).2.1 v,
        (CompleteExact.completeAll_exact s' n ac' hw' hn' hv').2.1 v',
        EquivarMore.complete_renamed_iff p q _ _ v v' h hvv']
      simp [hvv.1, hvv.2.1]
    · have e := (StableExact.stableAll_filter s n ac hw hn hv).2
      have e' := (StableExact.stableAll_filter s' n ac' hw' hn' hv').2
      have a := (StableExact.answers_exact s n ac hw hn hv _ (StableExact.verdict_iff (ac.map (eval s)))).2 v
      have a' := (StableExact.answers_exact s' n ac' hw' hn' hv' _
        (StableExact.verdict_iff (ac'.map (eval s')))).2 v'
      simp only [← e] at a
      simp only [← e'] at a'
      rw [a, a']
      have : StableExact.StableI (ac.map (eval s)) v ↔ StableExact.StableI (ac'.map (eval s')) v' :=
        EquivarMore.stable_renamed_iff p q _ _ v v' h hvv'
      rw [this]
      simp [hvv.1, hvv.2.1]

example : Renamed id id [fun σ => σ 0] [fun σ => σ 0] :=
  ⟨fun _ => rfl, fun _ => rfl, rfl, fun i h => h, fun i h => h, by
    intro i f h
    cases i with
    | zero => simp at h; subst h; simp
    | succ k => simp at h⟩

/-- non-vacuity with a proper reordering: `s(a). s(b). ac(a,b). ac(b,c(v)).` against
`s(b). s(a). ac(b,c(v)). ac(a,b).` (swap of the two statements) -/
def sw (k : Nat) : Nat := if k = 0 then 1 else if k = 1 then 0 else k

theorem sw_sw (k : Nat) : sw (sw k) = k := by
  unfold sw
  by_cases h0 : k = 0 <;> by_cases h1 : k = 1 <;> simp [h0, h1]

theorem sw_lt (i : Nat) (h : i < 2) : sw i < 2 := by
  unfold sw
  by_cases h0 : i = 0 <;> by_cases h1 : i = 1 <;> simp [h0, h1] <;> omega

theorem swap_example : Renamed sw sw [fun σ => σ 1, fun _ => true] [fun _ => true, fun σ => σ 0] :=
  ⟨sw_sw, sw_sw, rfl, fun i h => sw_lt i h, fun i h => sw_lt i h, by
    intro i f h
    match i with
    | 0 => simp at h; subst h; simp [sw]
    | 1 => simp at h; subst h; simp [sw]
    | k + 2 => simp at h⟩

example : RenamedI sw 2 [some true, none] [none, some true] :=
  ⟨rfl, rfl, fun i hi => by
    have : i = 0 ∨ i = 1 := by omega
    rcases this with h | h <;> subst h <;> simp [sw]⟩

/-- the theorems apply to it: the grounded interpretation `a ↦ T, b ↦ T` carries over -/
example (hl : IsLfp [fun σ => σ 1, fun _ => true] [some true, some true]) :
    IsLfp [fun _ => true, fun σ => σ 0] [some true, some true] :=
  lfp_equivariant sw sw _ _ _ _ swap_example
    ⟨rfl, rfl, fun i hi => by
      have : i = 0 ∨ i = 1 := by simp at hi; omega
      rcases this with h | h <;> subst h <;> simp [sw]⟩ hl

end C10
