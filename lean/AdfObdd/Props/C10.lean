import AdfObdd.Equivar
import AdfObdd.Stable
import AdfObdd.EquivarMore
import AdfObdd.StableExact
import AdfObdd.SortProofs
import AdfObdd.CliFaithful
import AdfObdd.CliModes
import AdfObdd.NatLexOrder
/-! # C10 — answers do not depend on presentation (fact order, sorting, naming)

A presentation change (reordering the facts, a sort, consistent renaming) is a bijection `p` of the
statement numbers with inverse `q`; `Renamed p q D D'` says `D'` is `D` presented through `p`
(statement `i` sits at position `p i` and reads its atoms through `p`). Whitespace changes do not
reach this level (they are parser layout, C08).

Second review (C10 rows 1, 3), last section of this file: `SameLabelMaps` speaks about the
REFERENCE enumerations (`groundedLoop`, `completeAll`, `stableAll`); the outputs of the other
procedures behind `--stmca` and `--stmcb` (`countAll`), `--stmpre` (`Cli.stablePre`), `--stmng` and
`--twoval` (`SM.ngSearch`) are composed with it there from the exactness theorems C03/C04/C05
(`…_outputs_invariant`); `--stmrew` on both library arms under the hypothesis that the library
object denotes the native object's functions, the parser-level composition kept as a statement. `--an`
(`varsort_alphanum`): `alphanum_reports_le_order` says which order is reported — stated for an ARBITRARY comparison
`le` (trust assumption of `IsVarsortAlphanum`); the comparison `natural_lexical_cmp` itself is modelled as
`CliM.NatLex.le` (section on `--an` below: `an_sort_is_varsort_alphanum`, `varsort_alphanum_unique` instantiate it;
fidelity limits of that model to the crate: see C15). -/
namespace C10

/-- the consequence operator commutes with every re-presentation -/
theorem consequence_operator_equivariant (p q : Nat → Nat) (D D' : List BoolFn) (w w' : I3)
    (h : Renamed p q D D') (hw : RenamedI p D.length w w') :
    RenamedI p D.length (Gam D w) (Gam D' w') := Gam_renamed p q D D' w w' h hw

/-- hence complete interpretations (fixpoints) correspond: read as maps from statement to value,
the sets of complete — and so of two-valued — models are the same -/
theorem complete_equivariant (p q : Nat → Nat) (D D' : List BoolFn) (w w' : I3)
    (h : Renamed p q D D') (hw : RenamedI p D.length w w') : Gam D w = w → Gam D' w' = w' :=
  complete_renamed p q D D' w w' h hw

/-- a re-presentation can be undone (`Renamed` is symmetric up to swapping the bijection and its
inverse), so every correspondence below holds in both directions -/
theorem presentation_symmetric (p q : Nat → Nat) (D D' : List BoolFn) (h : Renamed p q D D') :
    Renamed q p D' D := EquivarMore.Renamed.symm h

/-- full statement for the grounded interpretation: least fixpoints correspond -/
def lfp_equivariant_statement : Prop :=
  ∀ (p q : Nat → Nat) (D D' : List BoolFn) (g g' : I3), Renamed p q D D' → RenamedI p D.length g g' →
    IsLfp D g → IsLfp D' g'

/-- proved: the fixpoint part is `complete_equivariant`; for leastness a fixpoint of the
re-presented framework is read back through `p` (a fixpoint of the original one, by symmetry) -/
theorem lfp_equivariant : lfp_equivariant_statement :=
  fun p q D D' g g' h hg hl => EquivarMore.lfp_renamed p q D D' g g' h hg hl

/-- and since the least fixpoint is unique, THE grounded interpretations of two presentations
correspond (nothing assumed about `g'` except that it is the grounded interpretation of `D'`) -/
theorem grounded_equivariant (p q : Nat → Nat) (D D' : List BoolFn) (g g' : I3) (h : Renamed p q D D')
    (hg : IsLfp D g) (hg' : IsLfp D' g') : RenamedI p D.length g g' :=
  EquivarMore.grounded_corr p q D D' g g' h hg hg'

/-- the reduct commutes with every re-presentation -/
theorem reduct_equivariant (p q : Nat → Nat) (D D' : List BoolFn) (v v' : I3) (h : Renamed p q D D')
    (hv : RenamedI p D.length v v') : Renamed p q (redu D v) (redu D' v') :=
  EquivarMore.redu_renamed p q D D' v v' h hv

/-- stable models correspond (the definition as in C03: total, a model, every true statement is
true in the least fixpoint of the reduct) -/
theorem stable_equivariant (p q : Nat → Nat) (D D' : List BoolFn) (v v' : I3) (h : Renamed p q D D')
    (hv : RenamedI p D.length v v') :
    (TotalI v ∧ Gam D v = v ∧
      ∀ w : I3, IsLfp (redu D v) w → ∀ i : Nat, v[i]? = some (some true) → w[i]? = some (some true)) →
    (TotalI v' ∧ Gam D' v' = v' ∧
      ∀ w : I3, IsLfp (redu D' v') w → ∀ i : Nat, v'[i]? = some (some true) → w[i]? = some (some true)) :=
  EquivarMore.stable_renamed p q D D' v v' h hv

/-- composition with C01 / C02 / C03 — the functions the driver runs: for two presentations of one
framework on two (arbitrary, well-formed) stores, the grounded vectors correspond, and an
interpretation is among the complete / stable answers of the one iff the corresponding
interpretation is among the answers of the other -/
theorem answers_equivariant (p q : Nat → Nat) (s s' : Store) (n : Nat) (ac ac' : List Nat)
    (hw : WF s) (hw' : WF s') (hn : ac.length = n) (hn' : ac'.length = n)
    (hv : ∀ t ∈ ac, t < s.nodes.size) (hv' : ∀ t ∈ ac', t < s'.nodes.size)
    (h : Renamed p q (ac.map (eval s)) (ac'.map (eval s'))) :
    RenamedI p n ((groundedLoop StoreRA (n + 1) s ac).2.map storeIsConst)
      ((groundedLoop StoreRA (n + 1) s' ac').2.map storeIsConst) ∧
    ∀ v v' : I3, RenamedI p n v v' →
      (v ∈ (completeAll s n ac).2.2.map (fun x => x.map storeIsConst) ↔
        v' ∈ (completeAll s' n ac').2.2.map (fun x => x.map storeIsConst)) ∧
      (v ∈ (stableAll s n ac).2.map (fun x => x.map storeIsConst) ↔
        v' ∈ (stableAll s' n ac').2.map (fun x => x.map storeIsConst)) := by
  have hDl : (ac.map (eval s)).length = n := by simp [hn]
  constructor
  · have := EquivarMore.grounded_corr p q _ _ _ _ h
      (grounded_native (n + 1) s ac hw hv (by omega)) (grounded_native (n + 1) s' ac' hw' hv' (by omega))
    rwa [hDl] at this
  · intro v v' hvv
    have hvv' : RenamedI p (ac.map (eval s)).length v v' := by rw [hDl]; exact hvv
    constructor
    · rw [(CompleteExact.completeAll_exact s n ac hw hn hv).2.1 v,
        (CompleteExact.completeAll_exact s' n ac' hw' hn' hv').2.1 v',
        EquivarMore.complete_renamed_iff p q _ _ v v' h hvv']
      simp [hvv.1, hvv.2.1]
    · have e := (StableExact.stableAll_filter s n ac hw hn hv).2
      have e' := (StableExact.stableAll_filter s' n ac' hw' hn' hv').2
      have a := (StableExact.answers_exact s n ac hw hn hv _ (StableExact.verdict_iff (ac.map (eval s)))).2 v
      have a' := (StableExact.answers_exact s' n ac' hw' hn' hv' _
        (StableExact.verdict_iff (ac'.map (eval s')))).2 v'
      simp only [← e] at a
      simp only [← e'] at a'
      rw [a, a']
      have : StableExact.StableI (ac.map (eval s)) v ↔ StableExact.StableI (ac'.map (eval s')) v' :=
        EquivarMore.stable_renamed_iff p q _ _ v v' h hvv'
      rw [this]
      simp [hvv.1, hvv.2.1]

example : Renamed id id [fun σ => σ 0] [fun σ => σ 0] :=
  ⟨fun _ => rfl, fun _ => rfl, rfl, fun i h => h, fun i h => h, by
    intro i f h
    cases i with
    | zero => simp at h; subst h; simp
    | succ k => simp at h⟩

/-- non-vacuity with a proper reordering: `s(a). s(b). ac(a,b). ac(b,c(v)).` against
`s(b). s(a). ac(b,c(v)). ac(a,b).` (swap of the two statements) -/
def sw (k : Nat) : Nat := if k = 0 then 1 else if k = 1 then 0 else k

theorem sw_sw (k : Nat) : sw (sw k) = k := by
  unfold sw
  by_cases h0 : k = 0 <;> by_cases h1 : k = 1 <;> simp [h0, h1]

theorem sw_lt (i : Nat) (h : i < 2) : sw i < 2 := by
  unfold sw
  by_cases h0 : i = 0 <;> by_cases h1 : i = 1 <;> simp [h0, h1] <;> omega

theorem swap_example : Renamed sw sw [fun σ => σ 1, fun _ => true] [fun _ => true, fun σ => σ 0] :=
  ⟨sw_sw, sw_sw, rfl, fun i h => sw_lt i h, fun i h => sw_lt i h, by
    intro i f h
    match i with
    | 0 => simp at h; subst h; simp [sw]
    | 1 => simp at h; subst h; simp [sw]
    | k + 2 => simp at h⟩

example : RenamedI sw 2 [some true, none] [none, some true] :=
  ⟨rfl, rfl, fun i hi => by
    have : i = 0 ∨ i = 1 := by omega
    rcases this with h | h <;> subst h <;> simp [sw]⟩

/-- the theorems apply to it: the grounded interpretation `a ↦ T, b ↦ T` carries over -/
example (hl : IsLfp [fun σ => σ 1, fun _ => true] [some true, some true]) :
    IsLfp [fun _ => true, fun σ => σ 0] [some true, some true] :=
  lfp_equivariant sw sw _ _ _ _ swap_example
    ⟨rfl, rfl, fun i hi => by
      have : i = 0 ∨ i = 1 := by simp at hi; omega
      rcases this with h | h <;> subst h <;> simp [sw]⟩ hl

end C10

/-! ## C10, from the parser object: sorting, fact order, renaming — answers as maps from LABELS

The theorems above assume a re-presentation `Renamed p q D D'`. Here it is DERIVED for the
presentation changes the property names, on the model of the parser object (`Parser6`),
`AdfParser::varsort_lexi` / `varsort_alphanum` (`SortModel`) and `Adf::from_parser` (`FromParser`):
* sorting: `namelist` is replaced by a permutation of itself and the indices are regenerated
  (`PState.resort`; `PState.sortBy`/`varsortLexi`, `IsVarsortAlphanum` are instances),
* any permutation of the facts, the `s(..)` facts included,
* consistent (injective) renaming of the labels.
Answers are compared as maps from label to truth value (`labelled names v`). Whitespace does not
reach this level: two texts with the same facts give the same parser object (C08). -/
namespace C10
open ParserM FromParser SortModel

/-- the answers the driver computes on a built framework with `n` statements -/
def groundedVec (n : Nat) (s : Store) (ac : List Nat) : I3 :=
  (groundedLoop StoreRA (n + 1) s ac).2.map storeIsConst
def completeVecs (n : Nat) (s : Store) (ac : List Nat) : List I3 :=
  (completeAll s n ac).2.2.map (fun x => x.map storeIsConst)
def stableVecs (n : Nat) (s : Store) (ac : List Nat) : List I3 :=
  (stableAll s n ac).2.map (fun x => x.map storeIsConst)

/-- the four statements about label maps, for two built frameworks with name lists `xs` / `ys`:
same grounded map; same set of complete maps; same set of stable maps; same set of two-valued maps
(two-valued model = complete and total; the nogood search of C05 returns exactly those) -/
def SameLabelMaps (xs ys : List Label) (s : Store) (ac : List Nat) (s' : Store) (ac' : List Nat) : Prop :=
  labelled xs (groundedVec xs.length s ac) = labelled ys (groundedVec ys.length s' ac') ∧
  (∀ m, m ∈ (completeVecs xs.length s ac).map (labelled xs) ↔
        m ∈ (completeVecs ys.length s' ac').map (labelled ys)) ∧
  (∀ m, m ∈ (stableVecs xs.length s ac).map (labelled xs) ↔
        m ∈ (stableVecs ys.length s' ac').map (labelled ys)) ∧
  (∀ m, (∃ v ∈ completeVecs xs.length s ac, TotalI v ∧ labelled xs v = m) ↔
        (∃ v' ∈ completeVecs ys.length s' ac', TotalI v' ∧ labelled ys v' = m))

theorem complete_len {n : Nat} {s : Store} {ac : List Nat} (hw : WF s) (hn : ac.length = n)
    (hv : ∀ t ∈ ac, t < s.nodes.size) {v : I3} (h : v ∈ completeVecs n s ac) : v.length = n :=
  (((CompleteExact.completeAll_exact s n ac hw hn hv).2.1 v).mp h).1

theorem stable_len {n : Nat} {s : Store} {ac : List Nat} (hw : WF s) (hn : ac.length = n)
    (hv : ∀ t ∈ ac, t < s.nodes.size) {v : I3} (h : v ∈ stableVecs n s ac) : v.length = n := by
  have e := (StableExact.stableAll_filter s n ac hw hn hv).2
  have a := (StableExact.answers_exact s n ac hw hn hv _ (StableExact.verdict_iff (ac.map (eval s)))).2 v
  simp only [← e] at a
  exact (a.mp h).1

/-- two built frameworks whose conditions are re-presentations of each other under the renumbering
between their name lists have the same label maps -/
theorem label_maps_of_renamed (xs ys : List Label) (nd : xs.Nodup) (hp : xs.Perm ys)
    (s s' : Store) (ac ac' : List Nat) (hw : WF s) (hw' : WF s')
    (hn : ac.length = xs.length) (hn' : ac'.length = xs.length)
    (hv : ∀ t ∈ ac, t < s.nodes.size) (hv' : ∀ t ∈ ac', t < s'.nodes.size)
    (h : Renamed (reindex xs ys) (reindex ys xs) (ac.map (eval s)) (ac'.map (eval s'))) :
    SameLabelMaps xs ys s ac s' ac' := by
  have A := answers_equivariant _ _ s s' xs.length ac ac' hw hw' hn hn' hv hv' h
  unfold SameLabelMaps
  rw [← hp.length_eq]
  refine ⟨labelled_of_renamedI nd hp A.1, ?_, ?_, ?_⟩
  · intro m
    simp only [List.mem_map]
    exact label_maps_of_corr nd hp (· ∈ completeVecs xs.length s ac) (· ∈ completeVecs xs.length s' ac')
      (fun v => complete_len hw hn hv) (fun v => complete_len hw' hn' hv')
      (fun v v' hr => (A.2 v v' hr).1) m
  · intro m
    simp only [List.mem_map]
    exact label_maps_of_corr nd hp (· ∈ stableVecs xs.length s ac) (· ∈ stableVecs xs.length s' ac')
      (fun v => stable_len hw hn hv) (fun v => stable_len hw' hn' hv')
      (fun v v' hr => (A.2 v v' hr).2) m
  · intro m
    have nd' := hp.nodup_iff.mp nd
    have key := label_maps_of_corr nd hp (fun v => v ∈ completeVecs xs.length s ac ∧ TotalI v)
      (fun v' => v' ∈ completeVecs xs.length s' ac' ∧ TotalI v')
      (fun v hv0 => complete_len hw hn hv hv0.1) (fun v hv0 => complete_len hw' hn' hv' hv0.1)
      (fun v v' hr => by
        have hr' : RenamedI (reindex ys xs) xs.length v' v :=
          EquivarMore.RenamedI.symm (reindex_inv nd' hp.symm) (fun j hj => by
            have := reindex_lt nd' hp.symm (by rw [← hp.length_eq]; exact hj)
            rw [hp.length_eq]; exact this) hr
        constructor
        · rintro ⟨a, b⟩
          exact ⟨((A.2 v v' hr).1).mp a,
            totalI_of_renamedI (reindex_inv nd' hp.symm) (fun j hj => by
              have := reindex_lt nd' hp.symm (by rw [← hp.length_eq]; exact hj)
              rw [hp.length_eq]; exact this) hr b⟩
        · rintro ⟨a, b⟩
          exact ⟨((A.2 v v' hr).1).mpr a,
            totalI_of_renamedI (reindex_inv nd hp) (fun j hj => reindex_lt nd hp hj) hr' b⟩) m
    simpa only [and_assoc] using key

/-- for a well-formed ADF `fs` and ANY parser object `st` that presents a permutation `ns'` of the
declared names (dictionary = position map of `ns'`) with the conditions of `fs`: `st` is built and all
label maps coincide with those of the parser object as read -/
theorem presented_label_maps (fs : List Fact) (hwf : WellFormedAdf fs) (st : PState) (ns' : List Label)
    (hp : ns'.Perm (namesOf fs)) (hP : Presents st ns' (acsOf fs)) (hn : (namesOf fs).length ≤ VBOT) :
    ∃ s ac s' ac', fromParser (PState.ofFacts fs) = some (s, ac) ∧ fromParser st = some (s', ac') ∧
      Renamed (reindex (namesOf fs) ns') (reindex ns' (namesOf fs)) (ac.map (eval s)) (ac'.map (eval s')) ∧
      SameLabelMaps (namesOf fs) ns' s ac s' ac' := by
  obtain ⟨s', ac', h', w', l', v', _, r'⟩ := fromParser_presented fs hwf st ns' hp hP hn
  cases h : fromParser (PState.ofFacts fs) with
  | none => have := fromParser_isSome fs hwf; rw [h] at this; cases this
  | some r =>
    obtain ⟨w, l, v, d⟩ := fromParser_correct fs r.1 r.2 h hn
    rw [← d] at r'
    exact ⟨r.1, r.2, s', ac', rfl, h', r',
      label_maps_of_renamed _ _ (namesOf_nodup fs) hp.symm r.1 s' r.2 ac' w w' l l' v v' r'⟩

/-- **sorting** (`fromParser_resorted` + `answers_equivariant`): for a well-formed ADF `fs` and ANY
permutation `ns'` of the declared names used as the new `namelist` (indices regenerated), the
re-sorted parser object is built, and all label maps coincide with those of the unsorted one.
No hypothesis on the number of conditions per statement. -/
theorem resorted_label_maps (fs : List Fact) (hwf : WellFormedAdf fs) (ns' : List Label)
    (hp : ns'.Perm (namesOf fs)) (hn : (namesOf fs).length ≤ VBOT) :
    ∃ s ac s' ac', fromParser (PState.ofFacts fs) = some (s, ac) ∧
      fromParser ((PState.ofFacts fs).resort ns') = some (s', ac') ∧
      Renamed (reindex (namesOf fs) ns') (reindex ns' (namesOf fs)) (ac.map (eval s)) (ac'.map (eval s')) ∧
      SameLabelMaps (namesOf fs) ns' s ac s' ac' :=
  presented_label_maps fs hwf _ ns' hp (presents_resort (presents_ofFacts fs) ns' hp) hn

/-- both sorting flags: `varsort_lexi` followed by a second sort (the CLI order) -/
theorem sorted_twice_label_maps (le1 le2 : Label → Label → Bool) (fs : List Fact) (hwf : WellFormedAdf fs)
    (hn : (namesOf fs).length ≤ VBOT) :
    ∃ s ac s' ac', fromParser (PState.ofFacts fs) = some (s, ac) ∧
      fromParser (((PState.ofFacts fs).sortBy le1).sortBy le2) = some (s', ac') ∧
      SameLabelMaps (namesOf fs) (((PState.ofFacts fs).sortBy le1).sortBy le2).namelist s ac s' ac' := by
  have h1 : (isort le1 (PState.ofFacts fs).namelist).Perm (namesOf fs) := by
    rw [(ofFacts_spec fs).1]; exact isort_perm le1 _
  have h2 : (isort le2 (isort le1 (PState.ofFacts fs).namelist)).Perm (namesOf fs) :=
    (isort_perm le2 _).trans h1
  obtain ⟨s, ac, s', ac', a, b, _, d⟩ :=
    presented_label_maps fs hwf _ _ h2 (presents_resort_twice fs _ _ h1 h2) hn
  exact ⟨s, ac, s', ac', a, b, d⟩

/-- grounded interpretation, as a map from labels: the same before and after any re-sorting -/
theorem grounded_label_map_invariant (fs : List Fact) (hwf : WellFormedAdf fs) (ns' : List Label)
    (hp : ns'.Perm (namesOf fs)) (hn : (namesOf fs).length ≤ VBOT) (s s' : Store) (ac ac' : List Nat)
    (h : fromParser (PState.ofFacts fs) = some (s, ac))
    (h' : fromParser ((PState.ofFacts fs).resort ns') = some (s', ac')) :
    labelled (namesOf fs) (groundedVec (namesOf fs).length s ac) = labelled ns' (groundedVec ns'.length s' ac') := by
  obtain ⟨_, _, _, _, e, e', _, m⟩ := resorted_label_maps fs hwf ns' hp hn
  rw [h] at e; rw [h'] at e'; cases e; cases e'
  exact m.1

/-- complete models, as a set of maps from labels -/
theorem complete_label_maps_invariant (fs : List Fact) (hwf : WellFormedAdf fs) (ns' : List Label)
    (hp : ns'.Perm (namesOf fs)) (hn : (namesOf fs).length ≤ VBOT) (s s' : Store) (ac ac' : List Nat)
    (h : fromParser (PState.ofFacts fs) = some (s, ac))
    (h' : fromParser ((PState.ofFacts fs).resort ns') = some (s', ac')) (m : Label → Option (Option Bool)) :
    m ∈ (completeVecs (namesOf fs).length s ac).map (labelled (namesOf fs)) ↔
      m ∈ (completeVecs ns'.length s' ac').map (labelled ns') := by
  obtain ⟨_, _, _, _, e, e', _, M⟩ := resorted_label_maps fs hwf ns' hp hn
  rw [h] at e; rw [h'] at e'; cases e; cases e'
  exact M.2.1 m

/-- stable models, as a set of maps from labels -/
theorem stable_label_maps_invariant (fs : List Fact) (hwf : WellFormedAdf fs) (ns' : List Label)
    (hp : ns'.Perm (namesOf fs)) (hn : (namesOf fs).length ≤ VBOT) (s s' : Store) (ac ac' : List Nat)
    (h : fromParser (PState.ofFacts fs) = some (s, ac))
    (h' : fromParser ((PState.ofFacts fs).resort ns') = some (s', ac')) (m : Label → Option (Option Bool)) :
    m ∈ (stableVecs (namesOf fs).length s ac).map (labelled (namesOf fs)) ↔
      m ∈ (stableVecs ns'.length s' ac').map (labelled ns') := by
  obtain ⟨_, _, _, _, e, e', _, M⟩ := resorted_label_maps fs hwf ns' hp hn
  rw [h] at e; rw [h'] at e'; cases e; cases e'
  exact M.2.2.1 m

/-- two-valued models (total complete interpretations), as a set of maps from labels -/
theorem twovalued_label_maps_invariant (fs : List Fact) (hwf : WellFormedAdf fs) (ns' : List Label)
    (hp : ns'.Perm (namesOf fs)) (hn : (namesOf fs).length ≤ VBOT) (s s' : Store) (ac ac' : List Nat)
    (h : fromParser (PState.ofFacts fs) = some (s, ac))
    (h' : fromParser ((PState.ofFacts fs).resort ns') = some (s', ac')) (m : Label → Option (Option Bool)) :
    (∃ v ∈ completeVecs (namesOf fs).length s ac, TotalI v ∧ labelled (namesOf fs) v = m) ↔
      (∃ v' ∈ completeVecs ns'.length s' ac', TotalI v' ∧ labelled ns' v' = m) := by
  obtain ⟨_, _, _, _, e, e', _, M⟩ := resorted_label_maps fs hwf ns' hp hn
  rw [h] at e; rw [h'] at e'; cases e; cases e'
  exact M.2.2.2 m

/-- instance: `varsort_lexi` (and `sortBy le` for every comparison function `le`) -/
theorem sortBy_label_maps (le : Label → Label → Bool) (fs : List Fact) (hwf : WellFormedAdf fs)
    (hn : (namesOf fs).length ≤ VBOT) :
    ∃ s ac s' ac', fromParser (PState.ofFacts fs) = some (s, ac) ∧
      fromParser ((PState.ofFacts fs).sortBy le) = some (s', ac') ∧
      SameLabelMaps (namesOf fs) ((PState.ofFacts fs).sortBy le).namelist s ac s' ac' := by
  have hp : (isort le (PState.ofFacts fs).namelist).Perm (namesOf fs) := by
    rw [(ofFacts_spec fs).1]; exact isort_perm le _
  obtain ⟨s, ac, s', ac', a, b, _, d⟩ := resorted_label_maps fs hwf _ hp hn
  exact ⟨s, ac, s', ac', a, b, d⟩

/-- instance: `varsort_alphanum`, whatever `natural_lexical_cmp` is (see `IsVarsortAlphanum`) -/
theorem alphanum_label_maps (le : Label → Label → Bool) (fs : List Fact) (st' : PState)
    (hs : IsVarsortAlphanum le (PState.ofFacts fs) st') (hwf : WellFormedAdf fs)
    (hn : (namesOf fs).length ≤ VBOT) :
    ∃ s ac s' ac', fromParser (PState.ofFacts fs) = some (s, ac) ∧ fromParser st' = some (s', ac') ∧
      SameLabelMaps (namesOf fs) st'.namelist s ac s' ac' := by
  have hp : st'.namelist.Perm (namesOf fs) := by
    have := hs.perm
    rwa [(ofFacts_spec fs).1] at this
  obtain ⟨s, ac, s', ac', a, b, _, d⟩ := resorted_label_maps fs hwf _ hp hn
  rw [← hs.state] at b
  exact ⟨s, ac, s', ac', a, b, d⟩

/-- **reordering the facts** (`fromParser_facts_perm` + `answers_equivariant`): two fact lists that
are permutations of each other — `s(..)` facts included, so the statements may be numbered
differently — are both built and have the same label maps. Hypotheses: well-formed, at most one
condition per statement (without it the claim is false: the last condition wins, C09). -/
theorem facts_permutation_invariant (fs gs : List Fact) (hp : fs.Perm gs)
    (hone : ((acsOf fs).map (·.1)).Nodup) (hwf : WellFormedAdf fs) (hn : (namesOf fs).length ≤ VBOT) :
    ∃ s ac s' ac', fromParser (PState.ofFacts fs) = some (s, ac) ∧
      fromParser (PState.ofFacts gs) = some (s', ac') ∧
      SameLabelMaps (namesOf fs) (namesOf gs) s ac s' ac' := by
  obtain ⟨s, ac, s', ac', a, b, w, w', l, l', v, v', r⟩ := fromParser_facts_perm fs gs hp hone hwf hn
  exact ⟨s, ac, s', ac', a, b,
    label_maps_of_renamed _ _ (namesOf_nodup fs) (namesOf_perm hp) s s' ac ac' w w' l l' v v' r⟩

/-- reordering the facts AND sorting afterwards (any permutation `ns'` of the names as new name list) -/
theorem facts_permutation_then_sort_invariant (fs gs : List Fact) (hp : fs.Perm gs)
    (hone : ((acsOf fs).map (·.1)).Nodup) (hwf : WellFormedAdf fs) (hn : (namesOf fs).length ≤ VBOT)
    (ns' : List Label) (hns : ns'.Perm (namesOf gs)) :
    ∃ s ac s' ac', fromParser (PState.ofFacts fs) = some (s, ac) ∧
      fromParser ((PState.ofFacts gs).resort ns') = some (s', ac') ∧
      SameLabelMaps (namesOf fs) ns' s ac s' ac' := by
  have hnp := namesOf_perm hp
  obtain ⟨s, ac, s1, ac1, a, b, w, w1, l, l1, v, v1, r⟩ := fromParser_facts_perm fs gs hp hone hwf hn
  obtain ⟨s', ac', h', w', l', v', d', _⟩ :=
    fromParser_resorted gs (wellFormed_perm hp hwf) ns' hns (by rw [← hnp.length_eq]; exact hn)
  refine ⟨s, ac, s', ac', a, h', ?_⟩
  have hp' : (namesOf fs).Perm ns' := hnp.trans hns.symm
  apply label_maps_of_renamed _ _ (namesOf_nodup fs) hp' s s' ac ac' w w' l
    (by rw [l', hnp.length_eq]) v v'
  rw [(fromParser_correct fs s ac a hn).2.2.2, d', condFns_eq, ← condOf_perm hp hone]
  exact renamed_condFnsOn (namesOf_nodup fs) hp' (condOf fs)

/-- **consistent renaming**: for an injective relabelling `ρ` applied to every label of every fact,
`from_parser` builds literally the same store and `ac` vector (so every answer vector is the same),
the name list is the renamed name list, and reading any vector `v` with the new names gives at `ρ l`
what the old names give at `l` (and nothing at labels that are not a new name) -/
theorem renaming_invariant (ρ : Label → Label) (inj : ∀ a b, ρ a = ρ b → a = b) (fs : List Fact) :
    fromParser (PState.ofFacts (fs.map (Fact.rename ρ))) = fromParser (PState.ofFacts fs) ∧
    namesOf (fs.map (Fact.rename ρ)) = (namesOf fs).map ρ ∧
    (∀ (v : I3) (l : Label), labelled (namesOf (fs.map (Fact.rename ρ))) v (ρ l) = labelled (namesOf fs) v l) ∧
    (∀ (v : I3) (l' : Label), (∀ l ∈ namesOf fs, ρ l ≠ l') →
      labelled (namesOf (fs.map (Fact.rename ρ))) v l' = none) := by
  refine ⟨fromParser_rename ρ inj fs, namesOf_rename ρ inj fs, ?_, ?_⟩
  · intro v l; rw [namesOf_rename ρ inj]; exact labelled_rename ρ inj _ v l
  · intro v l' h; rw [namesOf_rename ρ inj]; exact labelled_rename_outside ρ _ v l' h

/-- renaming AND sorting afterwards (the sort of the renamed names is in general a different
permutation): the label maps correspond through `ρ` -/
theorem renaming_then_sort_invariant (ρ : Label → Label) (inj : ∀ a b, ρ a = ρ b → a = b) (fs : List Fact)
    (hwf : WellFormedAdf fs) (hn : (namesOf fs).length ≤ VBOT) (ns' : List Label)
    (hns : ns'.Perm (namesOf (fs.map (Fact.rename ρ)))) :
    ∃ s ac s' ac', fromParser (PState.ofFacts fs) = some (s, ac) ∧
      fromParser ((PState.ofFacts (fs.map (Fact.rename ρ))).resort ns') = some (s', ac') ∧
      (∀ l, labelled ns' (groundedVec ns'.length s' ac') (ρ l) =
            labelled (namesOf fs) (groundedVec (namesOf fs).length s ac) l) ∧
      (∀ m', m' ∈ (completeVecs ns'.length s' ac').map (labelled ns') →
         (fun l => m' (ρ l)) ∈ (completeVecs (namesOf fs).length s ac).map (labelled (namesOf fs))) ∧
      (∀ m, m ∈ (completeVecs (namesOf fs).length s ac).map (labelled (namesOf fs)) →
         ∃ m' ∈ (completeVecs ns'.length s' ac').map (labelled ns'), ∀ l, m' (ρ l) = m l) ∧
      (∀ m', m' ∈ (stableVecs ns'.length s' ac').map (labelled ns') →
         (fun l => m' (ρ l)) ∈ (stableVecs (namesOf fs).length s ac).map (labelled (namesOf fs))) ∧
      (∀ m, m ∈ (stableVecs (namesOf fs).length s ac).map (labelled (namesOf fs)) →
         ∃ m' ∈ (stableVecs ns'.length s' ac').map (labelled ns'), ∀ l, m' (ρ l) = m l) := by
  have hR := fromParser_rename ρ inj fs
  have hN := namesOf_rename ρ inj fs
  have hwf' : WellFormedAdf (fs.map (Fact.rename ρ)) :=
    (fromParser_isSome_iff _).mp (by rw [hR]; exact fromParser_isSome fs hwf)
  have hlen : (namesOf (fs.map (Fact.rename ρ))).length = (namesOf fs).length := by rw [hN, List.length_map]
  obtain ⟨s, ac, s', ac', a, b, _, M⟩ := resorted_label_maps _ hwf' ns' hns (by rw [hlen]; exact hn)
  rw [hR] at a
  unfold SameLabelMaps at M
  rw [hlen] at M
  have key : ∀ v : I3, (fun l => labelled (namesOf (fs.map (Fact.rename ρ))) v (ρ l)) = labelled (namesOf fs) v := by
    intro v; funext l; rw [hN]; exact labelled_rename ρ inj _ v l
  refine ⟨s, ac, s', ac', a, b, ?_, ?_, ?_, ?_, ?_⟩
  · intro l
    rw [← M.1, ← key]
  · intro m' hm'
    obtain ⟨v, hv, e⟩ := List.mem_map.mp ((M.2.1 m').mpr hm')
    exact List.mem_map.mpr ⟨v, hv, by rw [← key, e]⟩
  · intro m hm
    obtain ⟨v, hv, e⟩ := List.mem_map.mp hm
    refine ⟨_, (M.2.1 _).mp (List.mem_map.mpr ⟨v, hv, rfl⟩), ?_⟩
    intro l; rw [← e, ← key]
  · intro m' hm'
    obtain ⟨v, hv, e⟩ := List.mem_map.mp ((M.2.2.1 m').mpr hm')
    exact List.mem_map.mpr ⟨v, hv, by rw [← key, e]⟩
  · intro m hm
    obtain ⟨v, hv, e⟩ := List.mem_map.mp hm
    refine ⟨_, (M.2.2.1 _).mp (List.mem_map.mpr ⟨v, hv, rfl⟩), ?_⟩
    intro l; rw [← e, ← key]

/-- **from two texts**: two texts of the documented format whose facts are permutations of each other
(`gs = fs`: the same facts laid out differently — whitespace; in general: facts reordered) are both
accepted and built, and have the same label maps -/
theorem texts_invariant (t t' : List Char) (fs gs : List Fact) (hd : DerFile fs t) (hd' : DerFile gs t')
    (hne : fs ≠ []) (hp : fs.Perm gs) (hone : ((acsOf fs).map (·.1)).Nodup) (hwf : WellFormedAdf fs)
    (hn : (namesOf fs).length ≤ VBOT) :
    ∃ st st' s ac s' ac', parse t = some st ∧ parse t' = some st' ∧
      fromParser st = some (s, ac) ∧ fromParser st' = some (s', ac') ∧
      SameLabelMaps st.namelist st'.namelist s ac s' ac' := by
  have hne' : gs ≠ [] := fun e => hne (by rw [e] at hp; exact hp.eq_nil)
  have p1 : parse t = some (PState.ofFacts fs) := by rw [parse_eq, parseFacts_complete fs t hd hne]; rfl
  have p2 : parse t' = some (PState.ofFacts gs) := by rw [parse_eq, parseFacts_complete gs t' hd' hne']; rfl
  obtain ⟨s, ac, s', ac', a, b, m⟩ := facts_permutation_invariant fs gs hp hone hwf hn
  refine ⟨_, _, s, ac, s', ac', p1, p2, a, b, ?_⟩
  rw [(ofFacts_spec fs).1, (ofFacts_spec gs).1]
  exact m

/-- **lexicographic sorting reports in byte-wise label order**: after `varsort_lexi` the name list is
a permutation of the declared names in STRICTLY ascending byte order of the UTF-8 encodings (the `Ord`
of Rust's `String`; `byteLt_eq_cpLt`: the same as comparing the sequences of code points), the
dictionary sends every label `l` to `k` = the number of declared labels byte-wise below `l`, and
entry `k` of every vector is the value reported for `l`: position `k` belongs to the `k`-th smallest
label (counting from 0) -/
theorem lexi_reports_bytewise_order (fs : List Fact) :
    (varsortLexi (PState.ofFacts fs)).namelist.Perm (namesOf fs) ∧
    (varsortLexi (PState.ofFacts fs)).namelist.Pairwise (fun a b => byteLt a b = true) ∧
    (∀ a b : Label, byteLt a b = cpLt a b) ∧
    ∀ l ∈ namesOf fs,
      (varsortLexi (PState.ofFacts fs)).namelist[((namesOf fs).filter (fun x => byteLt x l)).length]? = some l ∧
      (varsortLexi (PState.ofFacts fs)).dictValue l = some ((namesOf fs).filter (fun x => byteLt x l)).length ∧
      ∀ v : I3, labelled (varsortLexi (PState.ofFacts fs)).namelist v l =
        v[((namesOf fs).filter (fun x => byteLt x l)).length]? := by
  have e : (varsortLexi (PState.ofFacts fs)).namelist = isort byteLe (namesOf fs) := by
    show isort byteLe (PState.ofFacts fs).namelist = _
    rw [(ofFacts_spec fs).1]
  have hp : (isort byteLe (namesOf fs)).Perm (namesOf fs) := isort_perm _ _
  have hs := isort_byteLe_strict (namesOf fs) (namesOf_nodup fs)
  rw [e]
  refine ⟨hp, hs, byteLt_eq_cpLt, ?_⟩
  intro l hl
  have hi := indexOf_sorted_count byteLt byteLt_irrefl byteLt_asymm _ hs l (hp.mem_iff.mpr hl)
  rw [(hp.filter _).length_eq] at hi
  refine ⟨indexOf_get _ _ _ hi, ?_, ?_⟩
  · have := (presents_resort (presents_ofFacts fs) _ hp).dict l
    rw [← hi]
    show dictGet ((PState.ofFacts fs).resort (isort byteLe (PState.ofFacts fs).namelist)).dict l = _
    rw [(ofFacts_spec fs).1]
    exact this
  · intro v
    unfold labelled
    rw [hi]; rfl

/-! ### non-vacuity: labels on which byte order and natural order differ -/

/-- `s(b). s(a9). s(10). s(B). s(a10). s(9).` with `ac(b, a9). ac(a9, neg(a9)). ac(10, c(v)). ac(B, and(10, b)).
ac(a10, neg(9)). ac(9, neg(a10)).` -/
def exFs : List Fact :=
  [.stmt ['b'], .stmt ['a','9'], .stmt ['1','0'], .stmt ['B'], .stmt ['a','1','0'], .stmt ['9'],
   .ac ['b'] (.atom ['a','9']), .ac ['a','9'] (.not (.atom ['a','9'])), .ac ['1','0'] .top,
   .ac ['B'] (.and (.atom ['1','0']) (.atom ['b'])), .ac ['a','1','0'] (.not (.atom ['9'])),
   .ac ['9'] (.not (.atom ['a','1','0']))]

/-- the same facts in another order (declarations last, conditions shuffled) -/
def exGs : List Fact :=
  [.ac ['9'] (.not (.atom ['a','1','0'])), .ac ['B'] (.and (.atom ['1','0']) (.atom ['b'])),
   .ac ['a','9'] (.not (.atom ['a','9'])), .ac ['b'] (.atom ['a','9']), .ac ['1','0'] .top,
   .ac ['a','1','0'] (.not (.atom ['9'])),
   .stmt ['9'], .stmt ['a','1','0'], .stmt ['B'], .stmt ['1','0'], .stmt ['a','9'], .stmt ['b']]

/-- byte order: `10 < 9 < B < a10 < a9 < b` (the natural order would be `9 < 10 < a9 < a10 < b, B`) -/
theorem exFs_lexi : (varsortLexi (PState.ofFacts exFs)).namelist =
    [['1','0'], ['9'], ['B'], ['a','1','0'], ['a','9'], ['b']] := by decide

theorem exFs_lexi_dict : (varsortLexi (PState.ofFacts exFs)).formulaOrder = some [5, 4, 0, 2, 3, 1] := by decide

/-- a sort in the natural order is another instance of `resort`; here with the expected result of
`natural_lexical_cmp` written down -/
def exNatural : List Label := [['9'], ['1','0'], ['a','9'], ['a','1','0'], ['b'], ['B']]

theorem exNatural_perm : exNatural.Perm (namesOf exFs) := by decide
theorem exFs_wf : WellFormedAdf exFs := by decide
theorem exFs_one : ((acsOf exFs).map (·.1)).Nodup := by decide
theorem exFs_perm : exFs.Perm exGs := by decide
theorem exFs_names_differ : namesOf exFs ≠ namesOf exGs := by decide

#guard (varsortLexi (PState.ofFacts exFs)).namelist.map String.ofList == ["10", "9", "B", "a10", "a9", "b"]
#guard (fromParser (varsortLexi (PState.ofFacts exFs))).isSome
#guard (fromParser ((PState.ofFacts exFs).resort exNatural)).isSome
-- the model's byte order is the `<` of Lean's (UTF-8) strings, also beyond ASCII
#guard [("10", "9"), ("9", "B"), ("B", "a10"), ("a10", "a9"), ("a9", "b"), ("z", "ä"), ("ä", "€"), ("€", "😀"),
  ("", "a"), ("a", "aa")].all fun (a, b) => byteLt a.toList b.toList && !byteLt b.toList a.toList && decide (a < b)
#guard [0x24, 0x7f, 0x80, 0xe4, 0x7ff, 0x800, 0x20ac, 0xffff, 0x10000, 0x1f600, 0x10ffff].all fun n =>
  (String.utf8EncodeChar (Char.ofNat n)).map UInt8.toNat == utf8Nat n

/-- the theorems apply to the example: unsorted, byte-sorted, naturally sorted and reordered facts
all have the same label maps -/
example : ∃ s ac s' ac', fromParser (PState.ofFacts exFs) = some (s, ac) ∧
    fromParser (varsortLexi (PState.ofFacts exFs)) = some (s', ac') ∧
    SameLabelMaps (namesOf exFs) (varsortLexi (PState.ofFacts exFs)).namelist s ac s' ac' :=
  sortBy_label_maps byteLe exFs exFs_wf (by decide)

example : ∃ s ac s' ac', fromParser (PState.ofFacts exFs) = some (s, ac) ∧
    fromParser ((PState.ofFacts exFs).resort exNatural) = some (s', ac') ∧
    Renamed (reindex (namesOf exFs) exNatural) (reindex exNatural (namesOf exFs))
      (ac.map (eval s)) (ac'.map (eval s')) ∧
    SameLabelMaps (namesOf exFs) exNatural s ac s' ac' :=
  resorted_label_maps exFs exFs_wf exNatural exNatural_perm (by decide)

example : ∃ s ac s' ac', fromParser (PState.ofFacts exFs) = some (s, ac) ∧
    fromParser (PState.ofFacts exGs) = some (s', ac') ∧
    SameLabelMaps (namesOf exFs) (namesOf exGs) s ac s' ac' :=
  facts_permutation_invariant exFs exGs exFs_perm exFs_one exFs_wf (by decide)

/-- the renumbering of the example is a proper one -/
example : (List.range 6).map (reindex (namesOf exFs) (varsortLexi (PState.ofFacts exFs)).namelist) =
    [5, 4, 0, 2, 3, 1] := by decide

/-- without "at most one condition per statement" reordering the facts is NOT harmless -/
example : condOf [.stmt ['a'], .ac ['a'] .top, .ac ['a'] .bot] ['a'] ≠
    condOf [.stmt ['a'], .ac ['a'] .bot, .ac ['a'] .top] ['a'] := by decide

/-! ### what order `--an` yields (review 2, C10 row 3)

`IsVarsortAlphanum le` leaves `natural_lexical_cmp` abstract; its field `sorted` was never used. With the
comparison MODELLED (`CliM.NatLex.le`, CliWorld.lean; total, transitive, antisymmetric on all labels:
NatLexOrder.lean) the parser object after `varsort_alphanum` is determined: for pairwise different names
there is exactly one name list that is a permutation of the old one and sorted w.r.t. `le`, the one
insertion sort computes (`CliM.NatLex.anSort`, what `CliM.sortState … .an` and the driver use). Fidelity
of `CliM.NatLex.le` to the crate is limited to labels within Latin-1 with digit runs below 2^64 (see `C15`, section
on `--an`). -/

/-- the model's `--an` is an instance of `IsVarsortAlphanum` for the modelled comparison … -/
theorem an_sort_is_varsort_alphanum (st : PState) :
    IsVarsortAlphanum CliM.NatLex.le st (st.resort (CliM.NatLex.anSort st.namelist)) :=
  ⟨(CliM.NatLex.anSort_sorted_all st.namelist).1, (CliM.NatLex.anSort_sorted_all st.namelist).2, rfl⟩

/-- … and the ONLY one when the names are pairwise different: `sorted` + `perm` determine the name list
(a sorted permutation w.r.t. a total, transitive, antisymmetric comparison is unique), hence the state -/
theorem varsort_alphanum_unique (st st' : PState) (nd : st.namelist.Nodup)
    (h : IsVarsortAlphanum CliM.NatLex.le st st') :
    st' = st.resort (CliM.NatLex.anSort st.namelist) := by
  have hs := an_sort_is_varsort_alphanum st
  have key : ∀ (l1 l2 : List Label), l1.Perm l2 → l1.Nodup →
      l1.Pairwise (fun a b => CliM.NatLex.le a b = true) → l2.Pairwise (fun a b => CliM.NatLex.le a b = true) →
      l1 = l2 := by
    intro l1
    induction l1 with
    | nil => intro l2 hp _ _ _; exact hp.nil_eq
    | cons x xs ih =>
      intro l2 hp nd1 s1 s2
      cases l2 with
      | nil => exact absurd hp.length_eq (by simp)
      | cons y ys =>
        have hx : x ∈ y :: ys := hp.mem_iff.mp (List.mem_cons_self ..)
        have hy : y ∈ x :: xs := hp.mem_iff.mpr (List.mem_cons_self ..)
        have exy : x = y := by
          rcases List.mem_cons.mp hx with e | hx'
          · exact e
          · rcases List.mem_cons.mp hy with e | hy'
            · exact e.symm
            · exact CliM.NatLex.le_antisymm x y ((List.pairwise_cons.mp s1).1 y hy')
                ((List.pairwise_cons.mp s2).1 x hx')
        subst exy
        have hp' : xs.Perm ys := (List.perm_cons x).mp hp
        rw [ih ys hp' (List.nodup_cons.mp nd1).2 (List.pairwise_cons.mp s1).2 (List.pairwise_cons.mp s2).2]
  have e : st'.namelist = CliM.NatLex.anSort st.namelist :=
    key _ _ (h.perm.trans (CliM.NatLex.anSort_sorted_all st.namelist).1.symm)
      (h.perm.nodup_iff.mpr nd) h.sorted (CliM.NatLex.anSort_sorted_all st.namelist).2
  rw [h.state, e]

#print axioms an_sort_is_varsort_alphanum
#print axioms varsort_alphanum_unique
#print axioms resorted_label_maps
#print axioms sorted_twice_label_maps
#print axioms texts_invariant
#print axioms grounded_label_map_invariant
#print axioms complete_label_maps_invariant
#print axioms stable_label_maps_invariant
#print axioms twovalued_label_maps_invariant
#print axioms sortBy_label_maps
#print axioms alphanum_label_maps
#print axioms facts_permutation_invariant
#print axioms facts_permutation_then_sort_invariant
#print axioms renaming_invariant
#print axioms renaming_then_sort_invariant
#print axioms lexi_reports_bytewise_order
#print axioms exFs_lexi

end C10

/-! ## outputs of the other procedures (second review, C10 row 1) and the order `--an` reports (row 3)

`SameLabelMaps` compares the reference enumerations. Every other procedure the CLI offers for
stable / two-valued models has an exactness theorem with the SAME right-hand side as the reference
(C03 `stable_exact`, `stablepre_exact`; C04 `count_search_exact`; C05 via `CliF.ng_facts`: every
halted run), so its output, read as a set of label maps, is invariant too. `Built n s ac` collects
the side conditions of those theorems; the parser-level theorems above are re-stated with it. -/
namespace C10
open ParserM FromParser SortModel

/-- the side conditions of C01–C05 on a built framework -/
structure Built (n : Nat) (s : Store) (ac : List Nat) : Prop where
  wf : WF s
  len : ac.length = n
  valid : ∀ t ∈ ac, t < s.nodes.size

/-- the right-hand side of C03 / C04 / C05 (stable mode) -/
def IsStableModel (D : List BoolFn) (n : Nat) (v : I3) : Prop :=
  v.length = n ∧ TotalI v ∧ Gam D v = v ∧
    ∀ w : I3, IsLfp (redu D v) w → ∀ i : Nat, v[i]? = some (some true) → w[i]? = some (some true)

/-- `out` (decoded vectors) is exactly the set of stable models of the built framework -/
def StableOutput (n : Nat) (s : Store) (ac : List Nat) (out : List I3) : Prop :=
  ∀ v : I3, v ∈ out ↔ IsStableModel (ac.map (eval s)) n v

/-- `out` is exactly the set of two-valued models (C05, two-valued mode) -/
def TwoValOutput (n : Nat) (s : Store) (ac : List Nat) (out : List I3) : Prop :=
  ∀ v : I3, v ∈ out ↔ (v.length = n ∧ TotalI v ∧ Gam (ac.map (eval s)) v = v)

/-- every exact stable output has the members of the reference enumeration -/
theorem stableOutput_iff_reference {n : Nat} {s : Store} {ac : List Nat} (b : Built n s ac) {out : List I3}
    (h : StableOutput n s ac out) (v : I3) : v ∈ out ↔ v ∈ stableVecs n s ac :=
  (h v).trans ((C03.stable_exact s n ac b.wf b.len b.valid).2 v).symm

/-- **any two exact stable outputs** of two frameworks with the same label maps are the same set of
label maps -/
theorem stable_outputs_invariant (xs ys : List Label) (s s' : Store) (ac ac' : List Nat)
    (H : SameLabelMaps xs ys s ac s' ac') (b : Built xs.length s ac) (b' : Built ys.length s' ac')
    (out out' : List I3) (h : StableOutput xs.length s ac out) (h' : StableOutput ys.length s' ac' out')
    (m : Label → Option (Option Bool)) :
    m ∈ out.map (labelled xs) ↔ m ∈ out'.map (labelled ys) := by
  have e : ∀ m, m ∈ out.map (labelled xs) ↔ m ∈ (stableVecs xs.length s ac).map (labelled xs) := by
    intro m; simp only [List.mem_map, stableOutput_iff_reference b h]
  have e' : ∀ m, m ∈ out'.map (labelled ys) ↔ m ∈ (stableVecs ys.length s' ac').map (labelled ys) := by
    intro m; simp only [List.mem_map, stableOutput_iff_reference b' h']
  rw [e m, e' m]
  exact H.2.2.1 m

/-- **any two exact two-valued outputs** likewise -/
theorem twoval_outputs_invariant (xs ys : List Label) (s s' : Store) (ac ac' : List Nat)
    (H : SameLabelMaps xs ys s ac s' ac') (b : Built xs.length s ac) (b' : Built ys.length s' ac')
    (out out' : List I3) (h : TwoValOutput xs.length s ac out) (h' : TwoValOutput ys.length s' ac' out')
    (m : Label → Option (Option Bool)) :
    m ∈ out.map (labelled xs) ↔ m ∈ out'.map (labelled ys) := by
  have key : ∀ (zs : List Label) (t : Store) (bc : List Nat) (o : List I3), Built zs.length t bc →
      TwoValOutput zs.length t bc o →
      (m ∈ o.map (labelled zs) ↔ ∃ v ∈ completeVecs zs.length t bc, TotalI v ∧ labelled zs v = m) := by
    intro zs t bc o bb ho
    have ce := (CompleteExact.completeAll_exact t zs.length bc bb.wf bb.len bb.valid).2.1
    simp only [List.mem_map]
    constructor
    · rintro ⟨v, hv, rfl⟩
      have ⟨a, b, c⟩ := (ho v).mp hv
      exact ⟨v, (ce v).mpr ⟨a, c⟩, b, rfl⟩
    · rintro ⟨v, hv, ht, rfl⟩
      have ⟨a, c⟩ := (ce v).mp hv
      exact ⟨v, (ho v).mpr ⟨a, ht, c⟩, rfl⟩
  rw [key xs s ac out b h, key ys s' ac' out' b' h']
  exact H.2.2.2 m

/-- `--stm`, `--stmpre`, `--stmca`, `--stmcb` produce exact stable outputs on every built framework;
`--stmng` on every run that halted within its bound (and it halts from some bound on) -/
theorem procedures_exact {n : Nat} {s : Store} {ac : List Nat} (b : Built n s ac) :
    StableOutput n s ac (stableVecs n s ac) ∧
    StableOutput n s ac ((Cli.stablePre s n ac).2.map (fun v => v.map storeIsConst)) ∧
    (∀ useA, StableOutput n s ac ((countAll s n ac useA).2.map (fun v => v.map storeIsConst))) ∧
    (∀ h : SM.Heu, (∃ F0, ∀ F, F0 ≤ F → (SM.ngSearch h F s n ac true).2.2.2 = true) ∧
      ∀ F, (SM.ngSearch h F s n ac true).2.2.2 = true →
        StableOutput n s ac ((SM.ngSearch h F s n ac true).2.1.map (fun v => v.map storeIsConst))) := by
  refine ⟨(C03.stable_exact s n ac b.wf b.len b.valid).2, (C03.stablepre_exact s n ac b.wf b.len b.valid).2,
    fun useA => (C04.count_search_exact s n ac useA b.wf b.len b.valid).2, ?_⟩
  intro h
  have ⟨a, c⟩ := CliF.ng_facts h s n ac true b.wf b.len b.valid (fun hc => by cases hc)
  refine ⟨a, fun F hF v => ?_⟩
  rw [(c F hF).2.2.2 v]
  exact ⟨fun ⟨p, q, r, t⟩ => ⟨p, q, r, t rfl⟩, fun ⟨p, q, r, t⟩ => ⟨p, q, r, fun _ => t⟩⟩

/-- `--twoval`: exact two-valued output on every halted run, provided every condition reads
statements only (the side condition of C05's two-valued mode; true of every parsed framework whose
atoms are declared) -/
theorem twoval_procedure_exact {n : Nat} {s : Store} {ac : List Nat} (b : Built n s ac)
    (hsup : ∀ t ∈ ac, ∀ σ τ : Asg, (∀ i, i < n → σ i = τ i) → eval s t σ = eval s t τ) (h : SM.Heu) :
    (∃ F0, ∀ F, F0 ≤ F → (SM.ngSearch h F s n ac false).2.2.2 = true) ∧
    ∀ F, (SM.ngSearch h F s n ac false).2.2.2 = true →
      TwoValOutput n s ac ((SM.ngSearch h F s n ac false).2.1.map (fun v => v.map storeIsConst)) := by
  have ⟨a, c⟩ := CliF.ng_facts h s n ac false b.wf b.len b.valid (fun _ => hsup)
  refine ⟨a, fun F hF v => ?_⟩
  rw [(c F hF).2.2.2 v]
  exact ⟨fun ⟨p, q, r, _⟩ => ⟨p, q, r⟩, fun ⟨p, q, r⟩ => ⟨p, q, r, fun hc => by cases hc⟩⟩

/-- **`--stmca` / `--stmcb`** (and across the two: `useA`, `useA'` arbitrary): the printed stable
models, as label maps, do not depend on the presentation -/
theorem stmc_outputs_invariant (xs ys : List Label) (s s' : Store) (ac ac' : List Nat)
    (H : SameLabelMaps xs ys s ac s' ac') (b : Built xs.length s ac) (b' : Built ys.length s' ac')
    (useA useA' : Bool) (m : Label → Option (Option Bool)) :
    m ∈ ((countAll s xs.length ac useA).2.map (fun v => v.map storeIsConst)).map (labelled xs) ↔
      m ∈ ((countAll s' ys.length ac' useA').2.map (fun v => v.map storeIsConst)).map (labelled ys) :=
  stable_outputs_invariant xs ys s s' ac ac' H b b' _ _ ((procedures_exact b).2.2.1 useA)
    ((procedures_exact b').2.2.1 useA') m

/-- **`--stmpre`** -/
theorem stmpre_outputs_invariant (xs ys : List Label) (s s' : Store) (ac ac' : List Nat)
    (H : SameLabelMaps xs ys s ac s' ac') (b : Built xs.length s ac) (b' : Built ys.length s' ac')
    (m : Label → Option (Option Bool)) :
    m ∈ ((Cli.stablePre s xs.length ac).2.map (fun v => v.map storeIsConst)).map (labelled xs) ↔
      m ∈ ((Cli.stablePre s' ys.length ac').2.map (fun v => v.map storeIsConst)).map (labelled ys) :=
  stable_outputs_invariant xs ys s s' ac ac' H b b' _ _ (procedures_exact b).2.1 (procedures_exact b').2.1 m

/-- **`--stmng`**, any two heuristics, any two bounds within which the runs halted (the CLI's bound
is 1000000; `procedures_exact`: both halt from some bound on) -/
theorem stmng_outputs_invariant (xs ys : List Label) (s s' : Store) (ac ac' : List Nat)
    (H : SameLabelMaps xs ys s ac s' ac') (b : Built xs.length s ac) (b' : Built ys.length s' ac')
    (h h' : SM.Heu) (F F' : Nat) (hF : (SM.ngSearch h F s xs.length ac true).2.2.2 = true)
    (hF' : (SM.ngSearch h' F' s' ys.length ac' true).2.2.2 = true) (m : Label → Option (Option Bool)) :
    m ∈ ((SM.ngSearch h F s xs.length ac true).2.1.map (fun v => v.map storeIsConst)).map (labelled xs) ↔
      m ∈ ((SM.ngSearch h' F' s' ys.length ac' true).2.1.map (fun v => v.map storeIsConst)).map (labelled ys) :=
  stable_outputs_invariant xs ys s s' ac ac' H b b' _ _ (((procedures_exact b).2.2.2 h).2 F hF)
    (((procedures_exact b').2.2.2 h').2 F' hF') m

/-- **`--twoval`**, likewise, under the side condition of the two-valued mode on both sides -/
theorem twoval_search_outputs_invariant (xs ys : List Label) (s s' : Store) (ac ac' : List Nat)
    (H : SameLabelMaps xs ys s ac s' ac') (b : Built xs.length s ac) (b' : Built ys.length s' ac')
    (hsup : ∀ t ∈ ac, ∀ σ τ : Asg, (∀ i, i < xs.length → σ i = τ i) → eval s t σ = eval s t τ)
    (hsup' : ∀ t ∈ ac', ∀ σ τ : Asg, (∀ i, i < ys.length → σ i = τ i) → eval s' t σ = eval s' t τ)
    (h h' : SM.Heu) (F F' : Nat) (hF : (SM.ngSearch h F s xs.length ac false).2.2.2 = true)
    (hF' : (SM.ngSearch h' F' s' ys.length ac' false).2.2.2 = true) (m : Label → Option (Option Bool)) :
    m ∈ ((SM.ngSearch h F s xs.length ac false).2.1.map (fun v => v.map storeIsConst)).map (labelled xs) ↔
      m ∈ ((SM.ngSearch h' F' s' ys.length ac' false).2.1.map (fun v => v.map storeIsConst)).map (labelled ys) :=
  twoval_outputs_invariant xs ys s s' ac ac' H b b' _ _ ((twoval_procedure_exact b hsup h).2 F hF)
    ((twoval_procedure_exact b' hsup' h').2 F' hF') m

/-- the two stable procedures also agree WITH EACH OTHER on one framework (`xs = ys`, identity
presentation is not needed: both are exact) — e.g. `--stmca` against `--stmng` -/
theorem procedures_agree {n : Nat} {s : Store} {ac : List Nat} (b : Built n s ac) (out out' : List I3)
    (h : StableOutput n s ac out) (h' : StableOutput n s ac out') (v : I3) : v ∈ out ↔ v ∈ out' :=
  (h v).trans (h' v).symm

/-- **`--stmrew` / `--stmrew2`, library arm** (`Bio.bioStableRep` on the external library object, C03
`biodivine_rewriting_exact`): for every lawful library, if on each side the library object `acB`
denotes position by position the functions of the native object (`hsame`, what `bioBuild` /
`from_parser` establish: `CliM.bioBuild_facts`), the printed stable models are the same label maps.
ASSUMPTION about the external crate as in C03: `W : Bio.Lawful L n` -/
theorem stmrew_library_outputs_invariant {T : Type} (L : Bio.Lib T) (xs ys : List Label)
    (W : Bio.Lawful L xs.length) (W' : Bio.Lawful L ys.length) (s s' : Store) (ac ac' : List Nat)
    (H : SameLabelMaps xs ys s ac s' ac') (b : Built xs.length s ac) (b' : Built ys.length s' ac')
    (rw rw' : Option T) (acB acB' : List T) (hv : ∀ a ∈ acB, W.Valid a) (hv' : ∀ a ∈ acB', W'.Valid a)
    (hl : acB.length = xs.length) (hl' : acB'.length = ys.length)
    (hsame : acB.map W.den = ac.map (eval s)) (hsame' : acB'.map W'.den = ac'.map (eval s'))
    (hg : Bio.GoodRewrite W acB rw) (hg' : Bio.GoodRewrite W' acB' rw') (m : Label → Option (Option Bool)) :
    m ∈ ((Bio.bioStableRep L rw acB).map (fun v => v.map storeIsConst)).map (labelled xs) ↔
      m ∈ ((Bio.bioStableRep L rw' acB').map (fun v => v.map storeIsConst)).map (labelled ys) := by
  apply stable_outputs_invariant xs ys s s' ac ac' H b b'
  · intro v
    rw [(C03.biodivine_rewriting_exact L xs.length W rw acB hv hl hg).2.1 v, hsame]; rfl
  · intro v
    rw [(C03.biodivine_rewriting_exact L ys.length W' rw' acB' hv' hl' hg').2.1 v, hsame']; rfl

/-- **`--stmrew` / `--stmrew2`, `hybrid_step_opt(false)` / `from_biodivine` pairing** (`Bio.nativeStableRep`: candidates
from the library object, test on the own store; C03 `native_rewriting_exact`), same hypotheses.  NOT the pairing the
CLI's default hybrid arm runs (pre-grounded native object, candidates from the un-grounded library object: `hsame`
fails there, `C03.hsame_fails_for_the_cli_pairing`) - for that see `stmrew_cli_hybrid_outputs_invariant` below -/
theorem stmrew_hybrid_outputs_invariant {T : Type} (L : Bio.Lib T) (xs ys : List Label)
    (W : Bio.Lawful L xs.length) (W' : Bio.Lawful L ys.length) (s s' : Store) (ac ac' : List Nat)
    (H : SameLabelMaps xs ys s ac s' ac') (b : Built xs.length s ac) (b' : Built ys.length s' ac')
    (rw rw' : Option T) (acB acB' : List T) (hv : ∀ a ∈ acB, W.Valid a) (hv' : ∀ a ∈ acB', W'.Valid a)
    (hl : acB.length = xs.length) (hl' : acB'.length = ys.length)
    (hsame : acB.map W.den = ac.map (eval s)) (hsame' : acB'.map W'.den = ac'.map (eval s'))
    (hg : Bio.GoodRewrite W acB rw) (hg' : Bio.GoodRewrite W' acB' rw') (m : Label → Option (Option Bool)) :
    m ∈ ((Bio.nativeStableRep s xs.length ac (Bio.stableModelCandidates L rw acB)).2.map
          (fun v => v.map storeIsConst)).map (labelled xs) ↔
      m ∈ ((Bio.nativeStableRep s' ys.length ac' (Bio.stableModelCandidates L rw' acB')).2.map
          (fun v => v.map storeIsConst)).map (labelled ys) := by
  apply stable_outputs_invariant xs ys s s' ac ac' H b b'
  · intro v
    rw [(C03.native_rewriting_exact L xs.length W s ac b.wf b.len b.valid rw acB hv hl hsame hg).2.2.1 v]; rfl
  · intro v
    rw [(C03.native_rewriting_exact L ys.length W' s' ac' b'.wf b'.len b'.valid rw' acB' hv' hl' hsame' hg').2.2.1 v]
    rfl

/-- `--stmrew` / `--stmrew2` as the CLI's HYBRID arm runs them: native object from `hybrid_step_opt(opt)`
(CLI: `opt = true`, PRE-GROUNDED), candidates from the un-grounded library object -/
theorem stmrew_cli_hybrid_outputs_invariant {T : Type} (L : Bio.Lib T) (xs ys : List Label)
    (W : Bio.Lawful L xs.length) (W' : Bio.Lawful L ys.length)
    (dump : T → List Node) (hd : Bio.DumpSpec W dump) (hd' : Bio.DumpSpec W' dump) (opt opt' : Bool)
    (s s' : Store) (ac ac' : List Nat)
    (H : SameLabelMaps xs ys s ac s' ac') (b : Built xs.length s ac) (b' : Built ys.length s' ac')
    (rw rw' : Option T) (acB acB' : List T) (hv : ∀ a ∈ acB, W.Valid a) (hv' : ∀ a ∈ acB', W'.Valid a)
    (hl : acB.length = xs.length) (hl' : acB'.length = ys.length)
    (hsame : acB.map W.den = ac.map (eval s)) (hsame' : acB'.map W'.den = ac'.map (eval s'))
    (hg : Bio.GoodRewrite W acB rw) (hg' : Bio.GoodRewrite W' acB' rw') (m : Label → Option (Option Bool)) :
    m ∈ ((Bio.nativeStableRep (Bio.hybridStep L dump opt acB).1 xs.length (Bio.hybridStep L dump opt acB).2
          (Bio.stableModelCandidates L rw acB)).2.map (fun v => v.map storeIsConst)).map (labelled xs) ↔
      m ∈ ((Bio.nativeStableRep (Bio.hybridStep L dump opt' acB').1 ys.length (Bio.hybridStep L dump opt' acB').2
          (Bio.stableModelCandidates L rw' acB')).2.map (fun v => v.map storeIsConst)).map (labelled ys) := by
  apply stable_outputs_invariant xs ys s s' ac ac' H b b'
  · intro v
    rw [(C03.native_rewriting_on_hybrid L xs.length W dump hd opt rw acB hv hl hg).2.2.1 v, hsame]; rfl
  · intro v
    rw [(C03.native_rewriting_on_hybrid L ys.length W' dump hd' opt' rw' acB' hv' hl' hg').2.2.1 v, hsame']; rfl

/-- NOT proved (kept as a statement): the same from the parser object alone, i.e. with the library
objects of BOTH presentations produced by `CliM.bioBuild` — missing is the derivation of `hsame`,
`hv`, `hg` for the re-sorted parser object from `CliM.bioBuild_facts` in one composed theorem.
(Third review, audit L1: the statement used to quantify ONE library `L` with `∀ n, Bio.Lawful L n`, which no library
satisfies - `sat_spec` at `n = 1` and `n = 2` contradict each other on `satVals (evalExpr (.const true))`,
`no_lib_lawful_for_all_n` below - so it was vacuously true; now a FAMILY of libraries indexed by the number of
variables, as in `CliM.World` and C16.) -/
def stmrew_parser_level_statement : Prop :=
  ∀ {T : Type} (Lf : Nat → Bio.Lib T), (∀ n, n ≤ VBOT → Bio.Lawful (Lf n) n) →
    ∀ (fs : List Fact), WellFormedAdf fs → ∀ (ns' : List Label), ns'.Perm (namesOf fs) →
      (namesOf fs).length ≤ VBOT → ∀ (rew : Bool) (b b' : List T × Option T),
        CliM.bioBuild (Lf (namesOf fs).length) (PState.ofFacts fs) rew = some b →
        CliM.bioBuild (Lf (namesOf fs).length) ((PState.ofFacts fs).resort ns') rew = some b' →
        ∀ m, m ∈ ((Bio.bioStableRep (Lf (namesOf fs).length) b.2 b.1).map (fun v => v.map storeIsConst)).map
               (labelled (namesOf fs)) ↔
             m ∈ ((Bio.bioStableRep (Lf (namesOf fs).length) b'.2 b'.1).map (fun v => v.map storeIsConst)).map
               (labelled ns')

/-- no single library is lawful for every number of variables (why the statement above needs a family) -/
theorem no_lib_lawful_for_all_n {T : Type} (L : Bio.Lib T) (W : ∀ n, Bio.Lawful L n) : False := by
  have h1 := (W 1).evalExpr_spec (.const true) rfl
  have h2 := (W 2).evalExpr_spec (.const true) rfl
  have s1 := ((W 1).sat_spec _ h1.1).2 [true]
  have s2 := ((W 2).sat_spec _ h2.1).2 [true]
  rw [h1.2] at s1; rw [h2.2] at s2
  have m : [true] ∈ L.satVals (L.evalExpr (.const true)) := s1.mpr ⟨rfl, rfl⟩
  have := (s2.mp m).1; simp at this

/-- the parser-level source of all hypotheses at once: for a well-formed ADF and any parser object
presenting a permutation of its names (every sort, `--lx`, `--an`, both), both objects are built,
have the same label maps, and satisfy `Built` — so every `…_outputs_invariant` above applies -/
theorem presented_built (fs : List Fact) (hwf : WellFormedAdf fs) (st : PState) (ns' : List Label)
    (hp : ns'.Perm (namesOf fs)) (hP : Presents st ns' (acsOf fs)) (hn : (namesOf fs).length ≤ VBOT) :
    ∃ s ac s' ac', fromParser (PState.ofFacts fs) = some (s, ac) ∧ fromParser st = some (s', ac') ∧
      SameLabelMaps (namesOf fs) ns' s ac s' ac' ∧
      Built (namesOf fs).length s ac ∧ Built ns'.length s' ac' := by
  obtain ⟨s, ac, s', ac', a, b, _, d⟩ := presented_label_maps fs hwf st ns' hp hP hn
  obtain ⟨s'', ac'', h'', w', l', v', _, _⟩ := fromParser_presented fs hwf st ns' hp hP hn
  rw [b] at h''; cases h''
  obtain ⟨w, l, v, _⟩ := fromParser_correct fs s ac a hn
  exact ⟨s, ac, s', ac', a, b, d, ⟨w, l, v⟩, ⟨w', by rw [hp.length_eq]; exact l', v'⟩⟩

/-- **what order `--an` reports** (uses `IsVarsortAlphanum.sorted`): after `varsort_alphanum` the
name list is a duplicate-free permutation of the declared names, pairwise ordered by the comparison
`le` (ANY comparison - the statement is relative to it), and entry `k` of every
printed vector is the value of the label at position `k` of that list. So: statements are reported
in `le`-ascending label order; which order that is on concrete labels ("natural": digit runs by
value) rests on the crate `lexical-sort`, modelled as `CliM.NatLex.le` (`an_sort_is_varsort_alphanum`,
`varsort_alphanum_unique` below; fidelity limits of the model: C15) -/
theorem alphanum_reports_le_order (le : Label → Label → Bool) (fs : List Fact) (st' : PState)
    (hs : IsVarsortAlphanum le (PState.ofFacts fs) st') :
    st'.namelist.Perm (namesOf fs) ∧ st'.namelist.Nodup ∧
    st'.namelist.Pairwise (fun a b => le a b = true) ∧
    (∀ i j (hi : i < j) (hj : j < st'.namelist.length), le (st'.namelist[i]'(by omega)) st'.namelist[j] = true) ∧
    ∀ k (hk : k < st'.namelist.length) (v : I3), labelled st'.namelist v st'.namelist[k] = v[k]? := by
  have hp : st'.namelist.Perm (namesOf fs) := by
    have := hs.perm
    rwa [(ofFacts_spec fs).1] at this
  have nd : st'.namelist.Nodup := hp.nodup_iff.mpr (namesOf_nodup fs)
  refine ⟨hp, nd, hs.sorted, ?_, ?_⟩
  · intro i j hi hj
    exact List.pairwise_iff_getElem.mp hs.sorted i j (by omega) hj hi
  · intro k hk v
    unfold labelled
    rw [indexOf_of_get _ nd _ k (by simp [hk])]
    rfl

/-- non-vacuity of `alphanum_reports_le_order`: for the six labels of `exFs` the natural order
`exNatural` (9 < 10 < a9 < a10 < b < B) with ANY comparison under which that list is pairwise
ordered — here the relation "stands before in `exNatural`" — is an `IsVarsortAlphanum` result -/
example : IsVarsortAlphanum (fun a b => decide ((indexOf exNatural a).getD 9 ≤ (indexOf exNatural b).getD 9))
    (PState.ofFacts exFs) ((PState.ofFacts exFs).resort exNatural) :=
  ⟨by show exNatural.Perm (PState.ofFacts exFs).namelist; rw [(ofFacts_spec exFs).1]; exact exNatural_perm,
   by show exNatural.Pairwise _; decide, rfl⟩

/-- non-vacuity of the composed corollaries: `exFs` re-sorted to the natural order — both built,
same label maps, `Built` on both sides (6 statements, byte order ≠ natural order) -/
example : ∃ s ac s' ac', fromParser (PState.ofFacts exFs) = some (s, ac) ∧
    fromParser ((PState.ofFacts exFs).resort exNatural) = some (s', ac') ∧
    SameLabelMaps (namesOf exFs) exNatural s ac s' ac' ∧
    Built (namesOf exFs).length s ac ∧ Built exNatural.length s' ac' :=
  presented_built exFs exFs_wf _ exNatural exNatural_perm
    (presents_resort (presents_ofFacts exFs) exNatural exNatural_perm) (by decide)

end C10

#print axioms C10.stable_outputs_invariant
#print axioms C10.twoval_outputs_invariant
#print axioms C10.procedures_exact
#print axioms C10.twoval_procedure_exact
#print axioms C10.stmc_outputs_invariant
#print axioms C10.stmpre_outputs_invariant
#print axioms C10.stmng_outputs_invariant
#print axioms C10.twoval_search_outputs_invariant
#print axioms C10.stmrew_library_outputs_invariant
#print axioms C10.stmrew_hybrid_outputs_invariant
#print axioms C10.presented_built
#print axioms C10.alphanum_reports_le_order

#print axioms C10.stmrew_cli_hybrid_outputs_invariant
#print axioms C10.no_lib_lawful_for_all_n
#print axioms C10.procedures_agree
