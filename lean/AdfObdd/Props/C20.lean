import AdfObdd.IterFull
/-! # C20 — the interpretation iterators enumerate every completion / refinement exactly once

`twoValAll` / `threeValAll` are the functions the model driver runs for `it2` / `it3` and inside
`stable` / `complete`; `IterFull.It2` / `It3` are literal models of the two Rust structs
(`indexes`, `current`, `started`, `original`, `next`, `decrement_vec`).  Vectors are lists of
handles, an entry is decided iff it is `< 2`.  No bound on length or on the number of undecided
entries anywhere. -/
namespace C20
open IterFull Iter2M Iter3M

/-- two-valued: exactly `2^k` vectors, `k` = number of undecided entries -/
theorem two_count (v : List Nat) : (twoValAll v).length = 2 ^ nUnd v := by
  rw [twoValAll_eq_enum2, enum2_length, und_length]

/-- two-valued: no vector twice -/
theorem two_nodup (v : List Nat) : (twoValAll v).Nodup := by
  rw [twoValAll_eq_enum2]; exact enum2_nodup _ _ (und_nodup v) (und_lt_start v)

/-- two-valued: a vector is yielded iff it is a total completion of the input
(every completion present, nothing else) -/
theorem two_exact (v w : List Nat) : w ∈ twoValAll v ↔ isCompletion w v := by
  rw [twoValAll_eq_enum2]; exact mem_enum2_iff_completion v w

/-- two-valued: decided positions are never altered and every yielded vector is total -/
theorem two_decided_kept (v w : List Nat) (h : w ∈ twoValAll v) :
    w.length = v.length ∧ (∀ i, i < v.length → v.getD i 0 < 2 → w.getD i 0 = v.getD i 0) ∧
    ∀ i, i < v.length → w.getD i 0 < 2 := by
  have ⟨hl, hc⟩ := (two_exact v w).mp h
  refine ⟨hl, ?_, ?_⟩
  · intro i hi hd; have := hc i hi; rwa [if_pos hd] at this
  · intro i hi
    have := hc i hi
    by_cases hd : v.getD i 0 < 2
    · rw [if_pos hd] at this; omega
    · rwa [if_neg hd] at this

/-- two-valued, the Rust iterator itself: calling `next` of the literal model until it answers
`None` yields exactly `twoValAll v`, and `None` is reached within any fuel `> 2^k`
(termination; the fuel of the driver's function is only a bound) -/
theorem two_literal_terminates (v : List Nat) (fuel : Nat) (hf : 2 ^ nUnd v < fuel) :
    It2.collect fuel (It2.new v) = (twoValAll v, true) := by
  have hpos : 0 < fuel := Nat.lt_of_le_of_lt (Nat.zero_le _) hf
  obtain ⟨f, rfl⟩ : ∃ f, fuel = f + 1 := ⟨fuel - 1, by omega⟩
  have h1 : (It2.collect (f+1) (It2.new v)).1 = twoValAll v := by
    rw [It2.collect_new, twoValAll_eq_enum2]
    exact collect2_enum v (f+1) (by omega)
  have h2 : (It2.collect (f+1) (It2.new v)).2 = true := by
    rw [It2.collect_flag, h1, two_count]; exact hf
  exact Prod.ext h1 h2

/-- the driver's function with any fuel `≥ 2^k` (fuel irrelevance) -/
theorem two_fuel (v : List Nat) (fuel : Nat) (hf : 2 ^ nUnd v ≤ fuel) :
    collectFrom (idxs v) fuel (start2 v) = twoValAll v := by
  rw [twoValAll_eq_enum2]; exact collect2_enum v fuel hf

/-- three-valued: exactly `3^k` vectors -/
theorem three_count (v : List Nat) : (threeValAll v).length = 3 ^ nUnd v := by
  rw [threeValAll_eq_enum3, enum3_length, und_length]

/-- three-valued: no vector twice -/
theorem three_nodup (v : List Nat) : (threeValAll v).Nodup := by
  rw [threeValAll_eq_enum3]
  exact enum3_nodup _ _ (und_nodup v) (fun i hi => (mem_und.mp hi).1) (und_undecided v)

/-- three-valued: a vector is yielded iff it refines the input -/
theorem three_exact (v w : List Nat) : w ∈ threeValAll v ↔ isRefinement w v := by
  rw [threeValAll_eq_enum3]; exact mem_enum3_iff_refinement v w

/-- three-valued: the first yielded vector is the interpretation itself -/
theorem three_first (v : List Nat) : (threeValAll v).head? = some v := by
  rw [threeValAll_eq_enum3]
  obtain ⟨tl, h⟩ := enum3_head (und v) v
  rw [h]; rfl

/-- three-valued: decided positions are never altered -/
theorem three_decided_kept (v w : List Nat) (h : w ∈ threeValAll v) :
    w.length = v.length ∧ ∀ i, i < v.length → v.getD i 0 < 2 → w.getD i 0 = v.getD i 0 := by
  have ⟨hl, hc⟩ := (three_exact v w).mp h
  refine ⟨hl, ?_⟩
  intro i hi hd; have := hc i hi; rwa [if_pos hd] at this

/-- three-valued, the Rust iterator itself (literal `next` / `decrement_vec`): collects exactly
`threeValAll v` and answers `None` within any fuel `> 3^k` -/
theorem three_literal_terminates (v : List Nat) (fuel : Nat) (hf : 3 ^ nUnd v < fuel) :
    It3.collect fuel (It3.new v) = (threeValAll v, true) := by
  have hpos : 0 < fuel := Nat.lt_of_le_of_lt (Nat.zero_le _) hf
  obtain ⟨f, rfl⟩ : ∃ f, fuel = f + 1 := ⟨fuel - 1, by omega⟩
  have h1 : (It3.collect (f+1) (It3.new v)).1 = threeValAll v := by
    rw [It3.collect_new, threeValAll_eq_enum3]
    exact collect3_enum v (f+1) (by omega)
  have h2 : (It3.collect (f+1) (It3.new v)).2 = true := by
    rw [It3.collect_flag, h1, three_count]; exact hf
  exact Prod.ext h1 h2

/-- the driver's function with any fuel `≥ 3^k` -/
theorem three_fuel (v : List Nat) (fuel : Nat) (hf : 3 ^ nUnd v ≤ fuel) :
    (collect3 fuel (List.replicate (idxs v).length 2)).map (toVec v (idxs v) v) = threeValAll v := by
  rw [threeValAll_eq_enum3]; exact collect3_enum v fuel hf

/-! non-vacuity: the predicates are inhabited and refutable, the literal machines run -/
example : isCompletion [1, 0, 0, 1] [1, 7, 0, 9] ∧ ¬ isCompletion [0, 0, 0, 1] [1, 7, 0, 9] := by decide
example : isRefinement [1, 7, 0, 1] [1, 7, 0, 9] ∧ ¬ isRefinement [1, 8, 0, 1] [1, 7, 0, 9] := by decide
example : twoValAll [1, 7, 0, 9] = [[1, 0, 0, 0], [1, 0, 0, 1], [1, 1, 0, 0], [1, 1, 0, 1]] := by decide
example : threeValAll [5, 1] = [[5, 1], [1, 1], [0, 1]] := by decide
example : It2.collect 5 (It2.new [1, 7, 0, 9]) = (twoValAll [1, 7, 0, 9], true) := by decide
example : It3.collect 4 (It3.new [5, 1]) = (threeValAll [5, 1], true) := by decide
example : nUnd [1, 7, 0, 9] = 2 := by decide

end C20
