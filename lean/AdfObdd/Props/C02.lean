import AdfObdd.Complete
import AdfObdd.PreGround
import AdfObdd.AdfModel
import AdfObdd.CompleteExact
import AdfObdd.OpsProofs
import AdfObdd.BioProofs
import AdfObdd.HybridExample
/-! # C02 — complete-model enumeration: sound, complete (and duplicate free through C20)

The code enumerates the refinements of the grounded interpretation with the three-valued iterator
(C20: every refinement exactly once, the grounded interpretation first) and keeps those passing the
filter "every condition restricted by the candidate has the candidate's information value". -/
namespace C02

/-- the filter of `Adf::complete` (short-circuiting, store-threading) accepts a vector iff its
decided part is a fixpoint of Γ — for every lawful back-end -/
theorem filter_iff_fixpoint {S T : Type} (A : RA S T) (s : S) (ac v : List T) (hi : A.Inv s)
    (ha : AllValid A s ac) (hv : AllValid A s v) (hl : ac.length = v.length) :
    (completeCheck A s v ac v).2 = true ↔ Gam (ac.map (A.den s)) (asg3 A v) = asg3 A v :=
  complete_filter_iff A s ac v hi ha hv hl

/-- nothing is lost by enumerating only refinements of the grounded interpretation: it lies below
every complete interpretation … -/
theorem grounded_below_every_complete (D : List BoolFn) (g w : I3) (hg : IsLfp D g) (hw : Gam D w = w) :
    Le3 g w := hg.2 w hw

/-- … and it is itself complete (so it is among the answers; the iterator yields it first, C20) -/
theorem grounded_is_complete (D : List BoolFn) (g : I3) (hg : IsLfp D g) : Gam D g = g := hg.1

/-- pre-grounded hybrid pipeline: exactly the same complete interpretations -/
theorem pregrounded_same_complete (D : List BoolFn) (g w : I3) (h : IsLfp D g) :
    Gam (pre D g) w = w ↔ Gam D w = w := pre_complete_iff D g w h

/-- the full statement about the concrete enumeration `completeAll` (the function the driver runs):
read as three-valued interpretations the answers contain no duplicate, are exactly the complete
interpretations (fixpoints of Γ of the right length), and the first answer is the grounded vector -/
def complete_exact_statement : Prop :=
  ∀ (s : Store) (n : Nat) (ac : List Nat), WF s → ac.length = n → (∀ t ∈ ac, t < s.nodes.size) →
    let r := completeAll s n ac
    (r.2.2.map (fun v => v.map storeIsConst)).Nodup ∧
    (∀ w : I3, w ∈ r.2.2.map (fun v => v.map storeIsConst) ↔ (w.length = n ∧ Gam (ac.map (eval s)) w = w)) ∧
    r.2.2.head? = some r.2.1

/-- proved: composes the filter theorem (in the store reached so far; verdicts do not depend on
the store), C20 (`threeValAll` = every refinement of the grounded vector once, the vector itself
first) and C01 (`grounded_native`: least fixpoint) -/
theorem complete_exact : complete_exact_statement := by
  intro s n ac hw hn hv
  exact CompleteExact.completeAll_exact s n ac hw hn hv

/-- the loop of `Adf::complete` only extends the store and keeps it well formed, and the second
component is the grounded vector of C01 -/
theorem complete_store (s : Store) (n : Nat) (ac : List Nat) (hw : WF s) (hn : ac.length = n)
    (hv : ∀ t ∈ ac, t < s.nodes.size) :
    WF (completeAll s n ac).1 ∧ Ext s (completeAll s n ac).1 ∧
    (completeAll s n ac).2.1 = (groundedLoop StoreRA (n + 1) s ac).2 :=
  CompleteExact.completeAll_store s n ac hw hn hv

example : Gam [fun _ => true] [some true] = [some true] := by
  simp [Gam, constOf_some]

/-! non-vacuity: the hypotheses of `complete_exact` are satisfiable and the conclusion speaks about
non-empty answers — the one-statement framework with condition ⊤ on the initial store -/
example : [some true] ∈ (completeAll Store.init 1 [1]).2.2.map (fun v => v.map storeIsConst) :=
  ((complete_exact Store.init 1 [1] WF_init rfl (by simp [Store.init])).2.1 [some true]).mpr
    ⟨rfl, by simp [Gam, constOf_some, eval_one]⟩
/-- … and it is refutable: the all-undecided interpretation is not an answer there -/
example : [none] ∉ (completeAll Store.init 1 [1]).2.2.map (fun v => v.map storeIsConst) := by
  intro h
  have := (((complete_exact Store.init 1 [1] WF_init rfl (by simp [Store.init])).2.1 [none]).mp h).2
  have e : Gam (List.map (eval Store.init) [1]) [none] = [some true] := by
    simp [Gam, constOf_some, eval_one]
  rw [e] at this; cases this

end C02

/-! ## the biodivine back-end (`adfbiodivine.rs`): `Adf::complete` -/
namespace C02

/-- `Adf::complete` of the SECOND back-end (model: `Bio.bioComplete`, BioModel.lean — the three-valued
iterator over `grounded_internal(&self.ac)`, filtered by `cmp_information` of every condition
restricted by the candidate's decided statements).

ASSUMPTION ABOUT THE EXTERNAL LIBRARY (`biodivine_lib_bdd`, not modelled): `W : Bio.Lawful L n` —
every diagram of the variable set denotes a Boolean function, the library's INHERENT
`Bdd::restrict(&[(var, value)])` is the cofactor by the listed literals (`Lawful.restrict_spec`; this
is the routine `ac.restrict(..)` resolves to - the file's own `impl BddRestrict`, `select` then
`exists`, is shadowed dead code), `and` / `iff` / `eval_expression` compute what they say, `is_true` /
`is_false` are exact ON EVERY diagram the operations return (in the crate: node-count tests, exact
because results are reduced), `sat_valuations` enumerates every satisfying total valuation once.
(`select` / `exists` are part of the interface only for the lemma `Bio.restrictSE_den`: the shadowed
composition would denote the same cofactor; no property theorem uses them.) Nothing else about the
library is used; the loop bound of `grounded_internal` is PROVED (`Bio.groundedLoopB_fuel`).

For every lawful library and valid conditions: read as three-valued interpretations the answers
contain no duplicate, are exactly the fixpoints of Γ of length `n`, the first answer is the
grounded vector, and that vector is the least fixpoint. -/
theorem biodivine_complete_exact {T : Type} (L : Bio.Lib T) (n : Nat) (W : Bio.Lawful L n)
    (ac : List T) (hv : ∀ a ∈ ac, W.Valid a) (hn : ac.length = n) :
    let D := ac.map W.den
    let out := (Bio.bioComplete L ac).map (fun v => v.map storeIsConst)
    out.Nodup ∧ (∀ w : I3, w ∈ out ↔ (w.length = n ∧ Gam D w = w)) ∧
    (Bio.bioComplete L ac).head? = some (Bio.bioGrounded L ac) ∧
    IsLfp D ((Bio.bioGrounded L ac).map storeIsConst) :=
  Bio.bioComplete_exact W ac hv hn

/-- the same for ANY list of conditions given as Boolean functions, on the ideal library (terms are
the functions themselves; it satisfies every assumption: `Bio.fnLawful`) -/
theorem biodivine_complete_exact_ideal (D : List BoolFn) :
    let out := (Bio.bioComplete (Bio.fnLib D.length) D).map (fun v => v.map storeIsConst)
    out.Nodup ∧ (∀ w : I3, w ∈ out ↔ (w.length = D.length ∧ Gam D w = w)) ∧
    (Bio.bioComplete (Bio.fnLib D.length) D).head? = some (Bio.bioGrounded (Bio.fnLib D.length) D) ∧
    IsLfp D ((Bio.bioGrounded (Bio.fnLib D.length) D).map storeIsConst) := by
  have h := Bio.bioComplete_exact (Bio.fnLawful D.length) D (fun _ _ => trivial) rfl
  have e : D.map (Bio.fnLawful D.length).den = D := by
    show D.map (fun f => f) = D
    simp
  rw [e] at h
  exact h

/-! non-vacuity on the computable truth-table library (`Bio.ttLib`, lawful: `Bio.ttLawful`): two
statements attacking each other, `a : ¬b` (table 3), `b : ¬a` (table 5) — the hypotheses hold, the
model returns three answers with the grounded (all-undecided) interpretation first, and the
theorem turns membership into the fixpoint property and back -/
example : (Bio.bioComplete (Bio.ttLib 2) [3, 5]).map Bio.toI3 =
    [[none, none], [some true, some false], [some false, some true]] := by decide

example : Gam ([3, 5].map (Bio.ttDen 2)) [some true, some false] = [some true, some false] :=
  (((biodivine_complete_exact (Bio.ttLib 2) 2 (Bio.ttLawful 2) [3, 5]
      (fun a ha => Bio.ttValid_of_lt (by
        have : a = 3 ∨ a = 5 := by simpa using ha
        rcases this with h | h <;> subst h <;> decide)) rfl).2.1 [some true, some false]).mp
    (by decide)).2

/-- … and refutable: `[T, T]` is not an answer, hence not a fixpoint -/
example : ¬ Gam ([3, 5].map (Bio.ttDen 2)) [some true, some true] = [some true, some true] := by
  intro h
  have := ((biodivine_complete_exact (Bio.ttLib 2) 2 (Bio.ttLawful 2) [3, 5]
      (fun a ha => Bio.ttValid_of_lt (by
        have : a = 3 ∨ a = 5 := by simpa using ha
        rcases this with h | h <;> subst h <;> decide)) rfl).2.1 [some true, some true]).mpr ⟨rfl, h⟩
  revert this
  decide

end C02

namespace C02

/-- the conditions' handles of `from_parser` on written formulas denote the formulas (list form of
`buildNative_correct`) -/
theorem buildNative_fns (fms : List Fm) (hn : fms.length ≤ VBOT) (hv : ∀ f ∈ fms, f.atomsOK) :
    WF (buildNative fms.length fms).1 ∧ (buildNative fms.length fms).2.length = fms.length ∧
    (∀ t ∈ (buildNative fms.length fms).2, t < (buildNative fms.length fms).1.nodes.size) ∧
    (buildNative fms.length fms).2.map (eval (buildNative fms.length fms).1) = fms.map Fm.sem :=
  _root_.buildNative_fns fms hn hv

/-- **the oracle beyond truth-table size.** For frameworks of ANY number of statements, written as
formulas: the complete enumeration of the model on the freshly compiled store lists - without
duplicates, grounded first - exactly the fixpoints of the consequence operator of the WRITTEN
formulas. The driver uses this run (`Drv.modelAnswer`) as the property oracle where the
brute-force specification cannot go (n > 7). -/
theorem complete_exact_from_formulas (fms : List Fm) (hn : fms.length ≤ VBOT) (hv : ∀ f ∈ fms, f.atomsOK) :
    let b := buildNative fms.length fms
    let r := completeAll b.1 fms.length b.2
    (r.2.2.map (fun v => v.map storeIsConst)).Nodup ∧
    (∀ w : I3, w ∈ r.2.2.map (fun v => v.map storeIsConst) ↔ (w.length = fms.length ∧ Gam (fms.map Fm.sem) w = w)) ∧
    r.2.2.head? = some r.2.1 := by
  obtain ⟨w, hl, hlt, hf⟩ := buildNative_fns fms hn hv
  have h := complete_exact (buildNative fms.length fms).1 fms.length (buildNative fms.length fms).2 w hl hlt
  rw [hf] at h
  exact h

example : ([Fm.atom 1, Fm.atom 0] : List Fm).length ≤ VBOT ∧ ∀ f ∈ ([Fm.atom 1, Fm.atom 0] : List Fm), f.atomsOK := by
  simp [VBOT, Fm.atomsOK]

/-- native example with an UNDECIDED position and several answers: `s(a). s(b). ac(a,neg(b)).
ac(b,neg(a)).` compiled by the `from_parser` model; `completeAll` on the compiled store returns (read as
interpretations) `u u` - the grounded interpretation, nothing is decided -, `T F` and `F T`, and not `T T`
(through `complete_exact_from_formulas`; the fixpoint facts by evaluation on the truth-table library) -/
example :
    let b := buildNative 2 Bio.exMutual
    let out := (completeAll b.1 2 b.2).2.2.map (fun v => v.map storeIsConst)
    [none, none] ∈ out ∧ [some true, some false] ∈ out ∧ [some false, some true] ∈ out ∧
    [some true, some true] ∉ out ∧ out.Nodup := by
  have h := complete_exact_from_formulas Bio.exMutual (by simp [Bio.exMutual, VBOT])
    (fun f hf => NConc.atomsOK_of_lt (by simp [Bio.exMutual, VBOT]) f (Bio.exMutual_ok f hf))
  have t := Bio.tt_complete Bio.exMutual Bio.exMutual_ok
  refine ⟨(h.2.1 _).mpr ((t _).mp (by decide)), (h.2.1 _).mpr ((t _).mp (by decide)),
    (h.2.1 _).mpr ((t _).mp (by decide)), fun hin => ?_, h.1⟩
  have := (t _).mpr ((h.2.1 _).mp hin)
  revert this; decide

end C02

/-! ## the hybrid back-end (`hybrid_step_opt` + native `complete`) end to end -/
namespace C02

/-- **hybrid back-end, end to end**: `Adf::complete` on the native object built by
`hybrid_step_opt(opt)` (model `Bio.hybridStep`: optional biodivine grounding, per-condition dump, replay
into one native store) lists - read as interpretations - without duplicates exactly the fixpoints of Γ of
the ORIGINAL conditions `ac.map W.den`, the first answer is the grounded vector, and that vector is the
least fixpoint; for both values of the flag. Assumptions about the external crate: `W`, `hd` (see
`C01.hybrid_grounded_is_lfp`). -/
theorem hybrid_complete_exact {T : Type} (L : Bio.Lib T) (n : Nat) (W : Bio.Lawful L n)
    (dump : T → List Node) (hd : Bio.DumpSpec W dump) (opt : Bool)
    (ac : List T) (hv : ∀ a ∈ ac, W.Valid a) (hn : ac.length = n) :
    let r := Bio.hybridStep L dump opt ac
    let c := completeAll r.1 n r.2
    (c.2.2.map (fun v => v.map storeIsConst)).Nodup ∧
    (∀ w : I3, w ∈ c.2.2.map (fun v => v.map storeIsConst) ↔ (w.length = n ∧ Gam (ac.map W.den) w = w)) ∧
    c.2.2.head? = some c.2.1 ∧ IsLfp (ac.map W.den) (c.2.1.map storeIsConst) :=
  Bio.hybrid_complete W hd opt ac hv hn

/-- the same from the WRITTEN framework (biodivine `from_parser`, `hybrid_step_opt`, native `complete`) -/
theorem hybrid_complete_from_formulas {T : Type} (L : Bio.Lib T) (fms : List Fm) (W : Bio.Lawful L fms.length)
    (dump : T → List Node) (hd : Bio.DumpSpec W dump) (opt : Bool)
    (hv : ∀ f ∈ fms, NConc.atomsLt fms.length f) :
    let r := Bio.hybridStep L dump opt (Bio.fromFormulas L fms)
    let c := completeAll r.1 fms.length r.2
    (c.2.2.map (fun v => v.map storeIsConst)).Nodup ∧
    (∀ w : I3, w ∈ c.2.2.map (fun v => v.map storeIsConst) ↔ (w.length = fms.length ∧ Gam (fms.map Fm.sem) w = w)) ∧
    c.2.2.head? = some c.2.1 ∧ IsLfp (fms.map Fm.sem) (c.2.1.map storeIsConst) := by
  have ⟨a, b, c, _⟩ := Bio.fromFormulas_spec fms W hv
  have := Bio.hybrid_complete W hd opt _ b a
  rw [c] at this; exact this

/-- non-vacuity (lawful truth-table library over two variables with its decision-tree dump): the
mutual attack through the hybrid pipeline, both flags - `u u`, `T F`, `F T` are answers, `T T` is not -/
example (opt : Bool) :
    let r := Bio.hybridStep (Bio.ttLib 2) Bio.ttDump2 opt (Bio.fromFormulas (Bio.ttLib 2) Bio.exMutual)
    let out := (completeAll r.1 2 r.2).2.2.map (fun v => v.map storeIsConst)
    [none, none] ∈ out ∧ [some true, some false] ∈ out ∧ [some false, some true] ∈ out ∧
    [some true, some true] ∉ out := by
  have h := hybrid_complete_from_formulas (Bio.ttLib 2) Bio.exMutual (Bio.ttLawful 2) Bio.ttDump2
    Bio.ttDump2_spec opt Bio.exMutual_ok
  have t := Bio.tt_complete Bio.exMutual Bio.exMutual_ok
  refine ⟨(h.2.1 _).mpr ((t _).mp (by decide)), (h.2.1 _).mpr ((t _).mp (by decide)),
    (h.2.1 _).mpr ((t _).mp (by decide)), fun hin => ?_⟩
  have := (t _).mpr ((h.2.1 _).mp hin)
  revert this; decide

end C02


#print axioms C02.filter_iff_fixpoint
#print axioms C02.grounded_below_every_complete
#print axioms C02.grounded_is_complete
#print axioms C02.pregrounded_same_complete
#print axioms C02.complete_exact
#print axioms C02.complete_store
#print axioms C02.biodivine_complete_exact
#print axioms C02.biodivine_complete_exact_ideal
#print axioms C02.buildNative_fns
#print axioms C02.complete_exact_from_formulas
#print axioms C02.hybrid_complete_exact
#print axioms C02.hybrid_complete_from_formulas
