import AdfObdd.Complete
import AdfObdd.PreGround
import AdfObdd.AdfModel
/-! # C02 — complete-model enumeration: sound, complete (and duplicate free through C20)

The code enumerates the refinements of the grounded interpretation with the three-valued iterator
(C20: every refinement exactly once, the grounded interpretation first) and keeps those passing the
filter "every condition restricted by the candidate has the candidate's information value". -/
namespace C02

/-- the filter of `Adf::complete` (short-circuiting, store-threading) accepts a vector iff its
decided part is a fixpoint of Γ — for every lawful back-end -/
theorem filter_iff_fixpoint {S T : Type} (A : RA S T) (s : S) (ac v : List T) (hi : A.Inv s)
    (ha : AllValid A s ac) (hv : AllValid A s v) (hl : ac.length = v.length) :
    (completeCheck A s v ac v).2 = true ↔ Gam (ac.map (A.den s)) (asg3 A v) = asg3 A v :=
  complete_filter_iff A s ac v hi ha hv hl

/-- nothing is lost by enumerating only refinements of the grounded interpretation: it lies below
every complete interpretation … -/
theorem grounded_below_every_complete (D : List BoolFn) (g w : I3) (hg : IsLfp D g) (hw : Gam D w = w) :
    Le3 g w := hg.2 w hw

/-- … and it is itself complete (so it is among the answers; the iterator yields it first, C20) -/
theorem grounded_is_complete (D : List BoolFn) (g : I3) (hg : IsLfp D g) : Gam D g = g := hg.1

/-- pre-grounded hybrid pipeline: exactly the same complete interpretations -/
theorem pregrounded_same_complete (D : List BoolFn) (g w : I3) (h : IsLfp D g) :
    Gam (pre D g) w = w ↔ Gam D w = w := pre_complete_iff D g w h

/-- the full statement about the concrete enumeration `completeAll` (the function the driver runs),
kept visible; its proof composes the three theorems above with C20's enumeration theorem -/
def complete_exact_statement : Prop :=
  ∀ (s : Store) (n : Nat) (ac : List Nat), WF s → ac.length = n → (∀ t ∈ ac, t < s.nodes.size) →
    let r := completeAll s n ac
    (r.2.2.map (fun v => v.map storeIsConst)).Nodup ∧
    (∀ w : I3, w ∈ r.2.2.map (fun v => v.map storeIsConst) ↔ (w.length = n ∧ Gam (ac.map (eval s)) w = w)) ∧
    r.2.2.head? = some r.2.1

example : Gam [fun _ => true] [some true] = [some true] := by
  simp [Gam, constOf_some]

end C02
