import AdfObdd.NgStore
import AdfObdd.NgModel
import AdfObdd.NgSpecFacts
import AdfObdd.NgWideFacts
/-! # C18 — nogood store: sound deductions, no spurious conflicts, nothing forgotten

Model (`NgStore.lean`): the store as the repaired `lib/src/nogoods.rs` implements it — `n + 1`
buckets indexed by nogood size, `add_ng` for the modes `None` / `Equiv` / `Subsume`, mode switches
at any time (`set_dup_elem`), `conclusions` line by line (`conclusionsR`: enumerate/filter bucket
selection, `try_from_pair_iter` dropping a contradictory bucket, contradiction test,
`disjunction`, `is_violating` scan) and `conclusion_closure` (`closureR`).

Every theorem is about an **arbitrary history** `cs` of adds and mode switches applied to the
fresh store `NgStore.new n` and speaks about the nogoods that were **added** (`added cs`), not
about what happens to be stored. Precondition (stated, respected by the generator; the code
panics on `store[len]` otherwise): nogoods and interpretations are vectors of the width `n` the
store was created with, i.e. they mention only variables below `n`.
`Matches g σ`: the total assignment `σ` agrees with every literal of `g`; `AvoidsL gs σ`: `σ`
matches none of `gs`; `PSub g A`: every literal of `g` is in `A`. -/
namespace C18
open NgStore

/-- the store reached by a history -/
abbrev after (n : Nat) (cs : List Cmd) : NgStore := run (new n) cs

/-- the shape precondition on a history: every added nogood is a vector of width `n` -/
abbrev Shaped (n : Nat) (cs : List Cmd) : Prop := ∀ g ∈ added cs, g.length = n

/-- the running example of the non-vacuity checks: two variables, all three modes, a nested pair
(the second add is subsumed by the first and skipped), a mode switch before every add -/
def demo : List Cmd :=
  [.add [none, some false], .mode .subsume, .add [some true, some false], .mode .none, .add [some false, none]]

example : Shaped 2 demo := by
  intro g hg
  simp only [demo, added, List.mem_cons, List.not_mem_nil, or_false] at hg
  rcases hg with rfl | rfl | rfl <;> rfl

/-! ## single nogood -/

/-- `NoGood::conclude`: the concluded literal is forced — every total assignment that extends the
interpretation and does not match the nogood gives the concluded value -/
theorem conclude_sound {g A : PA} {p : Nat} {b : Bool} (h : conclude g A = some (p, b))
    (σ : Asg) (hm : Matches A σ) (hav : ¬ Matches g σ) : σ p = b :=
  _root_.conclude_sound h σ hm hav

example : conclude [some true, some false] [some true, none] = some (1, true) := by decide

/-! ## the store invariant and the semantics of adding -/

/-- every history keeps the store in shape: `n + 1` buckets, every stored nogood is a vector of
width `n` and sits in the bucket of its size -/
theorem store_invariant (n : Nat) (cs : List Cmd) (hs : Shaped n cs) : NgInv n (after n cs).buckets :=
  (run_spec n cs hs).inv

example : (after 2 demo).buckets = [[], [[none, some false], [some false, none]], []] := by decide

/-- `add_ng` in **every mode** (`None`, `Equiv`, `Subsume`), on any store with a bucket for the
new nogood: afterwards exactly the total assignments excluded before or matched by the new nogood
are excluded. The empty nogood is not special: it is matched by every assignment. -/
theorem add_semantics (st : NgStore) (g : PA) (hsz : size g < st.buckets.length) (σ : Asg) :
    Excluded (st.addNg g).buckets σ ↔ Excluded st.buckets σ ∨ Matches g σ :=
  add_excluded st g hsz σ

example : size [some true, some false] < (after 2 [.mode .subsume, .add [some true, none]]).buckets.length := by decide

/-- **nothing forgotten, nothing invented**: after any history (any modes, switched at any time)
the store excludes exactly the union of what the added nogoods exclude -/
theorem history_semantics (n : Nat) (cs : List Cmd) (hs : Shaped n cs) (σ : Asg) :
    Excluded (after n cs).buckets σ ↔ ExcludedBy (added cs) σ :=
  (run_spec n cs hs).excl σ

example : Excluded (after 2 demo).buckets (fun _ => false) ∧ ¬ Excluded (after 2 demo).buckets (fun _ => true) := by
  rw [← excludedB_iff, ← excludedB_iff]; decide

/-- the empty nogood excludes everything, whatever else the history contains and in whichever
mode it was added (fails for the unrepaired code: `unrepaired_D10_empty_nogood_dropped`) -/
theorem empty_nogood_excludes_everything (n : Nat) (cs : List Cmd) (hs : Shaped n cs)
    (he : List.replicate n none ∈ added cs) (σ : Asg) : Excluded (after n cs).buckets σ := by
  rw [history_semantics n cs hs σ]
  refine ⟨_, he, ?_⟩
  intro i b hi
  unfold pget at hi
  rw [List.getElem?_replicate] at hi
  split at hi <;> cases hi

example : List.replicate 2 none ∈ added [.mode .subsume, .add [some true, none], .add [none, none]] := by decide

/-- every added nogood stays represented: some stored nogood is contained in it (in `Subsume`
mode the added one itself may have been skipped or removed in favour of a stronger one) -/
theorem added_covered (n : Nat) (cs : List Cmd) (hs : Shaped n cs) (g : PA) (hg : g ∈ added cs) :
    ∃ h, Stored (after n cs).buckets h ∧ PSub h g :=
  (run_spec n cs hs).cover g hg

/-- the skipped `{x0=T, x1=F}` of the example is covered by the stored `{x1=F}` -/
example : [some true, some false] ∈ added demo ∧ Stored (after 2 demo).buckets [none, some false] ∧
    PSub [none, some false] [some true, some false] :=
  ⟨by decide, ⟨1, _, rfl, by decide⟩, (violating_iff _ _).mp (by decide)⟩

/-- only added nogoods are stored -/
theorem stored_added (n : Nat) (cs : List Cmd) (hs : Shaped n cs) (h : PA)
    (hst : Stored (after n cs).buckets h) : h ∈ added cs :=
  (run_spec n cs hs).sub h hst

example : Stored (after 2 demo).buckets [none, some false] := ⟨1, _, rfl, by decide⟩

/-! ## `conclusions` -/

/-- **sound deductions**: an answer `Some r` of `conclusions` extends the interpretation, and every
total assignment that extends the interpretation and avoids ALL ADDED nogoods agrees with `r` -/
theorem conclusions_sound (n : Nat) (cs : List Cmd) (hs : Shaped n cs) (A r : PA) (hA : A.length = n)
    (h : (after n cs).conclusions A = some r) :
    PSub A r ∧ r.length = n ∧ ∀ σ, Matches A σ → AvoidsL (added cs) σ → Matches r σ := by
  rw [run_conclusions_eq hs hA] at h
  have hF := (_root_.conclusions_sound (after n cs).buckets A).1 r h
  exact ⟨hF.keep, conclusions_length _ A r (store_invariant n cs hs).lengths hA h,
    fun σ hm ha => hF.forced σ hm (run_avoids hs ha)⟩

example : (after 2 demo).conclusions [none, none] = some [some true, some true] := by decide

/-- **no spurious conflict**: `conclusions` answers `None` only if no total extension of the
interpretation avoids all added nogoods -/
theorem conflict_sound (n : Nat) (cs : List Cmd) (hs : Shaped n cs) (A : PA) (hA : A.length = n)
    (h : (after n cs).conclusions A = none) : ∀ σ, Matches A σ → ¬ AvoidsL (added cs) σ := by
  rw [run_conclusions_eq hs hA] at h
  intro σ hm ha
  exact (_root_.conclusions_sound (after n cs).buckets A).2 h σ hm (run_avoids hs ha)

example : (after 2 demo).conclusions [some false, none] = none := by decide

/-- **no missed conflict**: if the interpretation itself matches some ADDED nogood (even one that
`Subsume` skipped or removed, even the empty one), `conclusions` answers `None` -/
theorem conflict_direct (n : Nat) (cs : List Cmd) (hs : Shaped n cs) (A g : PA) (hA : A.length = n)
    (hg : g ∈ added cs) (hp : PSub g A) : (after n cs).conclusions A = none := by
  rw [run_conclusions_eq hs hA]
  obtain ⟨h, hst, hsub⟩ := added_covered n cs hs g hg
  exact conclusions_direct_inv (store_invariant n cs hs) hst (hsub.trans hp) hA

/-- the skipped nogood `{x0=T, x1=F}` of the example is still answered -/
example : [some true, some false] ∈ added demo ∧ ¬ Stored (after 2 demo).buckets [some true, some false] ∧
    (after 2 demo).conclusions [some true, some false] = none := by
  refine ⟨by decide, ?_, by decide⟩
  rw [stored_iff_mem]
  have : (after 2 demo).buckets = [[], [[none, some false], [some false, none]], []] := by decide
  rw [this]
  simp

/-! ## `conclusion_closure` -/

/-- the three answers of `conclusion_closure`:
`Update R` — `R` keeps every decided position and decides strictly more, every total extension of
the input that avoids all added nogoods agrees with `R`, and `R` matches no added nogood;
`Inconsistent` — no total extension of the input avoids all added nogoods;
`NoUpdate` — the input matches no added nogood -/
theorem closure_sound (n : Nat) (cs : List Cmd) (hs : Shaped n cs) (A : PA) (hA : A.length = n) :
    (∀ R, (after n cs).closure A = Closure.update R →
        PSub A R ∧ size A < size R ∧ R.length = n ∧
        (∀ σ, Matches A σ → AvoidsL (added cs) σ → Matches R σ) ∧ ∀ g ∈ added cs, ¬ PSub g R) ∧
    ((after n cs).closure A = Closure.inconsistent → ∀ σ, Matches A σ → ¬ AvoidsL (added cs) σ) ∧
    ((after n cs).closure A = Closure.noUpdate → ∀ g ∈ added cs, ¬ PSub g A) := by
  rw [run_closure_eq hs hA]
  have hinv := store_invariant n cs hs
  have hdirect : ∀ (B : PA), B.length = n → (∃ val, _root_.conclusions (after n cs).buckets B = some val) →
      ∀ g ∈ added cs, ¬ PSub g B := by
    intro B hB ⟨val, hval⟩ g hg hp
    obtain ⟨h, hst, hsub⟩ := added_covered n cs hs g hg
    rw [conclusions_direct_inv hinv hst (hsub.trans hp) hB] at hval
    cases hval
  refine ⟨?_, ?_, ?_⟩
  · intro R hR
    have ⟨h1, h2⟩ := closure_upd_sub _ A R hR
    have hRlen : R.length = n := by rw [closure_length hR, hA]
    refine ⟨h1, h2, hRlen, ?_, ?_⟩
    · intro σ hm ha
      exact (closure_sound_gen _ A σ hm (run_avoids hs ha)).1 R hR
    · obtain ⟨val, hval, _⟩ := closure_update_fix hR
      exact hdirect R hRlen ⟨val, hval⟩
  · intro hI σ hm ha
    exact (closure_sound_gen _ A σ hm (run_avoids hs ha)).2 hI
  · intro hN
    exact hdirect A hA (closure_noUpdate hN)

example : (after 2 demo).closure [none, none] = Closure.update [some true, some true] := by rfl
example : (after 2 demo).closure [some true, some true] = Closure.noUpdate := by rfl
example : (after 2 demo).closure [none, some false] = Closure.inconsistent := by rfl

/-- an interpretation that matches an added nogood is `Inconsistent` -/
theorem closure_direct (n : Nat) (cs : List Cmd) (hs : Shaped n cs) (A g : PA) (hA : A.length = n)
    (hg : g ∈ added cs) (hp : PSub g A) : (after n cs).closure A = Closure.inconsistent := by
  rw [run_closure_eq hs hA]
  obtain ⟨h, hst, hsub⟩ := added_covered n cs hs g hg
  exact closure_direct_inv (store_invariant n cs hs) hst (hsub.trans hp) hA

example : [some true, some false] ∈ added demo ∧ PSub [some true, some false] [some true, some false] :=
  ⟨by decide, PSub.refl _⟩

/-- **the unit-flip law** (`cl_flip`, what the termination of the nogood search rests on) on the
real store: if for an undecided `v` the nogood `H ∪ {v=b}` was added and every added nogood either
has a literal complemented in `H` or contains `H ∪ {v=b}`, then `conclusion_closure` answers
`Update (H ∪ {v=¬b})` — in every mode, whatever `Subsume` skipped or removed -/
theorem closure_flip (n : Nat) (cs : List Cmd) (hs : Shaped n cs) (H : PA) (v : Nat) (b : Bool)
    (h : FlipPre n (added cs) H v b) :
    (after n cs).closure H = Closure.update (setAt H v (!b)) := by
  rw [run_closure_eq hs h.hlen]
  have hinv := store_invariant n cs hs
  have hall : ∀ g, Stored (after n cs).buckets g → g ∈ added cs := stored_added n cs hs
  exact closure_flip_inv hinv h hall (flip_stored hinv h hall (added_covered n cs hs _ h.cmem))

/-- after backtracking to `{x0=F}` from the choice `x1=T` the learned `{x0=F, x1=T}` flips it -/
example : FlipPre 2 (added [.add [some true, none], .add [some false, some true]]) [some false, none] 1 true ∧
    (after 2 [.add [some true, none], .add [some false, some true]]).closure [some false, none] =
      Closure.update [some false, some false] := by
  refine ⟨⟨rfl, by decide, rfl, ?_, by decide, ?_⟩, rfl⟩
  · intro g hg
    simp only [added, List.mem_cons, List.not_mem_nil, or_false] at hg
    rcases hg with rfl | rfl <;> rfl
  · intro g hg
    simp only [added, List.mem_cons, List.not_mem_nil, or_false] at hg
    rcases hg with rfl | rfl
    · exact Or.inl ⟨0, true, rfl, rfl⟩
    · exact Or.inr (PSub.refl _)

/-- **termination of `conclusion_closure`**: the `while update` loop of the code has no bound; in
the model it carries a fuel. Once the fuel exceeds the number of undecided positions the answer
does not depend on it (every continuing round decides a new position), and the loop ends in a
conflict or in an interpretation that one more `conclusions` call leaves unchanged — never
because the fuel ran out. `closureR` starts the loop with fuel `n + 1` after a first round that
decided something, which is enough. -/
theorem closure_terminates (n : Nat) (cs : List Cmd) (hs : Shaped n cs) (r : PA) (hr : r.length = n)
    (fuel : Nat) (hf : n - size r < fuel) :
    (∀ fuel', fuel ≤ fuel' → closureLoopR (after n cs).buckets fuel' r = closureLoopR (after n cs).buckets fuel r) ∧
    (closureLoopR (after n cs).buckets fuel r = Closure.inconsistent ∨
     ∃ R val, closureLoopR (after n cs).buckets fuel r = Closure.update R ∧
       (after n cs).conclusions R = some val ∧ (updateVec val R).2 = false) := by
  have hl := (store_invariant n cs hs).lengths
  have hf' : r.length - size r < fuel := by rw [hr]; exact hf
  constructor
  · intro fuel' hle
    rw [closureLoopR_eq _ hl fuel' r hr, closureLoopR_eq _ hl fuel r hr]
    exact closureLoop_fuel _ fuel r hf' fuel' hle
  · rw [closureLoopR_eq _ hl fuel r hr]
    rcases closureLoop_ends (after n cs).buckets fuel r hf' with h | ⟨R, val, h1, h2, h3⟩
    · exact Or.inl h
    · right
      have hRlen : R.length = n := by rw [closureLoop_length _ fuel r R h1, hr]
      refine ⟨R, val, h1, ?_, h3⟩
      show conclusionsR (after n cs).buckets R = some val
      rw [conclusionsR_eq _ R hl hRlen]; exact h2

example : closureLoopR (after 2 demo).buckets 3 [none, none] = Closure.update [some true, some true] := by rfl

/-! ## the executable specification of the check means the property, and the model passes it

`NgSpec` (`Spec/Ng.lean`) is what the model driver evaluates on the IMPLEMENTATION's answers
(`~` lines): it knows the number of variables and the flat list of added nogoods and enumerates
all `2^n` total assignments. -/

/-- the `conclusions` check of the specification accepts an answer iff the answer satisfies the
property: `None` only without an avoiding total extension; `Some r` only if the interpretation
matches no added nogood, `r` extends it and is forced -/
theorem spec_concl_meaning (n : Nat) (gs : List PA) (A : PA) (hgs : ∀ g ∈ gs, g.length = n) (hA : A.length = n) :
    (NgSpec.conclViolations n gs A none = [] ↔ ∀ σ, Matches A σ → ¬ AvoidsL gs σ) ∧
    ∀ r, r.length = n →
      (NgSpec.conclViolations n gs A (some r) = [] ↔
        (¬ ∃ g ∈ gs, PSub g A) ∧ (r.length = A.length ∧ PSub A r) ∧
        ∀ σ, Matches A σ → AvoidsL gs σ → Matches r σ) :=
  have hgs' : ∀ g ∈ gs, g.length ≤ n := fun g hg => Nat.le_of_eq (hgs g hg)
  ⟨NgSpec.conclViolations_none hgs' (Nat.le_of_eq hA),
   fun _ hr => NgSpec.conclViolations_some hgs' (Nat.le_of_eq hA) (Nat.le_of_eq hr)⟩

example : NgSpec.conclViolations 2 (added demo) [none, none] (some [some true, some true]) = [] ∧
    NgSpec.conclViolations 2 (added demo) [none, none] none = ["spurious-conflict"] := by decide

/-- likewise for the three answers of `conclusion_closure` -/
theorem spec_closure_meaning (n : Nat) (gs : List PA) (A : PA) (hgs : ∀ g ∈ gs, g.length = n) (hA : A.length = n) :
    (NgSpec.closureViolations n gs A .inconsistent = [] ↔
      (∀ σ, Matches A σ → ¬ AvoidsL gs σ) ∧ NgSpec.flipOK n gs A .inconsistent = true) ∧
    (NgSpec.closureViolations n gs A .noUpdate = [] ↔
      (¬ ∃ g ∈ gs, PSub g A) ∧ NgSpec.flipOK n gs A .noUpdate = true) ∧
    (∀ r, r.length = n →
      (NgSpec.closureViolations n gs A (.update r) = [] ↔
        (¬ ∃ g ∈ gs, PSub g A) ∧ (r.length = A.length ∧ PSub A r) ∧ size A < size r ∧
        (∀ σ, Matches A σ → AvoidsL gs σ → Matches r σ) ∧ (¬ ∃ g ∈ gs, PSub g r) ∧
        NgSpec.flipOK n gs A (.update r) = true)) ∧
    -- the unit-flip clause rejects an answer only where the law `closure_flip` mandates another one
    (∀ ans, NgSpec.flipOK n gs A ans = false →
      ∃ v b, FlipPre n gs A v b ∧ ans ≠ .update (setAt A v (!b))) := by
  have hgs' : ∀ g ∈ gs, g.length ≤ n := fun g hg => Nat.le_of_eq (hgs g hg)
  refine ⟨NgSpec.closureViolations_inconsistent hgs' (Nat.le_of_eq hA), NgSpec.closureViolations_noUpdate,
   fun _ hr => NgSpec.closureViolations_update hgs' (Nat.le_of_eq hA) (Nat.le_of_eq hr), ?_⟩
  intro ans hno
  unfold NgSpec.flipOK at hno
  cases hd : NgSpec.flipDue n gs A with
  | none => rw [hd] at hno; cases hno
  | some R =>
    rw [hd] at hno
    obtain ⟨v, b, hpre, rfl⟩ := NgSpec.flipDue_sound hgs hA hd
    exact ⟨v, b, hpre, by simpa using hno⟩

example : NgSpec.closureViolations 2 (added demo) [none, none] (.update [some true, some true]) = [] ∧
    NgSpec.closureViolations 2 (added demo) [none, none] .noUpdate = [] ∧
    NgSpec.closureViolations 2 (added demo) [none, some false] .noUpdate = ["missed-direct-conflict"] ∧
    NgSpec.closureViolations 2 [[some true, none], [some false, some true]] [some false, none] .noUpdate =
      ["missed-unit-flip"] := by decide

/-- the store check accepts a dump iff the dumped nogoods exclude exactly the total assignments
the added ones exclude -/
theorem spec_store_meaning (n : Nat) (gs stored : List PA) (hgs : ∀ g ∈ gs, g.length = n)
    (hst : ∀ g ∈ stored, g.length = n) :
    NgSpec.storeViolations n gs stored = [] ↔ ∀ σ, ExcludedBy stored σ ↔ ExcludedBy gs σ :=
  NgSpec.storeViolations_nil (fun g hg => Nat.le_of_eq (hgs g hg)) (fun g hg => Nat.le_of_eq (hst g hg))

example : NgSpec.storeViolations 2 (added demo) (after 2 demo).buckets.flatten = [] ∧
    NgSpec.storeViolations 2 (added demo) [[none, some false]] = ["forgotten:FT"] := by decide

/-- **the model always passes the specification**: after every history, for every interpretation,
the answers of the model's `conclusions` and `conclusion_closure` and the contents of its store
are accepted by the three checks — so a `~ violated` line of the check can only come from an
implementation answer that differs from the model's -/
theorem model_passes_spec (n : Nat) (cs : List Cmd) (hs : Shaped n cs) (A : PA) (hA : A.length = n) :
    NgSpec.conclViolations n (added cs) A ((after n cs).conclusions A) = [] ∧
    NgSpec.closureViolations n (added cs) A (NgSpec.ofClosure ((after n cs).closure A)) = [] ∧
    NgSpec.storeViolations n (added cs) (after n cs).buckets.flatten = [] := by
  have hno : ∀ B, (∀ g ∈ added cs, ¬ PSub g B) → ¬ ∃ g ∈ added cs, PSub g B :=
    fun B h ⟨g, hg, hp⟩ => h g hg hp
  refine ⟨?_, ?_, ?_⟩
  · cases hc : (after n cs).conclusions A with
    | none => exact ((spec_concl_meaning n (added cs) A hs hA).1).mpr (conflict_sound n cs hs A hA hc)
    | some r =>
      have ⟨h1, h2, h3⟩ := conclusions_sound n cs hs A r hA hc
      refine ((spec_concl_meaning n (added cs) A hs hA).2 r h2).mpr ⟨?_, ⟨by rw [h2, hA], h1⟩, h3⟩
      rintro ⟨g, hg, hp⟩
      rw [conflict_direct n cs hs A g hA hg hp] at hc; cases hc
  · have ⟨c1, c2, c3⟩ := closure_sound n cs hs A hA
    have ⟨m1, m2, m3, _⟩ := spec_closure_meaning n (added cs) A hs hA
    have hflip : NgSpec.flipOK n (added cs) A (NgSpec.ofClosure ((after n cs).closure A)) = true := by
      unfold NgSpec.flipOK
      cases hd : NgSpec.flipDue n (added cs) A with
      | none => rfl
      | some R =>
        obtain ⟨v, b, hpre, rfl⟩ := NgSpec.flipDue_sound hs hA hd
        rw [closure_flip n cs hs A v b hpre]
        simp [NgSpec.ofClosure]
    cases hc : (after n cs).closure A with
    | inconsistent => rw [hc] at hflip; exact m1.mpr ⟨c2 hc, hflip⟩
    | noUpdate => rw [hc] at hflip; exact m2.mpr ⟨hno A (c3 hc), hflip⟩
    | update R =>
      rw [hc] at hflip
      have ⟨h1, h2, h3, h4, h5⟩ := c1 R hc
      refine (m3 R h3).mpr ⟨?_, ⟨by rw [h3, hA], h1⟩, h2, h4, hno R h5, hflip⟩
      rintro ⟨g, hg, hp⟩
      rw [closure_direct n cs hs A g hA hg hp] at hc; cases hc
  · have hinv := store_invariant n cs hs
    refine (spec_store_meaning n (added cs) _ hs ?_).mpr ?_
    · intro g hg
      obtain ⟨b, hb, hgb⟩ := List.mem_flatten.mp hg
      exact hinv.lengths b hb g hgb
    · intro σ
      rw [NgSpec.excludedBy_flatten]
      exact history_semantics n cs hs σ

example : (after 2 demo).conclusions [none, none] = some [some true, some true] ∧
    NgSpec.ofClosure ((after 2 demo).closure [none, none]) = .update [some true, some true] := ⟨by decide, rfl⟩

/-! ## the search's `Equiv`-mode add is this add -/

/-- `addNg` of the nogood-search model (`NgModel.lean`, used by C05) is `add_ng` in mode `Equiv` -/
theorem search_addNg_eq (buckets : List (List PA)) (g : PA) :
    _root_.addNg buckets g = (NgStore.addNg ⟨buckets, .equiv⟩ g).buckets := rfl

example : _root_.addNg [[], [], []] [none, some true] = [[], [[none, some true]], []] := by decide

/-! ## the unrepaired code: why the three fix commits were needed

`NgOrig.*` is the pinned code: `size` buckets indexed by size − 1 with the empty nogood skipped
(D10), `Subsume` removing the stored nogoods contained in the new one (D8b), and the fold of
`conclusions` testing `is_violating` (D8a). Each theorem negates, on the witness of DESIGN.md §5,
the property theorem above that the repaired code satisfies on the same input. -/

/-- D8a: nogoods `{x1=F}`, `{x0=T,x1=F}`, interpretation `{x0=T}`: the unrepaired `conclusions`
reports a conflict although `x0=T, x1=T` extends the interpretation and avoids both
(negation of `conflict_sound`); the repaired code concludes `x1=T` -/
theorem unrepaired_D8a_spurious_conflict :
    let cs : List Cmd := [.add [none, some false], .add [some true, some false]]
    let A : PA := [some true, none]
    let σ : Asg := fun _ => true
    NgOrig.conclusions (NgOrig.run (NgOrig.new 2) cs).buckets A = none ∧
    conclusionsD8a (after 2 cs).buckets A = none ∧
    Matches A σ ∧ AvoidsL (added cs) σ ∧
    (after 2 cs).conclusions A = some [some true, some true] := by
  refine ⟨by decide, by decide, ?_, ?_, by decide⟩
  · rw [← matchesB_iff]; decide
  · intro g hg
    rw [← matchesB_iff]
    simp only [added, List.mem_cons, List.not_mem_nil, or_false] at hg
    rcases hg with rfl | rfl <;> decide

/-- D8b: mode `Subsume`, add `{x0=T}` then `{x0=T,x1=F}`: the unrepaired `add_ng` removes the
stronger stored nogood, afterwards `x0=T, x1=T` is no longer excluded although the first added
nogood matches it (negation of `history_semantics`); the repaired code keeps `{x0=T}` -/
theorem unrepaired_D8b_subsume_forgets :
    let cs : List Cmd := [.mode .subsume, .add [some true, none], .add [some true, some false]]
    let σ : Asg := fun _ => true
    ExcludedBy (added cs) σ ∧ ¬ Excluded (NgOrig.run (NgOrig.new 2) cs).buckets σ ∧
    Excluded (after 2 cs).buckets σ ∧
    (NgOrig.run (NgOrig.new 2) cs).buckets = [[], [[some true, some false]]] ∧
    (after 2 cs).buckets = [[], [[some true, none]], []] := by
  refine ⟨⟨[some true, none], by decide, ?_⟩, ?_, ?_, by decide, by decide⟩
  · rw [← matchesB_iff]; decide
  · rw [← excludedB_iff]; decide
  · rw [← excludedB_iff]; decide

/-- D10: one variable, the empty nogood is added (any mode): the unrepaired `add_ng` drops it, so
nothing is excluded although the empty nogood is matched by every assignment, and `conclusions`
answers `Some` (negation of `history_semantics` / `conflict_direct`); the repaired code excludes
everything and reports the conflict -/
theorem unrepaired_D10_empty_nogood_dropped (m : DupMode) :
    let cs : List Cmd := [.mode m, .add [none]]
    let σ : Asg := fun _ => true
    ExcludedBy (added cs) σ ∧ ¬ Excluded (NgOrig.run (NgOrig.new 1) cs).buckets σ ∧
    NgOrig.conclusions (NgOrig.run (NgOrig.new 1) cs).buckets [none] = some [none] ∧
    Excluded (after 1 cs).buckets σ ∧ (after 1 cs).conclusions [none] = none := by
  refine ⟨⟨[none], by simp [added], ?_⟩, ?_, ?_, ?_, ?_⟩
  · rw [← matchesB_iff]; decide
  · rw [← excludedB_iff]; cases m <;> decide
  · cases m <;> decide
  · rw [← excludedB_iff]; cases m <;> decide
  · cases m <;> decide

example : Shaped 2 [.add [none, some false], .add [some true, some false]] ∧
    Shaped 2 [.mode .subsume, .add [some true, none], .add [some true, some false]] ∧
    Shaped 1 [.mode .subsume, .add [none]] := by
  refine ⟨?_, ?_, ?_⟩ <;> intro g hg <;>
    simp only [added, List.mem_cons, List.not_mem_nil, or_false] at hg
  · rcases hg with rfl | rfl <;> rfl
  · rcases hg with rfl | rfl <;> rfl
  · subst hg; rfl

/-! ## wide stores: the search-based specification

Beyond 10 variables the model driver cannot enumerate all `2^n` total assignments; it judges the
implementation's answers with `Spec/NgWide.lean`, whose only new ingredient is the backtracking
search `NgSpec.avoidingExt n gs A` for a total assignment (value list of length `n`) that extends
the interpretation `A` and matches none of the nogoods `gs`. Width hypotheses as checked by the
driver: interpretation, answers and nogoods are vectors of width `n`. -/

/-- **the search is sound**: what it returns is a total assignment over `n` variables that extends
the interpretation and matches no nogood -/
theorem wide_spec_sound (n : Nat) (gs : List PA) (A : PA) (t : List Bool) (hgs : ∀ g ∈ gs, g.length = n)
    (hA : A.length = n) (h : NgSpec.avoidingExt n gs A = some t) :
    t.length = n ∧ NgSpec.matchesT A t = true ∧ (∀ g ∈ gs, NgSpec.matchesT g t = false) ∧
    Matches A (NgSpec.asg t) ∧ AvoidsL gs (NgSpec.asg t) :=
  have hgs' : ∀ g ∈ gs, g.length ≤ n := fun g hg => Nat.le_of_eq (hgs g hg)
  have ⟨a, b, c⟩ := NgSpec.avoidingExt_some hgs' hA h
  have ⟨_, d, e⟩ := NgSpec.avoidingExt_sound hgs' hA h
  ⟨a, b, c, d, e⟩

/-- **the search is complete**: if it returns nothing, no total assignment extends the
interpretation and avoids all nogoods — neither among the value lists of length `n` nor among all
assignments -/
theorem wide_spec_complete (n : Nat) (gs : List PA) (A : PA) (hgs : ∀ g ∈ gs, g.length = n)
    (hA : A.length = n) (h : NgSpec.avoidingExt n gs A = none) :
    (¬ ∃ t : List Bool, t.length = n ∧ NgSpec.matchesT A t = true ∧ ∀ g ∈ gs, NgSpec.matchesT g t = false) ∧
    ∀ σ, Matches A σ → ¬ AvoidsL gs σ :=
  have hgs' : ∀ g ∈ gs, g.length ≤ n := fun g hg => Nat.le_of_eq (hgs g hg)
  ⟨NgSpec.avoidingExt_none hgs' hA h, (NgSpec.avoidingExt_none_iff hgs' hA).mp h⟩

/-- non-vacuity at a width the brute-force specification cannot reach, on the witness of the seeded
mutation "duplicate test modulo 64": `{x3=T,x5=F}`, `{x67=T,x69=F}` over 70 variables. The
interpretation `{x67=T}` has an avoiding extension, `{x67=T,x69=F}` has none. -/
def wideDemo : List PA :=
  [setAt (setAt (List.replicate 70 none) 3 true) 5 false, setAt (setAt (List.replicate 70 none) 67 true) 69 false]

example : (NgSpec.avoidingExt 70 wideDemo (setAt (List.replicate 70 none) 67 true)).isSome = true ∧
    NgSpec.avoidingExt 70 wideDemo (setAt (setAt (List.replicate 70 none) 67 true) 69 false) = none ∧
    NgSpec.avoidingExt 2 (added demo) [none, none] = some [true, true] ∧
    NgSpec.avoidingExt 2 (added demo) [some false, none] = none := by decide

/-- **the W-checks of `conclusions` and `conclusion_closure` are the brute-force checks**: same
clauses, same verdicts — so `spec_concl_meaning` / `spec_closure_meaning` apply to them verbatim -/
theorem wide_spec_eq (n : Nat) (gs : List PA) (A : PA) (hgs : ∀ g ∈ gs, g.length = n) (hA : A.length = n) :
    NgSpec.conclViolationsW n gs A none = NgSpec.conclViolations n gs A none ∧
    (∀ r, r.length = n → NgSpec.conclViolationsW n gs A (some r) = NgSpec.conclViolations n gs A (some r)) ∧
    NgSpec.closureViolationsW n gs A .inconsistent = NgSpec.closureViolations n gs A .inconsistent ∧
    NgSpec.closureViolationsW n gs A .noUpdate = NgSpec.closureViolations n gs A .noUpdate ∧
    (∀ r, r.length = n → NgSpec.closureViolationsW n gs A (.update r) = NgSpec.closureViolations n gs A (.update r)) := by
  have hgs' : ∀ g ∈ gs, g.length ≤ n := fun g hg => Nat.le_of_eq (hgs g hg)
  refine ⟨NgSpec.conclViolationsW_eq hgs' hA none (fun _ h => by cases h),
    fun r hr => NgSpec.conclViolationsW_eq hgs' hA (some r) (fun r' h => by cases h; exact Nat.le_of_eq hr),
    NgSpec.closureViolationsW_eq hgs' hA _ (fun _ h => by cases h),
    NgSpec.closureViolationsW_eq hgs' hA _ (fun _ h => by cases h),
    fun r hr => NgSpec.closureViolationsW_eq hgs' hA _ (fun r' h => by cases h; exact Nat.le_of_eq hr)⟩

/-- **the W-check of the store means the property** and accepts exactly the dumps the brute-force
check accepts; a witness it reports is a total assignment excluded by one of the two sets only -/
theorem wide_spec_store (n : Nat) (gs stored : List PA) (hgs : ∀ g ∈ gs, g.length = n)
    (hst : ∀ g ∈ stored, g.length = n) :
    (NgSpec.storeViolationsW n gs stored = [] ↔ ∀ σ, ExcludedBy stored σ ↔ ExcludedBy gs σ) ∧
    (NgSpec.storeViolationsW n gs stored = [] ↔ NgSpec.storeViolations n gs stored = []) ∧
    (∀ t, NgSpec.escaping n gs stored = some t →
      t.length = n ∧ ExcludedBy gs (NgSpec.asg t) ∧ ¬ ExcludedBy stored (NgSpec.asg t)) ∧
    (∀ t, NgSpec.escaping n stored gs = some t →
      t.length = n ∧ ExcludedBy stored (NgSpec.asg t) ∧ ¬ ExcludedBy gs (NgSpec.asg t)) :=
  ⟨NgSpec.storeViolationsW_nil hgs hst, NgSpec.storeViolationsW_iff hgs hst,
   fun _ h => NgSpec.escaping_some hgs (fun g hg => Nat.le_of_eq (hst g hg)) h,
   fun _ h => NgSpec.escaping_some hst (fun g hg => Nat.le_of_eq (hgs g hg)) h⟩

/-- the store that lost `{x67=T,x69=F}` as a "duplicate" is rejected, with a witness; the full one passes -/
example : NgSpec.storeViolationsW 70 wideDemo wideDemo = [] ∧
    (NgSpec.storeViolationsW 70 wideDemo (wideDemo.take 1)).length = 1 ∧
    NgSpec.storeViolationsW 2 (added demo) [[none, some false]] = ["forgotten:FT"] ∧
    NgSpec.conclViolationsW 2 (added demo) [none, none] none = ["spurious-conflict"] ∧
    NgSpec.conclViolationsW 70 wideDemo (setAt (setAt (List.replicate 70 none) 67 true) 69 false)
      (some (setAt (setAt (List.replicate 70 none) 67 true) 69 false)) = ["missed-direct-conflict"] := by
  decide

/-- **the model always passes the W-specification**, at every width -/
theorem model_passes_wide_spec (n : Nat) (cs : List Cmd) (hs : Shaped n cs) (A : PA) (hA : A.length = n) :
    NgSpec.conclViolationsW n (added cs) A ((after n cs).conclusions A) = [] ∧
    NgSpec.closureViolationsW n (added cs) A (NgSpec.ofClosure ((after n cs).closure A)) = [] ∧
    NgSpec.storeViolationsW n (added cs) (after n cs).buckets.flatten = [] := by
  have ⟨m1, m2, m3⟩ := model_passes_spec n cs hs A hA
  have hs' : ∀ g ∈ added cs, g.length ≤ n := fun g hg => Nat.le_of_eq (hs g hg)
  refine ⟨?_, ?_, ?_⟩
  · rw [NgSpec.conclViolationsW_eq hs' hA]; exact m1
    intro r hr
    exact Nat.le_of_eq (conclusions_sound n cs hs A r hA hr).2.1
  · rw [NgSpec.closureViolationsW_eq hs' hA]; exact m2
    intro r hr
    cases hc : (after n cs).closure A with
    | inconsistent => rw [hc] at hr; cases hr
    | noUpdate => rw [hc] at hr; cases hr
    | update R =>
      rw [hc] at hr
      simp only [NgSpec.ofClosure] at hr
      cases hr
      exact Nat.le_of_eq ((closure_sound n cs hs A hA).1 _ hc).2.2.1
  · have hinv := store_invariant n cs hs
    refine (NgSpec.storeViolationsW_iff hs ?_).mpr m3
    intro g hg
    obtain ⟨b, hb, hgb⟩ := List.mem_flatten.mp hg
    exact hinv.lengths b hb g hgb

end C18
