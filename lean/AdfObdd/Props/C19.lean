import AdfObdd.StreamFull
import AdfObdd.StreamChain
import AdfObdd.StreamBounded
/-! # C19 — the streaming mirror reproduces the producer's node table under every schedule

`StreamF.recv` is a literal model of `Bdd::recv`; channels are FIFO lists; an event sequence is
any interleaving of producer operations (each creating 0..many nodes, each sent), deliveries of
single messages into the relay's channel, relay polls, receiver polls (and polls on the producer,
which has no receiving end).  All statements are for **every** event sequence from the state in
which the three stores are fresh.  The `_store` versions take a real diagram store (the proved
`Store` with `stepOp`) as the producer.

**Relay chains of arbitrary length** (`StreamC`, section "relay chain" below): producer → store₀ → store₁ → …
→ store_{k-1}, every store a `with_sender_receiver` relay, the last one with nobody behind it; events
additionally `poll i t` for every store and `dropFrom i` (the stores from `i` on are dropped: store `i-1` keeps
forwarding into a channel without receiver, the failing `send` is ignored as in the code).  `chain_*` are
the statements for every `k` and every schedule; the one-relay system above is the chain of length 2
(`one_relay_is_chain2`).

**ASSUMPTION: unbounded forwarding channels** (second review, C19 row 6). Every channel of the model
— producer → scheduler (`pend`), the inboxes `q` of the stores (`StreamChain.lean`:50-55, `feed`
appends without limit) — is an unbounded FIFO list, i.e. `crossbeam_channel::unbounded()`, the only
kind the repository itself creates (lib.rs:174, frontend.rs:103/159/160 tests). The channels are
supplied by the CALLER of `with_sender` / `with_receiver` / `with_sender_receiver`; with a
`bounded(cap)` channel the `send` inside `Bdd::recv` (frontend.rs:74) and inside `Bdd::node` blocks
while the next inbox is full. A relay blocked there has pushed the node but not forwarded it — a
state no `StreamC.Chain` represents (it violates `RInv`: `tbl_{i+1} ++ q_{i+1} = tbl_i`), and a
chain whose last store stops polling then deadlocks everything before it. So ALL theorems of this
file are statements about unbounded channels (or, equivalently, about bounded ones that never fill
up). For bounded channels only SAFETY is proved, on a separate model (`StreamBounded.lean`, `recv`
one message at a time with a `blocked` state, `resume` events): `bounded_forwarding` — conservation
up to the nodes in flight, every table a prefix of the producer's, no inbox above the bound, under
every schedule; `bounded_blocked_state` exhibits the unrepresentable state. NOT carried over to
bounded channels: `chain_poll_found`, the drain theorems, independence of downstream (a full inbox
behind a store DOES influence it), and any liveness claim. -/
namespace C19
open StreamF

/-- after `k` consumed messages a mirror holds exactly the producer's first `k + 2` nodes, in
order (`c` are the two constants every store starts with); the receiver never overtakes the
relay, the relay never the producer -/
theorem mirror_prefix {α : Type} (c : List α) (evs : List (Ev α)) :
    let s := run evs (Sys.init c)
    s.recv = s.prod.take (c.length + s.k2) ∧ s.recv.length = c.length + s.k2 ∧
    s.relay = s.prod.take (c.length + s.k1) ∧ s.relay.length = c.length + s.k1 ∧
    s.k2 ≤ s.k1 ∧ c.length + s.k1 ≤ s.prod.length := by
  intro s
  have h := run_inv c evs _ (Inv.init c)
  have ⟨a, b, d, e⟩ := h.mirror
  exact ⟨b, h.len2, a, h.len1, d, e⟩

/-- nothing is lost, duplicated or reordered: tables and channel contents concatenate to the
producer's table -/
theorem stream_conservation {α : Type} (c : List α) (evs : List (Ev α)) :
    let s := run evs (Sys.init c)
    s.relay ++ s.q1 ++ s.pend = s.prod ∧ s.recv ++ s.q2 = s.relay := by
  intro s
  have h := run_inv c evs _ (Inv.init c)
  exact ⟨h.up, h.down⟩

/-- once everything the producer sent has been consumed the tables are identical — for the relay,
and through the relay chain for the receiver -/
theorem drained_equal {α : Type} (c : List α) (evs : List (Ev α)) :
    let s := run evs (Sys.init c)
    (s.pend = [] → s.q1 = [] → s.relay = s.prod) ∧
    (s.pend = [] → s.q1 = [] → s.q2 = [] → s.recv = s.prod) := by
  intro s
  have h := run_inv c evs _ (Inv.init c)
  have hu := h.up
  have hd := h.down
  constructor
  · intro h0 h1; rw [h0, h1] at hu; simpa using hu
  · intro h0 h1 h2; rw [h0, h1] at hu; rw [h2] at hd; simp at hu hd; rw [hd, hu]

/-- draining is always possible: deliver what is pending, let the relay and then the receiver
ask for a handle beyond the producer's table; both answer "not found", every channel is empty
and the three tables are identical -/
theorem drain_reaches_equal {α : Type} (c : List α) (evs : List (Ev α)) (T : Nat) :
    let s := run evs (Sys.init c)
    s.prod.length ≤ T →
    let s1 := (stepEv s (.deliver s.pend.length)).1
    let r2 := stepEv s1 (.relayPoll T)
    let r3 := stepEv r2.1 (.recvPoll T)
    r2.2 = some false ∧ r3.2 = some false ∧
    r3.1.pend = [] ∧ r3.1.q1 = [] ∧ r3.1.q2 = [] ∧ r3.1.relay = r3.1.prod ∧ r3.1.recv = r3.1.prod := by
  intro s hT s1 r2 r3
  have h0 := run_inv c evs _ (Inv.init c)
  have h1 : Inv c s1 := step_inv c s _ h0
  have h2 : Inv c r2.1 := step_inv c s1 _ h1
  have h3 : Inv c r3.1 := step_inv c r2.1 _ h2
  have hp1 : s1.prod = s.prod := rfl
  have hp2 : r2.1.prod = s.prod := rfl
  have hp3 : r3.1.prod = s.prod := rfl
  have hpend1 : s1.pend = [] := by simp [s1, stepEv]
  -- the relay poll cannot find T
  have hrl : r2.1.relay.length ≤ s.prod.length := by have := h2.mirror.2.2.2; rw [h2.len1, ← hp2]; exact this
  have hf2 : (recv true s1.q1 s1.relay T).found = false := by
    have := (recv_spec s1.q1 s1.relay T).2.2.2
    cases hfd : (recv true s1.q1 s1.relay T).found with
    | false => rfl
    | true =>
      have hlt := this.mp hfd
      have : r2.1.relay = (recv true s1.q1 s1.relay T).tbl := rfl
      rw [this] at hrl; omega
  have ⟨hq1, _⟩ := (recv_exact s1.q1 s1.relay T).2.2 hf2
  have hq1' : r2.1.q1 = [] := hq1
  have hpend2 : r2.1.pend = [] := hpend1
  have hvl : r3.1.recv.length ≤ s.prod.length := by
    have hm := h3.mirror
    have m1 := hm.2.2.1
    have m2 := hm.2.2.2
    rw [h3.len2]; rw [hp3] at m2; omega
  have hf3 : (recv true r2.1.q2 r2.1.recv T).found = false := by
    have := (recv_spec r2.1.q2 r2.1.recv T).2.2.2
    cases hfd : (recv true r2.1.q2 r2.1.recv T).found with
    | false => rfl
    | true =>
      have hlt := this.mp hfd
      have : r3.1.recv = (recv true r2.1.q2 r2.1.recv T).tbl := rfl
      rw [this] at hvl; omega
  have ⟨hq2, _⟩ := (recv_exact r2.1.q2 r2.1.recv T).2.2 hf3
  have hq2' : r3.1.q2 = [] := hq2
  have hq13 : r3.1.q1 = [] := hq1'
  have hpend3 : r3.1.pend = [] := hpend2
  have hu := h3.up
  have hd := h3.down
  rw [hq13, hpend3] at hu; rw [hq2'] at hd
  simp at hu hd
  refine ⟨by simp only [r2, stepEv, hf2], by simp only [r3, stepEv, hf3], hpend3, hq13, hq2', hu, by rw [hd, hu]⟩

/-- a poll answers "found" iff the requested handle is present after polling — receiver, relay,
and a store without receiving end -/
theorem poll_found_iff {α : Type} (s : Sys α) (t : Nat) :
    ((stepEv s (.recvPoll t)).2 = some true ↔ t < (stepEv s (.recvPoll t)).1.recv.length) ∧
    ((stepEv s (.relayPoll t)).2 = some true ↔ t < (stepEv s (.relayPoll t)).1.relay.length) ∧
    ((stepEv s (.prodPoll t)).2 = some true ↔ t < (stepEv s (.prodPoll t)).1.prod.length) := by
  refine ⟨?_, ?_, ?_⟩
  · have := (recv_spec s.q2 s.recv t).2.2.2
    simp only [stepEv, Option.some.injEq]; exact this
  · have := (recv_spec s.q1 s.relay t).2.2.2
    simp only [stepEv, Option.some.injEq]; exact this
  · have := (recv_noReceiver ([] : List α) s.prod t).2.2
    simp only [stepEv, Option.some.injEq]; exact this

/-- a poll consumes exactly what it needs: nothing when the handle is present; it stops right
at the requested handle when that arrives (table length `t + 1`); otherwise it empties the
channel into the table -/
theorem poll_exact {α : Type} (s : Sys α) (t : Nat) :
    let r := stepEv s (.recvPoll t)
    (t < s.recv.length → r.1.recv = s.recv ∧ r.1.q2 = s.q2 ∧ r.2 = some true) ∧
    (s.recv.length ≤ t → r.2 = some true → r.1.recv.length = t + 1) ∧
    (r.2 = some false → r.1.q2 = [] ∧ r.1.recv = s.recv ++ s.q2) := by
  intro r
  have ⟨a, b, c⟩ := recv_exact s.q2 s.recv t
  refine ⟨?_, ?_, ?_⟩
  · intro h; have ⟨x, y, z⟩ := a h; exact ⟨x, y, by simp only [r, stepEv, z]⟩
  · intro h hf
    have hf' : (recv true s.q2 s.recv t).found = true := by simpa [r, stepEv] using hf
    exact b h hf'
  · intro hf
    have hf' : (recv true s.q2 s.recv t).found = false := by simpa [r, stepEv] using hf
    exact c hf'

/-- a relay forwards exactly the messages it consumed, in order, and appends exactly those to
its own table -/
theorem relay_forwards {α : Type} (s : Sys α) (t : Nat) :
    let r := (stepEv s (.relayPoll t)).1
    ∃ fwd, r.relay = s.relay ++ fwd ∧ r.q2 = s.q2 ++ fwd ∧ s.q1 = fwd ++ r.q1 ∧ r.k1 = s.k1 + fwd.length := by
  intro r
  have ⟨a, b, c, _⟩ := recv_spec s.q1 s.relay t
  refine ⟨(recv true s.q1 s.relay t).fwd, b, rfl, ?_, by simp only [r, stepEv, c]⟩
  have : s.relay ++ ((recv true s.q1 s.relay t).fwd ++ (recv true s.q1 s.relay t).q) = s.relay ++ s.q1 := by
    rw [← List.append_assoc, ← b]; exact a
  exact (List.append_cancel_left this).symm

/-- the same with a real diagram store as producer: for every valid interleaving of
diagram-building operations with deliveries and polls, the producer's table stays canonical and
a mirror that consumed `k` messages holds exactly its first `k + 2` nodes -/
theorem mirror_prefix_store (evs : List PEv) (hv : pevsValid evs 2) :
    let p := prun evs PSys.init
    WF p.st ∧
    p.sys.recv = p.st.nodes.toList.take (2 + p.sys.k2) ∧ p.sys.recv.length = 2 + p.sys.k2 ∧
    p.sys.relay = p.st.nodes.toList.take (2 + p.sys.k1) ∧ p.sys.relay.length = 2 + p.sys.k1 ∧
    p.sys.k2 ≤ p.sys.k1 ∧ 2 + p.sys.k1 ≤ p.st.nodes.size := by
  intro p
  have h := prun_inv evs PSys.init PInv.init hv
  have ⟨a, b, d, e⟩ := h.inv.mirror
  have hc : (Store.init.nodes.toList).length = 2 := rfl
  rw [hc, h.tbl] at a b e
  have l1 := h.inv.len1
  have l2 := h.inv.len2
  rw [hc] at l1 l2
  exact ⟨h.wf, b, l2, a, l1, d, by simpa using e⟩

/-- with a real store as producer: drained channels ⇒ identical node tables (chain of length 2) -/
theorem drained_equal_store (evs : List PEv) (hv : pevsValid evs 2) :
    let p := prun evs PSys.init
    (p.sys.pend = [] → p.sys.q1 = [] → p.sys.relay = p.st.nodes.toList) ∧
    (p.sys.pend = [] → p.sys.q1 = [] → p.sys.q2 = [] → p.sys.recv = p.st.nodes.toList) := by
  intro p
  have h := prun_inv evs PSys.init PInv.init hv
  have hu := h.inv.up
  have hd := h.inv.down
  rw [h.tbl] at hu
  constructor
  · intro h0 h1; rw [h0, h1] at hu; simpa using hu
  · intro h0 h1 h2; rw [h0, h1] at hu; rw [h2] at hd; simp at hu hd; rw [hd, hu]

/-! non-vacuity: a concrete schedule in which a poll falls between two node creations of one
operation sequence, a failing and a succeeding poll, and a valid store-level schedule -/
example :
    let s := run [.create [10, 11], .deliver 1, .relayPoll 3, .recvPoll 2, .create [12], .recvPoll 3]
                 (Sys.init [0, 1])
    s.relay = [0, 1, 10] ∧ s.recv = [0, 1, 10] ∧ s.pend = [11, 12] ∧ s.k1 = 1 := by decide
example : (stepEv (run [.create [10, 11], .deliver 2] (Sys.init [0, 1])) (.relayPoll 2)).2 = some true ∧
          (stepEv (run [.create [10, 11], .deliver 2] (Sys.init [0, 1])) (.relayPoll 4)).2 = some false := by decide
example : pevsValid [.op (.var 0), .ev (.deliver 1), .op (.not 2), .ev (.relayPoll 2), .ev (.recvPoll 2)] 2 := by
  simp [pevsValid, Op.valid, VBOT]

/-! ## the relay does not depend on its downstream receiver

In the code a relay forwards every consumed node into its own channel and ignores a failed send (the
receiving end may be gone): what the relay holds and answers is a function of the producer side only.
In the model this is the statement that receiver polls can be deleted from any schedule - in
particular from the point at which the receiver is dropped - without changing the producer, the
first channel, the relay's table, its counter or any of its answers. -/

/-- everything upstream of the second channel -/
def upstream {α : Type} (s : Sys α) : List α × List α × List α × List α × Nat :=
  (s.prod, s.pend, s.q1, s.relay, s.k1)

def isRecvPoll {α : Type} : Ev α → Bool
  | .recvPoll _ => true
  | _ => false

theorem upstream_step {α : Type} (s s' : Sys α) (e : Ev α) (h : upstream s = upstream s') :
    upstream (stepEv s e).1 = upstream (stepEv s' e).1 ∧
    (isRecvPoll e = false → (stepEv s e).2 = (stepEv s' e).2) := by
  simp only [upstream, Prod.mk.injEq] at h
  obtain ⟨h1, h2, h3, h4, h5⟩ := h
  cases e <;> simp [stepEv, upstream, isRecvPoll, h1, h2, h3, h4, h5]

theorem upstream_recvPoll {α : Type} (s : Sys α) (t : Nat) :
    upstream (stepEv s (.recvPoll t)).1 = upstream s := by
  simp [stepEv, upstream]

/-- **relay_independent_of_receiver.** For every schedule, deleting all receiver polls (e.g. because
the receiver has gone away) leaves producer, pending messages, first channel, relay table and relay
counter exactly as they are -/
theorem relay_independent_of_receiver {α : Type} (evs : List (Ev α)) :
    ∀ s s' : Sys α, upstream s = upstream s' →
      upstream (run evs s) = upstream (run (evs.filter (fun e => !isRecvPoll e)) s') := by
  induction evs with
  | nil => intro s s' h; simpa [run] using h
  | cons e evs ih =>
    intro s s' h
    cases hr : isRecvPoll e with
    | true =>
      cases e <;> simp [isRecvPoll] at hr
      rename_i t
      simp only [run, List.foldl_cons, List.filter_cons, isRecvPoll, Bool.not_true, Bool.false_eq_true, if_false]
      exact ih _ _ (by rw [upstream_recvPoll]; exact h)
    | false =>
      simp only [run, List.foldl_cons, List.filter_cons, hr, Bool.not_false, if_true]
      exact ih _ _ (upstream_step s s' e h).1

/-- … and the relay gives the same answer to a poll placed after either schedule -/
theorem relay_answers_independent_of_receiver {α : Type} (evs : List (Ev α)) (c : List α) (t : Nat) :
    (stepEv (run evs (Sys.init c)) (.relayPoll t)).2 =
    (stepEv (run (evs.filter (fun e => !isRecvPoll e)) (Sys.init c)) (.relayPoll t)).2 :=
  (upstream_step _ _ (.relayPoll t) (relay_independent_of_receiver evs _ _ rfl)).2 rfl

example :
    upstream (run [.create [10, 11], .deliver 2, .recvPoll 5, .relayPoll 3, .recvPoll 2] (Sys.init [0, 1])) =
    upstream (run [.create [10, 11], .deliver 2, .relayPoll 3] (Sys.init [0, 1])) := by decide

end C19

/-! ## relay chain of arbitrary length -/
namespace C19
open StreamC

/-- **every store of a chain of any length `k` holds a prefix of the producer's table**, verbatim and with the
same numbering: after consuming `r.k` messages exactly the producer's first `2 + r.k` nodes; no store
overtakes the one before it - for every schedule (creations, deliveries, polls anywhere, drops) -/
theorem chain_mirror_prefix {α : Type} (c : List α) (k : Nat) (evs : List (StreamC.Ev α)) :
    let s := StreamC.run evs (Chain.init c k)
    (∀ r ∈ s.relays, r.tbl = s.prod.take (c.length + r.k) ∧ r.tbl.length = c.length + r.k ∧
        c.length + r.k ≤ s.prod.length) ∧
    s.relays.Pairwise (fun a b => b.k ≤ a.k) := by
  intro s
  have h := StreamC.run_inv c evs _ (StreamC.Inv.init c k)
  have ⟨a, b⟩ := h.mirror
  obtain ⟨up, _, h2⟩ := h
  exact ⟨fun r hr => ⟨(a r hr).1, rinv_len c up _ h2 r hr, (a r hr).2⟩, b⟩

/-- handle by handle: whatever a store of the chain holds at handle `t` is the producer's node at `t` -/
theorem chain_same_node {α : Type} (c : List α) (k : Nat) (evs : List (StreamC.Ev α)) :
    let s := StreamC.run evs (Chain.init c k)
    ∀ r ∈ s.relays, ∀ t, t < r.tbl.length → r.tbl[t]? = s.prod[t]? := by
  intro s r hr t ht
  have h := (chain_mirror_prefix c k evs).1 r hr
  have e : r.tbl[t]? = (s.prod.take (c.length + r.k))[t]? := by rw [← h.1]
  rw [e, List.getElem?_take]
  rw [if_pos (by rw [← h.2.1]; exact ht)]

/-- **a poll that answers `true` has the handle, with the producer's node**: `store_i.recv(t)` placed after any
schedule answers "found" iff `t` is present in store `i` afterwards, and then the node at `t` is the producer's -/
theorem chain_poll_found {α : Type} (c : List α) (k : Nat) (evs : List (StreamC.Ev α)) (i t : Nat) :
    let s := StreamC.run evs (Chain.init c k)
    let r := StreamC.stepEv s (.poll i t)
    (r.2 = none ↔ s.relays.length ≤ i) ∧
    ∀ x, r.1.relays[i]? = some x → ((r.2 = some true ↔ t < x.tbl.length) ∧ (r.2 = some true → x.tbl[t]? = r.1.prod[t]?)) := by
  intro s r
  have ⟨_, b, cc⟩ := pollAt_found t s.relays i
  refine ⟨b, ?_⟩
  intro x hx
  have h1 := cc x hx
  refine ⟨h1, ?_⟩
  intro hf
  have := chain_same_node c k (evs ++ [.poll i t])
  simp only [StreamC.run, List.foldl_append, List.foldl_cons, List.foldl_nil] at this
  exact this x (List.mem_of_getElem? hx) t (h1.mp hf)

/-- **once all channels are drained every mirror equals the producer's table**, for every chain length -/
theorem chain_drained_equal {α : Type} (c : List α) (k : Nat) (evs : List (StreamC.Ev α)) :
    let s := StreamC.run evs (Chain.init c k)
    s.pend = [] → (∀ r ∈ s.relays, r.q = []) → ∀ r ∈ s.relays, r.tbl = s.prod := by
  intro s hp hq
  exact (StreamC.run_inv c evs _ (StreamC.Inv.init c k)).drained hp hq

/-- draining is always possible: deliver what is pending and let every store, front to back, ask for a
handle beyond the producer's table -/
theorem chain_drain_reaches_equal {α : Type} (c : List α) (k : Nat) (evs : List (StreamC.Ev α)) (T : Nat) :
    let s := StreamC.run evs (Chain.init c k)
    s.prod.length ≤ T →
    let s' := StreamC.run (.deliver s.pend.length :: (List.range s.relays.length).map (fun j => StreamC.Ev.poll j T)) s
    s'.prod = s.prod ∧ s'.pend = [] ∧ ∀ r ∈ s'.relays, r.q = [] ∧ r.tbl = s.prod := by
  intro s hT
  exact (StreamC.run_inv c evs _ (StreamC.Inv.init c k)).drain T hT

/-- **a relay whose downstream receiver was dropped keeps mirroring**: deleting from any schedule every event
that concerns the stores `i, i+1, …` (their polls; their being dropped, at whatever point) changes nothing in
the producer, the pending messages and the stores `0 … i-1` (tables, inboxes, counters) -/
theorem chain_relay_independent_of_downstream {α : Type} (c : List α) (k i : Nat) (evs : List (StreamC.Ev α)) :
    StreamC.upstream i (StreamC.run evs (Chain.init c k)) =
    StreamC.upstream i (StreamC.run (evs.filter (fun e => !StreamC.downstreamEv i e)) (Chain.init c k)) :=
  StreamC.upstream_independent i evs _ _ rfl

/-- … and store `j < i` gives the same answer to a poll placed after either schedule -/
theorem chain_answers_independent_of_downstream {α : Type} (c : List α) (k i j t : Nat) (hj : j < i)
    (evs : List (StreamC.Ev α)) :
    (StreamC.stepEv (StreamC.run evs (Chain.init c k)) (.poll j t)).2 =
    (StreamC.stepEv (StreamC.run (evs.filter (fun e => !StreamC.downstreamEv i e)) (Chain.init c k)) (.poll j t)).2 :=
  (StreamC.upstream_step i _ _ (.poll j t) (chain_relay_independent_of_downstream c k i evs)
    (by simp [StreamC.downstreamEv]; omega)).2

/-- after the stores from `i` on are dropped, the remaining chain still satisfies everything above: in
particular store `i-1`, now without receiver behind it, still holds a prefix and still ends up equal -/
theorem chain_after_drop {α : Type} (c : List α) (k i : Nat) (evs more : List (StreamC.Ev α)) :
    let s := StreamC.run (evs ++ [.dropFrom i] ++ more) (Chain.init c k)
    s.relays.length ≤ i ∧ ∀ r ∈ s.relays, r.tbl = s.prod.take (c.length + r.k) := by
  intro s
  exact ⟨StreamC.length_after_drop i evs more _, fun r hr => ((chain_mirror_prefix c k _).1 r hr).1⟩

/-- the one-relay system of the first part is the chain of length 2 (relay = store 0, receiver = store 1) -/
theorem one_relay_is_chain2 {α : Type} (c : List α) (evs : List (StreamF.Ev α)) :
    StreamC.ofSys (StreamF.run evs (StreamF.Sys.init c)) = StreamC.run (evs.map StreamC.ofEv) (Chain.init c 2) := by
  rw [StreamC.ofSys_run, StreamC.ofSys_init]

/-- with a real diagram store as producer and a chain of any length: for every valid interleaving of
diagram-building operations with deliveries, polls and drops, the producer's table stays canonical, every
store holds exactly its first `2 + consumed` nodes, and drained channels mean identical tables -/
theorem chain_mirror_prefix_store (k : Nat) (evs : List StreamC.PEv) (hv : StreamC.pevsValid evs 2) :
    let p := StreamC.prun evs (StreamC.PChain.init k)
    WF p.st ∧
    (∀ r ∈ p.ch.relays, r.tbl = p.st.nodes.toList.take (2 + r.k) ∧ 2 + r.k ≤ p.st.nodes.size) ∧
    (p.ch.pend = [] → (∀ r ∈ p.ch.relays, r.q = []) → ∀ r ∈ p.ch.relays, r.tbl = p.st.nodes.toList) := by
  intro p
  have h := StreamC.prun_inv evs (StreamC.PChain.init k) (StreamC.PInv.init k) hv
  have hc : (Store.init.nodes.toList).length = 2 := rfl
  have ⟨a, _⟩ := h.inv.mirror
  refine ⟨h.wf, ?_, ?_⟩
  · intro r hr
    have := a r hr
    rw [hc, h.tbl] at this
    exact ⟨this.1, by simpa using this.2⟩
  · intro hp hq r hr
    rw [← h.tbl]; exact h.inv.drained hp hq r hr

/-! non-vacuity: a chain of four stores; polls fall between the two node creations of one operation; a poll
for a handle that is still in flight upstream fails, the same poll succeeds after the stores before it have
forwarded; then store 2 and 3 are dropped and store 1 keeps mirroring -/
example :
    let s := StreamC.run [.create [10, 11], .deliver 1, .poll 2 2, .poll 0 2, .poll 1 2, .poll 2 2, .create [12],
                          .dropFrom 2, .deliver 2, .poll 0 4, .poll 1 3] (Chain.init [0, 1] 4)
    s.prod = [0, 1, 10, 11, 12] ∧ s.relays.map (·.tbl) = [[0, 1, 10, 11, 12], [0, 1, 10, 11]] ∧
    s.relays.map (·.q) = [[], [12]] := by decide
example : (StreamC.stepEv (StreamC.run [.create [10, 11], .deliver 2, .poll 0 3] (Chain.init [0, 1] 3)) (.poll 1 2)).2 = some true ∧
          (StreamC.stepEv (StreamC.run [.create [10, 11], .deliver 2] (Chain.init [0, 1] 3)) (.poll 1 2)).2 = some false ∧
          (StreamC.stepEv (StreamC.run [.create [10, 11], .deliver 2] (Chain.init [0, 1] 3)) (.poll 3 2)).2 = none := by decide
example : StreamC.pevsValid [.op (.var 0), .ev (.deliver 1), .op (.not 2), .ev (.poll 0 2), .ev (.poll 2 2), .ev (.dropFrom 1)] 2 := by
  simp [StreamC.pevsValid, Op.valid, VBOT]

end C19
namespace C19

/-- the chain with forwarding channels of capacity `cap ≥ 1`
(`StreamB`: `recv` blocks in `send` while the next inbox is full, `resume` completes the pending
`send`): under every schedule conservation holds up to the nodes in flight, every store's table is
a prefix of the producer's, no inbox exceeds the bound -/
def bounded_forwarding_statement : Prop := StreamB.bounded_forwarding_statement

/-- **safety with bounded forwarding channels**, every capacity, chain length and schedule -/
theorem bounded_forwarding : bounded_forwarding_statement := StreamB.bounded_forwarding

/-- the state the unbounded model cannot represent, on a concrete schedule (capacity 1, two
relays): store 0 holds `[0,1,7,8]` and is blocked in `send(8)`, store 1 holds `[0,1]` with inbox
`[7]` — `tbl₁ ++ q₁ ≠ tbl₀`; after store 1 polls and the send is resumed, store 0's interrupted
`recv` returns `true` and conservation is restored -/
theorem bounded_blocked_state :
    let s := StreamB.run 1 StreamB.exSched (StreamB.BChain.init [0, 1] 2)
    s.relays = [⟨[], [0, 1, 7, 8], some (8, 3)⟩, ⟨[7], [0, 1], none⟩] ∧
    (∀ r0 r1, s.relays = [r0, r1] → r1.tbl ++ r1.q ≠ r0.tbl) ∧
    (StreamB.stepEv 1 (StreamB.run 1 (StreamB.exSched ++ [.poll 1 2]) (StreamB.BChain.init [0, 1] 2)) (.resume 0)).2 = some true ∧
    (StreamB.run 1 (StreamB.exSched ++ [.poll 1 2, .resume 0]) (StreamB.BChain.init [0, 1] 2)).relays =
      [⟨[], [0, 1, 7, 8], none⟩, ⟨[8], [0, 1, 7], none⟩] := StreamB.blocked_state_example

end C19
#print axioms C19.bounded_blocked_state
#print axioms C19.bounded_forwarding
#print axioms C19.chain_mirror_prefix
#print axioms C19.chain_poll_found
#print axioms C19.chain_drained_equal
#print axioms C19.chain_drain_reaches_equal
#print axioms C19.chain_relay_independent_of_downstream
#print axioms C19.chain_after_drop
#print axioms C19.chain_mirror_prefix_store
