import AdfObdd.FeatureOps
import AdfObdd.CountsMore
import AdfObdd.MemoCheckProofs
/-! # C12 — answers are independent of the cargo feature configuration

Model: `FeatureVariants.lean` carries BOTH bodies of every `cfg(feature = …)` split of
`obdd.rs`, selected by a value `c : Cfg` (`adhoccounting`, `adhoccountmodels`, `variablelist`;
`frontend` only sends fresh nodes over a channel and touches no table): `newC`, `nodeC`,
`restrictC`, `iteCfg`, `pathsC`, `modelsC`, `maxDepthCfg`, `varDepsC`, `fixImportC`, on a store
`FStore` = proved `Store` + `deps` (= `var_deps`) + `cnt` (= `count_cache`). The reference is the
feature-free development: `mkNode`, `restrictF`, `iteF`, `runOps`, `paths`/`pathsF`, `countF`
(= `modelcount_naive`), `depsOf`/`depsF`.

Invariant `FInv c z fs`: base store `WF`; with `variablelist` the table `deps` is exact
(`DepsOK`); every count entry agrees with the naive tuple in paths and depth, and in the model
components unless the feature set is the exception (`CntOK`); with `adhoccounting` every handle
has an entry (`CntFull`); in the exception configuration on a store nothing was imported into
(`z = true`) every inner node's entry has model components 0 (`CntZero`). -/
namespace C12

/-! ## (a) `restrict` and `if_then_else`: the `variablelist` shortcut changes neither handle nor node table -/

/-- Store level: the body with the shortcut ("variable not in the dependency set ⇒ return the
diagram") and the body without return the same handle and the same node table, from any two
well-formed stores with the same node table — whatever their restrict memos contain -/
theorem restrict_shortcut_same (s s' : Store) (w : WF s) (w' : WF s') (hn : s.nodes = s'.nodes)
    (t v : Nat) (b : Bool) (ht : t < s.nodes.size) :
    (restrictS scDeps (t+1) s t v b).2 = (restrictF (t+1) s' t v b).2 ∧
    (restrictS scDeps (t+1) s t v b).1.nodes = (restrictF (t+1) s' t v b).1.nodes := by
  have ⟨a, b'⟩ := restrictS_indep scDeps scNone scDeps_sound scNone_sound (t+1) s s' t v b w w' hn ht
    (Nat.lt_succ_self _)
  rw [restrictS_none] at a b'
  exact ⟨b', a⟩

/-- the same with the shortcut reading the incrementally maintained table, under every feature set -/
theorem restrict_feature_independent (c : Cfg) (z : Bool) (fs : FStore) (s : Store) (r : Rel c z fs s)
    (t v : Nat) (b : Bool) (ht : t < s.nodes.size) :
    (restrictC c (t+1) fs t v b).2 = (restrictF (t+1) s t v b).2 ∧
    (restrictC c (t+1) fs t v b).1.base.nodes = (restrictF (t+1) s t v b).1.nodes ∧
    Rel c z (restrictC c (t+1) fs t v b).1 (restrictF (t+1) s t v b).1 :=
  have ⟨a, b'⟩ := restrict_rel r t v b ht
  ⟨a, b'.nodes, b'⟩

/-- `if_then_else` built on either restrict body: same handle, same node table -/
theorem ite_feature_independent (c : Cfg) (z : Bool) (fs : FStore) (s : Store) (r : Rel c z fs s)
    (i t e : Nat) (hi : i < s.nodes.size) (ht : t < s.nodes.size) (he : e < s.nodes.size) :
    (iteCfg c (i+t+e+1) fs i t e).2 = (iteF (i+t+e+1) s i t e).2 ∧
    (iteCfg c (i+t+e+1) fs i t e).1.base.nodes = (iteF (i+t+e+1) s i t e).1.nodes ∧
    Rel c z (iteCfg c (i+t+e+1) fs i t e).1 (iteF (i+t+e+1) s i t e).1 :=
  have ⟨a, b'⟩ := ite_rel r i t e hi ht he
  ⟨a, b'.nodes, b'⟩

/-- `node`: no table influences the result -/
theorem node_feature_independent (c : Cfg) (fs : FStore) (v lo hi : Nat) :
    (nodeC c fs v lo hi).2 = (mkNode fs.base v lo hi).2 ∧
    (nodeC c fs v lo hi).1.base = (mkNode fs.base v lo hi).1 :=
  ⟨(nodeC_base c fs v lo hi).2, (nodeC_base c fs v lo hi).1⟩

/-! ## (b) `var_dependencies`: the maintained table is the recursive set -/

/-- pushing a node keeps the table exact; the regeneration loop builds an exact table -/
theorem deps_table_exact :
    (∀ (s s' : Store) (tbl : Array (List Nat)) (v lo hi : Nat), TableWF s.nodes →
      s'.nodes = s.nodes.push ⟨v, lo, hi⟩ → lo < s.nodes.size → hi < s.nodes.size → DepsOK s tbl →
      DepsOK s' (tbl.push (depsEntry tbl v lo hi))) ∧
    (∀ s : Store, TableWF s.nodes → DepsOK s (genDeps #[] s.nodes)) :=
  ⟨DepsOK_push, genDeps_ok⟩

/-- `var_dependencies` with `variablelist` (table lookup) and without (recursion) give the same set -/
theorem var_dependencies_feature_independent (c : Cfg) (z : Bool) (fs : FStore) (inv : FInv c z fs) (t : Nat)
    (ht : t < fs.base.nodes.size) (x : Nat) :
    x ∈ varDepsC c fs t ↔ x ∈ depsOf fs.base t := varDepsC_exact c z fs t inv ht x

/-! ## (c) counts -/

/-- the literal transcription of `modelcount_naive` (five numbers) is `countF` together with `pathsF` -/
theorem naive_is_countF (s : Store) (t : Nat) :
    naive s t = ⟨(countF s (t+1) t).1, (countF s (t+1) t).2.1, (paths s t).1, (paths s t).2, (countF s (t+1) t).2.2⟩ :=
  naiveCN_eq s (t+1) t

/-- ad-hoc bookkeeping of `node`: the entry computed from the children's entries agrees with the
recursive tuple — paths and depth always, models with `adhoccountmodels` -/
theorem adhoc_entry_exact (em cm : Bool) (l h L H : CN) (hem : em = true → cm = true)
    (hl : CN.agree em l L) (hh : CN.agree em h H) : CN.agree em (CN.adhoc cm l h) (CN.combine L H) :=
  CN.agree_adhoc hem hl hh

/-- ad-hoc insertion in `node` preserves every table invariant -/
theorem node_preserves_tables (c : Cfg) (z : Bool) (fs : FStore) (v lo hi : Nat) (inv : FInv c z fs)
    (hlo : lo < fs.base.nodes.size) (hhi : hi < fs.base.nodes.size) : TabInv c z (nodeC c fs v lo hi).1 :=
  nodeC_tab c z fs v lo hi inv.wf.table inv.tab hlo hhi

/-- `modelcount_memoization` on an exact cache returns the naive tuple and keeps the cache exact -/
theorem memo_is_naive (s : Store) (w : WF s) (cnt : CntCache) (hc : CntOK true s cnt) (t : Nat)
    (ht : t < s.nodes.size) :
    (memoCN s (t+1) cnt t).1 = naive s t ∧ CntOK true s (memoCN s (t+1) cnt t).2 := by
  have ⟨a, b, _, _⟩ := memoCN_spec true s w.table (t+1) cnt t hc ht (Nat.lt_succ_self _)
  exact ⟨CN.agree_true a, b⟩

/-- `paths`: ad hoc = memoised = naive, under every feature set and both values of the flag -/
theorem paths_feature_independent (c : Cfg) (z : Bool) (fs : FStore) (inv : FInv c z fs) (t : Nat)
    (ht : t < fs.base.nodes.size) (memo : Bool) :
    (pathsC c fs t memo).1 = paths fs.base t ∧ FInv c z (pathsC c fs t memo).2 :=
  have ⟨a, _, b⟩ := pathsC_exact c z fs t memo inv ht
  ⟨a, b⟩

/-- `models`: ad hoc = naive; memoised = naive unless (`adhoccounting` ∧ ¬`adhoccountmodels`) -/
theorem models_feature_independent (c : Cfg) (hv : c.valid) (z : Bool) (fs : FStore) (inv : FInv c z fs) (t : Nat)
    (ht : t < fs.base.nodes.size) (memo : Bool) (hex : c.exc = false ∨ memo = false) :
    (modelsC c fs t memo).1 = ((countF fs.base (t+1) t).1, (countF fs.base (t+1) t).2.1) ∧
    FInv c z (modelsC c fs t memo).2 :=
  have ⟨a, _, b⟩ := modelsC_exact c hv z fs t memo inv ht hex
  ⟨a, b⟩

/-- the documented exception, what it looks like: with `adhoccounting` but without
`adhoccountmodels` (this is the default feature set), on a store built by operations, memoised
`models` answers (0, 0) for every inner node — the cache entry written by `node` has model
components 0 — and that is never the naive answer -/
theorem models_exception (c : Cfg) (fs : FStore) (inv : FInv c true fs) (he : c.exc = true) (t : Nat)
    (ht2 : 2 ≤ t) (ht : t < fs.base.nodes.size) :
    (modelsC c fs t true).1 = (0, 0) ∧
    (modelsC c fs t true).1 ≠ ((countF fs.base (t+1) t).1, (countF fs.base (t+1) t).2.1) := by
  have ⟨a, _⟩ := modelsC_exception c fs t inv he ht2 ht
  refine ⟨a, ?_⟩
  rw [a]
  intro hcon
  have htot := counts_total_fuel fs.base inv.wf.table (t+1) t ht (Nat.lt_succ_self _)
  have h1 : (countF fs.base (t+1) t).1 = 0 := (Prod.mk.inj hcon).1.symm
  have h2 : (countF fs.base (t+1) t).2.1 = 0 := (Prod.mk.inj hcon).2.symm
  rw [h1, h2] at htot
  have : 0 < 2 ^ (countF fs.base (t+1) t).2.2 := Nat.pow_pos (by decide)
  omega

/-- after `fix_import` every entry is exact, model components included, under every feature set
(so the exception concerns nodes created afterwards only) -/
theorem import_counts_exact (c : Cfg) (fs : FStore) (w : WF fs.base) (hd : fs.deps = #[])
    (hc : CntOK true fs.base fs.cnt) : CntOK true (fixImportC c fs).base (fixImportC c fs).cnt :=
  (fixImportC_inv c fs w hd hc).2

/-- `max_depth` (repaired body): cached = recursive = depth component of the naive count -/
theorem max_depth_feature_independent (c : Cfg) (z : Bool) (fs : FStore) (inv : FInv c z fs) (t : Nat)
    (ht : t < fs.base.nodes.size) : maxDepthCfg c fs t = (countF fs.base (t+1) t).2.2 :=
  maxDepthCfg_exact c z fs t inv ht

theorem x0_nodes : (mkNode Store.init 0 0 1).1.nodes = #[⟨VBOT, 0, 0⟩, ⟨VTOP, 1, 1⟩, ⟨0, 0, 1⟩] := by
  simp [mkNode, Store.init]

/-- D3: the body without `+ 1` answers 0 on the one-variable diagram (depth 1) while nothing is
cached; the repaired body answers 1 -/
theorem d3_unrepaired_wrong :
    maxDepthC false (mkNode Store.init 0 0 1).1 ∅ 3 2 = 0 ∧
    (countF (mkNode Store.init 0 0 1).1 3 2).2.2 = 1 ∧
    maxDepthC true (mkNode Store.init 0 0 1).1 ∅ 3 2 = 1 := by
  refine ⟨?_, ?_, ?_⟩
  · simp [maxDepthC, x0_nodes]
  · simp [countF, x0_nodes]
  · simp [maxDepthC, x0_nodes]

/-- D3, in general: the unrepaired body answers 0 for every diagram as long as nothing is cached -/
theorem d3_unrepaired_always_zero (s : Store) : ∀ (fuel t : Nat), maxDepthC false s ∅ fuel t = 0 := by
  intro fuel
  induction fuel with
  | zero => intro t; rfl
  | succ f ih =>
    intro t
    rw [maxDepthC]
    simp only [Std.HashMap.getElem?_empty]
    split
    · rfl
    · cases s.nodes[t]? with
      | none => rfl
      | some n => simp [ih]

/-! ## (d) `new` and `fix_import` establish the invariants -/

theorem new_establishes (c : Cfg) : FInv c true (newC c) ∧ Rel c true (newC c) Store.init :=
  ⟨newC_inv c, Rel.new c⟩

/-- `fix_import` on what deserialisation produces (tables marked `serde(skip)` empty) -/
theorem fix_import_establishes (c : Cfg) (nodes : Array Node) (uniq : Std.HashMap Node Nat)
    (w : WF ⟨nodes, uniq, ∅, ∅⟩) :
    FInv c false (fixImportC c (importC nodes uniq)) ∧
    Rel c false (fixImportC c (importC nodes uniq)) ⟨nodes, uniq, ∅, ∅⟩ := by
  have ⟨a, _⟩ := fixImportC_inv c (importC nodes uniq) w rfl (CntOK_empty _ _)
  exact ⟨a, a, w, rfl, fun _ => rfl⟩

/-- a query that fills the count cache does not disturb the relation -/
theorem Rel.of_query {c : Cfg} {z : Bool} {fs fs' : FStore} {s : Store} (r : Rel c z fs s)
    (hb : fs'.base = fs.base) (inv : FInv c z fs') : Rel c z fs' s :=
  ⟨inv, r.wf, by rw [hb]; exact r.nodes, by rw [hb]; exact r.ite⟩

/-! ## node tables and answers are feature independent -/

theorem mem_hist_lt {s : Store} {hist : List Nat} {fns : List BoolFn} (h : HistOK s hist fns) (t : Nat)
    (ht : t ∈ hist) : t < s.nodes.size := by
  obtain ⟨k, hk, rfl⟩ := List.getElem_of_mem ht
  have := (h.ok k hk).1
  simpa [hget, List.getD, hk] using this

/-- every valid operation sequence, started on a fresh store, issues under every feature set
the handles and builds the node table of the feature-free reference model -/
theorem node_tables_feature_independent (c : Cfg) (ops : List Op) (hops : opsValid ops 2) :
    (runOpsC c ops (newC c) [0, 1]).2 = (runOps ops Store.init [0, 1]).2 ∧
    (runOpsC c ops (newC c) [0, 1]).1.base.nodes = (runOps ops Store.init [0, 1]).1.nodes ∧
    FInv c true (runOpsC c ops (newC c) [0, 1]).1 := by
  have ⟨a, r⟩ := run_rel c true ops (newC c) Store.init [0, 1] _ (Rel.new c) HistOK.init hops
  exact ⟨a, r.nodes, r.inv⟩

/-- hence any two feature sets agree with each other -/
theorem node_tables_agree (c c' : Cfg) (ops : List Op) (hops : opsValid ops 2) :
    (runOpsC c ops (newC c) [0, 1]).2 = (runOpsC c' ops (newC c') [0, 1]).2 ∧
    (runOpsC c ops (newC c) [0, 1]).1.base.nodes = (runOpsC c' ops (newC c') [0, 1]).1.base.nodes := by
  have ⟨a, b, _⟩ := node_tables_feature_independent c ops hops
  have ⟨a', b', _⟩ := node_tables_feature_independent c' ops hops
  exact ⟨a.trans a'.symm, b.trans b'.symm⟩

/-- **C12**: after any valid operation sequence, under every feature set, every query on every
issued handle answers what the feature-free reference model answers — with the one documented
exception, whose answer is (0, 0) -/
theorem answers_feature_independent (c : Cfg) (hv : c.valid) (ops : List Op) (hops : opsValid ops 2)
    (t : Nat) (ht : t ∈ (runOps ops Store.init [0, 1]).2) (memo : Bool) :
    (pathsC c (runOpsC c ops (newC c) [0, 1]).1 t memo).1 = paths (runOps ops Store.init [0, 1]).1 t ∧
    ((c.exc = false ∨ memo = false) →
      (modelsC c (runOpsC c ops (newC c) [0, 1]).1 t memo).1 =
        ((countF (runOps ops Store.init [0, 1]).1 (t+1) t).1, (countF (runOps ops Store.init [0, 1]).1 (t+1) t).2.1)) ∧
    (c.exc = true → 2 ≤ t → (modelsC c (runOpsC c ops (newC c) [0, 1]).1 t true).1 = (0, 0)) ∧
    maxDepthCfg c (runOpsC c ops (newC c) [0, 1]).1 t = (countF (runOps ops Store.init [0, 1]).1 (t+1) t).2.2 ∧
    (∀ x, x ∈ varDepsC c (runOpsC c ops (newC c) [0, 1]).1 t ↔ x ∈ depsOf (runOps ops Store.init [0, 1]).1 t) := by
  have ⟨_, r⟩ := run_rel c true ops (newC c) Store.init [0, 1] _ (Rel.new c) HistOK.init hops
  have ⟨wM, _, hM⟩ := runOps_refines ops Store.init [0, 1] _ WF_init HistOK.init hops
  generalize runOpsC c ops (newC c) [0, 1] = R at *
  generalize runOps ops Store.init [0, 1] = M at *
  have htM : t < M.1.nodes.size := mem_hist_lt hM t ht
  have htR : t < R.1.base.nodes.size := by rw [r.nodes]; exact htM
  have hnv : naive R.1.base t = naive M.1 t := (naive_congr wM.table r.nodes t htM)
  have ⟨p1, p2, p3, p4, p5⟩ := naive_proj R.1.base t
  have ⟨m1, m2, m3, m4, m5⟩ := naive_proj M.1 t
  rw [hnv] at p1 p2 p3 p4 p5
  have hpaths : paths R.1.base t = paths M.1 t := by
    apply Prod.ext
    · rw [← p3, m3]
    · rw [← p4, m4]
  refine ⟨?_, ?_, ?_, ?_, ?_⟩
  · rw [(pathsC_exact c true R.1 t memo r.inv htR).1, hpaths]
  · intro hex
    rw [(modelsC_exact c hv true R.1 t memo r.inv htR hex).1, ← p1, ← p2, m1, m2]
  · intro he ht2
    exact (modelsC_exception c R.1 t r.inv he ht2 htR).1
  · rw [maxDepthCfg_exact c true R.1 t r.inv htR, ← p5, m5]
  · intro x
    rw [varDepsC_exact c true R.1 t r.inv htR x]
    unfold depsOf
    rw [depsF_ext M.1 R.1.base wM.table (ExtN_of_eq r.nodes) (t+1) t htM]

/-! ## non-vacuity -/

/-- the cargo feature sets are valid configurations; the default one is the exception configuration -/
example : Cfg.default.valid ∧ Cfg.none.valid ∧ Cfg.all.valid ∧ Cfg.default.exc = true ∧ Cfg.all.exc = false ∧
    Cfg.none.exc = false := by
  refine ⟨?_, ?_, ?_, rfl, rfl, rfl⟩ <;> intro h <;> first | rfl | cases h

/-- the hypotheses of the operation-sequence theorems hold for a concrete sequence (x0, ¬x0,
x0 ∨ ¬x0, restriction by a variable that does not occur), and the relation holds initially -/
example : opsValid [.var 0, .not 2, .or 2 3, .restrict 2 1 true] 2 ∧ Rel Cfg.default true (newC Cfg.default) Store.init :=
  ⟨⟨by simp [Op.valid, VBOT], by simp [Op.valid], by simp [Op.valid], by simp [Op.valid], trivial⟩, Rel.new _⟩

/-- the exception lemma applies: under the default feature set the store after `var 0` satisfies
the invariant, is in the exception configuration and has the inner node 2 -/
example : FInv Cfg.default true (runOpsC Cfg.default [.var 0] (newC Cfg.default) [0, 1]).1 ∧
    Cfg.default.exc = true ∧ 2 < (runOpsC Cfg.default [.var 0] (newC Cfg.default) [0, 1]).1.base.nodes.size := by
  have ⟨_, b, c⟩ := node_tables_feature_independent Cfg.default [.var 0] ⟨by simp [Op.valid, VBOT], trivial⟩
  refine ⟨c, rfl, ?_⟩
  rw [b]
  simp [runOps, stepOp, mkNode, Store.init]

/-- `fix_import_establishes` applies to the initial tables -/
example : WF ⟨Store.init.nodes, Store.init.uniq, ∅, ∅⟩ := WF_init

end C12

/-! ## the real tables under every feature set

The count cache and the dependency lists exist only under some feature sets; the audit of the
REAL tables dumped from the implementation (`MemoCheck.memoCheckF`, run under every feature set,
with `exc` = the exception configuration and `deps = none` when `variablelist` is off) is a
verified checker: a positive verdict means the dumped tables are exactly what the invariant
`FInv` of this file says about the model's tables (`CntOK`: paths and depth always, model counts
unless the exception; `DepsOK`: the recursive dependency sets). -/
namespace C12

/-- re-export of `C11.memo_audit_sound` -/
theorem memo_audit_sound (nv : Nat) (exc : Bool) (s : Store) (r : MemoCheck.Rows)
    (hwf : wfCheck s.nodes = true) (hc : MemoCheck.memoCheckF nv exc s.nodes r = true) :
    MemoCheck.MemoSound nv exc s r :=
  MemoCheck.memoCheckF_sound nv exc s r (wfCheck_sound s.nodes hwf) hc

end C12
