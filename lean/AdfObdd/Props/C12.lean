import AdfObdd.FeatureOps
import AdfObdd.FeatureNg
import AdfObdd.FeatureLog
import AdfObdd.CountsMore
import AdfObdd.MemoCheckProofs
import AdfObdd.FeatureDepsCard
/-! # C12 — answers are independent of the cargo feature configuration

Model: `FeatureVariants.lean` carries BOTH bodies of every `cfg(feature = …)` split of
`obdd.rs`, selected by a value `c : Cfg` (`adhoccounting`, `adhoccountmodels`, `variablelist`;
`frontend`: with a sender attached, `node` appends each fresh node to the write-only log
`FStore.log`, section (f)): `newC`, `nodeC`,
`restrictC`, `iteCfg`, `pathsC`, `modelsC`, `maxDepthCfg`, `varDepsC`, `fixImportC`, on a store
`FStore` = proved `Store` + `deps` (= `var_deps`) + `cnt` (= `count_cache`). The reference is the
feature-free development: `mkNode`, `restrictF`, `iteF`, `runOps`, `paths`/`pathsF`, `countF`
(= `modelcount_naive`), `depsOf`/`depsF`.

Invariant `FInv c z fs`: base store `WF`; with `variablelist` the table `deps` is exact
(`DepsOK`); every count entry agrees with the naive tuple in paths and depth, and in the model
components unless the feature set is the exception (`CntOK`); with `adhoccounting` every handle
has an entry (`CntFull`); in the exception configuration on a store nothing was imported into
(`z = true`) every inner node's entry has model components 0 (`CntZero`).

Sections: (a)–(d) diagram operations and the four queries; (e) every semantics (grounded,
complete, stable, counting search a/b, nogood search with every heuristic) over the configured
store, by a simulation `Rel c z fs s → same vectors, Rel again` (`FeatureSemantics`,
`FeatureSearch`, `FeatureNg`); (f) the `frontend` channel (`FeatureLog`); (g) path cubes, impacts,
imported stores (with and without `fix_import`), `models` after `fix_import` + new nodes.

## Scope and assumptions (second review, C12 rows 1-3)

* **`var_dependencies` is a set in Rust, a list here.** `var_dependencies_feature_independent` is a
  MEMBERSHIP statement; the list without `variablelist` repeats variables (`x0 ⊕ x1`: `[0, 1, 1]`).
  Consumers of `.len()` (`facet_count`, adf.rs:741) are covered by `var_dependencies_card…`: the
  number of distinct entries (`eraseDups.length`) is the number of essential variables.
* **`Bdd::recv` (obdd/frontend.rs:63-94, only with `frontend`) is NOT modelled in this file.** It
  pushes received nodes to `nodes`/`cache` and forwards them, but updates neither `var_deps` nor
  `count_cache`; with `variablelist`/`adhoccounting` a later `node`/`restrict`/query on such a node
  indexes `var_deps` out of range or hits `expect("Cache corrupted")`. The invariant `FInv` (tables
  as long as the node table, `CntFull`) therefore does not survive `recv`, and every theorem of this
  file is about stores reached by `new`, the operations, the queries, `fix_import` and
  `set_sender` ONLY. The receiving side is C19's subject (`Stream*`), under the feature-free store.
* **The channel behind `set_sender` is assumed unbounded**: the log `FStore.log` is a list to which
  `nodeC` always appends. The sender is supplied by the caller; with a bounded crossbeam channel
  `send` in `node` (obdd.rs:288-371) would block when the consumer lags — a liveness matter outside
  the model; a disconnected receiver makes `send` return `Err`, which the code only logs (the model's
  log then records what was attempted, not what was delivered).
* **Totalised lookups where Rust panics.** `lookupCN` (= `count_cache.get(..).expect(..)`,
  obdd.rs:379,395,412) defaults to `CN.zero`; `fs.deps.getD t []` (= `var_deps[t]`, obdd.rs:222
  and `var_dependencies`) defaults to `[]`; `nodeC` leaves the cache unchanged when a child has no
  entry (= `expect("Cache corrupted")`, obdd.rs:322,324). None of the defaults is reachable under
  `FInv` (`DepsOK` gives the table the node table's length, `CntFull` an entry per handle), which
  every theorem assumes or derives; OUTSIDE `FInv` (foreign handle, import without `fix_import` —
  section (g) `import_without_fix…` states exactly which queries are then still right) the model
  returns the default where the implementation aborts, so no theorem here may be read as "does not
  panic" for such inputs. -/
namespace C12

/-! ## (a) `restrict` and `if_then_else`: the `variablelist` shortcut changes neither handle nor node table -/

/-- Store level: the body with the shortcut ("variable not in the dependency set ⇒ return the
diagram") and the body without return the same handle and the same node table, from any two
well-formed stores with the same node table — whatever their restrict memos contain -/
theorem restrict_shortcut_same (s s' : Store) (w : WF s) (w' : WF s') (hn : s.nodes = s'.nodes)
    (t v : Nat) (b : Bool) (ht : t < s.nodes.size) :
    (restrictS scDeps (t+1) s t v b).2 = (restrictF (t+1) s' t v b).2 ∧
    (restrictS scDeps (t+1) s t v b).1.nodes = (restrictF (t+1) s' t v b).1.nodes := by
  have ⟨a, b'⟩ := restrictS_indep scDeps scNone scDeps_sound scNone_sound (t+1) s s' t v b w w' hn ht
    (Nat.lt_succ_self _)
  rw [restrictS_none] at a b'
  exact ⟨b', a⟩

/-- the same with the shortcut reading the incrementally maintained table, under every feature set -/
theorem restrict_feature_independent (c : Cfg) (z : Bool) (fs : FStore) (s : Store) (r : Rel c z fs s)
    (t v : Nat) (b : Bool) (ht : t < s.nodes.size) :
    (restrictC c (t+1) fs t v b).2 = (restrictF (t+1) s t v b).2 ∧
    (restrictC c (t+1) fs t v b).1.base.nodes = (restrictF (t+1) s t v b).1.nodes ∧
    Rel c z (restrictC c (t+1) fs t v b).1 (restrictF (t+1) s t v b).1 :=
  have ⟨a, b'⟩ := restrict_rel r t v b ht
  ⟨a, b'.nodes, b'⟩

/-- `if_then_else` built on either restrict body: same handle, same node table -/
theorem ite_feature_independent (c : Cfg) (z : Bool) (fs : FStore) (s : Store) (r : Rel c z fs s)
    (i t e : Nat) (hi : i < s.nodes.size) (ht : t < s.nodes.size) (he : e < s.nodes.size) :
    (iteCfg c (i+t+e+1) fs i t e).2 = (iteF (i+t+e+1) s i t e).2 ∧
    (iteCfg c (i+t+e+1) fs i t e).1.base.nodes = (iteF (i+t+e+1) s i t e).1.nodes ∧
    Rel c z (iteCfg c (i+t+e+1) fs i t e).1 (iteF (i+t+e+1) s i t e).1 :=
  have ⟨a, b'⟩ := ite_rel r i t e hi ht he
  ⟨a, b'.nodes, b'⟩

/-- `node`: no table influences the result -/
theorem node_feature_independent (c : Cfg) (fs : FStore) (v lo hi : Nat) :
    (nodeC c fs v lo hi).2 = (mkNode fs.base v lo hi).2 ∧
    (nodeC c fs v lo hi).1.base = (mkNode fs.base v lo hi).1 :=
  ⟨(nodeC_base c fs v lo hi).2, (nodeC_base c fs v lo hi).1⟩

/-! ## (b) `var_dependencies`: the maintained table is the recursive set -/

/-- pushing a node keeps the table exact; the regeneration loop builds an exact table -/
theorem deps_table_exact :
    (∀ (s s' : Store) (tbl : Array (List Nat)) (v lo hi : Nat), TableWF s.nodes →
      s'.nodes = s.nodes.push ⟨v, lo, hi⟩ → lo < s.nodes.size → hi < s.nodes.size → DepsOK s tbl →
      DepsOK s' (tbl.push (depsEntry tbl v lo hi))) ∧
    (∀ s : Store, TableWF s.nodes → DepsOK s (genDeps #[] s.nodes)) :=
  ⟨DepsOK_push, genDeps_ok⟩

/-- `var_dependencies` with `variablelist` (table lookup) and without (recursion) give the same set -/
theorem var_dependencies_feature_independent (c : Cfg) (z : Bool) (fs : FStore) (inv : FInv c z fs) (t : Nat)
    (ht : t < fs.base.nodes.size) (x : Nat) :
    x ∈ varDepsC c fs t ↔ x ∈ depsOf fs.base t := varDepsC_exact c z fs t inv ht x

/-- **cardinality** (`facet_count`, adf.rs:741, and the heuristics read `var_dependencies(..).len()`;
the Rust value is a `HashSet` in both builds, the model value a list which without `variablelist`
repeats a variable once per occurrence — `x0 ⊕ x1`: `[0, 1, 1]`, example below). The number of
DISTINCT entries of the model's list — the `.len()` of the set the code builds — is, under every
feature set, the number of variables the diagram's function depends on: the length of any
duplicate-free enumeration `L` of the essential variables -/
theorem var_dependencies_card (c : Cfg) (z : Bool) (fs : FStore) (inv : FInv c z fs) (t : Nat)
    (ht : t < fs.base.nodes.size) (L : List Nat) (hL : L.Nodup)
    (hE : ∀ x, x ∈ L ↔ Essential (eval fs.base t) x) :
    (varDepsC c fs t).eraseDups.length = L.length :=
  DepsCard.varDepsC_card c z fs inv t ht L hL hE

/-- the same with the enumeration written out: the essential variables among `0 … n-1`
(`DepsCard.essentialBelow f n = (List.range n).filter (Essential f)`, classical), for every `n`
above the listed variables -/
theorem var_dependencies_card_range (c : Cfg) (z : Bool) (fs : FStore) (inv : FInv c z fs) (t : Nat)
    (ht : t < fs.base.nodes.size) (n : Nat) (hn : ∀ x ∈ depsOf fs.base t, x < n) :
    (varDepsC c fs t).eraseDups.length = (DepsCard.essentialBelow (eval fs.base t) n).length :=
  DepsCard.varDepsC_card c z fs inv t ht _ (DepsCard.essentialBelow_nodup _ n)
    (DepsCard.mem_essentialBelow _ n (DepsCard.essential_lt_of_deps fs.base inv.wf t ht n hn))

/-- hence the cardinality is the same under any two feature sets on stores with the same node
table, and equal to that of the recursive list -/
theorem var_dependencies_card_feature_independent (c : Cfg) (z : Bool) (fs : FStore) (inv : FInv c z fs) (t : Nat)
    (ht : t < fs.base.nodes.size) :
    (varDepsC c fs t).eraseDups.length = (depsOf fs.base t).eraseDups.length :=
  DepsCard.distinct_congr (varDepsC_exact c z fs t inv ht)

/-- LEMMAS ONLY (third review, audit L1): each table step keeps entries duplicate-free (`node` pushes; regeneration
from the EMPTY table) and a duplicate-free list's length is its cardinality.  These three facts are NOT tied to `FInv`:
no theorem here says that a reachable store's `var_deps` entry is `Nodup` (`TabInv.deps` = `DepsOK` is size +
membership only, and `fixImportC` regenerates from `fs.deps`, not from `#[]`), so "under `variablelist` the length of
the entry is the cardinality" is NOT a theorem of this development; the main theorems `var_dependencies_card*` use
`eraseDups.length` and do not need it. -/
theorem deps_table_nodup :
    (∀ (tbl : Array (List Nat)), (∀ l ∈ tbl.toList, l.Nodup) → ∀ (v lo hi : Nat),
      ∀ l ∈ (tbl.push (depsEntry tbl v lo hi)).toList, l.Nodup) ∧
    (∀ (ns : Array Node), ∀ l ∈ (genDeps #[] ns).toList, l.Nodup) ∧
    (∀ l : List Nat, l.Nodup → l.eraseDups.length = l.length) :=
  ⟨DepsCard.nodup_push_depsEntry, fun ns => DepsCard.nodup_genDeps ns #[] (by simp),
   fun _ h => DepsCard.distinct_of_nodup h⟩

/-! ## (c) counts -/

/-- the literal transcription of `modelcount_naive` (five numbers) is `countF` together with `pathsF` -/
theorem naive_is_countF (s : Store) (t : Nat) :
    naive s t = ⟨(countF s (t+1) t).1, (countF s (t+1) t).2.1, (paths s t).1, (paths s t).2, (countF s (t+1) t).2.2⟩ :=
  naiveCN_eq s (t+1) t

/-- ad-hoc bookkeeping of `node`: the entry computed from the children's entries agrees with the
recursive tuple — paths and depth always, models with `adhoccountmodels` -/
theorem adhoc_entry_exact (em cm : Bool) (l h L H : CN) (hem : em = true → cm = true)
    (hl : CN.agree em l L) (hh : CN.agree em h H) : CN.agree em (CN.adhoc cm l h) (CN.combine L H) :=
  CN.agree_adhoc hem hl hh

/-- ad-hoc insertion in `node` preserves every table invariant -/
theorem node_preserves_tables (c : Cfg) (z : Bool) (fs : FStore) (v lo hi : Nat) (inv : FInv c z fs)
    (hlo : lo < fs.base.nodes.size) (hhi : hi < fs.base.nodes.size) : TabInv c z (nodeC c fs v lo hi).1 :=
  nodeC_tab c z fs v lo hi inv.wf.table inv.tab hlo hhi

/-- `modelcount_memoization` on an exact cache returns the naive tuple and keeps the cache exact -/
theorem memo_is_naive (s : Store) (w : WF s) (cnt : CntCache) (hc : CntOK true s cnt) (t : Nat)
    (ht : t < s.nodes.size) :
    (memoCN s (t+1) cnt t).1 = naive s t ∧ CntOK true s (memoCN s (t+1) cnt t).2 := by
  have ⟨a, b, _, _⟩ := memoCN_spec true s w.table (t+1) cnt t hc ht (Nat.lt_succ_self _)
  exact ⟨CN.agree_true a, b⟩

/-- `paths`: ad hoc = memoised = naive, under every feature set and both values of the flag -/
theorem paths_feature_independent (c : Cfg) (z : Bool) (fs : FStore) (inv : FInv c z fs) (t : Nat)
    (ht : t < fs.base.nodes.size) (memo : Bool) :
    (pathsC c fs t memo).1 = paths fs.base t ∧ FInv c z (pathsC c fs t memo).2 :=
  have ⟨a, _, b⟩ := pathsC_exact c z fs t memo inv ht
  ⟨a, b⟩

/-- `models`: ad hoc = naive; memoised = naive unless (`adhoccounting` ∧ ¬`adhoccountmodels`) -/
theorem models_feature_independent (c : Cfg) (hv : c.valid) (z : Bool) (fs : FStore) (inv : FInv c z fs) (t : Nat)
    (ht : t < fs.base.nodes.size) (memo : Bool) (hex : c.exc = false ∨ memo = false) :
    (modelsC c fs t memo).1 = ((countF fs.base (t+1) t).1, (countF fs.base (t+1) t).2.1) ∧
    FInv c z (modelsC c fs t memo).2 :=
  have ⟨a, _, b⟩ := modelsC_exact c hv z fs t memo inv ht hex
  ⟨a, b⟩

/-- the documented exception, what it looks like: with `adhoccounting` but without
`adhoccountmodels` (this is the default feature set), on a store built by operations, memoised
`models` answers (0, 0) for every inner node — the cache entry written by `node` has model
components 0 — and that is never the naive answer -/
theorem models_exception (c : Cfg) (fs : FStore) (inv : FInv c true fs) (he : c.exc = true) (t : Nat)
    (ht2 : 2 ≤ t) (ht : t < fs.base.nodes.size) :
    (modelsC c fs t true).1 = (0, 0) ∧
    (modelsC c fs t true).1 ≠ ((countF fs.base (t+1) t).1, (countF fs.base (t+1) t).2.1) := by
  have ⟨a, _⟩ := modelsC_exception c fs t inv he ht2 ht
  refine ⟨a, ?_⟩
  rw [a]
  intro hcon
  have htot := counts_total_fuel fs.base inv.wf.table (t+1) t ht (Nat.lt_succ_self _)
  have h1 : (countF fs.base (t+1) t).1 = 0 := (Prod.mk.inj hcon).1.symm
  have h2 : (countF fs.base (t+1) t).2.1 = 0 := (Prod.mk.inj hcon).2.symm
  rw [h1, h2] at htot
  have : 0 < 2 ^ (countF fs.base (t+1) t).2.2 := Nat.pow_pos (by decide)
  omega

/-- after `fix_import` every entry is exact, model components included, under every feature set
(so the exception concerns nodes created afterwards only) -/
theorem import_counts_exact (c : Cfg) (fs : FStore) (w : WF fs.base) (hd : fs.deps = #[])
    (hc : CntOK true fs.base fs.cnt) : CntOK true (fixImportC c fs).base (fixImportC c fs).cnt :=
  (fixImportC_inv c fs w hd hc).2

/-- `max_depth` (repaired body): cached = recursive = depth component of the naive count -/
theorem max_depth_feature_independent (c : Cfg) (z : Bool) (fs : FStore) (inv : FInv c z fs) (t : Nat)
    (ht : t < fs.base.nodes.size) : maxDepthCfg c fs t = (countF fs.base (t+1) t).2.2 :=
  maxDepthCfg_exact c z fs t inv ht

theorem x0_nodes : (mkNode Store.init 0 0 1).1.nodes = #[⟨VBOT, 0, 0⟩, ⟨VTOP, 1, 1⟩, ⟨0, 0, 1⟩] := by
  simp [mkNode, Store.init]

/-- D3: the body without `+ 1` answers 0 on the one-variable diagram (depth 1) while nothing is
cached; the repaired body answers 1 -/
theorem d3_unrepaired_wrong :
    maxDepthC false (mkNode Store.init 0 0 1).1 ∅ 3 2 = 0 ∧
    (countF (mkNode Store.init 0 0 1).1 3 2).2.2 = 1 ∧
    maxDepthC true (mkNode Store.init 0 0 1).1 ∅ 3 2 = 1 := by
  refine ⟨?_, ?_, ?_⟩
  · simp [maxDepthC, x0_nodes]
  · simp [countF, x0_nodes]
  · simp [maxDepthC, x0_nodes]

/-- D3, in general: the unrepaired body answers 0 for every diagram as long as nothing is cached -/
theorem d3_unrepaired_always_zero (s : Store) : ∀ (fuel t : Nat), maxDepthC false s ∅ fuel t = 0 := by
  intro fuel
  induction fuel with
  | zero => intro t; rfl
  | succ f ih =>
    intro t
    rw [maxDepthC]
    simp only [Std.HashMap.getElem?_empty]
    split
    · rfl
    · cases s.nodes[t]? with
      | none => rfl
      | some n => simp [ih]

/-! ## (d) `new` and `fix_import` establish the invariants -/

theorem new_establishes (c : Cfg) : FInv c true (newC c) ∧ Rel c true (newC c) Store.init :=
  ⟨newC_inv c, Rel.new c⟩

/-- `fix_import` on what deserialisation produces (tables marked `serde(skip)` empty) -/
theorem fix_import_establishes (c : Cfg) (nodes : Array Node) (uniq : Std.HashMap Node Nat)
    (w : WF ⟨nodes, uniq, ∅, ∅⟩) :
    FInv c false (fixImportC c (importC nodes uniq)) ∧
    Rel c false (fixImportC c (importC nodes uniq)) ⟨nodes, uniq, ∅, ∅⟩ := by
  have ⟨a, _⟩ := fixImportC_inv c (importC nodes uniq) w rfl (CntOK_empty _ _)
  exact ⟨a, a, w, rfl, fun _ => rfl⟩

/-- a query that fills the count cache does not disturb the relation -/
theorem Rel.of_query {c : Cfg} {z : Bool} {fs fs' : FStore} {s : Store} (r : Rel c z fs s)
    (hb : fs'.base = fs.base) (inv : FInv c z fs') : Rel c z fs' s :=
  ⟨inv, r.wf, by rw [hb]; exact r.nodes, by rw [hb]; exact r.ite⟩

/-! ## node tables and answers are feature independent -/

theorem mem_hist_lt {s : Store} {hist : List Nat} {fns : List BoolFn} (h : HistOK s hist fns) (t : Nat)
    (ht : t ∈ hist) : t < s.nodes.size := by
  obtain ⟨k, hk, rfl⟩ := List.getElem_of_mem ht
  have := (h.ok k hk).1
  simpa [hget, List.getD, hk] using this

/-- every valid operation sequence, started on a fresh store, issues under every feature set
the handles and builds the node table of the feature-free reference model -/
theorem node_tables_feature_independent (c : Cfg) (ops : List Op) (hops : opsValid ops 2) :
    (runOpsC c ops (newC c) [0, 1]).2 = (runOps ops Store.init [0, 1]).2 ∧
    (runOpsC c ops (newC c) [0, 1]).1.base.nodes = (runOps ops Store.init [0, 1]).1.nodes ∧
    FInv c true (runOpsC c ops (newC c) [0, 1]).1 := by
  have ⟨a, r⟩ := run_rel c true ops (newC c) Store.init [0, 1] _ (Rel.new c) HistOK.init hops
  exact ⟨a, r.nodes, r.inv⟩

/-- hence any two feature sets agree with each other -/
theorem node_tables_agree (c c' : Cfg) (ops : List Op) (hops : opsValid ops 2) :
    (runOpsC c ops (newC c) [0, 1]).2 = (runOpsC c' ops (newC c') [0, 1]).2 ∧
    (runOpsC c ops (newC c) [0, 1]).1.base.nodes = (runOpsC c' ops (newC c') [0, 1]).1.base.nodes := by
  have ⟨a, b, _⟩ := node_tables_feature_independent c ops hops
  have ⟨a', b', _⟩ := node_tables_feature_independent c' ops hops
  exact ⟨a.trans a'.symm, b.trans b'.symm⟩

/-- **C12**: after any valid operation sequence, under every feature set, every query on every
issued handle answers what the feature-free reference model answers — with the one documented
exception, whose answer is (0, 0) -/
theorem answers_feature_independent (c : Cfg) (hv : c.valid) (ops : List Op) (hops : opsValid ops 2)
    (t : Nat) (ht : t ∈ (runOps ops Store.init [0, 1]).2) (memo : Bool) :
    (pathsC c (runOpsC c ops (newC c) [0, 1]).1 t memo).1 = paths (runOps ops Store.init [0, 1]).1 t ∧
    ((c.exc = false ∨ memo = false) →
      (modelsC c (runOpsC c ops (newC c) [0, 1]).1 t memo).1 =
        ((countF (runOps ops Store.init [0, 1]).1 (t+1) t).1, (countF (runOps ops Store.init [0, 1]).1 (t+1) t).2.1)) ∧
    (c.exc = true → 2 ≤ t → (modelsC c (runOpsC c ops (newC c) [0, 1]).1 t true).1 = (0, 0)) ∧
    maxDepthCfg c (runOpsC c ops (newC c) [0, 1]).1 t = (countF (runOps ops Store.init [0, 1]).1 (t+1) t).2.2 ∧
    (∀ x, x ∈ varDepsC c (runOpsC c ops (newC c) [0, 1]).1 t ↔ x ∈ depsOf (runOps ops Store.init [0, 1]).1 t) := by
  have ⟨_, r⟩ := run_rel c true ops (newC c) Store.init [0, 1] _ (Rel.new c) HistOK.init hops
  have ⟨wM, _, hM⟩ := runOps_refines ops Store.init [0, 1] _ WF_init HistOK.init hops
  generalize runOpsC c ops (newC c) [0, 1] = R at *
  generalize runOps ops Store.init [0, 1] = M at *
  have htM : t < M.1.nodes.size := mem_hist_lt hM t ht
  have htR : t < R.1.base.nodes.size := by rw [r.nodes]; exact htM
  have hnv : naive R.1.base t = naive M.1 t := (naive_congr wM.table r.nodes t htM)
  have ⟨p1, p2, p3, p4, p5⟩ := naive_proj R.1.base t
  have ⟨m1, m2, m3, m4, m5⟩ := naive_proj M.1 t
  rw [hnv] at p1 p2 p3 p4 p5
  have hpaths : paths R.1.base t = paths M.1 t := by
    apply Prod.ext
    · rw [← p3, m3]
    · rw [← p4, m4]
  refine ⟨?_, ?_, ?_, ?_, ?_⟩
  · rw [(pathsC_exact c true R.1 t memo r.inv htR).1, hpaths]
  · intro hex
    rw [(modelsC_exact c hv true R.1 t memo r.inv htR hex).1, ← p1, ← p2, m1, m2]
  · intro he ht2
    exact (modelsC_exception c R.1 t r.inv he ht2 htR).1
  · rw [maxDepthCfg_exact c true R.1 t r.inv htR, ← p5, m5]
  · intro x
    rw [varDepsC_exact c true R.1 t r.inv htR x]
    unfold depsOf
    rw [depsF_ext M.1 R.1.base wM.table (ExtN_of_eq r.nodes) (t+1) t htM]

/-! ## non-vacuity -/

/-- the cargo feature sets are valid configurations; the default one is the exception configuration -/
example : Cfg.default.valid ∧ Cfg.none.valid ∧ Cfg.all.valid ∧ Cfg.default.exc = true ∧ Cfg.all.exc = false ∧
    Cfg.none.exc = false := by
  refine ⟨?_, ?_, ?_, rfl, rfl, rfl⟩ <;> intro h <;> first | rfl | cases h

/-- the hypotheses of the operation-sequence theorems hold for a concrete sequence (x0, ¬x0,
x0 ∨ ¬x0, restriction by a variable that does not occur), and the relation holds initially -/
example : opsValid [.var 0, .not 2, .or 2 3, .restrict 2 1 true] 2 ∧ Rel Cfg.default true (newC Cfg.default) Store.init :=
  ⟨⟨by simp [Op.valid, VBOT], by simp [Op.valid], by simp [Op.valid], by simp [Op.valid], trivial⟩, Rel.new _⟩

/-- the exception lemma applies: under the default feature set the store after `var 0` satisfies
the invariant, is in the exception configuration and has the inner node 2 -/
example : FInv Cfg.default true (runOpsC Cfg.default [.var 0] (newC Cfg.default) [0, 1]).1 ∧
    Cfg.default.exc = true ∧ 2 < (runOpsC Cfg.default [.var 0] (newC Cfg.default) [0, 1]).1.base.nodes.size := by
  have ⟨_, b, c⟩ := node_tables_feature_independent Cfg.default [.var 0] ⟨by simp [Op.valid, VBOT], trivial⟩
  refine ⟨c, rfl, ?_⟩
  rw [b]
  simp [runOps, stepOp, mkNode, Store.init]

/-- the hypotheses of the cardinality theorems hold on the store of `x0, x1, x0 ⊕ x1` under every
feature set, and every issued handle (the last one, 5, is the ⊕) is in range -/
example (c : Cfg) : FInv c true (runOpsC c [.var 0, .var 1, .xor 2 3] (newC c) [0, 1]).1 ∧
    ∀ t ∈ (runOps [.var 0, .var 1, .xor 2 3] Store.init [0, 1]).2,
      t < (runOpsC c [.var 0, .var 1, .xor 2 3] (newC c) [0, 1]).1.base.nodes.size := by
  have hv : opsValid [.var 0, .var 1, .xor 2 3] 2 :=
    ⟨by simp [Op.valid, VBOT], by simp [Op.valid, VBOT], by simp [Op.valid], trivial⟩
  have ⟨_, b, i⟩ := node_tables_feature_independent c [.var 0, .var 1, .xor 2 3] hv
  refine ⟨i, ?_⟩
  rw [b]
  have ⟨_, _, h3⟩ := runOps_refines [.var 0, .var 1, .xor 2 3] Store.init [0, 1] _ WF_init HistOK.init hv
  exact fun t ht => mem_hist_lt h3 t ht
#guard (runOps [.var 0, .var 1, .xor 2 3] Store.init [0, 1]).2 == [0, 1, 2, 3, 5]

/-- the node table that run produces (checked by evaluation below): x0, x1, ¬x1, x0 ⊕ x1 -/
def xorTable : Array Node := #[⟨VBOT, 0, 0⟩, ⟨VTOP, 1, 1⟩, ⟨0, 0, 1⟩, ⟨1, 0, 1⟩, ⟨1, 1, 0⟩, ⟨0, 3, 4⟩]
#guard (runOps [.var 0, .var 1, .xor 2 3] Store.init [0, 1]).1.nodes == xorTable
#guard varDepsC Cfg.none (runOpsC Cfg.none [.var 0, .var 1, .xor 2 3] (newC Cfg.none) [0, 1]).1 5 == [0, 1, 1]
#guard varDepsC Cfg.default (runOpsC Cfg.default [.var 0, .var 1, .xor 2 3] (newC Cfg.default) [0, 1]).1 5 == [0, 1]

/-- on that table the recursive list has a duplicate (length 3) and two distinct entries: the
membership statement alone does not determine `.len()`, the cardinality statement does -/
example : depsOf ⟨xorTable, ∅, ∅, ∅⟩ 5 = [0, 1, 1] ∧ (depsOf ⟨xorTable, ∅, ∅, ∅⟩ 5).eraseDups.length = 2 ∧
    depsEntry #[[], [], [0], [1], [1]] 0 3 4 = [0, 1] := by decide +kernel

/-- `fix_import_establishes` applies to the initial tables -/
example : WF ⟨Store.init.nodes, Store.init.uniq, ∅, ∅⟩ := WF_init

end C12

namespace C12

/-! ## (e) every semantics returns the same answers under every feature set

The semantics under a feature set `c` run on the configured store: `groundedLoop (CfgRA c)`,
`completeAllG (CfgRA c)`, `stableAllG (CfgRA c)` (the generic routines instantiated with the
restriction algebra of the configured store: `Bdd::restrict` with the `variablelist` shortcut and
the ad-hoc tables), `countAllC c` (`stable_count_optimisation_heu_a/b`; heuristics and `paths`
read the ad-hoc / memoised count cache and the dependency table, and thread the store because a
query may fill the cache) and `ngSearchC c` (`nogood_internal`, every heuristic). The reference is
what the driver executes against the real code: `groundedLoop StoreRA`, `completeAll`, `stableAll`,
`countAll`, `SM.ngSearch`. Hypothesis: `Rel c z fs s` (same node table, invariants of the tables);
no hypothesis on the vector `ac` is needed (outside the node table both stores return their
argument). `z` is arbitrary: built by operations or imported + `fix_import`. -/

/-- the executed models are the generic routines on the reference store -/
theorem reference_is_generic (s : Store) (n : Nat) (ac : List Nat) :
    completeAllG StoreRA s n ac = completeAll s n ac ∧ stableAllG StoreRA s n ac = stableAll s n ac :=
  ⟨completeAllG_store s n ac, stableAllG_store s n ac⟩

/-- **C12, semantics**: grounded, complete, stable, the counting search with either heuristic and
the nogood search with every heuristic return — handle for handle — the vectors of the reference
model, under every feature set (`frontend` and an attached sender included: `Rel` does not
mention them) -/
theorem semantics_feature_independent (c : Cfg) (z : Bool) (fs : FStore) (s : Store) (r : Rel c z fs s)
    (n : Nat) (ac : List Nat) :
    (groundedLoop (CfgRA c) (n+1) fs ac).2 = (groundedLoop StoreRA (n+1) s ac).2 ∧
    (completeAllG (CfgRA c) fs n ac).2 = (completeAll s n ac).2 ∧
    (stableAllG (CfgRA c) fs n ac).2 = (stableAll s n ac).2 ∧
    (∀ useA, (countAllC c fs n ac useA).2 = (countAll s n ac useA).2) ∧
    (∀ heu fuel stable, (ngSearchC c heu fuel fs n ac stable).2 = (SM.ngSearch heu fuel s n ac stable).2) := by
  have st := Stable.true c
  have sim := cfg_sim c z _ st
  have h : RelP c z (fun _ => True) fs s := ⟨r, trivial⟩
  refine ⟨(groundedLoop_sim sim _ fs s ac h).1, ?_, ?_, ?_, ?_⟩
  · rw [← completeAllG_store]; exact (completeAllG_sim sim fs s n ac h).1
  · rw [← stableAllG_store]; exact (stableAllG_sim sim fs s n ac h).1
  · intro useA; exact (countAllC_sim c z _ st fs s n ac useA h).1
  · intro heu fuel stable; exact (ngSearchC_sim st heu fuel fs s n ac stable h).1

/-- the stores after each semantics are again related (so queries and further runs agree too) -/
theorem semantics_keep_rel (c : Cfg) (z : Bool) (fs : FStore) (s : Store) (r : Rel c z fs s)
    (n : Nat) (ac : List Nat) :
    Rel c z (groundedLoop (CfgRA c) (n+1) fs ac).1 (groundedLoop StoreRA (n+1) s ac).1 ∧
    Rel c z (completeAllG (CfgRA c) fs n ac).1 (completeAll s n ac).1 ∧
    Rel c z (stableAllG (CfgRA c) fs n ac).1 (stableAll s n ac).1 ∧
    (∀ useA, Rel c z (countAllC c fs n ac useA).1 (countAll s n ac useA).1) ∧
    (∀ heu fuel stable, Rel c z (ngSearchC c heu fuel fs n ac stable).1 (SM.ngSearch heu fuel s n ac stable).1) := by
  have st := Stable.true c
  have sim := cfg_sim c z _ st
  have h : RelP c z (fun _ => True) fs s := ⟨r, trivial⟩
  refine ⟨(groundedLoop_sim sim _ fs s ac h).2.1, ?_, ?_, ?_, ?_⟩
  · rw [← completeAllG_store]; exact (completeAllG_sim sim fs s n ac h).2.1
  · rw [← stableAllG_store]; exact (stableAllG_sim sim fs s n ac h).2.1
  · intro useA; exact (countAllC_sim c z _ st fs s n ac useA h).2.1
  · intro heu fuel stable; exact (ngSearchC_sim st heu fuel fs s n ac stable h).2.1

/-- hence: build the conditions by any valid operation sequence under two feature sets, run any
semantics on any vector of handles — the answers coincide -/
theorem semantics_agree (c c' : Cfg) (ops : List Op) (hops : opsValid ops 2) (n : Nat) (ac : List Nat) :
    let fs := (runOpsC c ops (newC c) [0, 1]).1
    let fs' := (runOpsC c' ops (newC c') [0, 1]).1
    (groundedLoop (CfgRA c) (n+1) fs ac).2 = (groundedLoop (CfgRA c') (n+1) fs' ac).2 ∧
    (completeAllG (CfgRA c) fs n ac).2 = (completeAllG (CfgRA c') fs' n ac).2 ∧
    (stableAllG (CfgRA c) fs n ac).2 = (stableAllG (CfgRA c') fs' n ac).2 ∧
    (∀ useA, (countAllC c fs n ac useA).2 = (countAllC c' fs' n ac useA).2) ∧
    (∀ heu fuel stable, (ngSearchC c heu fuel fs n ac stable).2 = (ngSearchC c' heu fuel fs' n ac stable).2) := by
  intro fs fs'
  have ⟨_, r⟩ := run_rel c true ops (newC c) Store.init [0, 1] _ (Rel.new c) HistOK.init hops
  have ⟨_, r'⟩ := run_rel c' true ops (newC c') Store.init [0, 1] _ (Rel.new c') HistOK.init hops
  have ⟨a1, a2, a3, a4, a5⟩ := semantics_feature_independent c true fs _ r n ac
  have ⟨b1, b2, b3, b4, b5⟩ := semantics_feature_independent c' true fs' _ r' n ac
  exact ⟨a1.trans b1.symm, a2.trans b2.symm, a3.trans b3.symm, fun u => (a4 u).trans (b4 u).symm,
    fun h f st => (a5 h f st).trans (b5 h f st).symm⟩

/-- every section the command line tool prints (`--grd --com --twoval --stm --stmca --stmcb
--stmpre --stmrew --stmng`, naive and hybrid arm, every heuristic): `runCliC c` runs the sections
on the configured store, threading it from section to section as the tool does;
`stable_with_prefilter` (`stablePreG`) is the one routine not in `semantics_feature_independent` -/
theorem cli_sections_feature_independent (c : Cfg) (z : Bool) (fs : FStore) (s : Store) (r : Rel c z fs s)
    (m : Cli.Mode) (f : Cli.Flags) (heu : SM.Heu) (n : Nat) (ac : List Nat) :
    runCliC c m f heu fs n ac = Cli.run m f heu s n ac :=
  runCliC_sim (Stable.true c) m f heu fs s n ac (⟨r, trivial⟩ : RelP c z (fun _ => True) fs s)

/-- bonus (C01 under every feature set): the grounded loop on the configured store computes the
least fixpoint of Γ — the generic theorem applies to `CfgRA c` -/
theorem grounded_correct_every_config (c : Cfg) (z : Bool) (fs : FStore) (inv : FInv c z fs) (fuel : Nat)
    (ac : List Nat) (hv : ∀ t ∈ ac, t < fs.base.nodes.size) (hf : ac.length < fuel) :
    let D := ac.map (eval fs.base)
    let g := (groundedLoop (CfgRA c) fuel fs ac).2.map storeIsConst
    Gam D g = g ∧ ∀ w', Gam D w' = w' → Le3 g w' :=
  grounded_correct (CfgRA c) fuel fs ac ⟨z, inv⟩ hv hf

/-! ## (f) `frontend`: the channel is write-only and carries exactly the created nodes

`FStore.sender` = a `crossbeam_channel::Sender` is attached (`set_sender`), `FStore.log` = the
arguments of the `send` calls of `Bdd::node`, oldest first. A failed `send` (receiver dropped) is
only logged by the code, so the calls are what there is to model. -/

/-- attaching a sender does not disturb the relation (no table is touched) -/
theorem rel_setSender {c : Cfg} {z : Bool} {fs : FStore} {s : Store} (r : Rel c z fs s) : Rel c z fs.setSender s :=
  r.setSender

/-- the answers of every semantics with a sender attached are those without (both are the
reference answers), under every feature set -/
theorem sender_irrelevant (c : Cfg) (z : Bool) (fs : FStore) (s : Store) (r : Rel c z fs s) (n : Nat) (ac : List Nat) :
    (groundedLoop (CfgRA c) (n+1) fs.setSender ac).2 = (groundedLoop (CfgRA c) (n+1) fs ac).2 ∧
    (completeAllG (CfgRA c) fs.setSender n ac).2 = (completeAllG (CfgRA c) fs n ac).2 ∧
    (stableAllG (CfgRA c) fs.setSender n ac).2 = (stableAllG (CfgRA c) fs n ac).2 ∧
    (∀ useA, (countAllC c fs.setSender n ac useA).2 = (countAllC c fs n ac useA).2) ∧
    (∀ heu fuel stable, (ngSearchC c heu fuel fs.setSender n ac stable).2 = (ngSearchC c heu fuel fs n ac stable).2) := by
  have ⟨a1, a2, a3, a4, a5⟩ := semantics_feature_independent c z fs s r n ac
  have ⟨b1, b2, b3, b4, b5⟩ := semantics_feature_independent c z fs.setSender s r.setSender n ac
  exact ⟨b1.trans a1.symm, b2.trans a2.symm, b3.trans a3.symm, fun u => (b4 u).trans (a4 u).symm,
    fun h f st => (b5 h f st).trans (a5 h f st).symm⟩

/-- what the log of a result store is, given the log invariant -/
theorem log_of_inv {c : Cfg} {fs0 fs : FStore} (h : LogInv c fs0.base.nodes.size fs0.log fs) (hs : fs.sender = true) :
    fs.log = fs0.log ++ (if c.frontend then StreamF.created fs0.base fs.base else []) := by
  have := h.2
  rw [hs, Bool.and_true] at this
  exact this

/-- **C12, frontend**: attach a sender to a store and run an operation sequence or any semantics.
Then (1) handles, node table and answers are those of the reference (which has no channel),
(2) with the feature the log has grown by exactly the nodes created, in creation order,
(3) without the feature it has not grown. Stated for the operation sequences and the five semantics. -/
theorem frontend_channel (c : Cfg) (z : Bool) (fs : FStore) (s : Store) (r : Rel c z fs s) (n : Nat) (ac : List Nat) :
    let grow := fun (fs' : FStore) => fs'.log = fs.log ++ (if c.frontend then StreamF.created fs.base fs'.base else [])
    (∀ ops hist fns, HistOK s hist fns → opsValid ops hist.length →
      (runOpsC c ops fs.setSender hist).2 = (runOps ops s hist).2 ∧
      (runOpsC c ops fs.setSender hist).1.base.nodes = (runOps ops s hist).1.nodes ∧
      grow (runOpsC c ops fs.setSender hist).1) ∧
    grow (groundedLoop (CfgRA c) (n+1) fs.setSender ac).1 ∧
    grow (completeAllG (CfgRA c) fs.setSender n ac).1 ∧
    grow (stableAllG (CfgRA c) fs.setSender n ac).1 ∧
    (∀ useA, grow (countAllC c fs.setSender n ac useA).1) ∧
    (∀ heu fuel stable, grow (ngSearchC c heu fuel fs.setSender n ac stable).1) := by
  intro grow
  have st := LogInv.stable c fs.base.nodes.size fs.log
  have sim := cfg_sim c z _ st
  have h : RelP c z (LogInv c fs.base.nodes.size fs.log) fs.setSender s := ⟨r.setSender, LogInv.attach c fs⟩
  -- the sender flag is kept: read it off the invariant is not possible, so carry it as a second predicate
  have stS : Stable c (fun fs' : FStore => fs'.sender = true) :=
    ⟨fun fs' v lo hi hs => by
        unfold nodeC; split
        · exact hs
        · split
          · exact hs
          · exact hs,
      fun _ _ _ hs => hs, fun _ _ _ hs => hs, fun _ _ _ hs => hs⟩
  have st2 := Stable.and st stS
  have sim2 := cfg_sim c z _ st2
  have h2 : RelP c z (fun fs' => LogInv c fs.base.nodes.size fs.log fs' ∧ fs'.sender = true) fs.setSender s :=
    ⟨r.setSender, LogInv.attach c fs, rfl⟩
  have fin : ∀ fs' : FStore, (LogInv c fs.base.nodes.size fs.log fs' ∧ fs'.sender = true) → grow fs' :=
    fun fs' hh => log_of_inv hh.1 hh.2
  refine ⟨?_, ?_, ?_, ?_, ?_, ?_⟩
  · intro ops hist fns hh hv
    have ⟨a, b⟩ := run_relP c z st2 ops fs.setSender s hist fns h2 hh hv
    exact ⟨a, b.1.nodes, fin _ b.2⟩
  · exact fin _ (groundedLoop_sim sim2 _ _ s ac h2).2.2
  · exact fin _ (completeAllG_sim sim2 _ s n ac h2).2.2
  · exact fin _ (stableAllG_sim sim2 _ s n ac h2).2.2
  · intro useA; exact fin _ (countAllC_sim c z _ st2 _ s n ac useA h2).2.2
  · intro heu fuel stable; exact fin _ (ngSearchC_sim st2 heu fuel _ s n ac stable h2).2.2

/-- no sender (the state after `Bdd::new`) or feature off: no routine appends to the log -/
theorem no_sender_no_log (c : Cfg) (z : Bool) (fs : FStore) (s : Store) (r : Rel c z fs s)
    (hoff : (c.frontend && fs.sender) = false) (n : Nat) (ac : List Nat) :
    (∀ ops hist, (runOpsC c ops fs hist).1.log = fs.log) ∧
    (groundedLoop (CfgRA c) (n+1) fs ac).1.log = fs.log ∧
    (completeAllG (CfgRA c) fs n ac).1.log = fs.log ∧
    (stableAllG (CfgRA c) fs n ac).1.log = fs.log ∧
    (∀ useA, (countAllC c fs n ac useA).1.log = fs.log) ∧
    (∀ heu fuel stable, (ngSearchC c heu fuel fs n ac stable).1.log = fs.log) := by
  -- predicate: the flag combination stays off and the log stays `fs.log`
  have st : Stable c (fun fs' : FStore => (c.frontend && fs'.sender) = false ∧ fs'.log = fs.log) :=
    ⟨fun fs' v lo hi hs => by
        unfold nodeC; split
        · exact hs
        · split
          · exact hs
          · exact ⟨hs.1, by simp only [hs.1, Bool.false_eq_true, if_false]; exact hs.2⟩,
      fun _ _ _ hs => hs, fun _ _ _ hs => hs, fun _ _ _ hs => hs⟩
  have sim := cfg_sim c z _ st
  have h : RelP c z (fun fs' : FStore => (c.frontend && fs'.sender) = false ∧ fs'.log = fs.log) fs s := ⟨r, hoff, rfl⟩
  refine ⟨fun ops hist => (runOpsC_pres st ops fs hist h.2).2, (groundedLoop_sim sim _ _ s ac h).2.2.2,
    (completeAllG_sim sim _ s n ac h).2.2.2, (stableAllG_sim sim _ s n ac h).2.2.2,
    fun useA => (countAllC_sim c z _ st _ s n ac useA h).2.2.2,
    fun heu fuel stable => (ngSearchC_sim st heu fuel _ s n ac stable h).2.2.2⟩

/-! ## (g) path cubes, impacts, imported stores -/

/-- `interpretations`, `passive_var_impact`, `active_var_impact` (and the membership test on
`var_dependencies` they are made of): same answers for every handle and every vector -/
theorem cubes_impacts_feature_independent (c : Cfg) (z : Bool) (fs : FStore) (s : Store) (r : Rel c z fs s) :
    (∀ t goal gv, cubesC fs t goal gv = cubesOf s t goal gv) ∧
    (∀ v interp, passiveC c fs v interp = passive s v interp) ∧
    (∀ v interp, activeC c fs v interp = active s v interp) ∧
    (∀ t v, depsHasC c fs t v = (depsOf s t).contains v) ∧
    (∀ t, (pathsQ c fs t).1 = paths s t) :=
  ⟨cubesC_rel r, passiveC_rel r, activeC_rel r, depsHasC_rel r,
   fun t => (pathsQ_rel (Stable.true c) (⟨r, trivial⟩ : RelP c z (fun _ => True) fs s) t).1⟩

/-- `restrict` for every handle, valid or not, on a store of either origin (`z`) -/
theorem restrict_feature_independent_total (c : Cfg) (z : Bool) (fs : FStore) (s : Store) (r : Rel c z fs s)
    (t v : Nat) (b : Bool) :
    (restrictC c (t+1) fs t v b).2 = (restrictF (t+1) s t v b).2 ∧
    Rel c z (restrictC c (t+1) fs t v b).1 (restrictF (t+1) s t v b).1 := restrict_rel_total r t v b

/-- **imported stores**: deserialise (`serde(skip)` tables empty), `fix_import`, then any valid
operation sequence over any valid handles of the imported table. Under every feature set: the
handles and the node table of the reference run from the bare imported tables; every query on an
issued handle answers as the reference — except memoised `models` in the exception
configuration, which is exact (the count at import time = the count now) on imported nodes and
(0, 0) on nodes created after the import -/
theorem answers_after_import (c : Cfg) (hv : c.valid) (nodes : Array Node) (uniq : Std.HashMap Node Nat)
    (w : WF ⟨nodes, uniq, ∅, ∅⟩) (hist : List Nat) (hh : ∀ t ∈ hist, t < nodes.size)
    (ops : List Op) (hops : opsValid ops hist.length) :
    let s0 : Store := ⟨nodes, uniq, ∅, ∅⟩
    let R := runOpsC c ops (fixImportC c (importC nodes uniq)) hist
    let M := runOps ops s0 hist
    R.2 = M.2 ∧ R.1.base.nodes = M.1.nodes ∧ Rel c false R.1 M.1 ∧
    ∀ t, t ∈ M.2 → ∀ memo,
      (pathsC c R.1 t memo).1 = paths M.1 t ∧
      maxDepthCfg c R.1 t = (countF M.1 (t+1) t).2.2 ∧
      (∀ x, x ∈ varDepsC c R.1 t ↔ x ∈ depsOf M.1 t) ∧
      ((c.exc = false ∨ memo = false) →
        (modelsC c R.1 t memo).1 = ((countF M.1 (t+1) t).1, (countF M.1 (t+1) t).2.1)) ∧
      (c.exc = true → 2 ≤ t → t < nodes.size →
        (modelsC c R.1 t true).1 = ((countF M.1 (t+1) t).1, (countF M.1 (t+1) t).2.1)) ∧
      (c.exc = true → nodes.size ≤ t → (modelsC c R.1 t true).1 = (0, 0)) := by
  intro s0 R M
  have r0 := (fix_import_establishes c nodes uniq w).2
  have hist0 := HistOK.of_valid s0 hist hh
  have stE := ExtFrom.stable c nodes
  have e0 : ExtFrom nodes (fixImportC c (importC nodes uniq)) := ⟨Nat.le_refl _, fun _ _ h => h⟩
  have ⟨q, rr, ext⟩ := run_relP c false stE ops _ s0 hist _ ⟨r0, e0⟩ hist0 hops
  have ⟨wM, _, hM⟩ := runOps_refines ops s0 hist _ w hist0 hops
  refine ⟨q, rr.nodes, rr, ?_⟩
  intro t ht memo
  have htM : t < M.1.nodes.size := mem_hist_lt hM t ht
  have htR : t < R.1.base.nodes.size := by rw [rr.nodes]; exact htM
  have hnv : naive R.1.base t = naive M.1 t := naive_congr wM.table rr.nodes t htM
  have ⟨p1, p2, p3, p4, p5⟩ := naive_proj R.1.base t
  have ⟨m1, m2, m3, m4, m5⟩ := naive_proj M.1 t
  rw [hnv] at p1 p2 p3 p4 p5
  have hpaths : paths R.1.base t = paths M.1 t := by
    apply Prod.ext
    · rw [← p3, m3]
    · rw [← p4, m4]
  refine ⟨?_, ?_, ?_, ?_, ?_, ?_⟩
  · rw [(pathsC_exact c false R.1 t memo rr.inv htR).1, hpaths]
  · rw [maxDepthCfg_exact c false R.1 t rr.inv htR, ← p5, m5]
  · intro x
    rw [varDepsC_exact c false R.1 t rr.inv htR x]
    unfold depsOf
    rw [depsF_ext M.1 R.1.base wM.table (ExtN_of_eq rr.nodes) (t+1) t htM]
  · intro hex
    rw [(modelsC_exact c hv false R.1 t memo rr.inv htR hex).1, ← p1, ← p2, m1, m2]
  · intro he ht2 hk
    have stS := CntSplit.stable c he nodes.size (naive s0)
    have sp : CntSplit nodes.size (naive s0) R.1 := runOpsC_pres stS ops _ hist (CntSplit.import c nodes uniq w)
    rw [((modelsC_split c he false R.1 rr.inv _ _ sp t ht2 htR).2 hk)]
    -- the tuple computed at import time is the tuple now
    have hold : naive R.1.base t = naive s0 t := naive_ext s0 R.1.base w.table ext.2 t hk
    have ⟨o1, o2, _, _, _⟩ := naive_proj s0 t
    rw [← hold, hnv] at o1 o2
    rw [← m1, ← m2, ← hold, hnv]
  · intro he hk
    have stS := CntSplit.stable c he nodes.size (naive s0)
    have sp : CntSplit nodes.size (naive s0) R.1 := runOpsC_pres stS ops _ hist (CntSplit.import c nodes uniq w)
    have h2 : 2 ≤ t := by have := w.len; simp only at this; omega
    exact (modelsC_split c he false R.1 rr.inv _ _ sp t h2 htR).1 hk

/-- a store imported WITHOUT `fix_import`: without `variablelist` and `adhoccounting` nothing
needs repair (`Rel` holds, hence everything above applies) … -/
theorem import_without_fix (c : Cfg) (hv : c.variablelist = false) (ha : c.adhoccounting = false)
    (nodes : Array Node) (uniq : Std.HashMap Node Nat) (w : WF ⟨nodes, uniq, ∅, ∅⟩) :
    Rel c false (importC nodes uniq) ⟨nodes, uniq, ∅, ∅⟩ := import_unfixed_rel c hv ha nodes uniq w

/-- … with `variablelist` the dependency table is empty until `fix_import`: the code indexes it
(`self.var_deps[tree.value()]`, a panic); the model's total lookup takes the shortcut and returns
the diagram unrestricted. Concretely, on the imported one-variable table, `x0[x0 := ⊤]` comes back
as handle 2 where the reference answers 1. This is the documented precondition "call `fix_import`
after deserialising", not an independence failure. -/
theorem import_without_fix_variablelist :
    let nodes : Array Node := #[⟨VBOT, 0, 0⟩, ⟨VTOP, 1, 1⟩, ⟨0, 0, 1⟩]
    ∀ uniq : Std.HashMap Node Nat,
    (restrictC Cfg.default 3 (importC nodes uniq) 2 0 true).2 = 2 ∧
    (restrictF 3 ⟨nodes, uniq, ∅, ∅⟩ 2 0 true).2 = 1 := by
  intro nodes uniq
  constructor
  · simp [restrictC, importC, nodes, Cfg.default]
  · simp [restrictF, nodes, VBOT, VTOP]

/-! ### non-vacuity of (e), (f), (g) -/

/-- the hypothesis `Rel` of the semantics theorems holds, under each cargo feature set, for the
store built by a six-operation sequence (x0, x1, ¬x1, x0 ∧ ¬x1, x0 ∨ x1, (x0 ∧ ¬x1)[x1 := ⊤]) —
with and without a sender attached — and that store has inner nodes (the vector `ac` of the
theorems is unconstrained, e.g. `[5, 6]` with `n = 2`) -/
theorem semantics_example :
    let ops : List Op := [.var 0, .var 1, .not 3, .and 2 4, .or 2 3, .restrict 5 1 true]
    opsValid ops 2 ∧
    (∀ c, Rel c true (runOpsC c ops (newC c) [0, 1]).1 (runOps ops Store.init [0, 1]).1 ∧
          Rel c true (runOpsC c ops (newC c) [0, 1]).1.setSender (runOps ops Store.init [0, 1]).1) ∧
    4 ≤ (runOps ops Store.init [0, 1]).1.nodes.size := by
  intro ops
  have hv : opsValid ops 2 :=
    ⟨by simp [Op.valid, VBOT], by simp [Op.valid, VBOT], by simp [Op.valid], by simp [Op.valid], by simp [Op.valid],
      by simp [Op.valid], trivial⟩
  refine ⟨hv, ?_, ?_⟩
  · intro c
    have ⟨_, r⟩ := run_rel c true ops (newC c) Store.init [0, 1] _ (Rel.new c) HistOK.init hv
    exact ⟨r, r.setSender⟩
  · -- the first two operations already create two nodes; the table only grows
    have hv2 : opsValid [Op.var 0, .var 1] 2 := ⟨by simp [Op.valid, VBOT], by simp [Op.valid, VBOT], trivial⟩
    have ⟨w2, _, h2⟩ := runOps_refines [Op.var 0, .var 1] Store.init [0, 1] _ WF_init HistOK.init hv2
    have ⟨_, e, _⟩ := runOps_refines [Op.not 3, .and 2 4, .or 2 3, .restrict 5 1 true]
      (runOps [Op.var 0, .var 1] Store.init [0, 1]).1 (runOps [Op.var 0, .var 1] Store.init [0, 1]).2 _ w2 h2
      ⟨by simp [Op.valid, runOps], by simp [Op.valid, runOps], by simp [Op.valid, runOps], by simp [Op.valid, runOps], trivial⟩
    have sz : (runOps [Op.var 0, .var 1] Store.init [0, 1]).1.nodes.size = 4 := by
      simp [runOps, stepOp, mkNode, Store.init]
    have := e.1
    rw [sz] at this
    exact this

/-- the channel on a concrete run: sender attached to a fresh store under the default feature set,
two variables created — the log is exactly the two new nodes, in order -/
theorem frontend_example :
    (runOpsC Cfg.default [.var 0, .var 1] (newC Cfg.default).setSender [0, 1]).1.log = [⟨0, 0, 1⟩, ⟨1, 0, 1⟩] := by
  have hv2 : opsValid [Op.var 0, .var 1] 2 := ⟨by simp [Op.valid, VBOT], by simp [Op.valid, VBOT], trivial⟩
  have ⟨_, b, g⟩ := (frontend_channel Cfg.default true (newC Cfg.default) Store.init (Rel.new _) 0 []).1
    [.var 0, .var 1] [0, 1] _ HistOK.init hv2
  rw [g]
  unfold StreamF.created
  rw [b]
  simp [runOps, stepOp, mkNode, Store.init, newC, Cfg.default]

/-- `answers_after_import` applies: the one-variable table as an imported store, histories over its
three handles, e.g. the operations x1, x0 ∧ x1 afterwards -/
theorem import_example :
    let s1 := (runOps [.var 0] Store.init [0, 1]).1
    WF ⟨s1.nodes, s1.uniq, ∅, ∅⟩ ∧ s1.nodes.size = 3 ∧ (∀ t ∈ [0, 1, 2], t < s1.nodes.size) ∧
    opsValid [.var 1, .and 2 3] [0, 1, 2].length := by
  intro s1
  have ⟨w, _, _⟩ := runOps_refines [.var 0] Store.init [0, 1] _ WF_init HistOK.init ⟨by simp [Op.valid, VBOT], trivial⟩
  have sz : s1.nodes.size = 3 := by simp [s1, runOps, stepOp, mkNode, Store.init]
  have hs : s1 = ⟨s1.nodes, s1.uniq, ∅, ∅⟩ := by simp [s1, runOps, stepOp, mkNode, Store.init]
  refine ⟨by rw [← hs]; exact w, sz, ?_, ⟨by simp [Op.valid, VBOT], by simp [Op.valid], trivial⟩⟩
  intro t ht
  rw [sz]
  simp at ht
  omega

end C12

/-! ## the real tables under every feature set

The count cache and the dependency lists exist only under some feature sets; the audit of the
REAL tables dumped from the implementation (`MemoCheck.memoCheckF`, run under every feature set,
with `exc` = the exception configuration and `deps = none` when `variablelist` is off) is a
verified checker: a positive verdict means the dumped tables are exactly what the invariant
`FInv` of this file says about the model's tables (`CntOK`: paths and depth always, model counts
unless the exception; `DepsOK`: the recursive dependency sets). -/
namespace C12

/-- re-export of `C11.memo_audit_sound` -/
theorem memo_audit_sound (nv : Nat) (exc : Bool) (s : Store) (r : MemoCheck.Rows)
    (hwf : wfCheck s.nodes = true) (hc : MemoCheck.memoCheckF nv exc s.nodes r = true) :
    MemoCheck.MemoSound nv exc s r :=
  MemoCheck.memoCheckF_sound nv exc s r (wfCheck_sound s.nodes hwf) hc

end C12

#print axioms C12.answers_feature_independent
#print axioms C12.semantics_feature_independent
#print axioms C12.semantics_keep_rel
#print axioms C12.cli_sections_feature_independent
#print axioms C12.semantics_agree
#print axioms C12.grounded_correct_every_config
#print axioms C12.sender_irrelevant
#print axioms C12.frontend_channel
#print axioms C12.no_sender_no_log
#print axioms C12.cubes_impacts_feature_independent
#print axioms C12.answers_after_import
#print axioms C12.import_without_fix
#print axioms C12.import_without_fix_variablelist
#print axioms C12.semantics_example
#print axioms C12.frontend_example
#print axioms C12.import_example
#print axioms C12.var_dependencies_card
#print axioms C12.var_dependencies_card_range
#print axioms C12.var_dependencies_card_feature_independent
#print axioms C12.deps_table_nodup
