import AdfObdd.ServerProofs
import AdfObdd.ServerCred
import AdfObdd.ServerNonint
/-! # C17 — the web service isolates users and protects credentials

    Theorems about the executable handler model `ServerM` (AdfObdd/ServerModel.lean), which the
    correspondence runs compare response by response and database by database with the real
    `adf-bdd-server`.  They hold for every instance of the model's parameters (string type, hash
    scheme, library).  Identity = the account named in the session cookie (DESIGN §5). -/
namespace C17
open ServerM

section
variable {T H A R : Type} [DecidableEq T]

/-- the problems of user `v` -/
def ownedBy (v : T) (db : Db T H A R) : List (Problem T A R) := db.problems.filter (ownedP v)

/-! ## 1. every command carries the identity of the request -/

/-- **step_owner_only.** Every database / running-set command a request issues is *owned* by the
identity the request acts for (`actor`: the account named in the jar's session cookie; for an
unauthenticated `add`, the temporary account it creates): all accesses to the problem collection
(find, insert, update, delete, rename) and to the running set carry that user name in their filter
or document; in the user collection only that account's record is replaced or deleted, records
are created only under a name the request mentions, and a record is looked up only for that
account or for a name the request mentions (existence / credential check). -/
theorem step_owner_only (E : Env T H A R) (st : State T H A R) (rq : Request T) :
    ∀ c ∈ (stepT E st rq).2.2, Owned rq.jar (actor (st.sess rq.jar) rq.req) (reqNames rq.req) c :=
  run_trace (handler_owned E rq.jar (st.sess rq.jar) rq.req) st.db

/-- the same for the program itself, i.e. along every path of results the database could give:
this is what makes the statement hold under command-granular interleavings -/
theorem handler_owner_only (E : Env T H A R) (jar : Nat) (id : Option T) (rq : Req T) :
    AllCmds (Owned jar (actor id rq) (reqNames rq)) (RetShape id rq) (handler E jar id rq) :=
  handler_owned E jar id rq

/-- an owned command changes no problem of a user it does not name -/
theorem owned_cmd_others_untouched (db : Db T H A R) (c : Cmd T H A R) (jar : Nat) (U : Option T) (names : List T)
    (v : T) (h : Owned jar U names c) (hU : U ≠ some v) (hn : v ∉ names) :
    ownedBy v (exec db c).1 = ownedBy v db := by
  have hc : CmdIn (fun x => !decide (x = v)) (fun j => !(fun _ => false) j) c :=
    Owned.cmdIn (S := fun x => !decide (x = v)) (J := fun j => !(fun _ => false) j)
      (by intro u hu; simp only [Bool.not_eq_true', decide_eq_false_iff_not]; intro huv; exact hU (by rw [hu, huv]))
      (by intro n hn'; simp only [Bool.not_eq_true', decide_eq_false_iff_not]; intro hnv; exact hn (hnv ▸ hn'))
      (by rfl) c h
  exact (exec_out (S := fun x => decide (x = v)) (J := fun _ => false) db c hc).probs

/-- a whole request of another identity changes no problem of `v` -/
theorem request_others_untouched (E : Env T H A R) (st : State T H A R) (rq : Request T) (v : T)
    (hU : actor (st.sess rq.jar) rq.req ≠ some v) (hn : v ∉ reqNames rq.req) :
    ownedBy v (step E st rq).1.db = ownedBy v st.db := by
  have h := (handler_owned E rq.jar (st.sess rq.jar) rq.req).mono
    (Q' := CmdIn (fun x => !decide (x = v)) (fun j => !(fun _ => false) j)) (P' := fun _ => True)
    (Owned.cmdIn (S := fun x => !decide (x = v)) (J := fun j => !(fun _ => false) j)
      (by intro u hu; simp only [Bool.not_eq_true', decide_eq_false_iff_not]; intro huv; exact hU (by rw [hu, huv]))
      (by intro n hn'; simp only [Bool.not_eq_true', decide_eq_false_iff_not]; intro hnv; exact hn (hnv ▸ hn'))
      (by rfl))
    (fun _ _ => trivial)
  exact (run_out (S := fun x => decide (x = v)) (J := fun _ => false) h st.db).probs

/-! ## 2. isolation under every interleaving -/

/-- the event acts for `v` or mentions `v` -/
def touches (v : T) (st : State T H A R) : Event T → Prop
  | .req rq => actor (st.sess rq.jar) rq.req = some v ∨ v ∈ reqNames rq.req
  | .finish _ _ => False
  | .write j n => ∃ t, nthOf j n st.db.tasks = some t ∧ t.username = v
  | .timeout j n => ∃ t, nthOf j n st.db.tasks = some t ∧ t.username = v

theorem event_others_untouched (E : Env T H A R) (st : State T H A R) (e : Event T) (v : T)
    (h : ¬ touches v st e) : ownedBy v (stepEv E st e).1.db = ownedBy v st.db := by
  cases e with
  | req rq =>
    simp only [touches, not_or] at h
    exact request_others_untouched E st rq v h.1 h.2
  | finish j n =>
    simp only [stepEv, dbEv]
    cases nthOf j n st.db.tasks with
    | none => rfl
    | some t => simp only; split <;> rfl
  | write j n =>
    simp only [stepEv, dbEv]
    cases ht : nthOf j n st.db.tasks with
    | none => rfl
    | some t =>
      simp only
      split
      · have hv : t.username ≠ v := fun hv => h ⟨t, ht, hv⟩
        exact owned_cmd_others_untouched st.db (.pSet t.username t.name (taskWrite E t.input)) 0 (some t.username) [] v
          (by simp [Owned]) (by simpa using hv) (by simp)
      · rfl
  | timeout j n =>
    simp only [stepEv, dbEv]
    cases ht : nthOf j n st.db.tasks with
    | none => rfl
    | some t =>
      simp only
      split
      · have hv : t.username ≠ v := fun hv => h ⟨t, ht, hv⟩
        exact owned_cmd_others_untouched st.db (.pSet t.username t.name (timeoutWrite t.input)) 0 (some t.username) [] v
          (by simp [Owned]) (by simpa using hv) (by simp)
      · rfl

/-- no event of the history acts for `v` or mentions `v` (in the state it is executed in) -/
def Quiet (E : Env T H A R) (v : T) : State T H A R → List (Event T) → Prop
  | _, [] => True
  | st, e :: es => ¬ touches v st e ∧ Quiet E v (stepEv E st e).1 es

/-- **isolation.** Under every interleaving of the users' requests and of the background-task
events: as long as no event acts for `v` (or mentions `v`'s account name), the problems of `v`
are exactly what they were — nothing of `v` is modified or deleted by anybody else. -/
theorem isolation (E : Env T H A R) (v : T) : ∀ (es : List (Event T)) (st : State T H A R),
    Quiet E v st es → ownedBy v (runAll E st es).1.db = ownedBy v st.db := by
  intro es
  induction es with
  | nil => intro st _; rfl
  | cons e es ih =>
    intro st h
    simp only [runAll]
    rw [ih _ h.2]
    exact event_others_untouched E st e v h.1

/-- the same at command granularity: any number of requests in flight, their commands interleaved
by an arbitrary schedule; if none of them acts for or mentions `v`, the problems of `v` stay put -/
theorem isolation_commands (v : T) : ∀ (sched : List Nat) (db : Db T H A R) (ths : List (Thread T H A R)),
    (∀ th ∈ ths, ∃ jar U names, U ≠ some v ∧ v ∉ names ∧ AllCmds (Owned jar U names) (fun _ => True) th.prog) →
    ownedBy v (crun db ths sched).1 = ownedBy v db := by
  intro sched
  induction sched with
  | nil => intro db ths _; rfl
  | cons i is ih =>
    intro db ths h
    simp only [crun]
    unfold cstep
    cases hth : ths[i]? with
    | none => exact ih db ths h
    | some th =>
      simp only
      obtain ⟨jar, U, names, hU, hn, hall⟩ := h th (List.mem_of_getElem? hth)
      cases hp : th.prog with
      | ret a => exact ih db ths h
      | cmd c k =>
        simp only
        rw [hp] at hall
        cases hall with
        | cmd _ _ hq hk =>
          rw [ih]
          · exact owned_cmd_others_untouched db c jar U names v hq hU hn
          · intro th' hth'
            rcases List.mem_or_eq_of_mem_set hth' with h' | h'
            · exact h th' h'
            · subst h'
              exact ⟨jar, U, names, hU, hn, hk _ (exec_rok db c)⟩

/-! ## 3. what a response can contain -/

/-- **unauth_no_data.** A request without a session never obtains problem data. -/
theorem unauth_no_data (E : Env T H A R) (st : State T H A R) (rq : Request T) (h : st.sess rq.jar = none) :
    infos (step E st rq).2.body = [] := by
  have hr := run_ret (handler_owned E rq.jar (st.sess rq.jar) rq.req) st.db
  simp only [step, stepT]
  cases hq : rq.req <;> rw [hq] at hr <;> simp only [RetShape] at hr <;> first | exact hr.1 | exact hr.1 h

/-- the problem data in a response to a session naming `u` is data of problems that are in the
database with `username = u` at that moment -/
theorem resp_owned (E : Env T H A R) (st : State T H A R) (rq : Request T) :
    ∀ i ∈ infos (step E st rq).2.body, ∃ u p, st.sess rq.jar = some u ∧ p ∈ st.db.problems ∧ p.username = u ∧
      i.name = p.name ∧ i.code = p.code ∧ i.parseOnly = p.parseOnly ∧ i.res = p.res := by
  intro i hi
  have hr := run_ret (handler_owned E rq.jar (st.sess rq.jar) rq.req) st.db
  cases hid : st.sess rq.jar with
  | none => rw [unauth_no_data E st rq hid] at hi; cases hi
  | some u =>
    refine ⟨u, ?_⟩
    simp only [step, stepT] at hi
    cases hq : rq.req with
    | get name =>
      rw [hq, hid] at hi
      simp only [handler, hGet, run, exec] at hi
      cases hf : st.db.problems.find? (isProb u name) with
      | none => rw [hf] at hi; simp [reply, run, infos] at hi
      | some p =>
        rw [hf] at hi
        simp only [run, exec, infos, List.mem_singleton] at hi
        have hp := List.find?_some hf
        simp only [isProb, Bool.and_eq_true, decide_eq_true_eq] at hp
        exact ⟨p, rfl, List.mem_of_find?_eq_some hf, hp.2, by rw [hi]; simp [infoOf]⟩
    | list =>
      rw [hq, hid] at hi
      simp only [handler, hList, run, exec] at hi
      have key : ∀ (ps : List (Problem T A R)) (acc : List (Info T R)) (db : Db T H A R),
          ∀ i ∈ infos (run (listInfos acc ps : P T H A R) db).2.1.body, i ∈ acc ∨ ∃ p ∈ ps, ∃ ts, i = infoOf p ts := by
        intro ps
        induction ps with
        | nil => intro acc db i hi; simp only [listInfos, run, infos] at hi; exact Or.inl hi
        | cons p ps ih =>
          intro acc db i hi
          simp only [listInfos, run] at hi
          rcases ih _ _ i hi with h | ⟨q, hq', ts, h⟩
          · simp only [List.mem_append, List.mem_singleton] at h
            rcases h with h | h
            · exact Or.inl h
            · exact Or.inr ⟨p, List.mem_cons_self .., _, h⟩
          · exact Or.inr ⟨q, List.mem_cons_of_mem _ hq', ts, h⟩
      rcases key _ _ _ i hi with h | ⟨p, hp, ts, h⟩
      · cases h
      · simp only [List.mem_filter, ownedP, decide_eq_true_eq] at hp
        exact ⟨p, rfl, hp.1, hp.2, by rw [h]; simp [infoOf]⟩
    | _ =>
      rw [hq] at hr
      simp only [RetShape] at hr
      rw [hq] at hi
      rw [hr.1] at hi
      cases hi

/-! ## 4. credentials -/

/-- a history with the observer's bookkeeping of the passwords that were set (`credStep`: updated
after a successful `register`, `update` and account deletion only) -/
def runCred (E : Env T H A R) : State T H A R → (T → Option T) → List (Event T) → State T H A R × (T → Option T)
  | st, g, [] => (st, g)
  | st, g, e :: es =>
    let o := stepEv E st e
    let g' := match e, o.2 with
      | .req rq, some r => credStep g (st.sess rq.jar) rq.req r.status
      | _, _ => g
    runCred E o.1 g' es

theorem dbEv_users (E : Env T H A R) (db : Db T H A R) (e : Event T) : (dbEv E db e).users = db.users := by
  cases e with
  | req rq => rfl
  | finish j n => simp only [dbEv]; cases nthOf j n db.tasks <;> simp only <;> split <;> rfl
  | write j n => simp only [dbEv]; cases nthOf j n db.tasks <;> simp only <;> split <;> rfl
  | timeout j n => simp only [dbEv]; cases nthOf j n db.tasks <;> simp only <;> split <;> rfl

theorem runCred_inv (E : Env T H A R) : ∀ (es : List (Event T)) (st : State T H A R) (g : T → Option T),
    CredInv E st.db.users g → CredInv E (runCred E st g es).1.db.users (runCred E st g es).2 := by
  intro es
  induction es with
  | nil => intro st g h; exact h
  | cons e es ih =>
    intro st g h
    simp only [runCred]
    apply ih
    cases e with
    | req rq => exact step_cred E st rq g h
    | finish j n => simp only [stepEv]; rw [dbEv_users]; exact h
    | write j n => simp only [stepEv]; rw [dbEv_users]; exact h
    | timeout j n => simp only [stepEv]; rw [dbEv_users]; exact h

/-- login in a state that satisfies the credential invariant -/
theorem login_iff_inv (E : Env T H A R) (hv : ∀ s p p', E.verify (E.hash s p) p' = true ↔ p = p')
    (st : State T H A R) (g : T → Option T) (inv : CredInv E st.db.users g) (jar : Nat) (u p : T)
    (hu : u ≠ E.emp) (hp : p ≠ E.emp) :
    (step E st ⟨jar, .login u p⟩).2.status = 200 ↔ g u = some p := by
  simp only [step, stepT, handler, hLogin]
  rw [if_neg (by simp [hu, hp])]
  simp only [run, exec]
  cases hf : st.db.users.find? (isUser u) with
  | none =>
    have := inv.absent u ((find_none_iff u _).mp hf)
    simp [run, reply, this]
  | some x =>
    have hx : x ∈ st.db.users := List.mem_of_find?_eq_some hf
    have hxu : x.username = u := by simpa [isUser] using List.find?_some hf
    simp only
    cases hpw : x.password with
    | none =>
      have := inv.temp x hx hpw
      rw [hxu] at this
      simp [run, reply, this]
    | some h =>
      obtain ⟨salt, pw, hh, hg⟩ := inv.cred x hx h hpw
      rw [hxu] at hg
      simp only
      by_cases hver : E.verify h p = true
      · have : pw = p := (hv salt pw p).mp (hh ▸ hver)
        simp [hver, run, hg, this]
      · have : pw ≠ p := fun hpp => hver (hh ▸ (hv salt pw p).mpr hpp)
        simp [hver, run, reply, hg, this]

/-- **login_iff.** After any history from the empty service, a login with a (non-empty) user name
and password succeeds iff the password is the one most recently set for that account — set by the
last successful `register` or `update` that produced the account's current name, and not deleted
since.  In particular it never succeeds for a temporary account (nothing was ever set for it) and
never for an absent account.  The hash is opaque: only `verify (hash s p) p' ↔ p = p'` is used. -/
theorem login_iff (E : Env T H A R) (hv : ∀ s p p', E.verify (E.hash s p) p' = true ↔ p = p')
    (es : List (Event T)) (jar : Nat) (u p : T) (hu : u ≠ E.emp) (hp : p ≠ E.emp) :
    (step E (runCred E {} (fun _ => none) es).1 ⟨jar, .login u p⟩).2.status = 200 ↔
      (runCred E {} (fun _ => none) es).2 u = some p :=
  login_iff_inv E hv _ _ (runCred_inv E es {} _ (CredInv.init E)) jar u p hu hp

/-- temporary accounts cannot log in (any state, any password) -/
theorem temp_cannot_login (E : Env T H A R) (st : State T H A R) (jar : Nat) (u p : T) (x : User T H)
    (hx : st.db.users.find? (isUser u) = some x) (htemp : x.password = none) :
    (step E st ⟨jar, .login u p⟩).2.status ≠ 200 := by
  simp only [step, stepT, handler, hLogin]
  split
  · simp [run, reply]
  · simp [run, exec, hx, htemp, reply]

/-- **stored_is_hash.** After any history, every stored credential is `hash salt pw` for some salt
and the password `pw` most recently set for that account (temporary accounts store none); account
names are unique. -/
theorem stored_is_hash (E : Env T H A R) (es : List (Event T)) :
    let o := runCred E {} (fun _ => none) es
    (o.1.db.users.map (·.username)).Nodup ∧
    ∀ x ∈ o.1.db.users, ∀ h, x.password = some h → ∃ salt pw, h = E.hash salt pw ∧ o.2 x.username = some pw := by
  have inv := runCred_inv E es {} _ (CredInv.init E)
  exact ⟨inv.nodup, inv.cred⟩

/-- … and therefore never the password itself, for a hash that never returns its input (argon2's
output is a PHC string; the assumption is stated, not proved) -/
theorem stored_not_plaintext (E : Env T T A R) (hne : ∀ s p, E.hash s p ≠ p) (es : List (Event T)) :
    let o := runCred E {} (fun _ => none) es
    ∀ x ∈ o.1.db.users, ∀ h, x.password = some h → ∀ pw, o.2 x.username = some pw → h ≠ pw := by
  intro o x hx h hpw pw hg
  obtain ⟨salt, pw', hh, hg'⟩ := (stored_is_hash E es).2 x hx h hpw
  rw [hg'] at hg
  simp only [Option.some.injEq] at hg
  subst hg
  rw [hh]; exact hne salt pw'

/-! ## 5. noninterference -/

/-- **noninterference_partial.** Account names are used with discipline as far as jar `j` is
concerned (`Disciplined`): mentioning a name (in `register`, `login`, `update`, or as the generated
name of a temporary account) claims it; `j` mentions a name only if it claimed it last itself or
nothing of that name exists any more — no account, no problem, no running entry, no session, no
unfinished task — and the others mention a name that `j` claimed last only when nothing of it exists
any more.  Then, for every interleaving of everybody's requests and background-task events, what `j`
observes — the responses to its requests, in order — is exactly what it would observe if only its
own events happened.

This is the property's "no account name is re-used while sessions/tasks of its previous owner
exist".  Partial w.r.t. "apart from account names being unique, each user's observable history is
what it would be if that user were alone":
* name-uniqueness conflicts (somebody trying to take a name that is in use: the permitted `409`
  difference) are excluded by the hypothesis instead of being treated as permitted differences;
* a user is a cookie jar here; two jars logging into the same account are one user of the property
  and are excluded by the hypothesis as well;
* requests are atomic (isolation at command granularity is `isolation_commands`).
That the hypothesis cannot be dropped is shown by `stale_cookie_interferes` and
`late_write_interferes` (D9) below: in both, a name is re-used while a session resp. an unfinished
task of its previous owner still exists. -/
theorem noninterference_partial (E : Env T H A R) (j : Nat) (es : List (Event T))
    (h : Disciplined E j (fun _ => none) {} es) :
    obs j (runAll E {} es).2 = obs j (runAll E {} (es.filter (fun e => decide (e.jar = j)))).2 :=
  nonint_dyn E j es (fun _ => none) {} {} ⟨DbSim.refl .., rfl⟩
    ⟨(by intro u hu; cases hu), (by intro k _ u hu; cases hu), (by intro t ht; cases ht)⟩
    ⟨(by intro u hu; cases hu), (by intro k _ u hu; cases hu), (by intro t ht; cases ht)⟩
    ⟨(by intro u hu; cases hu), (by intro p hp; cases hp), (by intro i hi; cases hi), (fun _ _ => rfl),
     (by intro t ht; cases ht)⟩ h

/-- the static special case: `j` uses names from a set `S` only, everybody else names outside `S`
only (the others may interfere with each other as they like) -/
theorem noninterference_static (E : Env T H A R) (S : T → Bool) (j : Nat) (es : List (Event T))
    (h : ∀ e ∈ es, (e.jar = j → e.namesIn S) ∧ (e.jar ≠ j → e.namesIn (fun x => !S x))) :
    obs j (runAll E {} es).2 = obs j (runAll E {} (es.filter (fun e => decide (e.jar = j)))).2 :=
  nonint_run E S j es {} {} ⟨DbSim.refl .., rfl⟩
    ⟨(by intro u hu; cases hu), (by intro k _ u hu; cases hu), (by intro t ht; cases ht)⟩
    ⟨(by intro u hu; cases hu), (by intro k _ u hu; cases hu), (by intro t ht; cases ht)⟩ h

end

/-! ## 6. non-vacuity and the counterexamples without the hypothesis -/

/-- a small instance: names, passwords and codes are numbers (0 = empty), the hash keeps salt and
password, the library echoes the code -/
def E0 : Env Nat (Nat × Nat) Nat Nat where
  emp := 0
  hash := fun s p => (s, p)
  verify := fun h p => h.2 == p
  parse := fun _ code => .ok (code, code)
  solve := fun a _ => .ok a

theorem E0_verify : ∀ s p p', E0.verify (E0.hash s p) p' = true ↔ p = p' := by
  intro s p p'; simp [E0]

/-- alice = 1, her password 7; p1 = 5; code 9 -/
def hist1 : List (Event Nat) :=
  [.req ⟨0, .register 1 7 0⟩, .req ⟨0, .login 1 7⟩, .req ⟨0, .add 5 (some 9) none .naive 200 201⟩,
   .finish 0 0, .write 0 0, .req ⟨1, .get 5⟩, .req ⟨1, .add 5 (some 8) none .naive 100 101⟩, .req ⟨0, .get 5⟩]

-- non-vacuity of `step_owner_only`: the add request issues commands, all for alice
example : ((stepT E0 (runAll E0 {} (hist1.take 2)).1 ⟨0, .add 5 (some 9) none .naive 200 201⟩).2.2).length = 3 := by decide
-- non-vacuity of `isolation` / `unauth_no_data`: the unauthenticated jar 1 gets 401 and no data, then
-- works as a temporary account; alice's problem is untouched and she sees it parsed
example : (obs 1 (runAll E0 {} hist1).2).map (·.status) = [401, 200] := by decide
example : (obs 0 (runAll E0 {} hist1).2).getLast?.map (·.body) =
    some (.problem ⟨5, 9, .naive, .some 9, {}, []⟩) := by decide
example : Quiet E0 1 (runAll E0 {} (hist1.take 5)).1 ((hist1.drop 5).take 2) := by
  refine ⟨?_, ?_, trivial⟩ <;> simp [touches, actor, reqNames, addUser] <;> decide
-- non-vacuity of `login_iff`: right password 200, wrong password 400, temporary account 400
example : (step E0 (runAll E0 {} hist1).1 ⟨2, .login 1 7⟩).2.status = 200 := by decide
example : (step E0 (runAll E0 {} hist1).1 ⟨2, .login 1 8⟩).2.status = 400 := by decide
example : (step E0 (runAll E0 {} hist1).1 ⟨2, .login 100 7⟩).2 = ⟨400, .keep, .msg .invalidUserPw⟩ := by decide
example : (runCred E0 {} (fun _ => none) hist1).2 1 = some 7 := by decide
-- non-vacuity of `stored_is_hash`
example : (runAll E0 {} hist1).1.db.users = [⟨1, some (0, 7)⟩, ⟨100, none⟩] := by decide
-- non-vacuity of `noninterference_static`: S = {1, 200}, jar 0; the hypothesis holds for `hist1`
example : ∀ e ∈ hist1, (e.jar = 0 → e.namesIn (fun x => decide (x = 1 ∨ x = 200))) ∧
    (e.jar ≠ 0 → e.namesIn (fun x => !decide (x = 1 ∨ x = 200))) := by
  intro e he
  simp only [hist1, List.mem_cons, List.not_mem_nil, or_false] at he
  rcases he with h | h | h | h | h | h | h | h <;> subst h <;> simp [Event.jar, Event.namesIn, reqNames]

/-- legitimate re-use: alice (jar 0) deletes her account after her task is done; only then does
somebody else (jar 1) register `alice`.  The discipline holds for both jars although the name moves. -/
def histReuse : List (Event Nat) :=
  [.req ⟨0, .register 1 7 0⟩, .req ⟨0, .login 1 7⟩, .req ⟨0, .add 5 (some 9) none .naive 200 201⟩,
   .finish 0 0, .write 0 0, .req ⟨0, .deleteAccount⟩,
   .req ⟨1, .register 1 8 1⟩, .req ⟨1, .login 1 8⟩, .req ⟨1, .list⟩]

theorem free_after_delete : Free (1 : Nat) (runAll E0 {} (histReuse.take 6)).1 := by
  refine ⟨by decide, by decide, by decide, ?_, by decide⟩
  intro k
  have : ∀ k, (runAll E0 {} (histReuse.take 6)).1.sess k = none := by
    intro k
    simp [histReuse, runAll, stepEv, step, stepT, applyCookie, dbEv]
    split <;> rfl
  rw [this k]; simp

-- non-vacuity of `noninterference_partial`: the discipline holds for jar 1 in `histReuse`
example : Disciplined E0 1 (fun _ => none) {} histReuse := by
  refine ⟨?_, ?_, ?_, ?_, ?_, ?_, ?_, ?_, ?_, trivial⟩
  · intro n hn; simp [evNames, reqNames] at hn; subst hn; left; simp [Event.jar]
  · intro n hn; simp [evNames, reqNames] at hn; subst hn; left; simp [Event.jar, evNames, reqNames]
  · intro n hn; simp [evNames, reqNames] at hn; subst hn; left; simp [Event.jar, evNames, reqNames]
  · intro n hn; simp [evNames] at hn
  · intro n hn; simp [evNames] at hn
  · intro n hn; simp [evNames, reqNames] at hn
  · intro n hn; simp [evNames, reqNames] at hn; subst hn; right; exact free_after_delete
  · intro n hn; simp [evNames, reqNames] at hn; subst hn; left; simp [Event.jar, evNames, reqNames]
  · intro n hn; simp [evNames, reqNames] at hn

/-- **Counterexample 1 (stale cookie).** Alice is logged in on two devices (jars 0 and 1) and deletes
her account on the first; somebody else (jar 2) registers the name `alice` and adds a problem; the
second device's cookie still says `alice`, and its `delete account` removes the new owner's problems
and account.  Jar 2's last response differs from what it would be alone. -/
def histStale : List (Event Nat) :=
  [.req ⟨0, .register 1 7 0⟩, .req ⟨0, .login 1 7⟩, .req ⟨1, .login 1 7⟩, .req ⟨0, .deleteAccount⟩,
   .req ⟨2, .register 1 8 1⟩, .req ⟨2, .login 1 8⟩, .req ⟨2, .add 5 (some 9) none .naive 100 101⟩,
   .req ⟨1, .deleteAccount⟩, .req ⟨2, .list⟩]

theorem stale_cookie_interferes :
    obs 2 (runAll E0 {} histStale).2 ≠ obs 2 (runAll E0 {} (histStale.filter (fun e => decide (e.jar = 2)))).2 := by
  decide

/-- **Counterexample 2 (D9, name-reuse race).** Alice (jar 0) solves `p1`; before the task's final
write she deletes her account; somebody else (jar 1) registers `alice` and adds `p1` with other
code; the late write is addressed by `(name, username)` and lands in the new owner's problem, who
then sees a `ground` result (of the old code, 9) for a problem she never solved. -/
def histD9 : List (Event Nat) :=
  [.req ⟨0, .register 1 7 0⟩, .req ⟨0, .login 1 7⟩, .req ⟨0, .add 5 (some 9) none .naive 100 101⟩,
   .finish 0 0, .write 0 0, .req ⟨0, .solve 5 .ground⟩, .finish 0 1, .req ⟨0, .deleteAccount⟩,
   .req ⟨1, .register 1 8 1⟩, .req ⟨1, .login 1 8⟩, .req ⟨1, .add 5 (some 4) none .naive 100 101⟩,
   .finish 1 0, .write 1 0, .write 0 1, .req ⟨1, .get 5⟩]

theorem late_write_interferes :
    obs 1 (runAll E0 {} histD9).2 ≠ obs 1 (runAll E0 {} (histD9.filter (fun e => decide (e.jar = 1)))).2 := by
  decide

-- what the new owner sees: her code 4 with the old problem's answer 9
example : (obs 1 (runAll E0 {} histD9).2).getLast?.map (·.body) =
    some (.problem ⟨5, 4, .naive, .some 4, { ground := .some 9 }, []⟩) := by decide

end C17
