import AdfObdd.ServerProofs
import AdfObdd.ServerCred
import AdfObdd.ServerNonint
import AdfObdd.ServerNonintJ
import AdfObdd.ServerNonintFull
import AdfObdd.ServerNonintRsv
import AdfObdd.ServerMention
import AdfObdd.ServerCmdProofs
import AdfObdd.ServerCmdResp
/-! # C17 — the web service isolates users and protects credentials

    Theorems about the executable handler model `ServerM` (AdfObdd/ServerModel.lean), which the
    correspondence runs compare response by response and database by database with the real
    `adf-bdd-server`.  They hold for every instance of the model's parameters (string type, hash
    scheme, library).  Identity = the account named in the session cookie (DESIGN §5).

    ## Simplifications of the model / assumptions that are NOT modelled (review 2, item 8)

    * **one generated name instead of ten tries.** `add_adf_problem` draws up to ten random names for a
      temporary account and for an unnamed problem and takes the first free one (server/src/adf.rs:329-343,
      386-399); the model's request carries ONE proposal each (`Req.add … fu fp`) and answers
      `500 noGenName` if it is taken.  A history in which the first of the ten proposals is taken and a
      later one is free is not representable.
    * **the ghost proposal `fu` of an authenticated `add` counts as mentioned.** `reqNames (.add … fu _) = [fu]`
      (ServerProofs.lean:198) although a logged-in `add` never looks at `fu`.  Consequence: `Quiet`,
      `Disciplined(J)` and `isolation_commands` (`v ∉ names`) exclude some harmless histories (an
      authenticated `add` whose unused proposal happens to be somebody's name); no theorem becomes
      wrong, the hypotheses are stronger than necessary there.  `noninterference_full` is not affected:
      its discipline permits such a proposal (`ghost = true`; `ServerM.stepEv_deghost`: an authenticated
      `add` does not depend on its proposal).
    * **`uReplace` answers `some 1` whenever the account exists** (`exec`, ServerModel.lean: the count is
      "matched").  user.rs:330 tests MongoDB's `modified_count`, which is 0 also when the new document
      EQUALS the old one (same name, same hash, i.e. same password and same salt), and answers
      `500 Account could not be updated.`; the model answers 200 there.  The salted-hash statements below
      quantify over ALL salts, equal ones included, so for "update to the identical record" the modelled
      status differs from the code's.  With `SaltString::generate` the case has negligible probability;
      it does not occur in the correspondence runs.
    * **database failure arms** (every `Err(_) => 500` of user.rs / adf.rs) are not modelled: the
      database of the model never fails except for the duplicate-key refusal of the unique index.
    * **`Identity::login` before `update_many`** (user.rs:337/340): on a rename the new cookie is attached
      and the problems are re-owned afterwards; if `update_many` failed, the answer would be 500 with the
      account renamed, the cookie set and the problems still under the old name.  Not representable (no
      failure arm).
    * **half-deleted account** (user.rs:119-146): `delete_many` on the problems, then `delete_one` on the
      user; a failure (or a crash) between the two leaves an account without problems - not modelled as
      a failure; the INTERLEAVING of the two commands with other requests is modelled (§7,
      `delete_add_race_orphan`).
    * **session TTL, cookie key per server start** (main.rs:47-84): a cookie never expires in the model and
      there is one server start; an expired / undecodable cookie is the same as no cookie.
    * **salt generation** is outside the model: the salt is a request parameter (see "salts" below);
      nothing is assumed or proved about randomness, nor about argon2 beyond the stated hash laws. -/
namespace C17
open ServerM

section
variable {T H A R : Type} [DecidableEq T]

/-- the problems of user `v` -/
def ownedBy (v : T) (db : Db T H A R) : List (Problem T A R) := db.problems.filter (ownedP v)

/-! ## 1. every command carries the identity of the request -/

/-- **step_owner_only.** Every database / running-set command a request issues is *owned* by the
identity the request acts for (`actor`: the account named in the jar's session cookie; for an
unauthenticated `add`, the temporary account it creates): all accesses to the problem collection
(find, insert, update, delete, rename) and to the running set carry that user name in their filter
or document; in the user collection only that account's record is replaced or deleted, records
are created only under a name the request mentions, and a record is looked up only for that
account or for a name the request mentions (existence / credential check). -/
theorem step_owner_only (E : Env T H A R) (st : State T H A R) (rq : Request T) :
    ∀ c ∈ (stepT E st rq).2.2, Owned rq.jar (actor (st.sess rq.jar) rq.req) (reqNames rq.req) c :=
  run_trace (handler_owned E rq.jar (st.sess rq.jar) rq.req) st.db

/-- the same for the program itself, i.e. along every path of results the database could give:
this is what makes the statement hold under command-granular interleavings -/
theorem handler_owner_only (E : Env T H A R) (jar : Nat) (id : Option T) (rq : Req T) :
    AllCmds (Owned jar (actor id rq) (reqNames rq)) (RetShape id rq) (handler E jar id rq) :=
  handler_owned E jar id rq

/-- an owned command changes no problem of a user it does not name -/
theorem owned_cmd_others_untouched (db : Db T H A R) (c : Cmd T H A R) (jar : Nat) (U : Option T) (names : List T)
    (v : T) (h : Owned jar U names c) (hU : U ≠ some v) (hn : v ∉ names) :
    ownedBy v (exec db c).1 = ownedBy v db := by
  have hc : CmdIn (fun x => !decide (x = v)) (fun j => !(fun _ => false) j) c :=
    Owned.cmdIn (S := fun x => !decide (x = v)) (J := fun j => !(fun _ => false) j)
      (by intro u hu; simp only [Bool.not_eq_true', decide_eq_false_iff_not]; intro huv; exact hU (by rw [hu, huv]))
      (by intro n hn'; simp only [Bool.not_eq_true', decide_eq_false_iff_not]; intro hnv; exact hn (hnv ▸ hn'))
      (by rfl) c h
  exact (exec_out (S := fun x => decide (x = v)) (J := fun _ => false) db c hc).probs

/-- a whole request of another identity changes no problem of `v` -/
theorem request_others_untouched (E : Env T H A R) (st : State T H A R) (rq : Request T) (v : T)
    (hU : actor (st.sess rq.jar) rq.req ≠ some v) (hn : v ∉ reqNames rq.req) :
    ownedBy v (step E st rq).1.db = ownedBy v st.db := by
  have h := (handler_owned E rq.jar (st.sess rq.jar) rq.req).mono
    (Q' := CmdIn (fun x => !decide (x = v)) (fun j => !(fun _ => false) j)) (P' := fun _ => True)
    (Owned.cmdIn (S := fun x => !decide (x = v)) (J := fun j => !(fun _ => false) j)
      (by intro u hu; simp only [Bool.not_eq_true', decide_eq_false_iff_not]; intro huv; exact hU (by rw [hu, huv]))
      (by intro n hn'; simp only [Bool.not_eq_true', decide_eq_false_iff_not]; intro hnv; exact hn (hnv ▸ hn'))
      (by rfl))
    (fun _ _ => trivial)
  exact (run_out (S := fun x => decide (x = v)) (J := fun _ => false) h st.db).probs

/-! ## 2. isolation under every interleaving -/

/-- the event acts for `v` or mentions `v` -/
def touches (v : T) (st : State T H A R) : Event T → Prop
  | .req rq => actor (st.sess rq.jar) rq.req = some v ∨ v ∈ reqNames rq.req
  | .finish _ _ => False
  | .write j n => ∃ t, nthOf j n st.db.tasks = some t ∧ t.username = v
  | .timeout j n => ∃ t, nthOf j n st.db.tasks = some t ∧ t.username = v

theorem event_others_untouched (E : Env T H A R) (st : State T H A R) (e : Event T) (v : T)
    (h : ¬ touches v st e) : ownedBy v (stepEv E st e).1.db = ownedBy v st.db := by
  cases e with
  | req rq =>
    simp only [touches, not_or] at h
    exact request_others_untouched E st rq v h.1 h.2
  | finish j n =>
    simp only [stepEv, dbEv]
    cases nthOf j n st.db.tasks with
    | none => rfl
    | some t => simp only; split <;> rfl
  | write j n =>
    simp only [stepEv, dbEv]
    cases ht : nthOf j n st.db.tasks with
    | none => rfl
    | some t =>
      simp only
      split
      · have hv : t.username ≠ v := fun hv => h ⟨t, ht, hv⟩
        exact owned_cmd_others_untouched st.db (.pSet t.username t.name (taskWrite E t.input)) 0 (some t.username) [] v
          (by simp [Owned]) (by simpa using hv) (by simp)
      · rfl
  | timeout j n =>
    simp only [stepEv, dbEv]
    cases ht : nthOf j n st.db.tasks with
    | none => rfl
    | some t =>
      simp only
      split
      · have hv : t.username ≠ v := fun hv => h ⟨t, ht, hv⟩
        exact owned_cmd_others_untouched st.db (.pSet t.username t.name (timeoutWrite t.input)) 0 (some t.username) [] v
          (by simp [Owned]) (by simpa using hv) (by simp)
      · rfl

/-- no event of the history acts for `v` or mentions `v` (in the state it is executed in) -/
def Quiet (E : Env T H A R) (v : T) : State T H A R → List (Event T) → Prop
  | _, [] => True
  | st, e :: es => ¬ touches v st e ∧ Quiet E v (stepEv E st e).1 es

/-- **isolation.** Under every interleaving of the users' requests and of the background-task
events: as long as no event acts for `v` (or mentions `v`'s account name), the problems of `v`
are exactly what they were — nothing of `v` is modified or deleted by anybody else. -/
theorem isolation (E : Env T H A R) (v : T) : ∀ (es : List (Event T)) (st : State T H A R),
    Quiet E v st es → ownedBy v (runAll E st es).1.db = ownedBy v st.db := by
  intro es
  induction es with
  | nil => intro st _; rfl
  | cons e es ih =>
    intro st h
    simp only [runAll]
    rw [ih _ h.2]
    exact event_others_untouched E st e v h.1

/-- the same at command granularity: any number of requests in flight, their commands interleaved
by an arbitrary schedule; if none of them acts for or mentions `v`, the problems of `v` stay put.
(Instance: `thsX` in §7 — three handler programs of the model, hypothesis from `handler_owner_only`, every
database, every schedule.  `v ∉ names` also excludes the unused name proposal of an authenticated `add`,
see the header.  In the full concurrent model `ServerCmd` the corresponding statements are
`command_others_untouched` / `isolation_all_schedules`; for RESPONSES `responses_from_own_finds` and
`response_determined_by_own_results`.) -/
theorem isolation_commands (v : T) : ∀ (sched : List Nat) (db : Db T H A R) (ths : List (Thread T H A R)),
    (∀ th ∈ ths, ∃ jar U names, U ≠ some v ∧ v ∉ names ∧ AllCmds (Owned jar U names) (fun _ => True) th.prog) →
    ownedBy v (crun db ths sched).1 = ownedBy v db := by
  intro sched
  induction sched with
  | nil => intro db ths _; rfl
  | cons i is ih =>
    intro db ths h
    simp only [crun]
    unfold cstep
    cases hth : ths[i]? with
    | none => exact ih db ths h
    | some th =>
      simp only
      obtain ⟨jar, U, names, hU, hn, hall⟩ := h th (List.mem_of_getElem? hth)
      cases hp : th.prog with
      | ret a => exact ih db ths h
      | cmd c k =>
        simp only
        rw [hp] at hall
        cases hall with
        | cmd _ _ hq hk =>
          rw [ih]
          · exact owned_cmd_others_untouched db c jar U names v hq hU hn
          · intro th' hth'
            rcases List.mem_or_eq_of_mem_set hth' with h' | h'
            · exact h th' h'
            · subst h'
              exact ⟨jar, U, names, hU, hn, hk _ (exec_rok db c)⟩

/-! ## 2b. acting for `v` versus mentioning `v`'s name (review C17, kind 3)

`touches` lumps together two different things: an event that ACTS for `v` (a request whose identity
is `v`; a background event of a task `v` started) and a request of somebody else whose payload
merely carries `v`'s account name (`register v …`, `login v …`, `update v …`, or the unused random
name proposal of an authenticated `add`). `isolation` above excludes both. The theorems of this
section allow the second kind: only events that act for `v` are excluded (`QuietA`). The price is
the hypothesis that the account `v` exists — for a name nobody holds "`v`'s credentials" is
meaningless, and `register v` legitimately creates it. -/

omit [DecidableEq T] in
/-- for requests, `touches` is exactly "acts for `v` or mentions `v`" -/
theorem touches_split (v : T) (st : State T H A R) (rq : Request T) :
    touches v st (.req rq) ↔ actsFor v st (.req rq) ∨ mentions v (.req rq) := Iff.rfl

omit [DecidableEq T] in
theorem state_ext {s t : State T H A R} (h1 : s.db = t.db) (h2 : s.sess = t.sess) : s = t := by
  cases s; cases t; simp_all

/-- **mentions-only requests are harmless.** `v` has an account; a request from a jar whose
identity is not `v` names `v`:
* `register v …`: the whole server state (database and every session) is unchanged, and with
  non-empty fields the answer to the OTHER user is the documented `409 name taken`;
* `update v …` (rename to `v`): the same — state unchanged, `409 name taken` for a logged-in jar;
* `login v p`: the database is unchanged; unless the answer is 200 — which requires `p` to verify
  against `v`'s stored credential, i.e. the requester knows `v`'s password and thereby IS `v` — the
  whole state is unchanged (a failed login attempt as `v` has no effect at all).
Since the state is unchanged, every later response to `v` (and to anybody) is what it would have
been without the request. -/
theorem mentions_only_harmless (E : Env T H A R) (st : State T H A R) (jar : Nat) (v p : T) (salt : Nat)
    (hv : hasAccount v st.db) (hU : st.sess jar ≠ some v) :
    ((step E st ⟨jar, .register v p salt⟩).1 = st ∧
      (v ≠ E.emp → p ≠ E.emp → (step E st ⟨jar, .register v p salt⟩).2 = ⟨409, .keep, .msg .nameTaken⟩)) ∧
    ((step E st ⟨jar, .update v p salt⟩).1 = st ∧
      (v ≠ E.emp → p ≠ E.emp → st.sess jar ≠ none →
        (step E st ⟨jar, .update v p salt⟩).2 = ⟨409, .keep, .msg .nameTaken⟩)) ∧
    ((step E st ⟨jar, .login v p⟩).1.db = st.db ∧
      ((step E st ⟨jar, .login v p⟩).2.status ≠ 200 → (step E st ⟨jar, .login v p⟩).1 = st) ∧
      ((step E st ⟨jar, .login v p⟩).2.status = 200 →
        ∃ x h, st.db.users.find? (isUser v) = some x ∧ x.password = some h ∧ E.verify h p = true)) := by
  have r := register_taken E st jar v p salt hv
  have u := update_taken E st jar v p salt hv hU
  have l := login_harmless E st jar v p
  exact ⟨⟨state_ext r.1 r.2.1, r.2.2⟩, ⟨state_ext u.1 u.2.1, u.2.2⟩,
    ⟨l.1, fun h => state_ext l.1 (l.2.1 h), l.2.2⟩⟩

/-- **any request that does not act for `v`** — mentioning `v` or not — leaves `v`'s user record
(credential), `v`'s problems and `v`'s running entries as they are, and `v` still exists -/
theorem request_not_acting_untouched (E : Env T H A R) (st : State T H A R) (rq : Request T) (v : T)
    (hv : hasAccount v st.db) (hU : actor (st.sess rq.jar) rq.req ≠ some v) :
    ownedBy v (step E st rq).1.db = ownedBy v st.db ∧
    (step E st rq).1.db.users.find? (isUser v) = st.db.users.find? (isUser v) ∧
    (step E st rq).1.db.running.filter (fun i => decide (i.username = v)) =
      st.db.running.filter (fun i => decide (i.username = v)) ∧
    hasAccount v (step E st rq).1.db ∧
    (∀ k, k ≠ rq.jar → (step E st rq).1.sess k = st.sess k) := by
  have h := request_not_acting_view E st rq v hv hU
  refine ⟨h.problems, h.find, h.running, h.hasAccount hv, ?_⟩
  intro k hk
  simp only [step, stepT, if_neg hk]

/-- **isolation, mentions allowed.** Under every interleaving of requests and background-task
events: as long as no event ACTS for the existing account `v` — other users may try to register
`v`'s name, try passwords on it, try to rename themselves to it — the problems of `v`, its user
record with the stored credential, and its running entries are exactly what they were -/
theorem isolation_mentions_allowed (E : Env T H A R) (v : T) (es : List (Event T)) (st : State T H A R)
    (hv : hasAccount v st.db) (hq : QuietA E v st es) :
    ownedBy v (runAll E st es).1.db = ownedBy v st.db ∧
    (runAll E st es).1.db.users.find? (isUser v) = st.db.users.find? (isUser v) ∧
    (runAll E st es).1.db.running.filter (fun i => decide (i.username = v)) =
      st.db.running.filter (fun i => decide (i.username = v)) ∧
    hasAccount v (runAll E st es).1.db := by
  have h := isolation_view E v es st hv hq
  exact ⟨h.problems, h.find, h.running, h.hasAccount hv⟩

/-- **the permitted difference, made explicit.** An event that leaves the server state as it is —
by `mentions_only_harmless`: a `register v …` or `update v …` of somebody else against the existing
account `v` (the `409 name taken` conflict), or a failed `login v …` — can be removed from ANY
history without changing what any OTHER cookie jar observes, nor the final state. This is the case
that the hypothesis of `noninterference_partial` excludes (first item of its list): the only
observable effect of a name conflict is the response to the jar that caused it. -/
theorem noop_event_unobservable (E : Env T H A R) (st : State T H A R) (e : Event T) (es : List (Event T))
    (h : (stepEv E st e).1 = st) :
    (runAll E st (e :: es)).1 = (runAll E st es).1 ∧
    ∀ j, j ≠ e.jar → obs j (runAll E st (e :: es)).2 = obs j (runAll E st es).2 := by
  have h1 : (runAll E st (e :: es)).1 = (runAll E (stepEv E st e).1 es).1 := rfl
  have h2 : (runAll E st (e :: es)).2 =
      (match (stepEv E st e).2 with | some r => [(e.jar, r)] | none => []) ++ (runAll E (stepEv E st e).1 es).2 := rfl
  rw [h1, h2, h]
  refine ⟨rfl, fun j hj => ?_⟩
  rw [obs_append]
  cases (stepEv E st e).2 with
  | none => simp [obs]
  | some r => simp [obs, Ne.symm hj]

/-- … and the same for an event ANYWHERE in the history (not only at its head): if the event after the
prefix `pre` leaves the state it is executed in as it is, then removing it changes neither the final
state nor what any jar other than its own (`obs`) / any set of jars not containing its own (`obsJ`)
observes.  By `mentionNoopB_sound` this applies to every `register v` / `update → v` of somebody else
against the existing account `v` and to every failed `login v`. -/
theorem noop_event_unobservable_anywhere (E : Env T H A R) (st : State T H A R) (pre post : List (Event T)) (e : Event T)
    (h : (stepEv E (runAll E st pre).1 e).1 = (runAll E st pre).1) :
    (runAll E st (pre ++ e :: post)).1 = (runAll E st (pre ++ post)).1 ∧
    (∀ J : Nat → Bool, J e.jar = false →
      obsJ J (runAll E st (pre ++ e :: post)).2 = obsJ J (runAll E st (pre ++ post)).2) ∧
    (∀ j, j ≠ e.jar → obs j (runAll E st (pre ++ e :: post)).2 = obs j (runAll E st (pre ++ post)).2) :=
  noop_event_unobservable_mid E st pre post e h

/-! ### salts

What the model says about "salted": the salt is an INPUT of the `register` / `update` request
(`Req.register u p salt`; the code draws it with `SaltString::generate(&mut OsRng)` per call), so
every theorem about histories quantifies over all choices of all salts, equal or different, and a
stored credential is the hash under the salt of the very write that stored it. Assumed of argon2
(`Env.hash`, `Env.verify`), and only where stated: it is a function of salt and password;
`verify (hash s p) p' ↔ p = p'` (in `login_iff`); `hash s p ≠ p` (in `stored_not_plaintext`);
injectivity in the salt (in `same_password_distinct_salts` below). Nothing is assumed or proved
about the salts' randomness or the hash's one-wayness. -/

/-- a successful `register` appends the record `(u, hash salt p)` for the salt of THAT request; a
successful `update` replaces the session's record by `(u', hash salt p')` for the salt of THAT
request -/
theorem stored_uses_request_salt (E : Env T H A R) (st : State T H A R) (jar : Nat) (u p : T) (salt : Nat) :
    ((step E st ⟨jar, .register u p salt⟩).2.status = 200 →
      (step E st ⟨jar, .register u p salt⟩).1.db.users = st.db.users ++ [⟨u, some (E.hash salt p)⟩]) ∧
    ((step E st ⟨jar, .update u p salt⟩).2.status = 200 → ∃ u0, st.sess jar = some u0 ∧
      (step E st ⟨jar, .update u p salt⟩).1.db.users =
        updFirst (isUser u0) (fun _ => ⟨u, some (E.hash salt p)⟩) st.db.users) :=
  ⟨register_stores E st jar u p salt, update_stores E st jar u p salt⟩

/-- two accounts registered with the SAME password under different salts store different
credentials, for a hash that is injective in the salt -/
theorem same_password_distinct_salts (E : Env T H A R) (hinj : ∀ s s' p, E.hash s p = E.hash s' p → s = s')
    (st : State T H A R) (j1 j2 : Nat) (u1 u2 p : T) (s1 s2 : Nat) (hs : s1 ≠ s2)
    (h1 : (step E st ⟨j1, .register u1 p s1⟩).2.status = 200)
    (h2 : (step E (step E st ⟨j1, .register u1 p s1⟩).1 ⟨j2, .register u2 p s2⟩).2.status = 200) :
    (step E (step E st ⟨j1, .register u1 p s1⟩).1 ⟨j2, .register u2 p s2⟩).1.db.users =
      st.db.users ++ [⟨u1, some (E.hash s1 p)⟩, ⟨u2, some (E.hash s2 p)⟩] ∧
    E.hash s1 p ≠ E.hash s2 p := by
  refine ⟨?_, fun e => hs (hinj _ _ _ e)⟩
  rw [register_stores E _ j2 u2 p s2 h2, register_stores E st j1 u1 p s1 h1]
  simp

/-! ## 3. what a response can contain -/

/-- **unauth_no_data.** A request without a session never obtains problem data. -/
theorem unauth_no_data (E : Env T H A R) (st : State T H A R) (rq : Request T) (h : st.sess rq.jar = none) :
    infos (step E st rq).2.body = [] := by
  have hr := run_ret (handler_owned E rq.jar (st.sess rq.jar) rq.req) st.db
  simp only [step, stepT]
  cases hq : rq.req <;> rw [hq] at hr <;> simp only [RetShape] at hr <;> first | exact hr.1 | exact hr.1 h

/-- the problem data in a response to a session naming `u` is data of problems that are in the
database with `username = u` at that moment -/
theorem resp_owned (E : Env T H A R) (st : State T H A R) (rq : Request T) :
    ∀ i ∈ infos (step E st rq).2.body, ∃ u p, st.sess rq.jar = some u ∧ p ∈ st.db.problems ∧ p.username = u ∧
      i.name = p.name ∧ i.code = p.code ∧ i.parseOnly = p.parseOnly ∧ i.res = p.res := by
  intro i hi
  have hr := run_ret (handler_owned E rq.jar (st.sess rq.jar) rq.req) st.db
  cases hid : st.sess rq.jar with
  | none => rw [unauth_no_data E st rq hid] at hi; cases hi
  | some u =>
    refine ⟨u, ?_⟩
    simp only [step, stepT] at hi
    cases hq : rq.req with
    | get name =>
      rw [hq, hid] at hi
      simp only [handler, hGet, run, exec] at hi
      cases hf : st.db.problems.find? (isProb u name) with
      | none => rw [hf] at hi; simp [reply, run, infos] at hi
      | some p =>
        rw [hf] at hi
        simp only [run, exec, infos, List.mem_singleton] at hi
        have hp := List.find?_some hf
        simp only [isProb, Bool.and_eq_true, decide_eq_true_eq] at hp
        exact ⟨p, rfl, List.mem_of_find?_eq_some hf, hp.2, by rw [hi]; simp [infoOf]⟩
    | list =>
      rw [hq, hid] at hi
      simp only [handler, hList, run, exec] at hi
      have key : ∀ (ps : List (Problem T A R)) (acc : List (Info T R)) (db : Db T H A R),
          ∀ i ∈ infos (run (listInfos acc ps : P T H A R) db).2.1.body, i ∈ acc ∨ ∃ p ∈ ps, ∃ ts, i = infoOf p ts := by
        intro ps
        induction ps with
        | nil => intro acc db i hi; simp only [listInfos, run, infos] at hi; exact Or.inl hi
        | cons p ps ih =>
          intro acc db i hi
          simp only [listInfos, run] at hi
          rcases ih _ _ i hi with h | ⟨q, hq', ts, h⟩
          · simp only [List.mem_append, List.mem_singleton] at h
            rcases h with h | h
            · exact Or.inl h
            · exact Or.inr ⟨p, List.mem_cons_self .., _, h⟩
          · exact Or.inr ⟨q, List.mem_cons_of_mem _ hq', ts, h⟩
      rcases key _ _ _ i hi with h | ⟨p, hp, ts, h⟩
      · cases h
      · simp only [List.mem_filter, ownedP, decide_eq_true_eq] at hp
        exact ⟨p, rfl, hp.1, hp.2, by rw [h]; simp [infoOf]⟩
    | _ =>
      rw [hq] at hr
      simp only [RetShape] at hr
      rw [hq] at hi
      rw [hr.1] at hi
      cases hi

/-! ## 4. credentials -/

/-- a history with the observer's bookkeeping of the passwords that were set (`credStep`: updated
after a successful `register`, `update` and account deletion only) -/
def runCred (E : Env T H A R) : State T H A R → (T → Option T) → List (Event T) → State T H A R × (T → Option T)
  | st, g, [] => (st, g)
  | st, g, e :: es =>
    let o := stepEv E st e
    let g' := match e, o.2 with
      | .req rq, some r => credStep g (st.sess rq.jar) rq.req r.status
      | _, _ => g
    runCred E o.1 g' es

theorem dbEv_users (E : Env T H A R) (db : Db T H A R) (e : Event T) : (dbEv E db e).users = db.users := by
  cases e with
  | req rq => rfl
  | finish j n => simp only [dbEv]; cases nthOf j n db.tasks <;> simp only <;> split <;> rfl
  | write j n => simp only [dbEv]; cases nthOf j n db.tasks <;> simp only <;> split <;> rfl
  | timeout j n => simp only [dbEv]; cases nthOf j n db.tasks <;> simp only <;> split <;> rfl

theorem runCred_inv (E : Env T H A R) : ∀ (es : List (Event T)) (st : State T H A R) (g : T → Option T),
    CredInv E st.db.users g → CredInv E (runCred E st g es).1.db.users (runCred E st g es).2 := by
  intro es
  induction es with
  | nil => intro st g h; exact h
  | cons e es ih =>
    intro st g h
    simp only [runCred]
    apply ih
    cases e with
    | req rq => exact step_cred E st rq g h
    | finish j n => simp only [stepEv]; rw [dbEv_users]; exact h
    | write j n => simp only [stepEv]; rw [dbEv_users]; exact h
    | timeout j n => simp only [stepEv]; rw [dbEv_users]; exact h

/-- login in a state that satisfies the credential invariant -/
theorem login_iff_inv (E : Env T H A R) (hv : ∀ s p p', E.verify (E.hash s p) p' = true ↔ p = p')
    (st : State T H A R) (g : T → Option T) (inv : CredInv E st.db.users g) (jar : Nat) (u p : T)
    (hu : u ≠ E.emp) (hp : p ≠ E.emp) :
    (step E st ⟨jar, .login u p⟩).2.status = 200 ↔ g u = some p := by
  simp only [step, stepT, handler, hLogin]
  rw [if_neg (by simp [hu, hp])]
  simp only [run, exec]
  cases hf : st.db.users.find? (isUser u) with
  | none =>
    have := inv.absent u ((find_none_iff u _).mp hf)
    simp [run, reply, this]
  | some x =>
    have hx : x ∈ st.db.users := List.mem_of_find?_eq_some hf
    have hxu : x.username = u := by simpa [isUser] using List.find?_some hf
    simp only
    cases hpw : x.password with
    | none =>
      have := inv.temp x hx hpw
      rw [hxu] at this
      simp [run, reply, this]
    | some h =>
      obtain ⟨salt, pw, hh, hg⟩ := inv.cred x hx h hpw
      rw [hxu] at hg
      simp only
      by_cases hver : E.verify h p = true
      · have : pw = p := (hv salt pw p).mp (hh ▸ hver)
        simp [hver, run, hg, this]
      · have : pw ≠ p := fun hpp => hver (hh ▸ (hv salt pw p).mpr hpp)
        simp [hver, run, reply, hg, this]

/-- **login_iff.** After any history from the empty service, a login with a (non-empty) user name
and password succeeds iff the password is the one most recently set for that account — set by the
last successful `register` or `update` that produced the account's current name, and not deleted
since.  In particular it never succeeds for a temporary account (nothing was ever set for it) and
never for an absent account.  The hash is opaque: only `verify (hash s p) p' ↔ p = p'` is used. -/
theorem login_iff (E : Env T H A R) (hv : ∀ s p p', E.verify (E.hash s p) p' = true ↔ p = p')
    (es : List (Event T)) (jar : Nat) (u p : T) (hu : u ≠ E.emp) (hp : p ≠ E.emp) :
    (step E (runCred E {} (fun _ => none) es).1 ⟨jar, .login u p⟩).2.status = 200 ↔
      (runCred E {} (fun _ => none) es).2 u = some p :=
  login_iff_inv E hv _ _ (runCred_inv E es {} _ (CredInv.init E)) jar u p hu hp

/-- temporary accounts cannot log in (any state, any password) -/
theorem temp_cannot_login (E : Env T H A R) (st : State T H A R) (jar : Nat) (u p : T) (x : User T H)
    (hx : st.db.users.find? (isUser u) = some x) (htemp : x.password = none) :
    (step E st ⟨jar, .login u p⟩).2.status ≠ 200 := by
  simp only [step, stepT, handler, hLogin]
  split
  · simp [run, reply]
  · simp [run, exec, hx, htemp, reply]

/-- **stored_is_hash.** After any history, every stored credential is `hash salt pw` for some salt
and the password `pw` most recently set for that account (temporary accounts store none); account
names are unique. -/
theorem stored_is_hash (E : Env T H A R) (es : List (Event T)) :
    let o := runCred E {} (fun _ => none) es
    (o.1.db.users.map (·.username)).Nodup ∧
    ∀ x ∈ o.1.db.users, ∀ h, x.password = some h → ∃ salt pw, h = E.hash salt pw ∧ o.2 x.username = some pw := by
  have inv := runCred_inv E es {} _ (CredInv.init E)
  exact ⟨inv.nodup, inv.cred⟩

/-- … and therefore never the password itself, for a hash that never returns its input (argon2's
output is a PHC string; the assumption is stated, not proved) -/
theorem stored_not_plaintext (E : Env T T A R) (hne : ∀ s p, E.hash s p ≠ p) (es : List (Event T)) :
    let o := runCred E {} (fun _ => none) es
    ∀ x ∈ o.1.db.users, ∀ h, x.password = some h → ∀ pw, o.2 x.username = some pw → h ≠ pw := by
  intro o x hx h hpw pw hg
  obtain ⟨salt, pw', hh, hg'⟩ := (stored_is_hash E es).2 x hx h hpw
  rw [hg'] at hg
  simp only [Option.some.injEq] at hg
  subst hg
  rw [hh]; exact hne salt pw'

/-! ## 5. noninterference -/

/-- **noninterference_partial.** Account names are used with discipline as far as jar `j` is
concerned (`Disciplined`): mentioning a name (in `register`, `login`, `update`, or as the generated
name of a temporary account) claims it; `j` mentions a name only if it claimed it last itself or
nothing of that name exists any more — no account, no problem, no running entry, no session, no
unfinished task — and the others mention a name that `j` claimed last only when nothing of it exists
any more.  Then, for every interleaving of everybody's requests and background-task events, what `j`
observes — the responses to its requests, in order — is exactly what it would observe if only its
own events happened.

This is the property's "no account name is re-used while sessions/tasks of its previous owner
exist".  Partial w.r.t. "apart from account names being unique, each user's observable history is
what it would be if that user were alone":
* name-uniqueness conflicts — the mentions of a name that is in use by the other side: `register v`
  (409), `update → v` (409), a failed `login v` (400), an unauthenticated `add` whose generated name
  is taken (500) — are excluded by the hypothesis of THIS statement instead of being treated as
  permitted differences.  `noninterference_jars_conflicts` below permits them to the OTHERS (merging
  `mentions_only_harmless` + `noop_event_unobservable` into the statement); for conflicts caused by
  the user himself and for the full text see `noninterference_statement` / `noninterference_full`;
* a user is a cookie jar here; two jars logging into the same account are one user of the property
  and are excluded by the hypothesis of THIS statement - `noninterference_jars` below removes that
  restriction (a user = any set of cookie jars);
* requests are atomic (isolation at command granularity is `isolation_commands`).
That the hypothesis cannot be dropped is shown by `stale_cookie_interferes` and
`late_write_interferes` (D9) below: in both, a name is re-used while a session resp. an unfinished
task of its previous owner still exists. -/
theorem noninterference_partial (E : Env T H A R) (j : Nat) (es : List (Event T))
    (h : Disciplined E j (fun _ => none) {} es) :
    obs j (runAll E {} es).2 = obs j (runAll E {} (es.filter (fun e => decide (e.jar = j)))).2 :=
  nonint_dyn E j es (fun _ => none) {} {} ⟨DbSim.refl .., rfl⟩
    ⟨(by intro u hu; cases hu), (by intro k _ u hu; cases hu), (by intro t ht; cases ht)⟩
    ⟨(by intro u hu; cases hu), (by intro k _ u hu; cases hu), (by intro t ht; cases ht)⟩
    ⟨(by intro u hu; cases hu), (by intro p hp; cases hp), (by intro i hi; cases hi), (fun _ _ => rfl),
     (by intro t ht; cases ht)⟩ h

/-- the static special case: `j` uses names from a set `S` only, everybody else names outside `S`
only (the others may interfere with each other as they like) -/
theorem noninterference_static (E : Env T H A R) (S : T → Bool) (j : Nat) (es : List (Event T))
    (h : ∀ e ∈ es, (e.jar = j → e.namesIn S) ∧ (e.jar ≠ j → e.namesIn (fun x => !S x))) :
    obs j (runAll E {} es).2 = obs j (runAll E {} (es.filter (fun e => decide (e.jar = j)))).2 :=
  nonint_run E S j es {} {} ⟨DbSim.refl .., rfl⟩
    ⟨(by intro u hu; cases hu), (by intro k _ u hu; cases hu), (by intro t ht; cases ht)⟩
    ⟨(by intro u hu; cases hu), (by intro k _ u hu; cases hu), (by intro t ht; cases ht)⟩ h

/-- **noninterference_jars** (any number of jars - sessions - per user). A user is a SET `J` of cookie
jars: all browsers / devices of one person, logged in to the same account (or to several accounts of
his). Discipline (`DisciplinedJ`): mentioning an account name claims it for the mentioning jar; a jar
of `J` mentions a name only if a jar of `J` claimed it last or nothing of that name exists any more;
a jar outside `J` mentions a name that a jar of `J` claimed last only when nothing of it exists any more.
Nothing is required among the jars of `J`. Then, for every interleaving of everybody's requests and
task events, what the user observes - the responses to the requests of ALL his jars, in order, each
with the jar it went to - is exactly what he would observe if only the events of his jars happened.
`noninterference_partial` is the instance `J = {j}` (`noninterference_partial_from_jars`). Still
partial w.r.t. the property text in the two other respects listed at `noninterference_partial`
(name-uniqueness conflicts are excluded by the hypothesis — weakened in `noninterference_jars_conflicts`;
requests are atomic); the full text is `noninterference_statement`. -/
theorem noninterference_jars (E : Env T H A R) (J : Nat → Bool) (es : List (Event T))
    (h : DisciplinedJ E J (fun _ => none) {} es) :
    obsJ J (runAll E {} es).2 = obsJ J (runAll E {} (es.filter (fun e => J e.jar))).2 :=
  nonint_dynJ E J es (fun _ => none) {} {} ⟨DbSim.refl .., fun _ _ => rfl⟩
    ⟨(by intro k _ u hu; cases hu), (by intro k _ u hu; cases hu), (by intro t ht; cases ht)⟩
    ⟨(by intro k _ u hu; cases hu), (by intro k _ u hu; cases hu), (by intro t ht; cases ht)⟩
    ⟨(by intro u hu; cases hu), (by intro p hp; cases hp), (by intro i hi; cases hi), (fun _ _ => rfl),
     (by intro t ht; cases ht)⟩ h

/-- the static special case for a set of jars -/
theorem noninterference_static_jars (E : Env T H A R) (S : T → Bool) (J : Nat → Bool) (es : List (Event T))
    (h : ∀ e ∈ es, (J e.jar = true → e.namesIn S) ∧ (J e.jar = false → e.namesIn (fun x => !S x))) :
    obsJ J (runAll E {} es).2 = obsJ J (runAll E {} (es.filter (fun e => J e.jar))).2 :=
  nonint_runJ E S J es {} {} ⟨DbSim.refl .., fun _ _ => rfl⟩
    ⟨(by intro k _ u hu; cases hu), (by intro k _ u hu; cases hu), (by intro t ht; cases ht)⟩
    ⟨(by intro k _ u hu; cases hu), (by intro k _ u hu; cases hu), (by intro t ht; cases ht)⟩ h

/-- the one-jar discipline is the discipline of the singleton set -/
theorem disciplinedJ_of_disciplined (E : Env T H A R) (j : Nat) : ∀ (es : List (Event T)) (own : T → Option Nat)
    (st : State T H A R), Disciplined E j own st es → DisciplinedJ E (fun k => decide (k = j)) own st es := by
  intro es
  induction es with
  | nil => intro _ _ _; trivial
  | cons e es ih =>
    intro own st h
    refine ⟨fun n hn => ?_, ih _ _ h.2⟩
    rcases h.1 n hn with h1 | h1
    · left
      by_cases hj : e.jar = j
      · rw [if_pos hj] at h1
        simp [ownedByJ, h1, hj]
      · rw [if_neg hj] at h1
        cases ho : own n with
        | none => simp [ownedByJ, hj]
        | some k =>
          have : k ≠ j := by intro e'; rw [ho, e'] at h1; exact h1 rfl
          simp [ownedByJ, hj, this]
    · exact Or.inr h1

/-- `noninterference_partial` IS the one-jar instance of `noninterference_jars` -/
theorem noninterference_partial_from_jars (E : Env T H A R) (j : Nat) (es : List (Event T))
    (h : Disciplined E j (fun _ => none) {} es) :
    obs j (runAll E {} es).2 = obs j (runAll E {} (es.filter (fun e => decide (e.jar = j)))).2 := by
  have := noninterference_jars E (fun k => decide (k = j)) es (disciplinedJ_of_disciplined E j es _ _ h)
  exact congrArg (List.map (·.2)) this

/-- **noninterference_jars_conflicts** (name conflicts caused by the OTHERS are permitted differences).
The discipline `DisciplinedJ'` is `DisciplinedJ` except that an event of a jar outside `J` that leaves
the server state as it is — `ServerM.mentionNoopB_sound`: a `register v` or `update → v` against an
existing account `v` (answered `409 name taken`), a failed `login v` (400/404), whatever `v` is, in
particular an account of the user `J` — is ALWAYS allowed and claims nothing.  The conclusion is that
of `noninterference_jars`: what the user observes on all his jars is exactly what he would observe if
only the events of his jars happened; the only observable effect of such a conflict is the response
to the jar that caused it.  `noninterference_jars` is the special case without such events
(`ServerM.disciplinedJ'_of_disciplinedJ`).  Instance: `histX1_alice` below (bob tries a password on
alice's account — `DisciplinedJ` fails there, `histX1_not_disciplinedJ`). -/
theorem noninterference_jars_conflicts (E : Env T H A R) (J : Nat → Bool) (es : List (Event T))
    (h : DisciplinedJ' E J (fun _ => none) {} es) :
    obsJ J (runAll E {} es).2 = obsJ J (runAll E {} (es.filter (fun e => J e.jar))).2 :=
  nonint_dynJ' E J es (fun _ => none) {} {} ⟨DbSim.refl .., fun _ _ => rfl⟩
    ⟨(by intro k _ u hu; cases hu), (by intro k _ u hu; cases hu), (by intro t ht; cases ht)⟩
    ⟨(by intro k _ u hu; cases hu), (by intro k _ u hu; cases hu), (by intro t ht; cases ht)⟩
    ⟨(by intro u hu; cases hu), (by intro p hp; cases hp), (by intro i hi; cases hi), (fun _ _ => rfl),
     (by intro t ht; cases ht)⟩ h

/-- **clause (2) of `noninterference_statement`.**  Under the discipline of the full statement
(`DisciplinedF`: only name re-use while something of the previous owner exists, and logging in to the other
side's account, are excluded) with conflicts permitted to the OTHERS (`ownConfl = false`) — every
`register v`, `update → v`, failed `login v` against an existing account of the user `J`, every
unauthenticated `add` whose generated name is an account of `J`, every authenticated `add` whose unused
name proposal is an account of `J` (`ghost = true`) — the user's observations on all his jars equal those
of the run pruned to his events.  Proof: every such conflict is a no-op on the whole state
(`ServerM.conflict_noop`) or an authenticated `add`, which does not depend on its proposal
(`ServerM.stepEv_deghost`); hence `DisciplinedJ'` (`ServerM.disciplinedJ'_of_disciplinedF`).
Instance: `histX4_bob`. -/
theorem noninterference_conflicts_of_others (E : Env T H A R) (J : Nat → Bool) (ghost : Bool) (es : List (Event T))
    (h : DisciplinedF E J false ghost (fun _ => none) {} es) :
    obsJ J (runAll E {} es).2 = obsJ J (runAll E {} (es.filter (fun e => J e.jar))).2 :=
  noninterference_jars_conflicts E J es (disciplinedJ'_of_disciplinedF E J ghost es _ _ h)

end

/-- **noninterference_statement — the FULL-strength clause** (proved: `noninterference_full`).
"Apart from account names being unique, each user's observable history is what it would be if that
user were alone", for every history of the atomic model, every instance of the parameters and every
user = set `J` of cookie jars (several devices / sessions of one person).

*Hypothesis* (`ServerM.DisciplinedF`): no account name is (re-)used by the other side while ANYTHING of its previous
owner exists - account record, session, live task, running-set entry or PROBLEM DOCUMENT (`ServerM.Free`).  The
last two go beyond the wording of the property's proviso ("… while sessions / tasks of its previous owner exist")
and are necessary too: `orphan_problem_interferes` (necessity of the others: `stale_cookie_interferes`,
`late_write_interferes`); and nobody passes the credential check of an account of the other side
(who does, IS that user).  Every other mention of a name that is in use by the other side (a CONFLICT)
is allowed: `register v`, `update → v`, a failed `login v`, a generated temporary name that is taken,
the unused name proposal of an authenticated `add` (fourth argument `ghost = true`) — by the others
against the user's names (third argument `ownConfl = false`) and also by the user against the others'
names (`ownConfl = true`).  A conflicting mention claims nothing.

*Conclusion.* (1) What the user observes in the full run is EXACTLY the alone run with reserved names
(`ServerM.runRsv`): the user's events only, executed on a state that holds nothing of anybody else
except that the account names (user records) the others hold at that moment are taken.  So the
permitted differences to the plain pruned run are exactly the consequences of name uniqueness: the
user's own `register v` / `update → v` is answered 409 instead of 200, his `login v` 400 instead of
404, his unauthenticated `add` 500 when the generated name is held by somebody else — and what follows
from THAT request having failed; a foreign event that takes a free name that the user later tries to
take changes the status of that request of the user and nothing else.
(2) If only the others cause conflicts, there is no difference at all: full run = pruned run.

*Proved:* all of it — `noninterference_full` (clause (1): `noninterference_reserved_names`, by an
unwinding argument in which every conflict is either a no-op on the state, `ServerM.conflict_noop`, with
a response that depends only on the record found under the contested name, `ServerM.conflict_resp`, or
an authenticated `add`, which does not depend on its proposal, `ServerM.stepEv_deghost`; clause (2):
`noninterference_conflicts_of_others`, more generally `noninterference_jars_conflicts` for any foreign
event that leaves the state unchanged).  Special cases proved earlier: without any conflict
`noninterference_jars` (several jars) and `noninterference_partial` (one jar); removal of a single
no-op event anywhere in ANY history, no discipline needed: `noop_event_unobservable_anywhere`.
*What this statement does not cover:* command granularity (requests are atomic here; what is proved for
all command interleavings is isolation and the provenance / functional dependence of responses, §7,
not noninterference — and `add_race_duplicate`, `delete_add_race_orphan` show that single-user
check-then-act races exist at that granularity); the simplifications of the model listed in the header
of this file; a user who knows the password of an account of the other side. -/
def noninterference_statement : Prop :=
  ∀ (T H A R : Type) [DecidableEq T] (E : Env T H A R) (J : Nat → Bool) (es : List (Event T)),
    (DisciplinedF E J true true (fun _ => none) {} es →
      obsJ J (runAll E {} es).2 = runRsv E J {} {} es) ∧
    (DisciplinedF E J false true (fun _ => none) {} es →
      obsJ J (runAll E {} es).2 = obsJ J (runAll E {} (es.filter (fun e => J e.jar))).2)

section
variable {T H A R : Type} [DecidableEq T]

/-- **clause (1): the alone run with reserved names.**  Conflicts are permitted to BOTH sides
(`ownConfl = true`).  Instances: `histX3_alice`, `histX3_bob`. -/
theorem noninterference_reserved_names (E : Env T H A R) (J : Nat → Bool) (ghost : Bool) (es : List (Event T))
    (h : DisciplinedF E J true ghost (fun _ => none) {} es) :
    obsJ J (runAll E {} es).2 = runRsv E J {} {} es :=
  nonint_rsv E J ghost es (fun _ => none) {} {} ⟨DbSim.refl .., fun _ _ => rfl⟩
    ⟨(by intro k _ u hu; cases hu), (by intro k _ u hu; cases hu), (by intro t ht; cases ht)⟩
    ⟨(by intro k _ u hu; cases hu), (by intro k _ u hu; cases hu), (by intro t ht; cases ht)⟩
    ⟨(by intro u hu; cases hu), (by intro p hp; cases hp), (by intro i hi; cases hi), (fun _ _ => rfl),
     (by intro t ht; cases ht)⟩ h

end

/-- **noninterference_full: the full statement holds.** -/
theorem noninterference_full : noninterference_statement := by
  intro T H A R _ E J es
  exact ⟨noninterference_reserved_names E J true es, noninterference_conflicts_of_others E J true es⟩

/-! ## 6. non-vacuity and the counterexamples without the hypothesis -/

/-- a small instance: names, passwords and codes are numbers (0 = empty), the hash keeps salt and
password, the library echoes the code -/
def E0 : Env Nat (Nat × Nat) Nat Nat where
  emp := 0
  hash := fun s p => (s, p)
  verify := fun h p => h.2 == p
  parse := fun _ code => .ok (code, code)
  solve := fun a _ => .ok a

theorem E0_verify : ∀ s p p', E0.verify (E0.hash s p) p' = true ↔ p = p' := by
  intro s p p'; simp [E0]

/-- alice = 1, her password 7; p1 = 5; code 9 -/
def hist1 : List (Event Nat) :=
  [.req ⟨0, .register 1 7 0⟩, .req ⟨0, .login 1 7⟩, .req ⟨0, .add 5 (some 9) none .naive 200 201⟩,
   .finish 0 0, .write 0 0, .req ⟨1, .get 5⟩, .req ⟨1, .add 5 (some 8) none .naive 100 101⟩, .req ⟨0, .get 5⟩]

-- non-vacuity of `step_owner_only`: the add request issues commands, all for alice
example : ((stepT E0 (runAll E0 {} (hist1.take 2)).1 ⟨0, .add 5 (some 9) none .naive 200 201⟩).2.2).length = 3 := by decide
-- non-vacuity of `isolation` / `unauth_no_data`: the unauthenticated jar 1 gets 401 and no data, then
-- works as a temporary account; alice's problem is untouched and she sees it parsed
example : (obs 1 (runAll E0 {} hist1).2).map (·.status) = [401, 200] := by decide
example : (obs 0 (runAll E0 {} hist1).2).getLast?.map (·.body) =
    some (.problem ⟨5, 9, .naive, .some 9, {}, []⟩) := by decide
example : Quiet E0 1 (runAll E0 {} (hist1.take 5)).1 ((hist1.drop 5).take 2) := by
  refine ⟨?_, ?_, trivial⟩ <;> simp [touches, actor, reqNames, addUser] <;> decide
-- non-vacuity of `login_iff`: right password 200, wrong password 400, temporary account 400
example : (step E0 (runAll E0 {} hist1).1 ⟨2, .login 1 7⟩).2.status = 200 := by decide
example : (step E0 (runAll E0 {} hist1).1 ⟨2, .login 1 8⟩).2.status = 400 := by decide
example : (step E0 (runAll E0 {} hist1).1 ⟨2, .login 100 7⟩).2 = ⟨400, .keep, .msg .invalidUserPw⟩ := by decide
example : (runCred E0 {} (fun _ => none) hist1).2 1 = some 7 := by decide
-- non-vacuity of `stored_is_hash`
example : (runAll E0 {} hist1).1.db.users = [⟨1, some (0, 7)⟩, ⟨100, none⟩] := by decide
-- non-vacuity of `noninterference_static`: S = {1, 200}, jar 0; the hypothesis holds for `hist1`
example : ∀ e ∈ hist1, (e.jar = 0 → e.namesIn (fun x => decide (x = 1 ∨ x = 200))) ∧
    (e.jar ≠ 0 → e.namesIn (fun x => !decide (x = 1 ∨ x = 200))) := by
  intro e he
  simp only [hist1, List.mem_cons, List.not_mem_nil, or_false] at he
  rcases he with h | h | h | h | h | h | h | h <;> subst h <;> simp [Event.jar, Event.namesIn, reqNames]

/-- bob (jar 1) tries to take alice's name, tries a password on her account, registers as `2`,
logs in and tries to rename himself to `alice` — none of these events acts for alice -/
def histMention : List (Event Nat) :=
  [.req ⟨1, .register 1 9 3⟩, .req ⟨1, .login 1 8⟩, .req ⟨1, .register 2 9 3⟩, .req ⟨1, .login 2 9⟩,
   .req ⟨1, .update 1 9 4⟩]

-- non-vacuity of `isolation_mentions_allowed`: alice exists, no event of `histMention` acts for her
-- (while `Quiet` fails at once: the first event mentions her) …
example : hasAccount 1 (runAll E0 {} (hist1.take 5)).1.db ∧
    QuietA E0 1 (runAll E0 {} (hist1.take 5)).1 histMention ∧
    ¬ Quiet E0 1 (runAll E0 {} (hist1.take 5)).1 histMention := by
  refine ⟨by unfold hasAccount; decide, ?_, ?_⟩
  · refine ⟨?_, ?_, ?_, ?_, ?_, trivial⟩ <;> simp [actsFor, actor] <;> decide
  · intro h
    exact h.1 (Or.inr (by simp [reqNames]))
-- … bob gets the documented answers (409 name taken, 400 wrong password, …, 409 name taken) …
example : (runAll E0 (runAll E0 {} (hist1.take 5)).1 histMention).2.map (·.2.status) = [409, 400, 200, 200, 409] := by
  decide
-- … and alice's record and problem are what they were
example : (runAll E0 (runAll E0 {} (hist1.take 5)).1 histMention).1.db.users.find? (isUser 1) = some ⟨1, some (0, 7)⟩ ∧
    ownedBy 1 (runAll E0 (runAll E0 {} (hist1.take 5)).1 histMention).1.db =
      ownedBy 1 (runAll E0 {} (hist1.take 5)).1.db := by
  constructor <;> decide

/-- legitimate re-use: alice (jar 0) deletes her account after her task is done; only then does
somebody else (jar 1) register `alice`.  The discipline holds for both jars although the name moves. -/
def histReuse : List (Event Nat) :=
  [.req ⟨0, .register 1 7 0⟩, .req ⟨0, .login 1 7⟩, .req ⟨0, .add 5 (some 9) none .naive 200 201⟩,
   .finish 0 0, .write 0 0, .req ⟨0, .deleteAccount⟩,
   .req ⟨1, .register 1 8 1⟩, .req ⟨1, .login 1 8⟩, .req ⟨1, .list⟩]

theorem free_after_delete : Free (1 : Nat) (runAll E0 {} (histReuse.take 6)).1 := by
  refine ⟨by decide, by decide, by decide, ?_, by decide⟩
  intro k
  have : ∀ k, (runAll E0 {} (histReuse.take 6)).1.sess k = none := by
    intro k
    simp [histReuse, runAll, stepEv, step, stepT, applyCookie, dbEv]
    split <;> rfl
  rw [this k]; simp

-- non-vacuity of `noninterference_partial`: the discipline holds for jar 1 in `histReuse`
example : Disciplined E0 1 (fun _ => none) {} histReuse := by
  refine ⟨?_, ?_, ?_, ?_, ?_, ?_, ?_, ?_, ?_, trivial⟩
  · intro n hn; simp [evNames, reqNames] at hn; subst hn; left; simp [Event.jar]
  · intro n hn; simp [evNames, reqNames] at hn; subst hn; left; simp [Event.jar, evNames, reqNames]
  · intro n hn; simp [evNames, reqNames] at hn; subst hn; left; simp [Event.jar, evNames, reqNames]
  · intro n hn; simp [evNames] at hn
  · intro n hn; simp [evNames] at hn
  · intro n hn; simp [evNames, reqNames] at hn
  · intro n hn; simp [evNames, reqNames] at hn; subst hn; right; exact free_after_delete
  · intro n hn; simp [evNames, reqNames] at hn; subst hn; left; simp [Event.jar, evNames, reqNames]
  · intro n hn; simp [evNames, reqNames] at hn

/-- two devices of alice (jars 0 and 1, both logged in to account 1) and a stranger (jar 2, account 2):
alice adds a problem on device 0 and reads it on device 1 while its parse task runs and after; the
stranger registers, logs in and adds a problem of the same name in between -/
def histTwoJars : List (Event Nat) :=
  [.req ⟨0, .register 1 7 0⟩, .req ⟨0, .login 1 7⟩, .req ⟨1, .login 1 7⟩, .req ⟨2, .register 2 8 1⟩,
   .req ⟨0, .add 5 (some 9) none .naive 200 201⟩, .req ⟨2, .login 2 8⟩, .req ⟨1, .get 5⟩,
   .req ⟨2, .add 5 (some 4) none .naive 300 301⟩, .finish 0 0, .finish 2 0, .write 2 0, .write 0 0,
   .req ⟨1, .get 5⟩, .req ⟨1, .solve 5 .ground⟩, .req ⟨2, .list⟩, .finish 1 0, .write 1 0, .req ⟨0, .get 5⟩]

def jars01 : Nat → Bool := fun k => decide (k = 0 ∨ k = 1)

-- non-vacuity of `noninterference_jars`: the discipline holds for alice's two jars (the one-jar
-- discipline fails for jar 1: it mentions the name 1 that jar 0 claimed, while account 1 exists)
theorem free_200_twoJars : Free (200 : Nat) (runAll E0 {} (histTwoJars.take 4)).1 := by
  refine ⟨by decide, by decide, by decide, ?_, by decide⟩
  intro k
  by_cases h0 : k = 0
  · subst h0; decide
  by_cases h1 : k = 1
  · subst h1; decide
  by_cases h2 : k = 2
  · subst h2; decide
  rw [runAll_sess_untouched E0 k _ _ (by
    intro e he
    simp only [histTwoJars, List.take_succ_cons, List.take_zero, List.mem_cons, List.not_mem_nil, or_false] at he
    rcases he with rfl | rfl | rfl | rfl <;> simp [Event.jar] <;> omega)]
  intro h; cases h

example : DisciplinedJ E0 jars01 (fun _ => none) {} histTwoJars := by
  refine ⟨?_, ?_, ?_, ?_, ?_, ?_, ?_, ?_, ?_, ?_, ?_, ?_, ?_, ?_, ?_, ?_, ?_, ?_, trivial⟩
  · intro n hn; right
    exact ⟨(by intro u hu; cases hu), (by intro p hp; cases hp), (by intro i hi; cases hi), (by intro k h; cases h),
      (by intro t ht; cases ht)⟩
  · intro n hn; simp [evNames, reqNames] at hn; subst hn; left; simp [Event.jar, evNames, reqNames, ownedByJ, jars01]
  · intro n hn; simp [evNames, reqNames] at hn; subst hn; left; simp [Event.jar, evNames, reqNames, ownedByJ, jars01]
  · intro n hn; simp [evNames, reqNames] at hn; subst hn; left; simp [Event.jar, evNames, reqNames, ownedByJ, jars01]
  · intro n hn; simp [evNames, reqNames] at hn; subst hn; right; exact free_200_twoJars
  · intro n hn; simp [evNames, reqNames] at hn; subst hn; left; simp [Event.jar, evNames, reqNames, ownedByJ, jars01]
  · intro n hn; simp [evNames, reqNames] at hn
  · intro n hn; simp [evNames, reqNames] at hn; subst hn; left; simp [Event.jar, evNames, reqNames, ownedByJ, jars01]
  · intro n hn; simp [evNames] at hn
  · intro n hn; simp [evNames] at hn
  · intro n hn; simp [evNames] at hn
  · intro n hn; simp [evNames] at hn
  · intro n hn; simp [evNames, reqNames] at hn
  · intro n hn; simp [evNames, reqNames] at hn
  · intro n hn; simp [evNames, reqNames] at hn
  · intro n hn; simp [evNames] at hn
  · intro n hn; simp [evNames] at hn
  · intro n hn; simp [evNames, reqNames] at hn
example : ¬ Disciplined E0 1 (fun _ => none) {} histTwoJars := by
  intro h
  have := h.2.2.1 1 (by simp [evNames, reqNames])
  rcases this with h1 | h1
  · simp [Event.jar, evNames, reqNames] at h1
  · exact h1.users ⟨1, some (0, 7)⟩ (by decide) rfl
-- … and what alice observes on her two devices: device 1 sees the problem added on device 0, first
-- with its parse task running, then parsed; its solve is accepted; device 0 then sees the result
example : (obsJ jars01 (runAll E0 {} histTwoJars).2).map (fun x => (x.1, x.2.status)) =
    [(0, 200), (0, 200), (1, 200), (0, 200), (1, 200), (1, 200), (1, 200), (0, 200)] := by decide
example : ((obsJ jars01 (runAll E0 {} histTwoJars).2).map (·.2.body))[4]? =
    some (.problem ⟨5, 9, .naive, .none, {}, [.parse]⟩) := by decide
example : ((obsJ jars01 (runAll E0 {} histTwoJars).2).map (·.2.body)).getLast? =
    some (.problem ⟨5, 9, .naive, .some 9, { ground := .some 9 }, []⟩) := by decide

/-! ### a rich disciplined history, and the name conflicts as permitted differences -/

/-- three users, two devices for alice, the same problem names, password change, rename, account
deletion, re-use of a name after deletion and after a rename.  alice = account 1 (jars 0, 1),
bob = account 2 (jar 2), carol = jar 3, who first takes the freed name 1 and later bob's old name 2 -/
def histBig : List (Event Nat) :=
  [ .req ⟨0, .register 1 7 0⟩, .req ⟨2, .register 2 8 1⟩, .req ⟨0, .login 1 7⟩, .req ⟨1, .login 1 7⟩,
    .req ⟨2, .login 2 8⟩,
    .req ⟨0, .add 5 (some 9) none .naive 200 201⟩, .req ⟨2, .add 5 (some 4) none .naive 300 301⟩,
    .finish 0 0, .write 0 0, .finish 2 0, .write 2 0,
    .req ⟨1, .update 1 17 5⟩,            -- password change on device 1 (no rename)
    .req ⟨0, .get 5⟩,
    .req ⟨1, .update 11 17 6⟩,           -- rename 1 -> 11 on device 1; device 0 keeps the stale cookie `1`
    .req ⟨1, .list⟩,
    .req ⟨0, .list⟩,                     -- stale cookie on device 0: sees nothing
    .req ⟨0, .login 11 17⟩,              -- device 0 logs in again under the new name
    .req ⟨3, .register 1 9 2⟩,           -- carol takes the freed name 1
    .req ⟨3, .login 1 9⟩, .req ⟨3, .add 5 (some 6) none .naive 400 401⟩, .finish 3 0, .write 3 0,
    .req ⟨2, .deleteAccount⟩,            -- bob leaves
    .req ⟨3, .update 2 9 3⟩,             -- carol renames herself to bob's old name 2
    .req ⟨3, .get 5⟩, .req ⟨0, .get 5⟩, .req ⟨1, .solve 5 .ground⟩, .finish 1 0, .write 1 0, .req ⟨0, .get 5⟩ ]

def jarsAll : List Nat := [0, 1, 2, 3]
def jA : Nat → Bool := fun k => decide (k = 0 ∨ k = 1)
def jB : Nat → Bool := fun k => decide (k = 2)
def jC : Nat → Bool := fun k => decide (k = 3)

theorem histBig_jars : ∀ e ∈ histBig, e.jar ∈ jarsAll := by decide
/-- `DisciplinedJ` holds in `histBig` for each of the three users (Bool checker `discB` + its soundness) -/
theorem histBig_disciplined :
    DisciplinedJ E0 jA (fun _ => none) {} histBig ∧ DisciplinedJ E0 jB (fun _ => none) {} histBig ∧
    DisciplinedJ E0 jC (fun _ => none) {} histBig :=
  ⟨discB_sound E0 jA jarsAll histBig _ _ (fun _ _ => rfl) histBig_jars (by decide),
   discB_sound E0 jB jarsAll histBig _ _ (fun _ _ => rfl) histBig_jars (by decide),
   discB_sound E0 jC jarsAll histBig _ _ (fun _ _ => rfl) histBig_jars (by decide)⟩
-- the conclusion of `noninterference_jars` instantiated for alice's two devices, and what she sees last
example : obsJ jA (runAll E0 {} histBig).2 = obsJ jA (runAll E0 {} (histBig.filter (fun e => jA e.jar))).2 :=
  noninterference_jars E0 jA histBig histBig_disciplined.1
example : (obsJ jA (runAll E0 {} histBig).2).getLast?.map (fun x => (x.1, x.2.body)) =
    some (0, .problem ⟨5, 9, .naive, .some 9, { ground := .some 9 }, []⟩) := by decide

/-- **X1: bob (jar 2) tries a wrong password on alice's account.** -/
def histX1 : List (Event Nat) :=
  [ .req ⟨0, .register 1 7 0⟩, .req ⟨0, .login 1 7⟩, .req ⟨2, .login 1 99⟩, .req ⟨0, .list⟩ ]

/-- `DisciplinedJ` excludes `histX1` (for alice; the same for bob) … -/
theorem histX1_not_disciplinedJ : ¬ DisciplinedJ E0 jA (fun _ => none) {} histX1 := by
  intro h
  rcases h.2.2.1 1 (by simp [evNames, reqNames]) with h1 | h1
  · revert h1; decide
  · exact h1.users ⟨1, some (0, 7)⟩ (by decide) rfl

/-- … the weaker discipline `DisciplinedJ'` holds: bob's failed login is a no-op on the state … -/
theorem histX1_disciplinedJ' : DisciplinedJ' E0 jA (fun _ => none) {} histX1 :=
  discB'_sound E0 jA jarsAll histX1 _ _ (fun _ _ => rfl) (by decide) (by decide)

/-- … and alice's conclusion follows from the THEOREM `noninterference_jars_conflicts` -/
theorem histX1_alice :
    obsJ jA (runAll E0 {} histX1).2 = obsJ jA (runAll E0 {} (histX1.filter (fun e => jA e.jar))).2 :=
  noninterference_jars_conflicts E0 jA histX1 histX1_disciplinedJ'
-- bob's own view differs from his alone run (400 wrong password instead of 404 no such user): the
-- permitted difference, a consequence of HIS mention of a name in use
example : obsJ jB (runAll E0 {} histX1).2 ≠ obsJ jB (runAll E0 {} (histX1.filter (fun e => jB e.jar))).2 := by decide
-- `noop_event_unobservable_anywhere` on the same history: bob's event in the MIDDLE is removed
example : obsJ jA (runAll E0 {} (histX1.take 2 ++ .req ⟨2, .login 1 99⟩ :: [.req ⟨0, .list⟩])).2 =
    obsJ jA (runAll E0 {} (histX1.take 2 ++ [.req ⟨0, .list⟩])).2 :=
  (noop_event_unobservable_anywhere E0 {} (histX1.take 2) [.req ⟨0, .list⟩] (.req ⟨2, .login 1 99⟩)
    (mentionNoopB_sound E0 _ _ (by decide))).2.1 jA (by decide)

/-- **X2: the 409 conflict.** bob tries to register alice's name. -/
def histX2 : List (Event Nat) :=
  [ .req ⟨0, .register 1 7 0⟩, .req ⟨2, .register 1 8 1⟩, .req ⟨0, .login 1 7⟩ ]
-- alice: from the theorem; bob: his view differs from his alone run (409 instead of 200)
example : obsJ jA (runAll E0 {} histX2).2 = obsJ jA (runAll E0 {} (histX2.filter (fun e => jA e.jar))).2 :=
  noninterference_jars_conflicts E0 jA histX2
    (discB'_sound E0 jA jarsAll histX2 _ _ (fun _ _ => rfl) (by decide) (by decide))
example : obsJ jB (runAll E0 {} histX2).2 ≠ obsJ jB (runAll E0 {} (histX2.filter (fun e => jB e.jar))).2 := by decide

/-- **X3: conflicts on both sides.** bob fails to take alice's name, alice's second device fails to
register / log in to / rename to bob's name 2 and fails to create a temporary account under the
generated name 2; bob fails to rename himself to alice's name; after bob has deleted his account alice's
second device takes the name 2 -/
def histX3 : List (Event Nat) :=
  [ .req ⟨0, .register 1 7 0⟩, .req ⟨2, .register 1 8 1⟩, .req ⟨0, .login 1 7⟩, .req ⟨2, .register 2 8 1⟩,
    .req ⟨2, .login 2 8⟩, .req ⟨0, .add 5 (some 9) none .naive 200 201⟩, .req ⟨1, .register 2 5 5⟩,
    .req ⟨0, .update 2 7 3⟩, .req ⟨1, .login 2 5⟩, .req ⟨2, .add 5 (some 4) none .naive 300 301⟩, .finish 0 0, .write 0 0,
    .req ⟨2, .update 1 8 2⟩, .req ⟨1, .add 6 (some 3) none .naive 2 77⟩, .req ⟨1, .list⟩, .req ⟨0, .get 5⟩, .req ⟨2, .list⟩,
    .finish 2 0, .write 2 0, .req ⟨2, .deleteAccount⟩, .req ⟨1, .register 2 5 5⟩, .req ⟨1, .login 2 5⟩, .req ⟨1, .list⟩]

/-- clause (1) of `noninterference_statement` evaluated: on `histX2` / `histX3` every user's observations
are exactly the alone run with reserved names (here by `decide`; from the theorem: `histX3_alice`,
`histX3_bob`), while alice's differ from her plain alone run in `histX3` (statuses 409, 400, 500, 401
instead of 200, 200, 200, 200 …) -/
theorem runRsv_examples :
    obsJ jB (runAll E0 {} histX2).2 = runRsv E0 jB {} {} histX2 ∧
    obsJ jA (runAll E0 {} histX3).2 = runRsv E0 jA {} {} histX3 ∧
    obsJ jB (runAll E0 {} histX3).2 = runRsv E0 jB {} {} histX3 ∧
    (obsJ jA (runAll E0 {} histX3).2).map (fun x => (x.1, x.2.status)) =
      [(0, 200), (0, 200), (0, 200), (1, 409), (0, 409), (1, 400), (1, 500), (1, 401), (0, 200), (1, 200), (1, 200), (1, 200)] ∧
    (obsJ jA (runAll E0 {} (histX3.filter (fun e => jA e.jar))).2).map (fun x => (x.1, x.2.status)) =
      [(0, 200), (0, 200), (0, 200), (1, 200), (0, 409), (1, 200), (1, 200), (1, 200), (0, 200), (1, 409), (1, 200), (1, 200)] := by
  refine ⟨by decide, by decide, by decide, by decide, by decide⟩

/-- the hypothesis of clause (1) holds in `histX3` for both users (checker `discF` + soundness), while the
hypothesis of clause (2) fails for both (each of them causes conflicts himself) -/
theorem histX3_disciplinedF :
    DisciplinedF E0 jA true false (fun _ => none) {} histX3 ∧ DisciplinedF E0 jB true false (fun _ => none) {} histX3 :=
  ⟨discF_sound E0 jA jarsAll true false histX3 _ _ (fun _ _ => rfl) (by decide) (by decide),
   discF_sound E0 jB jarsAll true false histX3 _ _ (fun _ _ => rfl) (by decide) (by decide)⟩
example : discF E0 jA jarsAll false true (fun _ => none) {} histX3 = false ∧
    discF E0 jB jarsAll false true (fun _ => none) {} histX3 = false := by decide
/-- alice's and bob's conclusions from the THEOREM `noninterference_reserved_names` -/
theorem histX3_alice : obsJ jA (runAll E0 {} histX3).2 = runRsv E0 jA {} {} histX3 :=
  noninterference_reserved_names E0 jA false histX3 histX3_disciplinedF.1
theorem histX3_bob : obsJ jB (runAll E0 {} histX3).2 = runRsv E0 jB {} {} histX3 :=
  noninterference_reserved_names E0 jB false histX3 histX3_disciplinedF.2

/-- **X4: all four kinds of conflicts, caused by alice's second device against bob.** `histX3` without
bob's own conflicts: alice's device 1 fails to register 2 (409), alice fails to rename herself to 2 (409),
device 1 fails to log in as 2 (400) and to get the temporary account 2 (500) -/
def histX4 : List (Event Nat) :=
  [ .req ⟨0, .register 1 7 0⟩, .req ⟨0, .login 1 7⟩, .req ⟨2, .register 2 8 1⟩,
    .req ⟨2, .login 2 8⟩, .req ⟨0, .add 5 (some 9) none .naive 200 201⟩, .req ⟨1, .register 2 5 5⟩,
    .req ⟨0, .update 2 7 3⟩, .req ⟨1, .login 2 5⟩, .req ⟨2, .add 5 (some 4) none .naive 300 301⟩, .finish 0 0, .write 0 0,
    .req ⟨1, .add 6 (some 3) none .naive 2 77⟩, .req ⟨1, .list⟩, .req ⟨0, .get 5⟩, .req ⟨2, .list⟩,
    .finish 2 0, .write 2 0, .req ⟨2, .get 5⟩]

theorem histX4_disciplinedF : DisciplinedF E0 jB false false (fun _ => none) {} histX4 :=
  discF_sound E0 jB jarsAll false false histX4 _ _ (fun _ _ => rfl) (by decide) (by decide)
/-- bob's conclusion from the THEOREM `noninterference_conflicts_of_others` (`DisciplinedJ` fails: alice's
device 1 mentions bob's name 2 four times while account 2 exists) -/
theorem histX4_bob :
    obsJ jB (runAll E0 {} histX4).2 = obsJ jB (runAll E0 {} (histX4.filter (fun e => jB e.jar))).2 :=
  noninterference_conflicts_of_others E0 jB false histX4 histX4_disciplinedF
example : discB E0 jB jarsAll (fun _ => none) {} histX4 = false := by decide
example : ((runAll E0 {} histX4).2.map (fun x => (x.1, x.2.status))) =
    [(0, 200), (0, 200), (2, 200), (2, 200), (0, 200), (1, 409), (0, 409), (1, 400), (2, 200), (1, 500), (1, 401),
     (0, 200), (2, 200), (2, 200)] := by decide

/-- **X5: ghost proposals in conflict, on both sides.** bob's authenticated `add` carries the unused name
proposal 1 (alice's account), alice's the proposal 2 (bob's account); alice's second device then fails to
register bob's name -/
def histX5 : List (Event Nat) :=
  [ .req ⟨0, .register 1 7 0⟩, .req ⟨0, .login 1 7⟩, .req ⟨2, .register 2 8 1⟩, .req ⟨2, .login 2 8⟩,
    .req ⟨2, .add 5 (some 4) none .naive 1 301⟩, .req ⟨0, .add 5 (some 9) none .naive 2 201⟩,
    .finish 0 0, .write 0 0, .finish 2 0, .write 2 0, .req ⟨1, .register 2 5 5⟩, .req ⟨0, .get 5⟩, .req ⟨2, .get 5⟩ ]

theorem histX5_disciplinedF : DisciplinedF E0 jA true true (fun _ => none) {} histX5 :=
  discF_sound E0 jA jarsAll true true histX5 _ _ (fun _ _ => rfl) (by decide) (by decide)
-- without `ghost` the discipline fails; alice's conclusion from the theorem; the two `get 5` show each his own code
example : discF E0 jA jarsAll true false (fun _ => none) {} histX5 = false := by decide
theorem histX5_alice : obsJ jA (runAll E0 {} histX5).2 = runRsv E0 jA {} {} histX5 :=
  noninterference_reserved_names E0 jA true histX5 histX5_disciplinedF
example : ((runAll E0 {} histX5).2.drop 6).map (fun x => (x.1, x.2.status, x.2.body)) =
    [(1, 409, .msg .nameTaken), (0, 200, .problem ⟨5, 9, .naive, .some 9, {}, []⟩),
     (2, 200, .problem ⟨5, 4, .naive, .some 4, {}, []⟩)] := by decide

/-! ### credentials on a history with password change, rename, temporary account, deletion -/

def histCred : List (Event Nat) :=
  [ .req ⟨0, .register 1 7 0⟩, .req ⟨0, .login 1 7⟩, .req ⟨0, .update 1 8 1⟩,  -- password change
    .req ⟨0, .update 3 9 2⟩,                                                   -- rename + new password
    .req ⟨4, .add 5 (some 9) none .naive 50 51⟩,                                -- temporary account 50
    .req ⟨2, .register 2 6 3⟩, .req ⟨2, .login 2 6⟩, .req ⟨2, .deleteAccount⟩ ]
-- the observer's bookkeeping of `login_iff`: old name 1 gone, account 3 has password 9, the temporary
-- account 50 and the deleted account 2 have none
example : let g := (runCred E0 {} (fun _ => none) histCred).2
    (g 1, g 3, g 50, g 2) = (none, some 9, none, none) := by decide
-- `runCred` runs the same states as `runAll`
example : (runCred E0 {} (fun _ => none) histCred).1.db.users = (runAll E0 {} histCred).1.db.users := by decide
-- … and the logins agree with it, as `login_iff` says: old name / old passwords / temporary / deleted fail
example : [(1,7),(1,8),(3,8),(3,9),(50,9),(2,6)].map (fun (up : Nat × Nat) =>
    (step E0 (runCred E0 {} (fun _ => none) histCred).1 ⟨9, .login up.1 up.2⟩).2.status) = [404, 404, 400, 200, 400, 404] := by
  decide
example : (step E0 (runCred E0 {} (fun _ => none) histCred).1 ⟨9, .login 3 9⟩).2.status = 200 :=
  (login_iff E0 E0_verify histCred 9 3 9 (by decide) (by decide)).mpr (by decide)
-- a temporary account sets a password through `update` and can log in from then on
example : (runCred E0 {} (fun _ => none) (histCred ++ [.req ⟨4, .update 50 4 7⟩])).2 50 = some 4 := by decide

/-- an instance with `H = T` for `stored_not_plaintext`: the hash of password `p` under salt `s` is `p + s + 1` -/
def E1 : Env Nat Nat Nat Nat where
  emp := 0
  hash := fun s p => p + s + 1
  verify := fun h p => decide (p < h)
  parse := fun _ code => .ok (code, code)
  solve := fun a _ => .ok a
theorem E1_hne : ∀ s p, E1.hash s p ≠ p := by intro s p; simp [E1]; omega
-- `stored_not_plaintext` instantiated, and its content on this instance: stored 10 and 12, passwords 7 and 8
example := stored_not_plaintext E1 E1_hne [.req ⟨0, .register 1 7 2⟩, .req ⟨1, .register 2 8 3⟩]
example : (runCred E1 {} (fun _ => none) [.req ⟨0, .register 1 7 2⟩, .req ⟨1, .register 2 8 3⟩]).1.db.users =
    [⟨1, some 10⟩, ⟨2, some 12⟩] := by decide

-- `same_password_distinct_salts` on `E0` (injective in the salt): two accounts, the same password 7, salts 0 and 1
example : (step E0 (step E0 {} ⟨0, .register 1 7 0⟩).1 ⟨1, .register 2 7 1⟩).1.db.users =
      ({} : State Nat (Nat × Nat) Nat Nat).db.users ++ [⟨1, some (E0.hash 0 7)⟩, ⟨2, some (E0.hash 1 7)⟩] ∧
    E0.hash 0 7 ≠ E0.hash 1 7 :=
  same_password_distinct_salts E0 (by intro s s' p h; simpa [E0] using congrArg Prod.fst h)
    {} 0 1 1 2 7 0 1 (by decide) (by decide) (by decide)

-- `noop_event_unobservable` + `mentions_only_harmless`: bob's `register 1` against alice's account can be dropped
example (es : List (Event Nat)) :
    ∀ j, j ≠ 2 → obs j (runAll E0 (runAll E0 {} [.req ⟨0, .register 1 7 0⟩, .req ⟨0, .login 1 7⟩]).1 (.req ⟨2, .register 1 9 3⟩ :: es)).2 =
      obs j (runAll E0 (runAll E0 {} [.req ⟨0, .register 1 7 0⟩, .req ⟨0, .login 1 7⟩]).1 es).2 :=
  (noop_event_unobservable E0 _ (.req ⟨2, .register 1 9 3⟩) es
    ((mentions_only_harmless E0 _ 2 1 9 3 (by unfold hasAccount; decide) (by decide)).1.1)).2

/-- **Counterexample 1 (stale cookie).** Alice is logged in on two devices (jars 0 and 1) and deletes
her account on the first; somebody else (jar 2) registers the name `alice` and adds a problem; the
second device's cookie still says `alice`, and its `delete account` removes the new owner's problems
and account.  Jar 2's last response differs from what it would be alone. -/
def histStale : List (Event Nat) :=
  [.req ⟨0, .register 1 7 0⟩, .req ⟨0, .login 1 7⟩, .req ⟨1, .login 1 7⟩, .req ⟨0, .deleteAccount⟩,
   .req ⟨2, .register 1 8 1⟩, .req ⟨2, .login 1 8⟩, .req ⟨2, .add 5 (some 9) none .naive 100 101⟩,
   .req ⟨1, .deleteAccount⟩, .req ⟨2, .list⟩]

theorem stale_cookie_interferes :
    obs 2 (runAll E0 {} histStale).2 ≠ obs 2 (runAll E0 {} (histStale.filter (fun e => decide (e.jar = 2)))).2 := by
  decide

/-- **Counterexample 2 (D9, name-reuse race).** Alice (jar 0) solves `p1`; before the task's final
write she deletes her account; somebody else (jar 1) registers `alice` and adds `p1` with other
code; the late write is addressed by `(name, username)` and lands in the new owner's problem, who
then sees a `ground` result (of the old code, 9) for a problem she never solved. -/
def histD9 : List (Event Nat) :=
  [.req ⟨0, .register 1 7 0⟩, .req ⟨0, .login 1 7⟩, .req ⟨0, .add 5 (some 9) none .naive 100 101⟩,
   .finish 0 0, .write 0 0, .req ⟨0, .solve 5 .ground⟩, .finish 0 1, .req ⟨0, .deleteAccount⟩,
   .req ⟨1, .register 1 8 1⟩, .req ⟨1, .login 1 8⟩, .req ⟨1, .add 5 (some 4) none .naive 100 101⟩,
   .finish 1 0, .write 1 0, .write 0 1, .req ⟨1, .get 5⟩]

theorem late_write_interferes :
    obs 1 (runAll E0 {} histD9).2 ≠ obs 1 (runAll E0 {} (histD9.filter (fun e => decide (e.jar = 1)))).2 := by
  decide

-- what the new owner sees: her code 4 with the old problem's answer 9
example : (obs 1 (runAll E0 {} histD9).2).getLast?.map (·.body) =
    some (.problem ⟨5, 4, .naive, .some 4, { ground := .some 9 }, []⟩) := by decide

/-! ## 7. command granularity: requests interleave between their database commands

The handlers are `async fn`s that `.await` every MongoDB call, so concurrent requests interleave at
the granularity of one database command, and the background tasks write later still.  `ServerCmd`
(AdfObdd/ServerCmd.lean) is the concurrent semantics over the SAME handler programs
(`ServerM.handler`) and the SAME command meaning (`ServerM.exec`): a pool of requests in flight,
each with the identity decoded from its cookie on arrival; a scheduler action lets one of them
execute its NEXT command atomically (`Act.cmd i`), delivers a response (`Act.deliver i`, the cookie
change reaches the jar only then), accepts a new request (`Act.arrive`), or is a background-task event.
Every command executed is logged with its source: the log is what the check's concurrent monitors
observe on the real server.  The theorems of this section quantify over ALL schedules. -/

section cmdgranular
variable {T H A R : Type} [DecidableEq T]
open ServerCmd

/-- **the atomic model is the sequential special case.** A history of the atomic model, run in the
command-granular model under the schedule in which each request arrives, executes all its commands
and is answered before anything else happens (`seqSchedule`), gives the same database, the same
cookie jars, the same responses in the same order, nobody left in flight, and the atomic model's
command log.  Generic in the handler program, hence for ALL request kinds. -/
theorem atomic_is_sequential_schedule (E : Env T H A R) (es : List (Event T)) :
    (runC E {} (seqSchedule E {} es)).db = (runAll E {} es).1.db ∧
    (runC E {} (seqSchedule E {} es)).sess = (runAll E {} es).1.sess ∧
    (runC E {} (seqSchedule E {} es)).pool = [] ∧
    (runC E {} (seqSchedule E {} es)).out = (runAll E {} es).2 ∧
    (runC E {} (seqSchedule E {} es)).log = atomicLog E {} es := by
  have h := atomic_is_sequential E es {} {} rfl rfl rfl
  simpa using h

/-- … and locally: in ANY state of the concurrent model (whatever else is in flight), a request that
arrives, runs all its commands and is answered without anybody else moving has exactly the effect
of the atomic step `stepT` on database, cookie jar, response and command log -/
theorem sequential_request_is_atomic_step (E : Env T H A R) (s : CState T H A R) (rq : Request T) :
    runC E s (seqRequest E ⟨s.db, s.sess⟩ s.pool.length rq) =
      { s with db := (stepT E ⟨s.db, s.sess⟩ rq).1.db,
               sess := (stepT E ⟨s.db, s.sess⟩ rq).1.sess,
               log := s.log ++ runLog (.request rq.jar (s.sess rq.jar) rq.req)
                  (handler E rq.jar (s.sess rq.jar) rq.req) s.db,
               out := s.out ++ [(rq.jar, (stepT E ⟨s.db, s.sess⟩ rq).2.1)] } :=
  seqRequest_atomic E s rq

/-- **the command log, under every schedule** (this is what the check's isolation monitor observes).
Every command in the log carries the identity of its source — for a request: the account named in
its session cookie when it arrived (for an unauthenticated `add`: the temporary account it creates);
for a background write: the user name the task was spawned with:
* every access to the problem collection (find, insert, `$set`, delete, rename) has exactly that
  user name in its filter / inserted document (`probUser`);
* in `users`, only that account's record is replaced or deleted, records are created only under a
  name the request mentions, looked up only for that account or a name the request mentions
  (`ServerM.Owned`).
Hence no command on behalf of `u` reads or writes a problem document of `v ≠ u`
(`command_others_untouched` for the writes, `ServerM.exec_rok` for the reads). -/
theorem log_carries_identity (E : Env T H A R) (sched : List (Act T)) :
    ∀ e ∈ (runC E {} sched).log,
      Owned e.src.jar e.src.actor e.src.names e.cmd ∧ ∀ u, probUser e.cmd = some u → e.src.actor = some u := by
  intro e he
  have h := EntryOk.owned E e ((Inv.run E sched {} (Inv.init E)).log e he)
  exact ⟨h, ServerCmd.Owned.probUser h⟩

/-- a find on the problem collection returns only documents whose `username` is the one in its
filter, in whatever state it is executed (the read side of the previous theorem) -/
theorem find_returns_own (db : Db T H A R) (u n : T) :
    (∀ p, (exec db (.pFindOne u n)).2 = some p → p.username = u) ∧
    (∀ p ∈ (exec db (.pFindAll u)).2, p.username = u) :=
  ⟨fun p hp => (exec_rok db (.pFindOne u n) p hp).1, exec_rok db (.pFindAll u)⟩

/-- **responses under every schedule** (the check's response monitor: "every problem shown to a jar
was returned by a find carrying that jar's identity while the request was in flight").  Every piece of
problem data in a delivered response is the image (`infoOf`: name, code, parsing, results) of a
document `p` that the database returned to a `find_one` / `find` of a request of the SAME jar, logged
with an identity equal to the document's `username` at that moment (the logged request is SOME request of that
jar, not necessarily the one answered - the statement about THE request answered is
`response_in_flight_from_own_finds` below).  (Between the
read and the delivery the document may have been renamed or deleted by that same identity from
another device — at command granularity "contains a problem owned by" can only refer to the moment
of the read.) -/
theorem responses_from_own_finds (E : Env T H A R) (sched : List (Act T)) :
    ∀ x ∈ (runC E {} sched).out, ∀ i ∈ infos x.2.body, ∃ e ∈ (runC E {} sched).log, ∃ p ts,
      e.src.jar = x.1 ∧ p ∈ e.returned ∧ i = infoOf p ts ∧
      probUser e.cmd = some p.username ∧ e.src.actor = some p.username := by
  intro x hx i hi
  have rinv := RInv.run E sched {} RInv.init
  obtain ⟨e, he, id, rq, p, ts, h1, h2, h3⟩ := rinv.out x hx i hi
  have hu := rinv.ret e he p h2
  refine ⟨e, he, p, ts, by rw [h1]; rfl, h2, h3, hu, ?_⟩
  exact (log_carries_identity E sched e he).2 _ hu

/-- **responses under every schedule, functional dependence.**  `responses_from_own_finds` says where the
problem DATA of a response comes from.  This says what the response as a whole DEPENDS on: in every
reachable state of the concurrent model, the remaining program `f.prog` of every request in flight —
its response `r` once `f.prog = .ret r`, which `deliver` then hands out unchanged — is the handler
program of that request (its jar, the identity decoded from its cookie at arrival, its payload) fed
with the list `rs` of results the database returned to the commands THIS request issued (`Fed`), and is
determined by these (`Fed.det`): two runs, under whatever schedules and whatever the other requests in
flight do, in which the request's own commands return the same results end in the same response.  And
all problem documents among those results carry the user name in the filter of their command.  (That this
filter is the request's identity is NOT part of this statement - no fact about the handlers is used here; it is
`response_determined_by_own_identity` below.) -/
theorem response_determined_by_own_results (E : Env T H A R) (sched : List (Act T)) :
    ∀ f ∈ (runC E {} sched).pool, ∃ rs : List (Answer T H A R),
      Fed (handler E f.jar f.id f.req) rs f.prog ∧
      (∀ a ∈ rs, ∀ p ∈ foundBy a.1 a.2, probUser a.1 = some p.username) ∧
      (∀ q, Fed (handler E f.jar f.id f.req) rs q → q = f.prog) := by
  intro f hf
  obtain ⟨rs, h1, h2⟩ := FedInv.run E sched {} (FedInv.init E) f hf
  exact ⟨rs, h1, h2, fun q hq => Fed.det hq h1⟩

/-! third review (audit L1): `responses_from_own_finds` ties the data of a response only to SOME request of the same
jar, and `response_determined_by_own_results` uses no fact about the handlers (its third conjunct is determinism of a
program, its second a fact about `exec`).  The two theorems below state what the docstrings above promise: the data
of THE response comes from finds of THE request, and every command whose result the request was fed carries the
request's own identity (`handler_owner_only`). -/

/-- repaired form of `responses_from_own_finds`: ties the data to THE request (same jar, same identity, same payload) -/
theorem response_in_flight_from_own_finds (E : Env T H A R) (sched : List (Act T)) :
    ∀ f ∈ (runC E {} sched).pool, ∀ r, f.prog = .ret r → ∀ i ∈ infos r.body,
      ∃ e ∈ (runC E {} sched).log, ∃ p ts, e.src = .request f.jar f.id f.req ∧ p ∈ e.returned ∧ i = infoOf p ts ∧
        probUser e.cmd = some p.username ∧ actor f.id f.req = some p.username := by
  intro f hf r hr i hi
  have rinv := RInv.run E sched {} RInv.init
  have h := rinv.pool f hf
  rw [hr] at h
  cases h with
  | ret _ _ h =>
    obtain ⟨p, ts, ⟨e, he, h1, h2⟩, h3⟩ := h i hi
    have hu := rinv.ret e he p h2
    have ha := (log_carries_identity E sched e he).2 _ hu
    rw [h1] at ha
    exact ⟨e, he, p, ts, h1, h2, h3, hu, ha⟩

/-- strengthened `response_determined_by_own_results`: every command whose result the request was fed carries the
request's OWN identity (so every document it was handed has `username` = that identity) -/
theorem response_determined_by_own_identity (E : Env T H A R) (sched : List (Act T)) :
    ∀ f ∈ (runC E {} sched).pool, ∃ rs : List (Answer T H A R),
      Fed (handler E f.jar f.id f.req) rs f.prog ∧
      (∀ a ∈ rs, Owned f.jar (actor f.id f.req) (reqNames f.req) a.1) ∧
      (∀ a ∈ rs, ∀ p ∈ foundBy a.1 a.2, actor f.id f.req = some p.username) ∧
      (∀ q, Fed (handler E f.jar f.id f.req) rs q → q = f.prog) := by
  intro f hf
  obtain ⟨rs, h1, h2⟩ := FedInv2.run E sched {} (by intro f hf; cases hf) f hf
  have h3 := (Fed.allCmds h1 (handler_owner_only E f.jar f.id f.req) h2).1
  refine ⟨rs, h1, h3, ?_, fun q hq => Fed.det hq h1⟩
  intro a ha p hp
  have ho := h3 a ha
  have hr := h2 a ha
  obtain ⟨c, r⟩ := a
  cases c with
  | pFindOne u n =>
    simp only [foundBy, Option.mem_toList] at hp
    have := (hr p hp).1
    simp only [Owned] at ho
    rw [← ho, this]
  | pFindAll u =>
    simp only [foundBy] at hp
    have := hr p hp
    simp only [Owned] at ho
    rw [← ho, this]
  | _ => cases hp

/-- **unauthenticated requests obtain no problem data, under every schedule**: in every reachable state,
a request in flight that arrived without a session (`id = none`) and has reached its response carries no
problem data in it -/
theorem unauth_no_data_all_schedules (E : Env T H A R) (sched : List (Act T)) (f : Flight T H A R) (r : Resp T R)
    (hf : f ∈ (runC E {} sched).pool) (hid : f.id = none) (hr : f.prog = .ret r) : infos r.body = [] := by
  have h := (Inv.run E sched {} (Inv.init E)).pool f hf
  rw [hr] at h
  cases h with
  | ret _ h =>
    cases hq : f.req <;> rw [hq] at h <;> simp only [RetShape] at h <;> first | exact h.1 | exact h.1 hid

/-- **one command.** In every reachable state of the concurrent model, a scheduler step that is not a
command issued for `v` (nor by a request whose payload names `v`) leaves the problems of `v` exactly
as they are — whatever else is in flight. -/
theorem command_others_untouched (E : Env T H A R) (sched : List (Act T)) (a : Act T) (v : T)
    (h : ¬ actsOn v (runC E {} sched) a) :
    ownedBy v (stepC E (runC E {} sched) a).db = ownedBy v (runC E {} sched).db :=
  step_untouched E _ (Inv.run E sched {} (Inv.init E)) a v h

/-- **isolation under every command-granular schedule.** After any schedule `pre`, let any schedule
`sched` follow in which no executed command is issued for `v` (`QuietC`: requests of other
identities not naming `v`, task writes of other users; arrivals and deliveries are unrestricted, and
requests of `v` may be in flight as long as they do not move): the problems of `v` are unchanged. -/
theorem isolation_all_schedules (E : Env T H A R) (v : T) (pre sched : List (Act T))
    (h : QuietC E v (runC E {} pre) sched) :
    ownedBy v (runC E (runC E {} pre) sched).db = ownedBy v (runC E {} pre).db :=
  run_untouched E v sched _ (Inv.run E pre {} (Inv.init E)) h

/-- **credentials under every schedule.** (i) every document the `users` collection ever receives
(log entries `insert_one` / `replace_one`) is a temporary account without password or
`{name, hash salt pw}` built from the fields of the very `register` / `update` request that issued the
command; (ii) in every reachable database every stored credential is a `hash salt pw`. -/
theorem credentials_all_schedules (E : Env T H A R) (sched : List (Act T)) :
    (∀ e ∈ (runC E {} sched).log, ∀ x, userDoc e.cmd = some x →
      x.password = none ∨ ∃ jar id u p salt,
        (e.src = .request jar id (.register u p salt) ∨ e.src = .request jar id (.update u p salt)) ∧
        x = ⟨u, some (E.hash salt p)⟩) ∧
    (∀ x ∈ (runC E {} sched).db.users, ∀ h, x.password = some h → ∃ salt pw, h = E.hash salt pw) := by
  have inv := Inv.run E sched {} (Inv.init E)
  exact ⟨fun e he x hx => EntryOk.userDoc E e (inv.log e he) x hx, inv.hashed⟩

/-- … never the clear password, for a hash that never returns its input (assumed of argon2, whose
output is a PHC string) -/
theorem never_plaintext_all_schedules (E : Env T T A R) (hne : ∀ s p, E.hash s p ≠ p) (sched : List (Act T)) :
    (∀ e ∈ (runC E {} sched).log, ∀ x, userDoc e.cmd = some x → ∀ jar id u p salt,
      (e.src = .request jar id (.register u p salt) ∨ e.src = .request jar id (.update u p salt)) →
      x.password ≠ some p) ∧
    (∀ x ∈ (runC E {} sched).db.users, ∀ h, x.password = some h → ∃ salt pw, h = E.hash salt pw ∧ h ≠ pw) := by
  obtain ⟨h1, h2⟩ := credentials_all_schedules E sched
  refine ⟨?_, ?_⟩
  · intro e he x hx jar id u p salt hsrc hp
    rcases h1 e he x hx with h | ⟨jar', id', u', p', salt', hsrc', hx'⟩
    · rw [h] at hp; cases hp
    · have : p' = p ∧ True := by
        rcases hsrc with h | h <;> rcases hsrc' with h' | h' <;> rw [h] at h' <;> cases h' <;> exact ⟨rfl, trivial⟩
      rw [hx', this.1] at hp
      simp only [Option.some.injEq] at hp
      exact hne _ _ hp
  · intro x hx h hp
    obtain ⟨salt, pw, hh⟩ := h2 x hx h hp
    exact ⟨salt, pw, hh, by rw [hh]; exact hne salt pw⟩

/-- **the unique index: account names are unique under every schedule.** No check-then-act is
involved: `insert_one` / `replace_one` are refused BY THE DATABASE for a duplicate key
(`ServerCmd.exec_users_nodup`: every single command preserves uniqueness, in any state, whoever
issues it).  Of two concurrent `register`s of the same name exactly one is answered 200; the loser is
answered `409 Username is already taken` if its `find_one` came after the winner's insert, and
`500` with the driver's `E11000 duplicate key` text (`Msg.dbError`; user.rs:92-95 maps the
`insert_one` error to `InternalServerError().body(err.to_string())`) if both passed the check —
see `register_race` below. -/
theorem usernames_unique_all_schedules (E : Env T H A R) (sched : List (Act T)) :
    ((runC E {} sched).db.users.map (·.username)).Nodup :=
  (Inv.run E sched {} (Inv.init E)).nodup

/-- **problem names per user: unique if `add` is not interleaved** — the hypothesis that excludes the
race `add_race_duplicate` below.  There is NO index on `(username, name)` in `adf-problems`
(main.rs creates only the `users.username` index); `add_adf_problem` checks with `find_one` and then
`insert_one`s (adf.rs:376, 414).  An `add` that runs from arrival to response without another
command in between (= the atomic step, `sequential_request_is_atomic_step`) never creates a second
document with the same `(username, name)`. -/
theorem add_unique_if_not_interleaved (E : Env T H A R) (s : CState T H A R) (jar : Nat) (name : T)
    (code file : Option T) (parsing : Parsing) (fu fp : T) (h : ProbUnique s.db) :
    ProbUnique (runC E s (seqRequest E ⟨s.db, s.sess⟩ s.pool.length ⟨jar, .add name code file parsing fu fp⟩)).db := by
  rw [seqRequest_atomic]
  exact add_atomic_unique E ⟨s.db, s.sess⟩ jar name code file parsing fu fp h

end cmdgranular

/-! ### non-vacuity and the races (kernel-checked on the instance `E0`) -/

open ServerCmd in
/-- alice (account 1, password 7) registers and logs in from jar 0, sequentially -/
def aliceIn : CState Nat (Nat × Nat) Nat Nat :=
  runC E0 {} (seqSchedule E0 {} [.req ⟨0, .register 1 7 0⟩, .req ⟨0, .login 1 7⟩])

open ServerCmd in
/-- **FINDING (race in `add_adf_problem`, touches C16's "the models stored and returned for that
problem are exactly the answers for the submitted code").**  Alice sends two `POST /adf/add` with the
same problem name 5 and different codes (9 and 4) concurrently (two tabs of one browser — or two
devices).  Schedule: both requests arrive; request A `find_one {name:5, username:alice}` → none;
request B the same `find_one` → none; A `insert_one`; B `insert_one`; both spawn their parse task and
are answered `200 Parsing started...`.  Now TWO documents `(alice, 5)` exist.  Both parse tasks
`update_one {name:5, username:alice}`: first match, i.e. both write into A's document. -/
def addRace : List (Act Nat) :=
  [.arrive ⟨0, .add 5 (some 9) none .naive 200 201⟩, .arrive ⟨0, .add 5 (some 4) none .naive 200 201⟩,
   .cmd 0, .cmd 1, .cmd 0, .cmd 1, .cmd 0, .cmd 1, .deliver 0, .deliver 0]

section
open ServerCmd

-- the sequential schedule of the same two requests: the second one is refused (409), one document
example : (runC E0 aliceIn (seqSchedule E0 ⟨aliceIn.db, aliceIn.sess⟩
      [.req ⟨0, .add 5 (some 9) none .naive 200 201⟩, .req ⟨0, .add 5 (some 4) none .naive 200 201⟩])).out.map
      (fun x => x.2.status) = [200, 200, 200, 409] := by decide

/-- both racing `add`s are answered 200 and the collection holds two documents with the same
`(username, name)` although it held none before: `ProbUnique` is NOT an invariant of all schedules -/
theorem add_race_duplicate :
    (runC E0 aliceIn addRace).out.map (fun x => x.2.status) = [200, 200, 200, 200] ∧
    keyCount 1 5 aliceIn.db = 0 ∧ keyCount 1 5 (runC E0 aliceIn addRace).db = 2 ∧
    ¬ ProbUnique (runC E0 aliceIn addRace).db := by
  refine ⟨by decide, by decide, by decide, ?_⟩
  intro h
  exact absurd (h 1 5) (by decide)

/-- … and its observable consequence: after both parse tasks have finished and written, `GET /adf/5`
shows the code of the FIRST request (9) with the parse result of the SECOND (4); and once alice
deletes problem 5, a second problem 5 appears, with code 4, that is never parsed (no task is
running or will run for it) -/
theorem add_race_wrong_answer :
    (runC E0 (runC E0 aliceIn addRace)
      ([.finish 0 0, .write 0 0, .finish 0 1, .write 0 1] ++ [.arrive ⟨0, .get 5⟩, .cmd 0, .cmd 0, .deliver 0])).out.getLast?
      = some (0, ⟨200, .keep, .problem ⟨5, 9, .naive, .some 4, {}, []⟩⟩) ∧
    (runC E0 (runC E0 aliceIn addRace)
      ([.finish 0 0, .write 0 0, .finish 0 1, .write 0 1] ++ [.arrive ⟨0, .delete 5⟩, .cmd 0, .deliver 0] ++
       [.arrive ⟨0, .get 5⟩, .cmd 0, .cmd 0, .deliver 0])).out.getLast?
      = some (0, ⟨200, .keep, .problem ⟨5, 4, .naive, .none, {}, []⟩⟩) := by
  constructor <;> decide

-- the log satisfies `log_carries_identity` non-trivially: after the three commands of register and login
-- (no identity, no problem access), the six commands of the race, all carrying alice's identity
example : (runC E0 aliceIn addRace).log.map (fun e => (probUser e.cmd, e.src.actor)) =
    List.replicate 3 (none, none) ++ List.replicate 4 (some 1, some 1) ++ List.replicate 2 (none, some 1) := by
  decide

-- non-vacuity of `unauth_no_data_all_schedules`: jar 3 (no session) asks for problem 5 while alice owns it: 401
example : (runC E0 (runC E0 aliceIn addRace) [.arrive ⟨3, .get 5⟩]).pool.map (fun f => (f.id, f.prog matches .ret ⟨401, _, _⟩)) =
    [(none, true)] := by decide
-- non-vacuity of `responses_from_own_finds`: alice's `get 5` after the race was answered from a document
-- returned to her own find (first match of the two documents)
example : ((runC E0 (runC E0 aliceIn addRace) [.arrive ⟨0, .get 5⟩, .cmd 0, .cmd 0, .deliver 0]).log.filterMap
    (fun e => if e.returned = [] then none else some (e.src.actor, e.returned.map (fun p => (p.username, p.name, p.code))))) =
    [(some 1, [(1, 5, 9)])] := by decide

-- `response_determined_by_own_results` is about a non-empty pool here: alice's `get 5` in flight after its
-- first command (the `find_one`, which returned her document), next to an unauthenticated `get 5` of jar 3
example : ((runC E0 (runC E0 aliceIn addRace) [.arrive ⟨0, .get 5⟩, .arrive ⟨3, .get 5⟩, .cmd 0]).pool.map
    (fun f => (f.jar, f.id, f.prog matches .cmd (.rTasks 1 5) _, f.prog matches .ret ⟨401, _, _⟩))) =
    [(0, some 1, true, false), (3, none, false, true)] := by decide

/-- **a third race of the same kind: two concurrent `solve`s of one strategy.**  `solve_adf_problem`
reads the document and the `currently_running` set and spawns its task afterwards (in the Rust the
guard enters the set even later, on the blocking thread); two concurrent solves both pass the check,
both are answered `200 Solving started...` (the atomic model answers the second `409`), two tasks
run.  Both write the same value, so the stored answer is not affected. -/
def solveRace : List (Act Nat) :=
  [.arrive ⟨0, .add 5 (some 9) none .naive 200 201⟩, .cmd 0, .cmd 0, .cmd 0, .deliver 0, .finish 0 0, .write 0 0,
   .arrive ⟨0, .solve 5 .ground⟩, .arrive ⟨0, .solve 5 .ground⟩,
   .cmd 0, .cmd 1, .cmd 0, .cmd 1, .cmd 0, .cmd 1, .deliver 0, .deliver 0]

theorem solve_race_two_tasks :
    (runC E0 aliceIn solveRace).out.map (fun x => x.2.status) = [200, 200, 200, 200, 200] ∧
    ((runC E0 aliceIn solveRace).db.tasks.map (fun t => t.input.task)) = [.parse, .solve .ground, .solve .ground] ∧
    (runC E0 aliceIn (solveRace ++ [.finish 0 1, .write 0 1, .finish 0 2, .write 0 2, .arrive ⟨0, .get 5⟩, .cmd 0, .cmd 0, .deliver 0])).out.getLast?
      = some (0, ⟨200, .keep, .problem ⟨5, 9, .naive, .some 9, { ground := .some 9 }, []⟩⟩) := by
  refine ⟨by decide, by decide, by decide⟩

/-- two clients register the same name 1 concurrently (passwords 7 and 8) -/
def regRace (mid : List (Act Nat)) : CState Nat (Nat × Nat) Nat Nat :=
  runC E0 {} ([.arrive ⟨0, .register 1 7 0⟩, .arrive ⟨1, .register 1 8 1⟩] ++ mid ++ [.deliver 0, .deliver 0])

/-- **the register race, all six interleavings of the two `find_one; insert_one` pairs:** exactly one
`200`; the loser gets `409` when its `find_one` comes after the winner's `insert_one`, and `500`
(the database's duplicate-key error) when both `find_one`s came first; one record in every case -/
theorem register_race :
    ((regRace [.cmd 0, .cmd 0, .cmd 1, .cmd 1]).out.map (fun x => (x.1, x.2.status)) = [(0, 200), (1, 409)]) ∧
    ((regRace [.cmd 0, .cmd 1, .cmd 0, .cmd 1]).out.map (fun x => (x.1, x.2.status)) = [(0, 200), (1, 500)]) ∧
    ((regRace [.cmd 0, .cmd 1, .cmd 1, .cmd 0]).out.map (fun x => (x.1, x.2.status)) = [(0, 500), (1, 200)]) ∧
    ((regRace [.cmd 1, .cmd 0, .cmd 0, .cmd 1]).out.map (fun x => (x.1, x.2.status)) = [(0, 200), (1, 500)]) ∧
    ((regRace [.cmd 1, .cmd 0, .cmd 1, .cmd 0]).out.map (fun x => (x.1, x.2.status)) = [(0, 500), (1, 200)]) ∧
    ((regRace [.cmd 1, .cmd 1, .cmd 0, .cmd 0]).out.map (fun x => (x.1, x.2.status)) = [(0, 409), (1, 200)]) ∧
    (∀ mid ∈ [[Act.cmd 0, .cmd 0, .cmd 1, .cmd 1], [.cmd 0, .cmd 1, .cmd 0, .cmd 1], [.cmd 0, .cmd 1, .cmd 1, .cmd 0],
               [.cmd 1, .cmd 0, .cmd 0, .cmd 1], [.cmd 1, .cmd 0, .cmd 1, .cmd 0], [.cmd 1, .cmd 1, .cmd 0, .cmd 0]],
        ((regRace mid).db.users.map (·.username)) = [1]) := by
  refine ⟨by decide, by decide, by decide, by decide, by decide, by decide, by decide⟩

-- the loser's password is not stored: the record is the winner's, a hash under the winner's salt
example : (regRace [.cmd 0, .cmd 1, .cmd 1, .cmd 0]).db.users = [⟨1, some (1, 8)⟩] := by decide
-- non-vacuity of `credentials_all_schedules`: both inserts are in the log, each with the hash of its own request
example : ((regRace [.cmd 0, .cmd 1, .cmd 1, .cmd 0]).log.filterMap (fun e => userDoc e.cmd)) =
    [⟨1, some (1, 8)⟩, ⟨1, some (0, 7)⟩] := by decide

/-- three requests in flight: bob (identity 2) deletes his account, carol (identity 3) adds problem 5, bob
renames himself to 4 — none acts for or mentions account 1 -/
def thsX : List (Thread Nat (Nat × Nat) Nat Nat) :=
  [⟨handler E0 2 (some 2) .deleteAccount⟩, ⟨handler E0 3 (some 3) (.add 5 (some 4) none .naive 60 61)⟩,
   ⟨handler E0 2 (some 2) (.update 4 8 1)⟩]

-- non-vacuity of `isolation_commands`: its hypothesis holds for `thsX` (from `handler_owner_only`), for
-- EVERY database and EVERY schedule; and the threads do change the database (of others)
example (db : Db Nat (Nat × Nat) Nat Nat) (sched : List Nat) :
    ownedBy 1 (crun db thsX sched).1 = ownedBy 1 db := by
  apply isolation_commands 1 sched db thsX
  intro th hth
  simp only [thsX, List.mem_cons, List.not_mem_nil, or_false] at hth
  rcases hth with rfl | rfl | rfl
  · exact ⟨2, some 2, [], by decide, by decide,
      (handler_owner_only E0 2 (some 2) .deleteAccount).mono (fun _ h => h) (fun _ _ => trivial)⟩
  · exact ⟨3, some 3, [60], by decide, by decide,
      (handler_owner_only E0 3 (some 3) (.add 5 (some 4) none .naive 60 61)).mono (fun _ h => h) (fun _ _ => trivial)⟩
  · exact ⟨2, some 2, [4], by decide, by decide,
      (handler_owner_only E0 2 (some 2) (.update 4 8 1)).mono (fun _ h => h) (fun _ _ => trivial)⟩
example : ((crun (runC E0 aliceIn addRace).db thsX [1, 0, 1, 2, 1, 0, 2, 2]).1.problems.map (fun p => (p.username, p.name))) =
    [(1, 5), (1, 5), (3, 5)] := by decide

/-- bob (account 2) registers, logs in (jar 1) and adds problem 5 while alice's requests are in
flight: a schedule in which alice's in-flight `add` does not move is quiet for alice -/
def bobActs : List (Act Nat) :=
  [.arrive ⟨1, .register 2 8 1⟩, .arrive ⟨0, .add 6 (some 9) none .naive 200 201⟩, .cmd 0, .cmd 0, .deliver 0,
   .arrive ⟨1, .login 2 8⟩, .cmd 1, .deliver 1, .arrive ⟨1, .add 5 (some 3) none .naive 300 301⟩,
   .cmd 1, .cmd 1, .cmd 1, .deliver 1, .finish 1 0, .write 1 0]

-- non-vacuity of `isolation_all_schedules`: `pre` = alice logged in, then the add race (she owns two
-- documents); `bobActs` is quiet for alice (an `add` of hers even arrives and stays in flight) and changes
-- the database
example : QuietC E0 1 (runC E0 aliceIn addRace) bobActs := by
  simp only [bobActs, QuietC, and_true]
  refine ⟨?_, ?_, ?_, ?_, ?_, ?_, ?_, ?_, ?_, ?_, ?_, ?_, ?_, ?_, ?_⟩ <;>
    first
      | (intro h; exact h)
      | (intro h; obtain ⟨f, hf, hx⟩ := h; revert hf hx; decide +revert)
      | (intro h; obtain ⟨t, ht, hx⟩ := h; revert ht hx; decide +revert)
example : (ownedBy 1 (runC E0 (runC E0 aliceIn addRace) bobActs).db).length = 2 ∧
    (ownedBy 2 (runC E0 (runC E0 aliceIn addRace) bobActs).db).length = 1 := by decide

/-- **a second check-then-act race, across requests of one account: `delete_account` ∥ `add`.**  Alice
(two devices, jars 0 and 1) deletes her account on one while an `add` is in flight on the other:
`delete_many {username:alice}`; then the add's `insert_one`; then `delete_one` of the user record.  The
account is gone, the problem `(alice, 5)` stays; whoever registers the name `alice` next finds it in her
list.  (The same family as `stale_cookie_interferes`: the name is re-used while something of its previous
owner exists — excluded by the hypothesis of `noninterference_partial`; here no stale cookie is needed.) -/
def deleteAddRace : List (Act Nat) :=
  [.arrive ⟨1, .login 1 7⟩, .cmd 0, .deliver 0,
   .arrive ⟨0, .deleteAccount⟩, .arrive ⟨1, .add 5 (some 9) none .naive 200 201⟩,
   .cmd 1,            -- add: find_one {name:5, username:alice} → none
   .cmd 0,            -- delete_account: delete_many {username:alice}
   .cmd 1,            -- add: insert_one
   .cmd 0,            -- delete_account: delete_one {username:alice} in users
   .cmd 1, .deliver 0, .deliver 0, .finish 1 0, .write 1 0,
   .arrive ⟨2, .register 1 8 1⟩, .cmd 0, .cmd 0, .deliver 0, .arrive ⟨2, .login 1 8⟩, .cmd 0, .deliver 0,
   .arrive ⟨2, .list⟩, .cmd 0, .cmd 0, .deliver 0]

theorem delete_add_race_orphan :
    (runC E0 aliceIn deleteAddRace).out.map (fun x => (x.1, x.2.status)) =
      [(0, 200), (0, 200), (1, 200), (0, 200), (1, 200), (2, 200), (2, 200), (2, 200)] ∧
    (runC E0 aliceIn deleteAddRace).out.getLast? =
      some (2, ⟨200, .keep, .problems [⟨5, 9, .naive, .some 9, {}, []⟩]⟩) := by
  constructor <;> decide

/-! ### third review (audit L1): further witnesses and instantiations -/

/-- ATOMIC model. alice on two devices; device 0 deletes the account; device 1 (stale cookie) adds problem 5,
its parse task finishes and writes; device 1 then logs in to another account (9).  Now NO session and NO live
task of `1` exists, but an orphan problem (1,5).  carol (jar 3) registers the name 1. -/
def histOrphan : List (Event Nat) :=
  [ .req ⟨0, .register 1 7 0⟩, .req ⟨0, .login 1 7⟩, .req ⟨1, .login 1 7⟩, .req ⟨0, .deleteAccount⟩,
    .req ⟨1, .add 5 (some 9) none .naive 200 201⟩, .finish 1 0, .write 1 0,
    .req ⟨1, .register 9 4 2⟩, .req ⟨1, .login 9 4⟩,
    .req ⟨3, .register 1 8 1⟩, .req ⟨3, .login 1 8⟩, .req ⟨3, .list⟩ ]
def stO := (runAll E0 {} (histOrphan.take 9)).1
-- at the moment of the re-use: no account 1, no session 1 (jars 0..3), no live task, nothing running; one problem (1,5)
example : stO.db.users.map (·.username) = [9] ∧ [0,1,2,3].map stO.sess = [none, some 9, none, none] ∧
    stO.db.tasks.all (fun t => !live t) = true ∧ stO.db.running = [] ∧
    stO.db.problems.map (fun p => (p.username, p.name)) = [(1,5)] := by decide
/-- **an orphan problem interferes**: no account, session, live task or running entry of the name exists when it
is re-used, only a problem document - and the new owner's view differs from her alone run and from the
reserved-names run; `DisciplinedF` rejects the history through `Free.probs` only -/
theorem orphan_problem_interferes :
    obsJ jC (runAll E0 {} histOrphan).2 ≠ obsJ jC (runAll E0 {} (histOrphan.filter (fun e => jC e.jar))).2 ∧
    obsJ jC (runAll E0 {} histOrphan).2 ≠ runRsv E0 jC {} {} histOrphan ∧
    discF E0 jC jarsAll true true (fun _ => none) {} histOrphan = false := by
  refine ⟨?_, ?_, ?_⟩ <;> decide
example : obsJ jC (runAll E0 {} histOrphan).2 ≠ obsJ jC (runAll E0 {} (histOrphan.filter (fun e => jC e.jar))).2 := by decide
example : (runAll E0 {} histOrphan).2.getLast? = some (3, ⟨200, .keep, .problems [⟨5, 9, .naive, .some 9, {}, []⟩]⟩) := by decide
-- ... and ≠ runRsv as well; DisciplinedF's checker rejects the history only because of `Free.probs`
example : obsJ jC (runAll E0 {} histOrphan).2 ≠ runRsv E0 jC {} {} histOrphan := by decide
example : discF E0 jC jarsAll true true (fun _ => none) {} histOrphan = false := by decide

/-- one browser (jar 0), two tabs: delete-account ∥ add.  Afterwards NO session and NO live task of alice is left -/
def deleteAddRace1 : List (Act Nat) :=
  [.arrive ⟨0, .deleteAccount⟩, .arrive ⟨0, .add 5 (some 9) none .naive 200 201⟩,
   .cmd 1, .cmd 0, .cmd 1, .cmd 0, .cmd 1, .deliver 1, .deliver 0, .finish 0 0, .write 0 0]

def afterRace := runC E0 aliceIn deleteAddRace1
-- both 200; no account, no session of any jar in 0..3, no live task, no running entry; one orphan problem (1,5)
example : afterRace.out.map (fun x => (x.1, x.2.status)) = [(0,200),(0,200),(0,200),(0,200)] := by decide
example : afterRace.db.users = [] ∧ [0,1,2,3].map afterRace.sess = [none,none,none,none] ∧
    afterRace.db.tasks.all (fun t => !live t) = true ∧ afterRace.db.running = [] ∧
    afterRace.db.problems.map (fun p => (p.username, p.name)) = [(1,5)] := by decide
-- carol (jar 2) registers the name, logs in, lists: she sees the deleted user's problem
example : (runC E0 afterRace
    [.arrive ⟨2, .register 1 8 1⟩, .cmd 0, .cmd 0, .deliver 0, .arrive ⟨2, .login 1 8⟩, .cmd 0, .deliver 0,
     .arrive ⟨2, .list⟩, .cmd 0, .cmd 0, .deliver 0]).out.getLast? =
    some (2, ⟨200, .keep, .problems [⟨5, 9, .naive, .some 9, {}, []⟩]⟩) := by decide


def preA : List (Act Nat) := seqSchedule E0 {} [.req ⟨0, .register 1 7 0⟩, .req ⟨0, .login 1 7⟩] ++ addRace
theorem preA_eq : runC E0 {} preA = runC E0 aliceIn addRace := by
  unfold preA aliceIn; rw [runC_append]

theorem quiet_bob : QuietC E0 1 (runC E0 aliceIn addRace) bobActs := by
  simp only [bobActs, QuietC, and_true]
  refine ⟨?_, ?_, ?_, ?_, ?_, ?_, ?_, ?_, ?_, ?_, ?_, ?_, ?_, ?_, ?_⟩ <;>
    first
      | (intro h; exact h)
      | (intro h; obtain ⟨f, hf, hx⟩ := h; revert hf hx; decide +revert)
      | (intro h; obtain ⟨t, ht, hx⟩ := h; revert ht hx; decide +revert)

-- the THEOREM instantiated
example : ownedBy 1 (runC E0 (runC E0 {} preA) bobActs).db = ownedBy 1 (runC E0 {} preA).db :=
  isolation_all_schedules E0 1 preA bobActs (by rw [preA_eq]; exact quiet_bob)

-- (A) clause (2) of noninterference_full, with exactly its hypothesis (ownConfl=false, ghost=true)
theorem histX4_F_false_true : DisciplinedF E0 jB false true (fun _ => none) {} histX4 :=
  discF_sound E0 jB jarsAll false true histX4 _ _ (fun _ _ => rfl) (by decide) (by decide)
example : obsJ jB (runAll E0 {} histX4).2 = obsJ jB (runAll E0 {} (histX4.filter (fun e => jB e.jar))).2 :=
  (noninterference_full Nat (Nat × Nat) Nat Nat E0 jB histX4).2 histX4_F_false_true
-- clause (1) with exactly its hypothesis
example : obsJ jA (runAll E0 {} histX5).2 = runRsv E0 jA {} {} histX5 :=
  (noninterference_full Nat (Nat × Nat) Nat Nat E0 jA histX5).1 histX5_disciplinedF


end

end C17

#print axioms C17.noninterference_jars
#print axioms C17.noninterference_static_jars
#print axioms C17.noninterference_partial_from_jars
#print axioms C17.mentions_only_harmless
#print axioms C17.request_not_acting_untouched
#print axioms C17.isolation_mentions_allowed
#print axioms C17.noop_event_unobservable
#print axioms C17.stored_uses_request_salt
#print axioms C17.same_password_distinct_salts
#print axioms C17.atomic_is_sequential_schedule
#print axioms C17.sequential_request_is_atomic_step
#print axioms C17.log_carries_identity
#print axioms C17.responses_from_own_finds
#print axioms C17.unauth_no_data_all_schedules
#print axioms C17.command_others_untouched
#print axioms C17.isolation_all_schedules
#print axioms C17.credentials_all_schedules
#print axioms C17.never_plaintext_all_schedules
#print axioms C17.usernames_unique_all_schedules
#print axioms C17.add_unique_if_not_interleaved
#print axioms C17.add_race_duplicate
#print axioms C17.add_race_wrong_answer
#print axioms C17.register_race
#print axioms C17.delete_add_race_orphan
#print axioms C17.solve_race_two_tasks
#print axioms C17.noop_event_unobservable_anywhere
#print axioms C17.noninterference_jars_conflicts
#print axioms C17.histBig_disciplined
#print axioms C17.histX1_not_disciplinedJ
#print axioms C17.histX1_disciplinedJ'
#print axioms C17.histX1_alice
#print axioms C17.runRsv_examples
#print axioms C17.response_determined_by_own_results
#print axioms C17.noninterference_statement
#print axioms C17.noninterference_reserved_names
#print axioms C17.noninterference_full
#print axioms C17.histX3_alice
#print axioms C17.histX5_alice
#print axioms C17.histX3_bob
#print axioms C17.noninterference_conflicts_of_others
#print axioms C17.histX3_disciplinedF
#print axioms C17.histX4_disciplinedF
#print axioms C17.histX4_bob
#print axioms C17.response_in_flight_from_own_finds
#print axioms C17.response_determined_by_own_identity
#print axioms C17.orphan_problem_interferes
#print axioms C17.histX4_F_false_true
#print axioms C17.isolation_commands
#print axioms C17.find_returns_own
#print axioms C17.histX5_disciplinedF
#print axioms C17.isolation
#print axioms C17.login_iff
#print axioms C17.noninterference_partial
#print axioms C17.stale_cookie_interferes
#print axioms C17.late_write_interferes
