import AdfObdd.Parser7
import AdfObdd.CliModesProofs
import AdfObdd.ServerParseLink
/-! # C08 — the parser accepts the documented syntax faithfully and rejects malformed text whole

Model (`ParserProofs`, `Parser2`, `Parser4`, `Parser6`; namespace `ParserM`): the nom combinators of
`lib/src/parser.rs` as total functions `List Char → Option (α × List Char)` (`tagL`, `alnum1`,
`takeUntilQ`, `ws0`, `orElse` = `alt` — no `cut` is used, so every error backtracks), then the
grammar functions in the order of the Rust (`atomic` = quoted | alphanumeric; `formula` = constant |
binary_op (and, or, imp, xor, iff) | unary_op | atomic_term; `statement`, `ac`, the terminator
`terminated(tag("."), multispace0)`), `all_consuming(many1(alt(parse_statement, parse_ac)))` with the
side effects on the parser object (`PState`: `namelist`, `dict`, `formulae`, `formulaname`), and
`formula_order`. `ParserM.parse : List Char → Option PState` is `AdfParser::default().parse()(text)`.

Grammar (`DerL`, `DerF`, `DerFact`, `DerFile`): the documented format as an inductive relation
between the written structure and the text — `s(l).` / `ac(l,φ).` facts in any order, prefix
connectives, labels alphanumeric or quoted (anything but `"` between the quotes, possibly nothing),
blanks (space, tab, CR, LF) after facts and on both sides of commas, nowhere else.

Totality: `parse` is a Lean function, hence total — the model cannot diverge or panic on any input
(the fuel of the two recursions is `length + 1`, and `parse_complete`/`parse_sound` show that the
accepted language is the grammar, independently of fuel). That the Rust parser does not panic is
observed by the correspondence run (`catch_unwind`), not proved. -/
namespace C08
open ParserM

/-- **Completeness.** Every text of the documented format — at least one fact, facts in any order,
any blanks where the grammar allows them, labels alphanumeric (keyword-like ones such as `and`,
`andy`, `c`, `neg1`, `s`, `ac` are just instances) or quoted — is accepted, and the parser object
afterwards is exactly the one the written facts describe (labels verbatim). -/
theorem parse_complete (fs : List Fact) (t : List Char) (h : DerFile fs t) (hne : fs ≠ []) :
    parse t = some (PState.ofFacts fs) := by
  rw [parse_eq, parseFacts_complete fs t h hne]; rfl

/-- **Soundness.** Whatever is accepted is a text of the documented format, and the parser object
is the one its facts describe: nothing outside the grammar is accepted. -/
theorem parse_sound (t : List Char) (st : PState) (h : parse t = some st) :
    ∃ fs, fs ≠ [] ∧ DerFile fs t ∧ st = PState.ofFacts fs := parse_some_der t st h

/-- the accepted language is exactly the grammar -/
theorem accepts_iff (t : List Char) : (parse t).isSome = true ↔ ∃ fs, fs ≠ [] ∧ DerFile fs t := by
  constructor
  · intro h
    cases hp : parse t with
    | none => rw [hp] at h; cases h
    | some st => obtain ⟨fs, a, b, _⟩ := parse_sound t st hp; exact ⟨fs, a, b⟩
  · intro ⟨fs, a, b⟩
    rw [parse_complete fs t b a]; rfl

/-- the grammar is unambiguous: a text is the spelling of at most one list of facts, so "the
written structure" is well defined -/
theorem grammar_unambiguous (fs gs : List Fact) (t : List Char) (h1 : DerFile fs t) (h2 : DerFile gs t) :
    fs = gs := h1.unique h2

/-- **What the parser object contains** after the facts `fs`: `namelist` = the declared labels in
order of first declaration without repetitions; `dict` maps exactly these to their positions;
`formulaname`/`formulae` = the conditions in file order (repetitions kept); `formula_order` = the
position of each condition's label (`none`, the model of the `expect` panic, iff some condition is
given for an undeclared label). -/
theorem result_spec (fs : List Fact) :
    (PState.ofFacts fs).namelist = namesOf fs ∧
    (∀ l, (PState.ofFacts fs).dictValue l = indexOf (namesOf fs) l) ∧
    (PState.ofFacts fs).formulaname = (acsOf fs).map (·.1) ∧
    (PState.ofFacts fs).formulae = (acsOf fs).map (·.2) ∧
    (PState.ofFacts fs).formulaOrder = ((acsOf fs).map (·.1)).mapM (indexOf (namesOf fs)) :=
  ofFacts_spec fs

/-- the declared names are exactly the labels of the `s` facts, each once -/
theorem names_spec (fs : List Fact) :
    (∀ l, l ∈ namesOf fs ↔ Fact.stmt l ∈ fs) ∧ (namesOf fs).Nodup :=
  ⟨namesOf_mem fs, namesOf_nodup fs⟩

/-- **Keyword-like labels.** Any alphanumeric word — `and`, `or`, `neg`, `c`, `s`, `ac`, `andy`,
`neg1`, … — works as a label in every position: declared, as the label of a condition, and as an
atom below a connective. -/
theorem keyword_labels (l : List Char) (hne : l ≠ []) (hl : AllAlnum l) :
    parse (['s','('] ++ l ++ [')','.'] ++ [] ++
           (['a','c','('] ++ l ++ [] ++ [','] ++ [' '] ++ (['a','n','d','('] ++ l ++ [] ++ [','] ++ [] ++
              (['n','e','g','('] ++ l ++ [')']) ++ [')']) ++ [')','.'] ++ ['\n'] ++ [])) =
      some (PState.ofFacts [Fact.stmt l, Fact.ac l (Fml.and (Fml.atom l) (Fml.not (Fml.atom l)))]) := by
  have dl : DerL l l := DerL.alnum l hne hl
  have ws0 : AllWs [] := fun _ h => by simp at h
  have ws1 : AllWs [' '] := fun c h => by simp at h; subst h; decide
  have ws2 : AllWs ['\n'] := fun c h => by simp at h; subst h; decide
  apply parse_complete _ _ _ (by simp)
  refine DerFile.cons _ _ _ _ (DerFact.stmt l l [] dl ws0) (DerFile.cons _ _ _ _ ?_ DerFile.nil)
  exact DerFact.ac l l _ _ [] [' '] ['\n'] dl
    (DerF.and _ _ _ _ [] [] (DerF.atom l l dl) (DerF.not _ _ (DerF.atom l l dl)) ws0 ws0) ws0 ws1 ws2

/-- the Boolean function a parsed condition denotes is the one written: the connectives have their
intended truth functions, in the written argument order -/
theorem connective_semantics (σ : Label → Bool) (a b : Fml) (l : Label) :
    Fml.eval σ .top = true ∧ Fml.eval σ .bot = false ∧ Fml.eval σ (.atom l) = σ l ∧
    Fml.eval σ (.not a) = !(Fml.eval σ a) ∧
    Fml.eval σ (.and a b) = (Fml.eval σ a && Fml.eval σ b) ∧
    Fml.eval σ (.or a b) = (Fml.eval σ a || Fml.eval σ b) ∧
    Fml.eval σ (.imp a b) = (!(Fml.eval σ a) || Fml.eval σ b) ∧
    Fml.eval σ (.xor a b) = (Fml.eval σ a != Fml.eval σ b) ∧
    Fml.eval σ (.iff a b) = (Fml.eval σ a == Fml.eval σ b) :=
  ⟨rfl, rfl, rfl, rfl, rfl, rfl, rfl, rfl, rfl⟩

/-! ## Rejection: whole classes of malformed texts, each by an executable test on the text -/

/-- **Missing terminator.** A text whose last non-blank character is not `.` is rejected. -/
theorem reject_missing_terminator (t : List Char) (h : endsWithDot t = false) : parse t = none :=
  reject_of t (endsWithDot t = true)
    (fun _ a b => let ⟨pre, w, e, hw⟩ := b.ends a; e ▸ endsWithDot_of pre w hw) (by simp [h])

/-- **Trailing garbage.** Whatever precedes it, a tail that contains a non-blank and does not itself
end in `.` (and blanks) makes the text rejected. -/
theorem reject_trailing_garbage (cs g : List Char) (hg : ∃ c ∈ g, isWs c = false)
    (hd : endsWithDot g = false) : parse (cs ++ g) = none :=
  reject_missing_terminator _ (by rw [endsWithDot_append cs g hg]; exact hd)

/-- **Leading blanks, empty text.** A text that does not start with `s` or `a` is rejected; in
particular the empty text, blank-only text and text with a blank or newline in front. -/
theorem reject_bad_start (t : List Char) (h : t.head? ≠ some 's' ∧ t.head? ≠ some 'a') : parse t = none :=
  reject_of t (t.head? = some 's' ∨ t.head? = some 'a')
    (fun fs a b => by
      cases fs with
      | nil => exact absurd rfl a
      | cons x xs => exact b.starts)
    (by intro h'; rcases h' with h' | h'; exact h.1 h'; exact h.2 h')

/-- **Unbalanced brackets.** A text whose brackets outside quoted labels are not balanced (one
missing, one too many, closing before opening) is rejected. -/
theorem reject_unbalanced (t : List Char) (h : balanced t = false) : parse t = none :=
  reject_of t (balanced t = true) (fun _ _ b => b.balanced) (by simp [h])

/-- **Wrong arity, unknown connective.** A text in which, outside quoted labels, some `(` does not
directly follow one of `s ac c neg and or imp xor iff`, or some bracket group has a number of
top-level commas different from its keyword's (one for `and or imp xor iff ac`, none for
`neg s c`), is rejected. -/
theorem reject_wrong_arity (t : List Char) (h : arityOK t = false) : parse t = none :=
  reject_of t (arityOK t = true) (fun _ _ b => b.arityOK) (by simp [h])

/-- **Unpaired quote.** A text with an odd number of `"` is rejected. -/
theorem reject_odd_quotes (t : List Char) (h : t.count '"' % 2 = 1) : parse t = none :=
  reject_of t (t.count '"' % 2 = 0) (fun _ _ b => b.even_quotes) (by omega)

/-! ## Rejected text: the CLI produces no answer

`CliM.runText` (CliModes.lean) is the binary on the TEXT of the file (all three arms). The web
service's counterpart follows below (`web_…`) and in C16. -/

/-- **neither … produce an answer, CLI part**: a text the parser refuses makes every arm of the
binary, with every flag, exit with the non-zero status 101 and print nothing -/
theorem cli_no_answer_for_rejected_text {T : Type} (W : CliM.World T) (fuel : Nat) (i : CliM.Inv)
    (t : List Char) (h : parse t = none) :
    CliM.runText W fuel i t = CliM.rejected ∧ CliM.rejected.exit ≠ 0 ∧ CliM.rejected.stdout = [] :=
  ⟨CliMP.runText_rejects_unparsed W fuel i t h, by decide, rfl⟩

/-- instances: each rejection test of this file implies the CLI prints nothing -/
theorem cli_no_answer_unbalanced {T : Type} (W : CliM.World T) (fuel : Nat) (i : CliM.Inv) (t : List Char)
    (h : balanced t = false) : CliM.runText W fuel i t = CliM.rejected :=
  (cli_no_answer_for_rejected_text W fuel i t (reject_unbalanced t h)).1

/-! ## Rejected text: the web service produces no answer (review 2 item 2, second half)

`ServerAdf.conditions` - what the service's parse task runs for BOTH parsing strategies - calls the same
`ParserM.parseFile` as `ParserM.parse`; `SrvC.conditions_of_parse_none` is the link. -/

/-- **neither … produce an answer, web part (1): the parse function.** A text the parser refuses makes the
parse function of the service - the driver's `libEnv o`, the service with the modelled hybrid arm `hybEnv`,
and `hybEnvF F` for every search bound - answer `Error("ADF could not be parsed, …")` for `Naive` AND
`Hybrid` parsing -/
theorem web_parse_rejects_rejected_text {T : Type} (o : SrvC.Oracle) (Lf : Nat → Bio.Lib T) (dumpf : Nat → T → List Node)
    (pg : ServerM.Parsing) (code : String) (h : parse code.toList = none) :
    (SrvC.libEnv o).parse pg code = .error .parseError ∧ (SrvC.hybEnv Lf dumpf).parse pg code = .error .parseError ∧
    ∀ F, (SrvC.hybEnvF F Lf dumpf).parse pg code = .error .parseError :=
  SrvC.parse_rejected o Lf dumpf pg code h

/-- **web part (2): the parse task stores the error, a solve is refused.** When the parse task of a refused
text writes, the addressed document gets `Error` in `adf` and in `acs_per_strategy.parse_only`; and for a
document in that state every `PUT /adf/{name}/solve` is answered `400 … could not be parsed` (no solve task
is spawned) -/
theorem web_task_stores_error_for_rejected_text (o : SrvC.Oracle) (db : ServerM.Db String SrvC.SHash ServerAdf.SAdf ServerAdf.SRes)
    (j n : Nat) (t : ServerM.TaskRec String ServerAdf.SAdf) (code : String) (pg : ServerM.Parsing)
    (h : parse code.toList = none)
    (ht : ServerM.nthOf j n db.tasks = some t) (hin : t.input = .parse code pg)
    (hlive : t.blockingDone = true ∧ t.written = false)
    (p : ServerM.Problem String ServerAdf.SAdf ServerAdf.SRes)
    (hp : db.problems.find? (ServerM.isProb t.username t.name) = some p) :
    (ServerM.dbEv (SrvC.libEnv o) db (.write j n)).problems.find? (ServerM.isProb t.username t.name) =
      some { p with adf := .error .parseError, parseOnly := .error .parseError } ∧
    ∀ (st : SrvC.SState) (jar : Nat) (s : ServerM.Strategy), st.sess jar = some t.username →
      st.db.problems.find? (ServerM.isProb t.username t.name) =
        some { p with adf := .error .parseError, parseOnly := .error .parseError } →
      (ServerM.step (SrvC.libEnv o) st ⟨jar, .solve t.name s⟩).2 = ⟨400, .keep, .msg (.couldNotParse .parseError)⟩ := by
  have hc := SrvC.conditions_of_parse_none code h
  refine ⟨?_, fun st jar s hs hf => ?_⟩
  · have herr := SrvC.libEnv_parse_error_iff o code _ hc pg
    simp only [ServerM.dbEv, ht, hlive.1, hlive.2, Bool.not_false, Bool.and_self, if_true, ServerM.exec, hin,
      ServerM.taskWrite, herr]
    rw [ServerM.find_updFirst_same _ _ (fun x hx => by rw [ServerM.isProb_apply]; exact hx), hp]
    rfl
  · simp only [ServerM.step, ServerM.stepT, ServerM.handler, ServerM.hSolve, hs, ServerM.run, ServerM.exec, hf,
      ServerM.reply]

/-- **web part (3): no answer is ever produced in the ATOMIC-request model** (every history of `ServerM.runAll`: any
interleaving of users' requests and task events, each request executed atomically; under COMMAND-level interleaving
the `add ∥ add` race of finding D14 gives a refused code a framework: `C16.add_race_answers_rejected_code`): in every reachable state a document under an untainted key (no stale write of finding D9 since
the key was last cleared) whose code the parser refuses carries no framework and no result under any strategy -/
theorem web_no_answer_for_rejected_text (o : SrvC.Oracle) (es : List (ServerM.Event String))
    (p : ServerM.Problem String ServerAdf.SAdf ServerAdf.SRes)
    (hp : p ∈ (ServerM.runAll (SrvC.libEnv o) {} es).1.db.problems)
    (hn : ServerM.taintRun (SrvC.libEnv o) {} (fun _ _ => false) es p.username p.name = false)
    (h : parse p.code.toList = none) :
    (∀ a, p.adf ≠ .some a) ∧ ∀ s res, p.res.get s ≠ .some res :=
  SrvC.rejected_code_never_answered (SrvC.libEnv o) es p hp hn .parseError
    (SrvC.parse_rejected (T := Nat) o Bio.ttLib Bio.ttDump p.parsing p.code h).1

/-- instance: each rejection test of this file implies the service stores an error -/
theorem web_rejects_unbalanced (o : SrvC.Oracle) (pg : ServerM.Parsing) (code : String) (h : balanced code.toList = false) :
    (SrvC.libEnv o).parse pg code = .error .parseError :=
  (web_parse_rejects_rejected_text (T := Nat) o Bio.ttLib Bio.ttDump pg code (reject_unbalanced _ h)).1

-- non-vacuity, kernel-checked (third review: `decide +kernel` evaluates the parser on a string literal)
-- C08: rejected text, kernel
example : ParserM.parse "s(a.".toList = none := by decide +kernel
example : (SrvC.libEnv {}).parse .hybrid "s(a." = .error .parseError :=
  (web_parse_rejects_rejected_text (T := Nat) {} Bio.ttLib Bio.ttDump .hybrid "s(a." (by decide +kernel)).1

-- and by evaluation: `s(a.` is refused
-- by the parser model, and both parsing strategies of the executable service answer the parse error
#guard (parse "s(a.".toList).isNone
#guard (match (SrvC.libEnv {}).parse .naive "s(a.", (SrvC.hybEnv Bio.ttLib Bio.ttDump).parse .hybrid "s(a." with
  | .error .parseError, .error .parseError => true | _, _ => false)

/-! ## Non-vacuity -/

/-- `s(a).ac(a,neg(a)).` as a character list -/
private def ex1 : List Char :=
  ['s','(','a',')','.','a','c','(','a',',','n','e','g','(','a',')',')','.']

/-- a label that needs quotes, a quoted empty label, blanks, a keyword-like label:
`s("a b"). s("").` newline `ac("a b" , imp(c , ""))  .`-free variant -/
private def ex2 : List Char :=
  ['s','(','"','a',' ','b','"',')','.',' ','s','(','"','"',')','.','\n','s','(','c',')','.',
   'a','c','(','"','a',' ','b','"',' ',',','\t','i','m','p','(','c',' ',',','"','"',')',')','.','\n']

-- the model accepts them with the written structure (computed by the kernel)
example : parse ex1 = some (PState.ofFacts [Fact.stmt ['a'], Fact.ac ['a'] (Fml.not (Fml.atom ['a']))]) := by decide
example : parse ex2 = some (PState.ofFacts [Fact.stmt ['a',' ','b'], Fact.stmt [], Fact.stmt ['c'],
    Fact.ac ['a',' ','b'] (Fml.imp (Fml.atom ['c']) (Fml.atom []))]) := by decide
-- hence (soundness) the hypotheses of `parse_complete` are satisfiable: these texts are in the grammar
example : ∃ fs, fs ≠ [] ∧ DerFile fs ex1 :=
  let ⟨fs, a, b, _⟩ := parse_sound ex1 _ (by decide : parse ex1 = some (PState.ofFacts
    [Fact.stmt ['a'], Fact.ac ['a'] (Fml.not (Fml.atom ['a']))]))
  ⟨fs, a, b⟩
example : (parse ex2).isSome = true := by decide
example : ∃ fs, fs ≠ [] ∧ DerFile fs ex2 := (accepts_iff ex2).mp (by decide)
-- result_spec / names_spec: declaration order, duplicates, formula_order, a condition without declaration
example : (PState.ofFacts [Fact.stmt ['b'], Fact.ac ['a'] Fml.top, Fact.stmt ['a'], Fact.stmt ['b'],
    Fact.ac ['b'] Fml.bot]).formulaOrder = some [1, 0] := by decide
example : (PState.ofFacts [Fact.stmt ['b'], Fact.ac ['a'] Fml.top]).formulaOrder = none := by decide
example : namesOf [Fact.stmt ['b'], Fact.stmt ['a'], Fact.stmt ['b']] = [['b'], ['a']] := by decide
-- grammar_unambiguous: two derivations of the same text exist only for equal facts (instance: ex1)
example (gs : List Fact) (h : DerFile gs ex1) :
    gs = [Fact.stmt ['a'], Fact.ac ['a'] (Fml.not (Fml.atom ['a']))] := by
  have hp : parse ex1 = some (PState.ofFacts [Fact.stmt ['a'], Fact.ac ['a'] (Fml.not (Fml.atom ['a']))]) := by decide
  rw [parse_eq] at hp
  cases hf : parseFacts ex1 with
  | none => rw [hf] at hp; cases hp
  | some fs =>
    have ⟨_, d⟩ := parseFacts_sound ex1 fs hf
    have e := grammar_unambiguous gs fs ex1 h d
    have : parseFacts ex1 = some [Fact.stmt ['a'], Fact.ac ['a'] (Fml.not (Fml.atom ['a']))] := by decide
    rw [hf] at this
    rw [e]; exact Option.some.inj this
-- keyword_labels: `and` is alphanumeric
example : AllAlnum ['a','n','d'] ∧ ['a','n','d'] ≠ [] := ⟨allAlnum_lit _ (by decide), by decide⟩
-- connective_semantics distinguishes imp's argument order
example : Fml.eval (fun _ => true) (.imp .bot .top) = true ∧ Fml.eval (fun _ => true) (.imp .top .bot) = false :=
  ⟨rfl, rfl⟩
-- the rejection tests fire on the intended mutations of ex1 …
example : endsWithDot ['s','(','a',')'] = false := by decide                      -- `s(a)`
example : endsWithDot ['s','(','a',')','.',' ','w','e','e'] = false := by decide   -- `s(a). wee`
example : parse (['s','(','a',')','.'] ++ [' ','w','e','e']) = none :=
  reject_trailing_garbage _ _ ⟨'w', by simp, by decide⟩ (by decide)
example : parse [' ','s','(','a',')','.'] = none := reject_bad_start _ (by decide)     -- leading blank
example : parse [] = none := reject_bad_start _ (by decide)
example : balanced ['s','(','a','.'] = false := by decide                          -- `s(a.`
example : balanced ['s','(','a',')',')','.'] = false := by decide                  -- `s(a)).`
example : arityOK ['a','c','(','a',',','a','n','d','(','a',')',')','.'] = false := by decide          -- `ac(a,and(a)).`
example : arityOK ['a','c','(','a',',','n','e','g','(','a',',','a',')',')','.'] = false := by decide  -- `ac(a,neg(a,a)).`
example : arityOK ['a','c','(','a',',','a',',','a',')','.'] = false := by decide                      -- `ac(a,a,a).`
example : arityOK ['a','c','(','a',',','n','o','t','(','a',')',')','.'] = false := by decide          -- `ac(a,not(a)).`
example : (['s','(','"','a',')','.'] : List Char).count '"' % 2 = 1 := by decide    -- `s("a).`
-- … and not on texts of the grammar (they are necessary conditions, satisfied by ex1 and ex2)
example : endsWithDot ex2 = true ∧ balanced ex2 = true ∧ arityOK ex2 = true ∧ ex2.count '"' % 2 = 0 := by decide
-- brackets inside quoted labels do not count
example : parse ['s','(','"','(','(','"',')','.'] = some (PState.ofFacts [Fact.stmt ['(','(']]) := by decide

end C08

#print axioms C08.web_parse_rejects_rejected_text
#print axioms C08.web_task_stores_error_for_rejected_text
#print axioms C08.web_no_answer_for_rejected_text
#print axioms C08.web_rejects_unbalanced
