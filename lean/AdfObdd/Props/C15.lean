import AdfObdd.CliModel
import AdfObdd.CliFaithful
import AdfObdd.CliModesProofs
import AdfObdd.CliWorldProofs
import AdfObdd.CliCounter
import AdfObdd.CliIOProofs
import AdfObdd.CliHalt
import AdfObdd.CliFuelBound
import AdfObdd.HybridCli
import AdfObdd.NatLexOrder
import AdfObdd.Props.C03
/-! # C15 — CLI output is faithful in every library mode

Model: `Cli.run` (`CliModel.lean`) — the three arms of `App::run`, the per-mode wiring table
(`Cli.implemented`) and the fixed order of the sections. "Prints exactly what the definitions
prescribe" and "the three modes print the same sets" are read over the flags a mode implements
(DESIGN.md §5); the wiring table is itself part of the model and is compared with the binary.

Wiring and order: `sections_exact`, `sections_in_documented_order`, `sections_nodup`, `run_blocks`.
Content: `cli_faithful` (every block of every invocation is, as a multiset of three-valued
interpretations, the specification's answer for its section — `CliFaithful.lean`),
`cli_faithful_without_search_flags`, `cli_faithful_every_large_bound`, `modes_print_same_sets`.

`Cli.run` is what the model driver executes; it starts from a BUILT native framework and its
`.biodivine` arm is the native one (so statements that compare its modes say nothing about the
biodivine back-end). The second part of this file (`## from the text, arm by arm`) is about
`CliM.runText` (`CliModes.lean`): the three arms as written in `main.rs`, from the TEXT of the file
(parse, `--lx`/`--an`, construction per arm, biodivine algorithms over the lawful library, bridge,
`--stmrew`/`--stmrew2` rewriting variants) to exit status and rendered lines. Its naive arm is
`Cli.run .naive` (`naive_arm_is_driver_model`). -/
namespace C15

/-- the printed sections are exactly the requested ones the mode implements … -/
theorem sections_exact (m : Cli.Mode) (f : Cli.Flags) (s : Cli.Section) :
    s ∈ Cli.sections m f ↔ (Cli.wanted f s = true ∧ Cli.implemented m s = true) := by
  unfold Cli.sections
  rw [List.mem_filter]
  constructor
  · intro ⟨_, h⟩; simpa using h
  · intro h
    refine ⟨?_, by simpa using h⟩
    cases s <;> simp [Cli.sectionOrder]

/-- … in the documented order: grounded, then complete, then the (two-valued and) stable sections -/
theorem sections_in_documented_order (m : Cli.Mode) (f : Cli.Flags) :
    (Cli.sections m f).Sublist [.grd, .com, .twoval, .stm, .stmca, .stmcb, .stmpre, .stmrew, .stmng] :=
  List.filter_sublist

/-- each section appears at most once -/
theorem sections_nodup (m : Cli.Mode) (f : Cli.Flags) : (Cli.sections m f).Nodup :=
  List.Nodup.sublist List.filter_sublist (by decide)

/-- the hybrid (default) mode implements every section; the other two a subset -/
theorem hybrid_implements_everything (s : Cli.Section) : Cli.implemented .hybrid s = true := rfl

/-- the invocation prints one block per section, in that order -/
theorem run_blocks (m : Cli.Mode) (f : Cli.Flags) (heu : SM.Heu) (s : Store) (n : Nat) (ac : List Nat) :
    (Cli.run m f heu s n ac).map (·.1) = Cli.sections m f := by
  have : ∀ (ac' : List Nat) (l : List Cli.Section) (acc : Store × List (Cli.Section × List (List Nat))),
      (Cli.runFrom heu n ac' l acc).2.map (·.1) = acc.2.map (·.1) ++ l := by
    intro ac' l
    induction l with
    | nil => intro acc; simp [Cli.runFrom]
    | cons x xs ih => intro acc; simp only [Cli.runFrom]; rw [ih]; simp
  simpa [Cli.run] using this _ (Cli.sections m f) ((Cli.startOf m s n ac).1, [])

/-! ## faithfulness: every block is the specification's answer

`Cli.run` runs the two sections that use the nogood-learning search (`--twoval`, `--stmng`) with a
bound of 1 000 000 loop iterations (the model must be a total function). C05 proves that the loop
halts but gives no number, and a framework with more than a million two-valued models cannot be
enumerated within the bound; so the statement about `Cli.run` itself carries the hypothesis
`CliF.Halted` — "no search of this invocation hit the bound" (a Boolean the model computes:
`CliF.haltsFromF`). It is discharged in two ways: it holds outright for every invocation without
those two flags (`cli_faithful_without_search_flags`), and for every invocation it holds from some
bound on (`cli_faithful_every_large_bound`, about `CliF.runF fuel`, the same model with the bound as
a parameter; `CliF.runF 1000000 = Cli.run`, `run_is_bound_instance`).

With respect to the statement written in the design round two hypotheses were sharpened: every atom
of every condition is a statement of the framework (`NConc.atomsLt n`, what the parser guarantees;
needed for the truth tables over `n` variables to represent the conditions, and by C05's two-valued
mode) and `n ≤ VBOT` (the variable numbers fit; `buildNative_correct`). -/

/-- full faithfulness statement: for EVERY library mode, flag set and heuristic, on the framework
compiled from the written conditions, every block of the model's output is, as a multiset of
three-valued interpretations, the specification's answer for its section -/
def cli_faithful_statement : Prop :=
  ∀ (m : Cli.Mode) (f : Cli.Flags) (heu : SM.Heu) (n : Nat) (fms : List Fm),
    fms.length = n → n ≤ VBOT → (∀ φ ∈ fms, NConc.atomsLt n φ) →
    let b := buildNative n fms
    CliF.Halted m f heu b.1 n b.2 →
    ∀ blk ∈ Cli.run m f heu b.1 n b.2,
      (blk.2.map (fun v => v.map storeIsConst)).Perm
        (Cli.specSection n (fms.map (fun φ => TT.ofFn n (fun a => φ.sem (fun v => a.testBit v)))) blk.1)

/-- **C15, faithfulness** — proved: composition of C01 (grounded = least fixpoint; the hybrid arm's
pre-grounded conditions are `pre D g`, `CliF.grounded_is_pre`), C02 (`complete_exact`), C03
(`stable_exact`, `stablepre_exact`), C04 (`count_search_exact`), C05 (`ng_search_exact`), the
pre-grounding invariance theorems (`pre_lfp`, `pre_complete_iff`, `pre_reduct_lfp_iff`), the store
threading through the sections (`CliF.runFromF_faithful`) and the soundness of the executable
specification (`SpecSound`) -/
theorem cli_faithful : cli_faithful_statement := by
  intro m f heu n fms hl hn ha b hh
  exact CliF.run_faithful m f heu n fms hl hn ha hh

/-- the hypothesis `Halted` is not needed when the invocation runs no bounded search -/
theorem cli_faithful_without_search_flags (m : Cli.Mode) (f : Cli.Flags) (heu : SM.Heu) (n : Nat) (fms : List Fm)
    (hl : fms.length = n) (hn : n ≤ VBOT) (ha : ∀ φ ∈ fms, NConc.atomsLt n φ)
    (h1 : f.twoval = false) (h2 : f.stmng = false) :
    ∀ blk ∈ Cli.run m f heu (buildNative n fms).1 n (buildNative n fms).2,
      (blk.2.map (fun v => v.map storeIsConst)).Perm
        (Cli.specSection n (fms.map (fun φ => TT.ofFn n (fun a => φ.sem (fun v => a.testBit v)))) blk.1) :=
  CliF.run_faithful m f heu n fms hl hn ha (CliF.halted_of_no_search _ m f heu _ n _ h1 h2)

/-- `Cli.run` is the bound-parametric model at the driver's bound -/
theorem run_is_bound_instance (m : Cli.Mode) (f : Cli.Flags) (heu : SM.Heu) (s : Store) (n : Nat) (ac : List Nat) :
    CliF.runF 1000000 m f heu s n ac = Cli.run m f heu s n ac := CliF.runF_eq m f heu s n ac

/-- **C15, termination and faithfulness for every large bound**: every invocation has a bound from
which on no search hits it and every block is the specification's answer — no hypothesis left -/
theorem cli_faithful_every_large_bound (m : Cli.Mode) (f : Cli.Flags) (heu : SM.Heu) (n : Nat) (fms : List Fm)
    (hl : fms.length = n) (hn : n ≤ VBOT) (ha : ∀ φ ∈ fms, NConc.atomsLt n φ) :
    ∃ F0, ∀ fuel, F0 ≤ fuel →
      CliF.HaltedF fuel m f heu (buildNative n fms).1 n (buildNative n fms).2 ∧
      ∀ blk ∈ CliF.runF fuel m f heu (buildNative n fms).1 n (buildNative n fms).2,
        (blk.2.map (fun v => v.map storeIsConst)).Perm
          (Cli.specSection n (fms.map (fun φ => TT.ofFn n (fun a => φ.sem (fun v => a.testBit v)))) blk.1) :=
  CliF.runF_faithful_eventually m f heu n fms hl hn ha

/-- **the fuel hypothesis from an EXPLICIT bound on**: C05's termination argument with the iterations
counted gives `NConc.ngBound n = 2^(n+3)` (`C05.ng_search_halts_within_explicit_bound`); no search of an
invocation on a framework with `n` statements hits a bound `≥ 2^(n+3)`, and the blocks are faithful -/
theorem cli_faithful_within_explicit_bound (m : Cli.Mode) (f : Cli.Flags) (heu : SM.Heu) (n : Nat) (fms : List Fm)
    (hl : fms.length = n) (hn : n ≤ VBOT) (ha : ∀ φ ∈ fms, NConc.atomsLt n φ) :
    ∀ fuel, NConc.ngBound n ≤ fuel →
      CliF.HaltedF fuel m f heu (buildNative n fms).1 n (buildNative n fms).2 ∧
      ∀ blk ∈ CliF.runF fuel m f heu (buildNative n fms).1 n (buildNative n fms).2,
        (blk.2.map (fun v => v.map storeIsConst)).Perm
          (Cli.specSection n (fms.map (fun φ => TT.ofFn n (fun a => φ.sem (fun v => a.testBit v)))) blk.1) :=
  fun fuel hf => ⟨CliF.haltedF_within m f heu n fms hl hn ha fuel hf,
    CliF.runF_faithful fuel m f heu n fms hl hn ha (CliF.haltedF_within m f heu n fms hl hn ha fuel hf)⟩

/-- **`CliF.Halted` holds for every framework with at most 16 statements** (`2^(16+3) = 524288 ≤ 10^6 <
2^(17+3)`, `C05.explicit_bound_within_driver_bound_iff`): every mode, every flag set (in particular
`--twoval`, `--stmng`), every heuristic. Beyond 16 statements the hypothesis `Halted` of `cli_faithful`
remains: the Rust loop is unbounded, the bound is exponential, and for larger frameworks "halted within
10^6" is established by evaluation only (the frameworks of the check's cli profile that run these flags
have at most 6 statements: `2^9 = 512` iterations suffice). -/
theorem halted_for_small_frameworks (m : Cli.Mode) (f : Cli.Flags) (heu : SM.Heu) (n : Nat) (fms : List Fm)
    (hl : fms.length = n) (h16 : n ≤ 16) (ha : ∀ φ ∈ fms, NConc.atomsLt n φ) :
    CliF.Halted m f heu (buildNative n fms).1 n (buildNative n fms).2 :=
  CliF.halted_of_le_16 m f heu n fms hl h16 ha

/-- **`cli_faithful` WITHOUT the fuel hypothesis** for frameworks with at most 16 statements -/
theorem cli_faithful_small_frameworks (m : Cli.Mode) (f : Cli.Flags) (heu : SM.Heu) (n : Nat) (fms : List Fm)
    (hl : fms.length = n) (h16 : n ≤ 16) (ha : ∀ φ ∈ fms, NConc.atomsLt n φ) :
    ∀ blk ∈ Cli.run m f heu (buildNative n fms).1 n (buildNative n fms).2,
      (blk.2.map (fun v => v.map storeIsConst)).Perm
        (Cli.specSection n (fms.map (fun φ => TT.ofFn n (fun a => φ.sem (fun v => a.testBit v)))) blk.1) :=
  cli_faithful m f heu n fms hl (by unfold VBOT; omega) ha (halted_for_small_frameworks m f heu n fms hl h16 ha)

/-- non-vacuity (kernel-checked hypotheses): two statements attacking each other, hybrid mode, ALL flags
including `--twoval --stmng`, any heuristic: every block of `Cli.run` is the specification's answer -/
example (heu : SM.Heu) :
    ∀ blk ∈ Cli.run .hybrid { grd := true, com := true, twoval := true, stm := true, stmng := true } heu
        (buildNative 2 [.not (.atom 1), .not (.atom 0)]).1 2 (buildNative 2 [.not (.atom 1), .not (.atom 0)]).2,
      (blk.2.map (fun v => v.map storeIsConst)).Perm
        (Cli.specSection 2 ([Fm.not (.atom 1), .not (.atom 0)].map
          (fun φ => TT.ofFn 2 (fun a => φ.sem (fun v => a.testBit v)))) blk.1) :=
  cli_faithful_small_frameworks .hybrid _ heu 2 _ rfl (by decide)
    (by intro f hf; simp at hf; rcases hf with rfl | rfl <;> simp [NConc.atomsLt])

/-- two invocations of `Cli.run` that differ in the library mode only print, for every section both
modes implement, permutations of one another. NOTE: in `Cli.run` the `.biodivine` arm is the native
one, so this compares the hybrid start (pre-grounding) with the plain start only; the statement
about the three REAL arms is `three_modes_print_same_sets` below. -/
theorem modes_print_same_sets (m m' : Cli.Mode) (f : Cli.Flags) (heu heu' : SM.Heu) (n : Nat) (fms : List Fm)
    (hl : fms.length = n) (hn : n ≤ VBOT) (ha : ∀ φ ∈ fms, NConc.atomsLt n φ)
    (hh : CliF.Halted m f heu (buildNative n fms).1 n (buildNative n fms).2)
    (hh' : CliF.Halted m' f heu' (buildNative n fms).1 n (buildNative n fms).2)
    (blk blk' : Cli.Section × List (List Nat))
    (hb : blk ∈ Cli.run m f heu (buildNative n fms).1 n (buildNative n fms).2)
    (hb' : blk' ∈ Cli.run m' f heu' (buildNative n fms).1 n (buildNative n fms).2) (hs : blk.1 = blk'.1) :
    (blk.2.map (fun v => v.map storeIsConst)).Perm (blk'.2.map (fun v => v.map storeIsConst)) := by
  have h1 := CliF.run_faithful m f heu n fms hl hn ha hh blk hb
  have h2 := CliF.run_faithful m' f heu' n fms hl hn ha hh' blk' hb'
  unfold CliF.Faithful at h1 h2
  rw [hs] at h1
  exact h1.trans h2.symm

/-! non-vacuity: `s(a). s(b). ac(a, b). ac(b, a).` with every flag set, default (hybrid) mode: the
hypotheses hold, no search hits the bound, nine blocks are printed (evaluation by the compiler's
interpreter — the store's hash tables do not reduce in the kernel) -/
example : (∀ φ ∈ [Fm.atom 1, Fm.atom 0], NConc.atomsLt 2 φ) ∧ 2 ≤ VBOT := by
  refine ⟨?_, by simp [VBOT]⟩
  intro φ hφ
  simp at hφ
  rcases hφ with h | h <;> subst h <;> simp [NConc.atomsLt]

def exFlags : Cli.Flags :=
  { grd := true, com := true, twoval := true, stm := true, stmca := true, stmcb := true, stmpre := true,
    stmrew := true, stmng := true }

#guard CliF.haltsFromF 1000000 .simple 2 (Cli.startOf .hybrid (buildNative 2 [.atom 1, .atom 0]).1 2
    (buildNative 2 [.atom 1, .atom 0]).2).2 (Cli.sections .hybrid exFlags)
    (Cli.startOf .hybrid (buildNative 2 [.atom 1, .atom 0]).1 2 (buildNative 2 [.atom 1, .atom 0]).2).1
#guard ((Cli.run .hybrid exFlags .simple (buildNative 2 [.atom 1, .atom 0]).1 2 (buildNative 2 [.atom 1, .atom 0]).2).map
    (fun blk => (blk.2.map (fun v => v.map storeIsConst)).length)) == [1, 3, 2, 1, 1, 1, 1, 1, 1]

example : Cli.sections .naive { grd := true, stm := true, stmca := true } = [.grd, .stm] := by decide


/-! ## from the text, arm by arm (`CliM.runText`)

Assumptions (all explicit): `CliMP.WorldOK` — the external BDD library is lawful for every variable
set (`Bio.Lawful`), the alphanumeric sort of crate `lexical-sort` returns a permutation of the name
list; for the hybrid arm `CliMP.DumpOKW` — `Bdd::to_string()` is an ordered node dump of the diagram
(the hypothesis `DumpOK` of the bridge theorem C09). Hypotheses of the statements beyond
"well-formed file": the statement labels contain none of `! & | ^ = < > ( ) ? :` in the two arms that
use the library (otherwise these arms PANIC — `library_arms_panic_on_special_labels`, a finding);
with `--stmrew` no statement has two conditions in the file (the prepared rewriting conjoins an
equivalence for EVERY written condition, `Bio.rewriteExpr`); the fuel hypothesis `CliM.haltedParsed`
(see `CliModesProofs`, section "the fuel hypothesis"). -/

open CliM CliMP ParserM FromParser in
/-- **C15 from the text** (all clauses but the rejection): for a text of the documented format that
describes a well-formed ADF, every library mode, every set of semantics flags, every sorting flag and
heuristic: exit status 0; stdout consists of one block per requested section the mode implements,
in the documented order; every block is, as a multiset of three-valued interpretations, exactly what
the definitions prescribe for its section on the framework of the file (statements in the order the
sorting flag asks for); every line is `render names v` for a vector with one entry per statement -/
theorem cli_text_faithful {T : Type} (W : World T) (ok : WorldOK W) (fuel : Nat) (i : Inv) (t : List Char)
    (fs : List Fact) (hd : DerFile fs t) (hne : fs ≠ []) (hwf : WellFormedAdf fs)
    (hn : (namesOf fs).length ≤ VBOT)
    (hnames : i.mode ≠ .naive → (namesOf fs).all bioNameOK = true)
    (hone : i.mode ≠ .naive → i.flags.stmrew = true → ((acsOf fs).map (·.1)).Nodup)
    (hdump : i.mode = .hybrid → DumpOKW W ok)
    (hh : haltedParsed W fuel i (sortState W.anSort i.sort (PState.ofFacts fs)) = true) :
    ∃ blocks : List Block,
      runText W fuel i t =
        ⟨0, blocks.flatMap fun b => b.2.map (render (sortedNames W.anSort i.sort (namesOf fs)))⟩ ∧
      blocks.map (·.1) = Cli.sections i.mode i.flags ∧
      (∀ blk ∈ blocks, (blk.2.map (fun v => v.map storeIsConst)).Perm
        (Cli.specSection (sortedNames W.anSort i.sort (namesOf fs)).length
          (tablesD (sortedNames W.anSort i.sort (namesOf fs)).length
            (SortModel.condFnsOn (sortedNames W.anSort i.sort (namesOf fs)) (condOf fs))) blk.1)) ∧
      (∀ blk ∈ blocks, ∀ v ∈ blk.2, v.length = (sortedNames W.anSort i.sort (namesOf fs)).length) :=
  runText_faithful W ok fuel i t fs hd hne hwf hn hnames hone hdump hh

open CliM CliMP ParserM FromParser in
/-- **the three library modes print the same sets** — the three arms are three different
computations (own store; back-end algorithms on the external library; library grounding + bridge +
own store, rewriting variants via the library's `sat_valuations`): two invocations on the same
parser object in any two modes, for every section both print, print permutations of one another -/
theorem three_modes_print_same_sets {T : Type} (W : World T) (ok : WorldOK W) (fuel fuel' : Nat) (i i' : Inv)
    {st : PState} {names : List Label} {acs : List (Label × Fml)}
    (h : Pres st names acs) (hwf : WfOn names acs) (hn : names.length ≤ VBOT)
    (hnames : names.all bioNameOK = true) (hone : (acs.map (·.1)).Nodup) (hdump : DumpOKW W ok)
    (hh : haltedParsed W fuel i st = true) (hh' : haltedParsed W fuel' i' st = true)
    (blocks blocks' : List Block) (hb : runParsed W fuel i st = some blocks)
    (hb' : runParsed W fuel' i' st = some blocks')
    (blk blk' : Block) (hm : blk ∈ blocks) (hm' : blk' ∈ blocks') (hs : blk.1 = blk'.1) :
    (blk.2.map (fun v => v.map storeIsConst)).Perm (blk'.2.map (fun v => v.map storeIsConst)) :=
  modes_same_sets W ok fuel fuel' i i' h hwf hn hnames hone hdump hh hh' blocks blocks' hb hb' blk blk' hm hm' hs

/-! ### the world the model driver executes

`CliM.drvWorld` (`CliWorld.lean`) is the concrete world the compiled driver hands to `CliM.runText` for
every `clirun` request (all three arms; `Drv/Cli.lean`): truth tables tagged with their number of
variables as the BDD library, the decision-tree dump `Bio.ttDump`, `natural_lexical_cmp` written down as
the alphanumeric sort. It satisfies ALL assumptions about the external world (`CliMP.drvWorldOK`,
`CliMP.drvWorld_dump`, from `Bio.ttLawful` and `Bio.ttDump_spec`), so the two theorems above hold for
exactly the function whose output is diffed against the real binary — in particular the hybrid-arm
statements are not vacuous. -/

open CliM CliMP ParserM FromParser in
/-- **`cli_text_faithful` for the driver's world**: no assumption about an external world is left -/
theorem driver_world_faithful (fuel : Nat) (i : Inv) (t : List Char)
    (fs : List Fact) (hd : DerFile fs t) (hne : fs ≠ []) (hwf : WellFormedAdf fs)
    (hn : (namesOf fs).length ≤ VBOT)
    (hnames : i.mode ≠ .naive → (namesOf fs).all bioNameOK = true)
    (hone : i.mode ≠ .naive → i.flags.stmrew = true → ((acsOf fs).map (·.1)).Nodup)
    (hh : haltedParsed drvWorld fuel i (sortState drvWorld.anSort i.sort (PState.ofFacts fs)) = true) :
    ∃ blocks : List Block,
      runText drvWorld fuel i t =
        ⟨0, blocks.flatMap fun b => b.2.map (render (sortedNames drvWorld.anSort i.sort (namesOf fs)))⟩ ∧
      blocks.map (·.1) = Cli.sections i.mode i.flags ∧
      (∀ blk ∈ blocks, (blk.2.map (fun v => v.map storeIsConst)).Perm
        (Cli.specSection (sortedNames drvWorld.anSort i.sort (namesOf fs)).length
          (tablesD (sortedNames drvWorld.anSort i.sort (namesOf fs)).length
            (SortModel.condFnsOn (sortedNames drvWorld.anSort i.sort (namesOf fs)) (condOf fs))) blk.1)) ∧
      (∀ blk ∈ blocks, ∀ v ∈ blk.2, v.length = (sortedNames drvWorld.anSort i.sort (namesOf fs)).length) :=
  cli_text_faithful drvWorld drvWorldOK fuel i t fs hd hne hwf hn hnames hone (fun _ => drvWorld_dump) hh

open CliM CliMP ParserM FromParser in
/-- **the three modes print the same sets, in the driver's world** -/
theorem driver_world_three_modes (fuel fuel' : Nat) (i i' : Inv)
    {st : PState} {names : List Label} {acs : List (Label × Fml)}
    (h : Pres st names acs) (hwf : WfOn names acs) (hn : names.length ≤ VBOT)
    (hnames : names.all bioNameOK = true) (hone : (acs.map (·.1)).Nodup)
    (hh : haltedParsed drvWorld fuel i st = true) (hh' : haltedParsed drvWorld fuel' i' st = true)
    (blocks blocks' : List Block) (hb : runParsed drvWorld fuel i st = some blocks)
    (hb' : runParsed drvWorld fuel' i' st = some blocks')
    (blk blk' : Block) (hm : blk ∈ blocks) (hm' : blk' ∈ blocks') (hs : blk.1 = blk'.1) :
    (blk.2.map (fun v => v.map storeIsConst)).Perm (blk'.2.map (fun v => v.map storeIsConst)) :=
  three_modes_print_same_sets drvWorld drvWorldOK fuel fuel' i i' h hwf hn hnames hone drvWorld_dump hh hh'
    blocks blocks' hb hb' blk blk' hm hm' hs

open CliM CliMP ParserM FromParser in
/-- the hypotheses hold for the HYBRID arm (kernel-checked): `s(b).s(a).ac(b,neg(a)).ac(a,neg(b)).` with
`--an --grd --com --stm --stmpre --stmrew` (no bounded search: the fuel hypothesis holds outright) — the
run on the driver's world exits with status 0 and prints the five blocks, names in the order `a`, `b` -/
example : ∃ blocks : List Block,
    runText drvWorld 0 ⟨.hybrid, { grd := true, com := true, stm := true, stmpre := true, stmrew := true }, .an, .simple⟩
      exText = ⟨0, blocks.flatMap fun b => b.2.map (render [['a'], ['b']])⟩ ∧
    blocks.map (·.1) = [.grd, .com, .stm, .stmpre, .stmrew] ∧
    (∀ blk ∈ blocks, ∀ v ∈ blk.2, v.length = 2) := by
  obtain ⟨blocks, h1, h2, _, h4⟩ := driver_world_faithful 0
    ⟨.hybrid, { grd := true, com := true, stm := true, stmpre := true, stmrew := true }, .an, .simple⟩ exText exFacts
    exText_der (by decide) (by decide) (by simp [VBOT]; decide) (fun _ => by decide) (fun _ _ => by decide)
    (halted_of_no_search _ _ _ _ (Or.inr ⟨rfl, rfl⟩))
  have hs : sortedNames drvWorld.anSort .an (namesOf exFacts) = [['a'], ['b']] := by decide
  simp only [hs] at h1 h4
  exact ⟨blocks, h1, by rw [h2]; decide, h4⟩

/-- … and what these blocks are, by evaluation (the own store's hash tables do not reduce in the
kernel): the hybrid arm on the driver's world prints, for the two statements attacking each other,
grounded `u u`; complete `uu`, `TF`, `FT`; two-valued and all stable variants the two models (each
variant in the order of ITS algorithm) — the biodivine arm and the naive arm print the same sets for the
sections they implement -/
def exAll : Cli.Flags :=
  { grd := true, com := true, twoval := true, stm := true, stmca := true, stmcb := true, stmpre := true,
    stmrew := true, stmng := true }

#guard (CliM.runText CliM.drvWorld 1000 ⟨.hybrid, exAll, .an, .simple⟩ CliMP.exText).exit == 0
#guard (CliM.runText CliM.drvWorld 1000 ⟨.hybrid, exAll, .an, .simple⟩ CliMP.exText).stdout.map String.ofList ==
  ["u(a) u(b) ", "u(a) u(b) ", "T(a) F(b) ", "F(a) T(b) ", "T(a) F(b) ", "F(a) T(b) ", "F(a) T(b) ", "T(a) F(b) ",
   "F(a) T(b) ", "T(a) F(b) ", "F(a) T(b) ", "T(a) F(b) ", "F(a) T(b) ", "T(a) F(b) ", "T(a) F(b) ", "F(a) T(b) ",
   "T(a) F(b) ", "F(a) T(b) "]
#guard (CliM.runText CliM.drvWorld 1000 ⟨.biodivine, exAll, .an, .simple⟩ CliMP.exText).stdout.map String.ofList ==
  ["u(a) u(b) ", "u(a) u(b) ", "T(a) F(b) ", "F(a) T(b) ", "F(a) T(b) ", "T(a) F(b) ", "T(a) F(b) ", "F(a) T(b) "]
#guard (CliM.runText CliM.drvWorld 1000 ⟨.naive, exAll, .an, .simple⟩ CliMP.exText).stdout.map String.ofList ==
  ["u(a) u(b) ", "u(a) u(b) ", "T(a) F(b) ", "F(a) T(b) ", "F(a) T(b) ", "T(a) F(b) ", "T(a) F(b) ", "F(a) T(b) "]
#guard CliM.haltedParsed CliM.drvWorld 1000 ⟨.hybrid, exAll, .an, .simple⟩
  (CliM.sortState CliM.drvWorld.anSort .an (ParserM.PState.ofFacts CliMP.exFacts))
-- the dump of `x0 ∧ ¬x1` (table 0b0010) over two variables, in biodivine's layout
#guard Bio.ttDump 2 2 == [⟨2, 0, 0⟩, ⟨2, 1, 1⟩, ⟨1, 0, 0⟩, ⟨1, 1, 0⟩, ⟨0, 2, 3⟩]
-- `natural_lexical_cmp`: digits by value, case-insensitive, transliterated
-- `natural_lexical_cmp`: runs of digits by length of the run after the first digit, then by value;
-- case-insensitive; transliterated (`ö` as `o`, `ß` as `ss`); ties by the byte order
#guard (CliM.NatLex.anSort (["a10", "B", "a9", "10", "9", "größe", "grost", "b", "02", "2", "a-b", "ab"].map String.toList)).map
  String.ofList == ["2", "9", "02", "10", "a-b", "a9", "a10", "ab", "B", "b", "größe", "grost"]

/-! ### `--counter` (`CliM.runTextC`, CliCounter.lean)

An addition to the text-level model: the line `--counter nai|mem` puts in front of the sections in the
naive and the hybrid arm. It changes neither the exit status nor the interpretations printed, so all
statements above carry over to invocations with `--counter`. Run against the binary (150 invocations,
all three arms): agreement — after the model learned that with the DEFAULT feature set `--counter mem`
prints `ModelCounts { cmodels: 0, models: 0 }` for every non-constant condition (`CliM.zeroMemoLine`). -/

/-- `--counter` puts at most one line in front of the output of the run without it -/
theorem counter_adds_at_most_one_line {T : Type} (W : CliM.World T) (zm : Bool) (fuel : Nat) (i : CliM.Inv)
    (c : CliM.Counter) (t : List Char) :
    (CliM.runTextC W zm fuel i c t).exit = (CliM.runText W fuel i t).exit ∧
    ∃ pre : List (List Char), pre.length ≤ 1 ∧
      (CliM.runTextC W zm fuel i c t).stdout = pre ++ (CliM.runText W fuel i t).stdout :=
  CliM.runTextC_stdout W zm fuel i c t

/-- no `--counter`, an unknown value, or the biodivine arm: exactly the run without it -/
theorem counter_ignored {T : Type} (W : CliM.World T) (zm : Bool) (fuel : Nat) (i : CliM.Inv) (c : CliM.Counter)
    (t : List Char) (h : c = .absent ∨ c = .other ∨ i.mode = .biodivine) :
    CliM.runTextC W zm fuel i c t = CliM.runText W fuel i t := CliM.runTextC_eq_runText W zm fuel i c t h

-- the two mutually attacking statements: each condition `¬x` has one model and one counter-model
#guard (CliM.runTextC CliM.drvWorld true 10 ⟨.hybrid, { grd := true }, .an, .simple⟩ .nai CliMP.exText).stdout.map String.ofList ==
  ["ModelCounts { cmodels: 1, models: 1 } ModelCounts { cmodels: 1, models: 1 } ", "u(a) u(b) "]
#guard (CliM.runTextC CliM.drvWorld true 10 ⟨.naive, { grd := true }, .an, .simple⟩ .mem CliMP.exText).stdout.map String.ofList ==
  ["ModelCounts { cmodels: 0, models: 0 }ModelCounts { cmodels: 0, models: 0 }", "u(a) u(b) "]

/-- the naive arm of the text-level model is the function the driver executes and compares with the
binary (`Cli.run .naive` at the bound 1 000 000, on the object `from_parser` builds) -/
theorem naive_arm_is_driver_model (f : Cli.Flags) (heu : SM.Heu) (st : ParserM.PState) :
    CliM.runNaive 1000000 f heu st =
      (FromParser.fromParser st).map fun b => Cli.run .naive f heu b.1 (FromParser.dictSizeOf st) b.2 :=
  CliMP.runNaive_eq f heu st

/-- **malformed input: non-zero exit status, no interpretation printed** — for the run on the TEXT:
the parser refuses the text, or it accepts it and `from_parser` panics (a condition for an undeclared
label or with an undeclared atom), in every mode with every flag -/
theorem rejects_malformed_text {T : Type} (W : CliM.World T) (han : ∀ ns, (W.anSort ns).Perm ns) (fuel : Nat)
    (i : CliM.Inv) (t : List Char)
    (h : ParserM.parse t = none ∨ ∃ st, CliM.parsed W i t = some st ∧ FromParser.fromParser st = none) :
    CliM.runText W fuel i t = CliM.rejected ∧ (CliM.runText W fuel i t).exit ≠ 0 ∧
    (CliM.runText W fuel i t).stdout = [] := by
  have := CliMP.runText_rejects W han fuel i t h
  rw [this]
  exact ⟨rfl, by decide, rfl⟩

/-- … in terms of the written facts: a text of the documented format that is not a well-formed ADF -/
theorem rejects_ill_formed_adf {T : Type} (W : CliM.World T) (han : ∀ ns, (W.anSort ns).Perm ns) (fuel : Nat)
    (i : CliM.Inv) (t : List Char) (fs : List ParserM.Fact) (hd : ParserM.DerFile fs t) (hne : fs ≠ [])
    (hbad : ¬ FromParser.WellFormedAdf fs) : CliM.runText W fuel i t = CliM.rejected :=
  CliMP.runText_rejects_ill_formed W han fuel i t fs hd hne hbad

open CliM CliMP ParserM FromParser in
/-- **one line per interpretation, each statement labelled T/F/u by its own name**: every line of
stdout is, for one vector `v` with one entry per statement, the concatenation over the statements
`k` (in the printed order) of `mark(v_k) ( name_k ) blank`; `mark_is_value`: the mark is `T`/`F`/`u`
exactly when the entry is true / false / undecided -/
theorem line_format {T : Type} (W : World T) (ok : WorldOK W) (fuel : Nat) (i : Inv) (t : List Char)
    (fs : List Fact) (hd : DerFile fs t) (hne : fs ≠ []) (hwf : WellFormedAdf fs)
    (hn : (namesOf fs).length ≤ VBOT)
    (hnames : i.mode ≠ .naive → (namesOf fs).all bioNameOK = true)
    (hone : i.mode ≠ .naive → i.flags.stmrew = true → ((acsOf fs).map (·.1)).Nodup)
    (hdump : i.mode = .hybrid → DumpOKW W ok)
    (hh : haltedParsed W fuel i (sortState W.anSort i.sort (PState.ofFacts fs)) = true) :
    ∀ line ∈ (runText W fuel i t).stdout, ∃ v : List Nat,
      v.length = (sortedNames W.anSort i.sort (namesOf fs)).length ∧
      line = (List.zipWith entry (sortedNames W.anSort i.sort (namesOf fs)) v).flatten :=
  runText_lines W ok fuel i t fs hd hne hwf hn hnames hone hdump hh

theorem mark_is_value (t : Nat) :
    (CliM.mark t = 'T' ↔ storeIsConst t = some true) ∧ (CliM.mark t = 'F' ↔ storeIsConst t = some false) ∧
    (CliM.mark t = 'u' ↔ storeIsConst t = none) := CliMP.mark_spec t

/-- with `--lx` the statements are printed in byte-wise label order (the order of Rust's `String`) -/
theorem lx_prints_in_bytewise_order {T : Type} (W : CliM.World T) (ns : List ParserM.Label) :
    (CliMP.sortedNames W.anSort .lx ns).Pairwise (fun a b => SortModel.byteLe a b = true) :=
  SortModel.isort_sorted _ SortModel.byteLe_total SortModel.byteLe_trans ns

/-- the fuel hypothesis holds outright without `--twoval`/`--stmng` and in the biodivine arm … -/
theorem halted_without_search {T : Type} (W : CliM.World T) (fuel : Nat) (i : CliM.Inv) (st : ParserM.PState)
    (h : i.mode = .biodivine ∨ (i.flags.twoval = false ∧ i.flags.stmng = false)) :
    CliM.haltedParsed W fuel i st = true := CliMP.halted_of_no_search W fuel i st h

/-- **finding (C15 does not hold as written)**: a well-formed file whose quoted labels contain one of
`! & | ^ = < > ( ) ? :` makes the biodivine arm and the hybrid (default) arm panic -/
theorem library_arms_panic_on_special_labels {T : Type} (W : CliM.World T) (fuel : Nat) (i : CliM.Inv)
    (t : List Char) (st : ParserM.PState) (hp : CliM.parsed W i t = some st) (hm : i.mode ≠ .naive)
    (hbad : st.namelist.all CliM.bioNameOK = false) : CliM.runText W fuel i t = CliM.rejected :=
  CliMP.bio_arms_reject_special_label W fuel i t st hp hm hbad

/-! ## review 2: the hybrid arm's pipeline, the fuel hypothesis, the `--an` order, the exceptions

### the hybrid arm of `runText` runs the pipeline of C01–C03 / C09

`CliM.runHybrid` calls `CliM.hybridStep` / `CliM.bridgeAll` (CliModes.lean), the hybrid theorems of
C01 (`hybrid_grounded_is_lfp`), C02 (`hybrid_complete_exact`), C03 (`hybrid_stable_exact`, …,
`native_rewriting_on_hybrid`) and C09 (`hybrid_import_function`) are stated for `Bio.hybridStep`
(HybridModel.lean). They are the same function in every world that satisfies the assumptions: -/

/-- the hybrid arm of the text-level model builds its native object with the function the theorems of
C01–C03 and C09 are about (`hybrid_step()` = `Bio.hybridStep … true`) -/
theorem hybrid_arm_runs_the_verified_bridge {T : Type} (L : Bio.Lib T) (n : Nat) (W : Bio.Lawful L n)
    (dump : T → List Node) (hd : Bio.DumpSpec W dump) (ac : List T) (hv : ∀ a ∈ ac, W.Valid a)
    (hn : ac.length ≤ n) :
    CliM.hybridStep L dump ac = Bio.hybridStep L dump true ac := Bio.hybridStep_agree W hd ac hv hn

/-- … and its `--stmrew` / `--stmrew2` section is `C03.native_rewriting_on_hybrid`'s function on that
object: candidates from the un-grounded library object, test on the pre-grounded native store -/
theorem hybrid_arm_rewriting_section {T : Type} (L : Bio.Lib T) (n : Nat) (W : Bio.Lawful L n)
    (dump : T → List Node) (hd : Bio.DumpSpec W dump) (fuel : Nat) (heu : SM.Heu) (rw : Option T)
    (ac : List T) (hv : ∀ a ∈ ac, W.Valid a) (hn : ac.length = n) (hg : Bio.GoodRewrite W ac rw) :
    let h := CliM.hybridStep L dump ac
    let out := (CliM.secHybrid fuel heu (Bio.stableModelCandidates L rw ac) n h.2 .stmrew h.1).2.map
      (fun v => v.map storeIsConst)
    out.Nodup ∧ ∀ v : I3, v ∈ out ↔ (v.length = n ∧ StableExact.StableI (ac.map W.den) v) := by
  intro h out
  have e : h = Bio.hybridStep L dump true ac := Bio.hybridStep_agree W hd ac hv (Nat.le_of_eq hn)
  have := C03.native_rewriting_on_hybrid L n W dump hd true rw ac hv hn hg
  simp only at this
  rw [← e] at this
  exact ⟨this.2.1, this.2.2.1⟩

/-! ### the fuel hypothesis `haltedParsed` (review 1 item 7, review 2 item 4)

It is (a) MONOTONE in the bound and a halted run does not depend on the bound (`fuel_monotone`), so
"holds from some bound on" means: there is a threshold; (b) satisfiable for EVERY invocation on a
well-formed framework in EVERY arm, in particular the hybrid arm with `--twoval` / `--stmng`
(`halted_from_some_bound_on`; before: naive arm only); hence (c) `cli_text_faithful_every_large_bound`
has no fuel hypothesis. RELATION TO THE DRIVER'S 1 000 000: C05's termination argument with the
iterations counted gives the explicit threshold `2^(n+3)`, `n` = number of statements
(`halted_text_within_explicit_bound`), so `haltedParsed W 1000000 i st` is PROVED for every file with at
most 16 statements (`halted_text_for_small_frameworks`, `cli_text_faithful_small_frameworks`). For larger
files the hypothesis remains: by (a), it holds iff the threshold of the invocation is ≤ 10^6, and for such
runs of the correspondence check this is established by EVALUATION only (the driver computes
`runText … 1000000 …`; a search that hit the bound would print a prefix and be reported as a difference
from the binary), not by the kernel. -/

open CliM CliMP ParserM FromParser in
theorem fuel_monotone {T : Type} (W : World T) (i : Inv) (st : PState) {fuel fuel' : Nat}
    (h : haltedParsed W fuel i st = true) (hf : fuel ≤ fuel') :
    haltedParsed W fuel' i st = true ∧ runParsed W fuel' i st = runParsed W fuel i st :=
  haltedParsed_mono W i st h hf

open CliM CliMP ParserM FromParser in
/-- every arm (naive, biodivine, HYBRID), every flag set: the fuel hypothesis holds from some bound on -/
theorem halted_from_some_bound_on {T : Type} (W : World T) (ok : WorldOK W) (i : Inv)
    (fs : List Fact) (hwf : WellFormedAdf fs) (hn : (namesOf fs).length ≤ VBOT)
    (hnames : i.mode = .hybrid → (namesOf fs).all bioNameOK = true)
    (hone : i.mode = .hybrid → i.flags.stmrew = true → ((acsOf fs).map (·.1)).Nodup)
    (hdump : i.mode = .hybrid → DumpOKW W ok) :
    ∃ F0, ∀ fuel, F0 ≤ fuel →
      haltedParsed W fuel i (sortState W.anSort i.sort (PState.ofFacts fs)) = true :=
  halted_text_eventually W ok i fs hwf hn hnames hone hdump

open CliM CliMP ParserM FromParser in
/-- **`cli_text_faithful` without the fuel hypothesis**: there is a bound from which on the run is
faithful - and (monotonicity) from which on exit status and stdout do not change any more -/
theorem cli_text_faithful_every_large_bound {T : Type} (W : World T) (ok : WorldOK W) (i : Inv) (t : List Char)
    (fs : List Fact) (hd : DerFile fs t) (hne : fs ≠ []) (hwf : WellFormedAdf fs)
    (hn : (namesOf fs).length ≤ VBOT)
    (hnames : i.mode ≠ .naive → (namesOf fs).all bioNameOK = true)
    (hone : i.mode ≠ .naive → i.flags.stmrew = true → ((acsOf fs).map (·.1)).Nodup)
    (hdump : i.mode = .hybrid → DumpOKW W ok) :
    ∃ F0, ∀ fuel, F0 ≤ fuel →
      runText W fuel i t = runText W F0 i t ∧
      ∃ blocks : List Block,
        runText W fuel i t =
          ⟨0, blocks.flatMap fun b => b.2.map (render (sortedNames W.anSort i.sort (namesOf fs)))⟩ ∧
        blocks.map (·.1) = Cli.sections i.mode i.flags ∧
        (∀ blk ∈ blocks, (blk.2.map (fun v => v.map storeIsConst)).Perm
          (Cli.specSection (sortedNames W.anSort i.sort (namesOf fs)).length
            (tablesD (sortedNames W.anSort i.sort (namesOf fs)).length
              (SortModel.condFnsOn (sortedNames W.anSort i.sort (namesOf fs)) (condOf fs))) blk.1)) := by
  obtain ⟨F0, hF⟩ := halted_text_eventually W ok i fs hwf hn
    (fun hm => hnames (by rw [hm]; simp)) (fun hm => hone (by rw [hm]; simp)) hdump
  refine ⟨F0, fun fuel hf => ⟨?_, ?_⟩⟩
  · exact runText_fuel_irrelevant W i t _ (parsed_of_der W i t fs hd hne) (hF F0 (Nat.le_refl _)) hf
  · obtain ⟨blocks, h1, h2, h3, _⟩ := cli_text_faithful W ok fuel i t fs hd hne hwf hn hnames hone hdump (hF fuel hf)
    exact ⟨blocks, h1, h2, h3⟩

open CliM CliMP ParserM FromParser in
/-- non-vacuity, HYBRID arm with both search flags on the driver's world (kernel-checked hypotheses):
`s(b).s(a).ac(b,neg(a)).ac(a,neg(b)).` with `--twoval --stmng --stm`: some bound satisfies the fuel
hypothesis, and from it on the run exits with status 0 and prints the three blocks -/
example : ∃ F0, ∀ fuel, F0 ≤ fuel → ∃ blocks : List Block,
    runText drvWorld fuel ⟨.hybrid, { twoval := true, stm := true, stmng := true }, .none, .simple⟩ exText =
      ⟨0, blocks.flatMap fun b => b.2.map (render [['b'], ['a']])⟩ ∧
    blocks.map (·.1) = [.twoval, .stm, .stmng] := by
  obtain ⟨F0, h⟩ := cli_text_faithful_every_large_bound drvWorld drvWorldOK
    ⟨.hybrid, { twoval := true, stm := true, stmng := true }, .none, .simple⟩ exText exFacts
    exText_der (by decide) (by decide) (by simp [VBOT]; decide) (fun _ => by decide) (fun _ _ => by decide)
    (fun _ => drvWorld_dump)
  refine ⟨F0, fun fuel hf => ?_⟩
  obtain ⟨_, blocks, h1, h2, _⟩ := h fuel hf
  exact ⟨blocks, h1, by rw [h2]; decide⟩

open CliM CliMP ParserM FromParser in
/-- **the fuel hypothesis of `cli_text_faithful` from an EXPLICIT bound on**: every arm, every flag set: no
search of an invocation on a file with `n` statements hits a bound `≥ NConc.ngBound n = 2^(n+3)` -/
theorem halted_text_within_explicit_bound {T : Type} (W : World T) (ok : WorldOK W) (i : Inv)
    (fs : List Fact) (hwf : WellFormedAdf fs) (hn : (namesOf fs).length ≤ VBOT)
    (hnames : i.mode = .hybrid → (namesOf fs).all bioNameOK = true)
    (hone : i.mode = .hybrid → i.flags.stmrew = true → ((acsOf fs).map (·.1)).Nodup)
    (hdump : i.mode = .hybrid → DumpOKW W ok) :
    ∀ fuel, NConc.ngBound (namesOf fs).length ≤ fuel →
      haltedParsed W fuel i (sortState W.anSort i.sort (PState.ofFacts fs)) = true :=
  halted_text_within W ok i fs hwf hn hnames hone hdump

open CliM CliMP ParserM FromParser in
/-- **`haltedParsed … 1000000` holds for every file with at most 16 statements** (the driver's bound;
`2^(16+3) ≤ 10^6`). Beyond that size the hypothesis of `cli_text_faithful` remains (evaluation only). -/
theorem halted_text_for_small_frameworks {T : Type} (W : World T) (ok : WorldOK W) (i : Inv)
    (fs : List Fact) (hwf : WellFormedAdf fs) (h16 : (namesOf fs).length ≤ 16)
    (hnames : i.mode = .hybrid → (namesOf fs).all bioNameOK = true)
    (hone : i.mode = .hybrid → i.flags.stmrew = true → ((acsOf fs).map (·.1)).Nodup)
    (hdump : i.mode = .hybrid → DumpOKW W ok) :
    haltedParsed W 1000000 i (sortState W.anSort i.sort (PState.ofFacts fs)) = true :=
  halted_text_of_le_16 W ok i fs hwf h16 hnames hone hdump

open CliM CliMP ParserM FromParser in
/-- **`cli_text_faithful` at the driver's bound WITHOUT the fuel hypothesis** for files with at most 16
statements -/
theorem cli_text_faithful_small_frameworks {T : Type} (W : World T) (ok : WorldOK W) (i : Inv) (t : List Char)
    (fs : List Fact) (hd : DerFile fs t) (hne : fs ≠ []) (hwf : WellFormedAdf fs)
    (h16 : (namesOf fs).length ≤ 16)
    (hnames : i.mode ≠ .naive → (namesOf fs).all bioNameOK = true)
    (hone : i.mode ≠ .naive → i.flags.stmrew = true → ((acsOf fs).map (·.1)).Nodup)
    (hdump : i.mode = .hybrid → DumpOKW W ok) :
    ∃ blocks : List Block,
      runText W 1000000 i t =
        ⟨0, blocks.flatMap fun b => b.2.map (render (sortedNames W.anSort i.sort (namesOf fs)))⟩ ∧
      blocks.map (·.1) = Cli.sections i.mode i.flags ∧
      (∀ blk ∈ blocks, (blk.2.map (fun v => v.map storeIsConst)).Perm
        (Cli.specSection (sortedNames W.anSort i.sort (namesOf fs)).length
          (tablesD (sortedNames W.anSort i.sort (namesOf fs)).length
            (SortModel.condFnsOn (sortedNames W.anSort i.sort (namesOf fs)) (condOf fs))) blk.1)) ∧
      (∀ blk ∈ blocks, ∀ v ∈ blk.2, v.length = (sortedNames W.anSort i.sort (namesOf fs)).length) :=
  cli_text_faithful W ok 1000000 i t fs hd hne hwf (by unfold VBOT; omega) hnames hone hdump
    (halted_text_for_small_frameworks W ok i fs hwf h16
      (fun hm => hnames (by rw [hm]; simp)) (fun hm => hone (by rw [hm]; simp)) hdump)

open CliM CliMP ParserM FromParser in
/-- non-vacuity, HYBRID arm with both search flags on the driver's world AT THE DRIVER'S BOUND
(kernel-checked hypotheses, no existential over the bound): `s(b).s(a).ac(b,neg(a)).ac(a,neg(b)).` with
`--twoval --stmng --stm` exits with status 0 and prints the three blocks -/
example : ∃ blocks : List Block,
    runText drvWorld 1000000 ⟨.hybrid, { twoval := true, stm := true, stmng := true }, .none, .simple⟩ exText =
      ⟨0, blocks.flatMap fun b => b.2.map (render [['b'], ['a']])⟩ ∧
    blocks.map (·.1) = [.twoval, .stm, .stmng] := by
  obtain ⟨blocks, h1, h2, _⟩ := cli_text_faithful_small_frameworks drvWorld drvWorldOK
    ⟨.hybrid, { twoval := true, stm := true, stmng := true }, .none, .simple⟩ exText exFacts
    exText_der (by decide) (by decide) (by decide) (fun _ => by decide) (fun _ _ => by decide)
    (fun _ => drvWorld_dump)
  exact ⟨blocks, h1, by rw [h2]; decide⟩

open CliM CliMP ParserM FromParser in
/-- `three_modes_print_same_sets` with every hypothesis CONDITIONAL on the arm that needs it (review 2):
the label condition only if one of the two invocations uses the library, "one condition per statement"
only if one of them runs `--stmrew` on the library, the dump law only if one of them is the hybrid arm
(so naive vs naive needs none of them) -/
theorem three_modes_print_same_sets_conditional {T : Type} (W : World T) (ok : WorldOK W) (fuel fuel' : Nat)
    (i i' : Inv) {st : PState} {names : List Label} {acs : List (Label × Fml)}
    (h : Pres st names acs) (hwf : WfOn names acs) (hn : names.length ≤ VBOT)
    (hnames : i.mode ≠ .naive ∨ i'.mode ≠ .naive → names.all bioNameOK = true)
    (hone : (i.mode ≠ .naive ∧ i.flags.stmrew = true) ∨ (i'.mode ≠ .naive ∧ i'.flags.stmrew = true) →
      (acs.map (·.1)).Nodup)
    (hdump : i.mode = .hybrid ∨ i'.mode = .hybrid → DumpOKW W ok)
    (hh : haltedParsed W fuel i st = true) (hh' : haltedParsed W fuel' i' st = true)
    (blocks blocks' : List Block) (hb : runParsed W fuel i st = some blocks)
    (hb' : runParsed W fuel' i' st = some blocks')
    (blk blk' : Block) (hm : blk ∈ blocks) (hm' : blk' ∈ blocks') (hs : blk.1 = blk'.1) :
    (blk.2.map (fun v => v.map storeIsConst)).Perm (blk'.2.map (fun v => v.map storeIsConst)) := by
  obtain ⟨b1, e1, _, f1⟩ := runParsed_faithful W ok fuel i h hwf hn (fun x => hnames (.inl x))
    (fun x y => hone (.inl ⟨x, y⟩)) (fun x => hdump (.inl x)) hh
  obtain ⟨b2, e2, _, f2⟩ := runParsed_faithful W ok fuel' i' h hwf hn (fun x => hnames (.inr x))
    (fun x y => hone (.inr ⟨x, y⟩)) (fun x => hdump (.inr x)) hh'
  rw [hb] at e1; rw [hb'] at e2
  cases e1; cases e2
  have p1 := f1 blk hm
  have p2 := f2 blk' hm'
  unfold CliF.Faithful at p1 p2
  rw [hs] at p1
  exact p1.trans p2.symm

open CliM CliMP ParserM FromParser in
/-- an instance (driver's world): the hybrid arm and the biodivine arm with `--stm` on the mutual attack
both produce a `stm` block, and the two blocks are permutations of one another -/
example : ∃ blk blk' : Block,
    (∃ bs, runParsed drvWorld 0 ⟨.hybrid, { stm := true }, .none, .simple⟩ (PState.ofFacts exFacts) = some bs ∧ blk ∈ bs) ∧
    (∃ bs, runParsed drvWorld 0 ⟨.biodivine, { stm := true }, .none, .simple⟩ (PState.ofFacts exFacts) = some bs ∧ blk' ∈ bs) ∧
    blk.1 = .stm ∧ blk'.1 = .stm ∧
    (blk.2.map (fun v => v.map storeIsConst)).Perm (blk'.2.map (fun v => v.map storeIsConst)) := by
  have pres := pres_ofFacts exFacts
  have hwf : WfOn (namesOf exFacts) (acsOf exFacts) := (show WellFormedAdf exFacts by decide)
  have hn : (namesOf exFacts).length ≤ VBOT := by simp [VBOT]; decide
  obtain ⟨b1, e1, s1, _⟩ := runParsed_faithful drvWorld drvWorldOK 0 ⟨.hybrid, { stm := true }, .none, .simple⟩
    pres hwf hn (fun _ => by decide) (fun _ h => by cases h) (fun _ => drvWorld_dump)
    (halted_of_no_search _ _ _ _ (Or.inr ⟨rfl, rfl⟩))
  obtain ⟨b2, e2, s2, _⟩ := runParsed_faithful drvWorld drvWorldOK 0 ⟨.biodivine, { stm := true }, .none, .simple⟩
    pres hwf hn (fun _ => by decide) (fun _ h => by cases h) (fun h => by cases h)
    (halted_of_no_search _ _ _ _ (Or.inl rfl))
  have hs1 : b1.map (·.1) = [.stm] := by rw [s1]; decide
  have hs2 : b2.map (·.1) = [.stm] := by rw [s2]; decide
  match b1, hs1, b2, hs2 with
  | [x], hs1, [y], hs2 =>
    have hx : x.1 = .stm := by simpa using hs1
    have hy : y.1 = .stm := by simpa using hs2
    refine ⟨x, y, ⟨[x], e1, by simp⟩, ⟨[y], e2, by simp⟩, hx, hy, ?_⟩
    exact three_modes_print_same_sets_conditional drvWorld drvWorldOK 0 0 _ _ pres hwf hn (fun _ => by decide)
      (fun h => by rcases h with ⟨_, h⟩ | ⟨_, h⟩ <;> cases h) (fun _ => drvWorld_dump)
      (halted_of_no_search _ _ _ _ (Or.inr ⟨rfl, rfl⟩)) (halted_of_no_search _ _ _ _ (Or.inl rfl))
      [x] [y] e1 e2 x y (by simp) (by simp) (hx.trans hy.symm)

/-! ### the second world the driver runs: the own store as the BDD library (`cliwide`)

Above `Drv.ttLimit` statements the biodivine and hybrid arms of `clirun` are `CliM.runText` on
`CliM.storeWorld` (library `Bio.storeLib`: the project's verified ROBDD store; dump `Bio.storeDump`:
reduced, shared node tables). It satisfies all assumptions, so the theorems hold for it as well (except
for requests with `--stmrew2`, which still fall back to `Cli.run`, see Drv/Cli.lean). -/

open CliM CliMP ParserM FromParser in
theorem store_world_faithful (fuel : Nat) (i : Inv) (t : List Char)
    (fs : List Fact) (hd : DerFile fs t) (hne : fs ≠ []) (hwf : WellFormedAdf fs)
    (hn : (namesOf fs).length ≤ VBOT)
    (hnames : i.mode ≠ .naive → (namesOf fs).all bioNameOK = true)
    (hone : i.mode ≠ .naive → i.flags.stmrew = true → ((acsOf fs).map (·.1)).Nodup)
    (hh : haltedParsed storeWorld fuel i (sortState storeWorld.anSort i.sort (PState.ofFacts fs)) = true) :
    ∃ blocks : List Block,
      runText storeWorld fuel i t =
        ⟨0, blocks.flatMap fun b => b.2.map (render (sortedNames storeWorld.anSort i.sort (namesOf fs)))⟩ ∧
      blocks.map (·.1) = Cli.sections i.mode i.flags ∧
      (∀ blk ∈ blocks, (blk.2.map (fun v => v.map storeIsConst)).Perm
        (Cli.specSection (sortedNames storeWorld.anSort i.sort (namesOf fs)).length
          (tablesD (sortedNames storeWorld.anSort i.sort (namesOf fs)).length
            (SortModel.condFnsOn (sortedNames storeWorld.anSort i.sort (namesOf fs)) (condOf fs))) blk.1)) ∧
      (∀ blk ∈ blocks, ∀ v ∈ blk.2, v.length = (sortedNames storeWorld.anSort i.sort (namesOf fs)).length) :=
  cli_text_faithful storeWorld storeWorldOK fuel i t fs hd hne hwf hn hnames hone (fun _ => storeWorld_dump) hh

-- evaluation: the store world prints what the truth-table world prints - the `--stmrew` block in the order of
-- ITS `sat_valuations` (the diagram walk, variable 0 first), the truth-table library in ascending valuation order
def exNoRew : Cli.Flags := { exAll with stmrew := false }
#guard (CliM.runText CliM.storeWorld 1000 ⟨.hybrid, exNoRew, .an, .simple⟩ CliMP.exText) ==
  (CliM.runText CliM.drvWorld 1000 ⟨.hybrid, exNoRew, .an, .simple⟩ CliMP.exText)
#guard (CliM.runText CliM.storeWorld 1000 ⟨.hybrid, { stmrew := true }, .an, .simple⟩ CliMP.exText).stdout.map String.ofList ==
  ["F(a) T(b) ", "T(a) F(b) "]
#guard (CliM.runText CliM.drvWorld 1000 ⟨.hybrid, { stmrew := true }, .an, .simple⟩ CliMP.exText).stdout.map String.ofList ==
  ["T(a) F(b) ", "F(a) T(b) "]
#guard (CliM.runText CliM.storeWorld 1000 ⟨.biodivine, exAll, .an, .simple⟩ CliMP.exText).stdout.map String.ofList ==
  ["u(a) u(b) ", "u(a) u(b) ", "T(a) F(b) ", "F(a) T(b) ", "F(a) T(b) ", "T(a) F(b) ", "F(a) T(b) ", "T(a) F(b) "]

/-! ### the order `--an` prints in

`CliM.NatLex.le` - the model of `natural_lexical_cmp` - is a total, transitive, antisymmetric comparison
on ALL labels (`NatLexOrder.lean`: it is the lexicographic order on a sort key, ties by bytes), so the
insertion sort of the model returns THE sorted permutation of a duplicate-free name list, which is what
any correct comparison sort (`string_sort_unstable`) returns. LIMIT OF THE TIE TO THE BINARY: outside
U+0000–U+00FF the model's transliteration table (`translit`, `isAlnumU`) does not follow crate
`any_ascii` (which transliterates every alphanumeric code point, `ā` ↦ `a`, `Ω` ↦ `O`): on
`s("ā").s(b).s("Ω").s(z)` with `--an` the binary prints the order `ā b Ω z`, the model `Ω b z ā` (review 2).
SECOND LIMIT (third review, audit L1; ASCII labels suffice): the crate accumulates a digit run in a `u64`
(`n1 = n1 * 10 + …`, wrapping in release builds), `CliM.NatLex.cmpGo` in an unbounded `Nat`: with
`s(18446744073709551616).s(10000000000000000000).` and `--an --grd` the release binary prints the 2^64 label FIRST
(it wraps to 0), the model second; with wrap-around the crate's comparator need not even be transitive.
The agreement of `--an` with the binary is therefore claimed only for labels within Latin-1 whose digit runs stay
below 2^64 (at most 19 digits) and was run on the harness's (ASCII) label pool only; `driver_world_faithful`'s "no assumption about an external world is
left" concerns the theorem, not the fidelity of `NatLex` to the crate. -/

/-- with `--an` the statements are printed in the order of the model of `natural_lexical_cmp`: a
permutation of the names, sorted; for pairwise different names strictly sorted (so it is the unique
sorted permutation) -/
theorem an_prints_in_natural_lexical_order (ns : List ParserM.Label) :
    (CliMP.sortedNames CliM.drvWorld.anSort .an ns).Perm ns ∧
    (CliMP.sortedNames CliM.drvWorld.anSort .an ns).Pairwise (fun a b => CliM.NatLex.le a b = true) ∧
    (ns.Nodup → (CliMP.sortedNames CliM.drvWorld.anSort .an ns).Pairwise
      (fun a b => CliM.NatLex.le a b = true ∧ CliM.NatLex.le b a = false)) :=
  ⟨(CliM.NatLex.anSort_sorted_all ns).1, (CliM.NatLex.anSort_sorted_all ns).2, CliM.NatLex.anSort_strict ns⟩

/-- the comparison is total and transitive (all labels) -/
theorem natural_lexical_le_total_trans :
    (∀ a b : ParserM.Label, CliM.NatLex.le a b = true ∨ CliM.NatLex.le b a = true) ∧
    (∀ a b c : ParserM.Label, CliM.NatLex.le a b = true → CliM.NatLex.le b c = true → CliM.NatLex.le a c = true) :=
  ⟨CliM.NatLex.le_total, CliM.NatLex.le_trans⟩

/-- natural order differs from byte order: `a2 < a9 < a10`, `2 < 02` (shorter digit run first), case folded -/
example : CliMP.sortedNames CliM.drvWorld.anSort .an
      [['a','1','0'], ['a','9'], ['a','2'], ['B'], ['0','2'], ['2']]
    = [['2'], ['0','2'], ['a','2'], ['a','9'], ['a','1','0'], ['B']] := by decide

/-! ### recorded exceptions and exclusions

* `--stmrew` with TWO CONDITIONS FOR ONE STATEMENT: hypothesis `hone` of `cli_text_faithful`. It is
  not a proof artefact: the prepared rewriting conjoins one equivalence per WRITTEN condition, so on
  `s(a).ac(a,c(f)).ac(a,c(v)).` the biodivine arm and the hybrid arm print NO stable model with
  `--stmrew` although `T(a)` is one (`--stm`, `--stmrew2` print it; observed on the binary too).
  Kernel-checked: `C03.prepared_rewriting_duplicate_counterexample`, restated below.
* labels with one of `! & | ^ = < > ( ) ? :`: `library_arms_panic_on_special_labels`.
* rejection branches of `runText`: since review 2 the harness hands the malformed TEXT of every `clibad`
  request to the driver (`clibadrun`), which answers with `CliM.runText` on it; `rejects_malformed_text`
  is thereby executed against the binary (before: the constant answer `rejected`).
* `--import`, `--export`: modelled since review 3 in `CliM.runTextIO` (CliIO.lean: the binary with a
  file-system snapshot), an extension of `runText` (`io_without_options_is_runText` below); the
  persistence theorems about it are in `Props/C14.lean`. (The export happens BEFORE the sections are
  printed: an uncreatable export path - not modelled, the snapshot has no directories - exits with 101
  and EMPTY stdout.)
* NOT modelled: `--counter` beyond `counter_adds_at_most_one_line`, a quoted label containing a
  line break (one interpretation then spans two physical lines; `stdout : List (List Char)` has one
  entry per `writeln!`, not per physical line), `RUST_LOG` output on stderr. -/

/-- the `--stmrew` exception, visible here: with two conditions for one statement the prepared rewriting
has no candidate and the stable model `T` is lost; `--stm` and `--stmrew2` find it -/
theorem stmrew_loses_model_on_duplicate_condition :
    let L := Bio.ttLib 1
    let ac := Bio.acOf L 1 [0, 0] [.const false, .const true]
    (Bio.bioStable L ac).map Bio.toI3 = [[some true]] ∧
    (Bio.bioStableRep L none ac).map Bio.toI3 = [[some true]] ∧
    Bio.bioStableRep L (some (Bio.stmRewriting L [0, 0] [.const false, .const true])) ac = [] :=
  C03.prepared_rewriting_duplicate_counterexample

-- the same on the text-level model, all the way from the text: `s(a).ac(a,c(f)).ac(a,c(v)).`
#guard (CliM.runText CliM.drvWorld 10 ⟨.hybrid, { stm := true }, .none, .simple⟩ "s(a).ac(a,c(f)).ac(a,c(v)).".toList).stdout.map String.ofList == ["T(a) "]
#guard (CliM.runText CliM.drvWorld 10 ⟨.hybrid, { stmrew := true }, .none, .simple⟩ "s(a).ac(a,c(f)).ac(a,c(v)).".toList).stdout == []
#guard (CliM.runText CliM.drvWorld 10 ⟨.biodivine, { stmrew := true }, .none, .simple⟩ "s(a).ac(a,c(f)).ac(a,c(v)).".toList).stdout == []

/-! ### the CLI with a file system (`--export`, `--import`): an extension of `runText` -/

/-- **without `--export` / `--import` the run with a file system is `runText`** and the file system is
untouched: every theorem about `runText` (and the driver tie `clirun`) carries over to `runTextIO` -/
theorem io_without_options_is_runText {T : Type} (W : CliM.World T) (fuel : Nat) (i : CliM.Inv) (ord : CliM.Orders)
    (t : List Char) (fs : CliM.FS) :
    CliM.runTextIO W fuel ⟨i, none, false⟩ ord t fs = ⟨CliM.runText W fuel i t, fs, false⟩ := by
  have h1 := CliM.runTextIO_plain W fuel i none ord t fs
  have h2 : (CliM.runTextIO W fuel ⟨i, none, false⟩ ord t fs).fs = fs ∧
      (CliM.runTextIO W fuel ⟨i, none, false⟩ ord t fs).refused = false := by
    by_cases hm : i.mode = .naive
    · cases ho : CliM.objOf W ⟨i, none, false⟩ t with
      | none => rw [CliM.runTextIO_naive_none W fuel _ ord t fs hm ho]; exact ⟨rfl, rfl⟩
      | some o =>
        rw [CliM.runTextIO_naive W fuel _ ord t fs hm o ho, CliM.runObjIO_none fuel _ ord o fs rfl]; exact ⟨rfl, rfl⟩
    · rw [CliM.runTextIO_other W fuel _ ord t fs hm]; exact ⟨rfl, rfl⟩
  generalize CliM.runTextIO W fuel ⟨i, none, false⟩ ord t fs = r at h1 h2
  obtain ⟨a, b, c⟩ := r
  simp only at h1 h2
  rw [h1, h2.1, h2.2]

/-- `--export` (any path, existing or not) changes neither the exit status nor stdout; the `hybrid`
and `biodivine` arms ignore both options (`--import` there hands the JSON text to the ADF parser) -/
theorem io_export_keeps_output {T : Type} (W : CliM.World T) (fuel : Nat) (io : CliM.InvIO) (ord : CliM.Orders)
    (t : List Char) (fs : CliM.FS) :
    (io.imp = false → (CliM.runTextIO W fuel io ord t fs).out = CliM.runText W fuel io.inv t) ∧
    (io.inv.mode ≠ .naive → CliM.runTextIO W fuel io ord t fs = ⟨CliM.runText W fuel io.inv t, fs, false⟩) := by
  refine ⟨fun h => ?_, fun hm => CliM.runTextIO_other W fuel io ord t fs hm⟩
  obtain ⟨i, e, imp⟩ := io
  simp only at h
  subst h
  exact CliM.runTextIO_plain W fuel i e ord t fs

-- the model run on a text (evaluator): export to a free path, refusal on an existing one (exit 0, same
-- stdout, file untouched - also an EMPTY file), import of the written text prints the same lines
#guard
  let io : CliM.InvIO := ⟨⟨.naive, exAll, .lx, .simple⟩, some "x.json".toList, false⟩
  let fs : CliM.FS := [("empty".toList, [])]
  let r1 := CliM.runTextIO CliM.drvWorld 1000 io ⟨[("b", 1), ("a", 0)], []⟩ CliMP.exText fs
  let r2 := CliM.runTextIO CliM.drvWorld 1000 { io with exportTo := some "empty".toList } ⟨[], []⟩ CliMP.exText r1.fs
  let r3 := CliM.runFileIO CliM.drvWorld 1000 ⟨⟨.naive, exAll, .none, .simple⟩, some "x.json".toList, true⟩ ⟨[], []⟩ "x.json".toList r2.fs
  r1.out == CliM.runText CliM.drvWorld 1000 io.inv CliMP.exText && r1.out.exit == 0 && r1.out.stdout.length == 8 &&
  r1.fs.map (·.1) == ["x.json".toList, "empty".toList] && !r1.refused &&
  r2.fs == r1.fs && r2.refused && r2.out == r1.out &&
  r3.out == r1.out && r3.refused && r3.fs == r1.fs

/-! third review (audit L1): kernel-checked instantiation of `store_world_faithful` (was `#guard` only) -/
open CliM CliMP ParserM FromParser in
/-- non-vacuity of `store_world_faithful` (kernel-checked hypotheses): the store world, hybrid arm, both
search flags -/
example : ∃ fuel, ∃ blocks : List Block,
    runText storeWorld fuel ⟨.hybrid, { twoval := true, stm := true, stmng := true }, .none, .simple⟩ exText =
      ⟨0, blocks.flatMap fun b => b.2.map (render [['b'], ['a']])⟩ ∧
    blocks.map (·.1) = [.twoval, .stm, .stmng] := by
  obtain ⟨F0, hF⟩ := halted_from_some_bound_on storeWorld storeWorldOK
    ⟨.hybrid, { twoval := true, stm := true, stmng := true }, .none, .simple⟩ exFacts (by decide)
    (by simp [VBOT]; decide) (fun _ => by decide) (fun _ h => by cases h) (fun _ => storeWorld_dump)
  obtain ⟨blocks, h1, h2, _⟩ := store_world_faithful F0
    ⟨.hybrid, { twoval := true, stm := true, stmng := true }, .none, .simple⟩ exText exFacts
    exText_der (by decide) (by decide) (by simp [VBOT]; decide) (fun _ => by decide) (fun _ h => by cases h)
    (hF F0 (Nat.le_refl _))
  exact ⟨F0, blocks, h1, by rw [h2]; decide⟩

end C15
#print axioms C15.hybrid_arm_runs_the_verified_bridge
#print axioms C15.hybrid_arm_rewriting_section
#print axioms C15.fuel_monotone
#print axioms C15.halted_from_some_bound_on
#print axioms C15.cli_text_faithful_every_large_bound
#print axioms C15.cli_faithful_within_explicit_bound
#print axioms C15.halted_for_small_frameworks
#print axioms C15.cli_faithful_small_frameworks
#print axioms C15.halted_text_within_explicit_bound
#print axioms C15.halted_text_for_small_frameworks
#print axioms C15.cli_text_faithful_small_frameworks
#print axioms C15.store_world_faithful
#print axioms C15.an_prints_in_natural_lexical_order
#print axioms C15.cli_text_faithful
#print axioms C15.three_modes_print_same_sets
#print axioms C15.rejects_malformed_text
#print axioms C15.line_format
#print axioms C15.naive_arm_is_driver_model
#print axioms C15.driver_world_faithful
#print axioms C15.driver_world_three_modes
#print axioms C15.counter_adds_at_most_one_line
#print axioms C15.counter_ignored
#print axioms C15.library_arms_panic_on_special_labels
#print axioms C15.io_without_options_is_runText
#print axioms C15.io_export_keeps_output

#print axioms C15.three_modes_print_same_sets_conditional
#print axioms C15.natural_lexical_le_total_trans
#print axioms C15.stmrew_loses_model_on_duplicate_condition
