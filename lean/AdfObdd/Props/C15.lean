import AdfObdd.CliModel
import AdfObdd.CliFaithful
/-! # C15 — CLI output is faithful in every library mode

Model: `Cli.run` (`CliModel.lean`) — the three arms of `App::run`, the per-mode wiring table
(`Cli.implemented`) and the fixed order of the sections. "Prints exactly what the definitions
prescribe" and "the three modes print the same sets" are read over the flags a mode implements
(DESIGN.md §5); the wiring table is itself part of the model and is compared with the binary.

Wiring and order: `sections_exact`, `sections_in_documented_order`, `sections_nodup`, `run_blocks`.
Content: `cli_faithful` (every block of every invocation is, as a multiset of three-valued
interpretations, the specification's answer for its section — `CliFaithful.lean`),
`cli_faithful_without_search_flags`, `cli_faithful_every_large_bound`, `modes_print_same_sets`. -/
namespace C15

/-- the printed sections are exactly the requested ones the mode implements … -/
theorem sections_exact (m : Cli.Mode) (f : Cli.Flags) (s : Cli.Section) :
    s ∈ Cli.sections m f ↔ (Cli.wanted f s = true ∧ Cli.implemented m s = true) := by
  unfold Cli.sections
  rw [List.mem_filter]
  constructor
  · intro ⟨_, h⟩; simpa using h
  · intro h
    refine ⟨?_, by simpa using h⟩
    cases s <;> simp [Cli.sectionOrder]

/-- … in the documented order: grounded, then complete, then the (two-valued and) stable sections -/
theorem sections_in_documented_order (m : Cli.Mode) (f : Cli.Flags) :
    (Cli.sections m f).Sublist [.grd, .com, .twoval, .stm, .stmca, .stmcb, .stmpre, .stmrew, .stmng] :=
  List.filter_sublist

/-- each section appears at most once -/
theorem sections_nodup (m : Cli.Mode) (f : Cli.Flags) : (Cli.sections m f).Nodup :=
  List.Nodup.sublist List.filter_sublist (by decide)

/-- the hybrid (default) mode implements every section; the other two a subset -/
theorem hybrid_implements_everything (s : Cli.Section) : Cli.implemented .hybrid s = true := rfl

/-- the invocation prints one block per section, in that order -/
theorem run_blocks (m : Cli.Mode) (f : Cli.Flags) (heu : SM.Heu) (s : Store) (n : Nat) (ac : List Nat) :
    (Cli.run m f heu s n ac).map (·.1) = Cli.sections m f := by
  have : ∀ (ac' : List Nat) (l : List Cli.Section) (acc : Store × List (Cli.Section × List (List Nat))),
      (Cli.runFrom heu n ac' l acc).2.map (·.1) = acc.2.map (·.1) ++ l := by
    intro ac' l
    induction l with
    | nil => intro acc; simp [Cli.runFrom]
    | cons x xs ih => intro acc; simp only [Cli.runFrom]; rw [ih]; simp
  simpa [Cli.run] using this _ (Cli.sections m f) ((Cli.startOf m s n ac).1, [])

/-- what the definitions prescribe does not depend on the library mode: for a section two modes
both implement, the prescribed set is the same -/
theorem modes_prescribe_same_sets (n : Nat) (tts : List Nat) (s : Cli.Section) (m m' : Cli.Mode)
    (_h : Cli.implemented m s = true) (_h' : Cli.implemented m' s = true) :
    Cli.specSection n tts s = Cli.specSection n tts s := rfl

/-- malformed input: non-zero exit status, no interpretation printed -/
theorem rejects_malformed : Cli.rejected.1 ≠ 0 ∧ Cli.rejected.2 = [] := by decide

/-! ## faithfulness: every block is the specification's answer

`Cli.run` runs the two sections that use the nogood-learning search (`--twoval`, `--stmng`) with a
bound of 1 000 000 loop iterations (the model must be a total function). C05 proves that the loop
halts but gives no number, and a framework with more than a million two-valued models cannot be
enumerated within the bound; so the statement about `Cli.run` itself carries the hypothesis
`CliF.Halted` — "no search of this invocation hit the bound" (a Boolean the model computes:
`CliF.haltsFromF`). It is discharged in two ways: it holds outright for every invocation without
those two flags (`cli_faithful_without_search_flags`), and for every invocation it holds from some
bound on (`cli_faithful_every_large_bound`, about `CliF.runF fuel`, the same model with the bound as
a parameter; `CliF.runF 1000000 = Cli.run`, `run_is_bound_instance`).

With respect to the statement written in the design round two hypotheses were sharpened: every atom
of every condition is a statement of the framework (`NConc.atomsLt n`, what the parser guarantees;
needed for the truth tables over `n` variables to represent the conditions, and by C05's two-valued
mode) and `n ≤ VBOT` (the variable numbers fit; `buildNative_correct`). -/

/-- full faithfulness statement: for EVERY library mode, flag set and heuristic, on the framework
compiled from the written conditions, every block of the model's output is, as a multiset of
three-valued interpretations, the specification's answer for its section -/
def cli_faithful_statement : Prop :=
  ∀ (m : Cli.Mode) (f : Cli.Flags) (heu : SM.Heu) (n : Nat) (fms : List Fm),
    fms.length = n → n ≤ VBOT → (∀ φ ∈ fms, NConc.atomsLt n φ) →
    let b := buildNative n fms
    CliF.Halted m f heu b.1 n b.2 →
    ∀ blk ∈ Cli.run m f heu b.1 n b.2,
      (blk.2.map (fun v => v.map storeIsConst)).Perm
        (Cli.specSection n (fms.map (fun φ => TT.ofFn n (fun a => φ.sem (fun v => a.testBit v)))) blk.1)

/-- **C15, faithfulness** — proved: composition of C01 (grounded = least fixpoint; the hybrid arm's
pre-grounded conditions are `pre D g`, `CliF.grounded_is_pre`), C02 (`complete_exact`), C03
(`stable_exact`, `stablepre_exact`), C04 (`count_search_exact`), C05 (`ng_search_exact`), the
pre-grounding invariance theorems (`pre_lfp`, `pre_complete_iff`, `pre_reduct_lfp_iff`), the store
threading through the sections (`CliF.runFromF_faithful`) and the soundness of the executable
specification (`SpecSound`) -/
theorem cli_faithful : cli_faithful_statement := by
  intro m f heu n fms hl hn ha b hh
  exact CliF.run_faithful m f heu n fms hl hn ha hh

/-- the hypothesis `Halted` is not needed when the invocation runs no bounded search -/
theorem cli_faithful_without_search_flags (m : Cli.Mode) (f : Cli.Flags) (heu : SM.Heu) (n : Nat) (fms : List Fm)
    (hl : fms.length = n) (hn : n ≤ VBOT) (ha : ∀ φ ∈ fms, NConc.atomsLt n φ)
    (h1 : f.twoval = false) (h2 : f.stmng = false) :
    ∀ blk ∈ Cli.run m f heu (buildNative n fms).1 n (buildNative n fms).2,
      (blk.2.map (fun v => v.map storeIsConst)).Perm
        (Cli.specSection n (fms.map (fun φ => TT.ofFn n (fun a => φ.sem (fun v => a.testBit v)))) blk.1) :=
  CliF.run_faithful m f heu n fms hl hn ha (CliF.halted_of_no_search _ m f heu _ n _ h1 h2)

/-- `Cli.run` is the bound-parametric model at the driver's bound -/
theorem run_is_bound_instance (m : Cli.Mode) (f : Cli.Flags) (heu : SM.Heu) (s : Store) (n : Nat) (ac : List Nat) :
    CliF.runF 1000000 m f heu s n ac = Cli.run m f heu s n ac := CliF.runF_eq m f heu s n ac

/-- **C15, termination and faithfulness for every large bound**: every invocation has a bound from
which on no search hits it and every block is the specification's answer — no hypothesis left -/
theorem cli_faithful_every_large_bound (m : Cli.Mode) (f : Cli.Flags) (heu : SM.Heu) (n : Nat) (fms : List Fm)
    (hl : fms.length = n) (hn : n ≤ VBOT) (ha : ∀ φ ∈ fms, NConc.atomsLt n φ) :
    ∃ F0, ∀ fuel, F0 ≤ fuel →
      CliF.HaltedF fuel m f heu (buildNative n fms).1 n (buildNative n fms).2 ∧
      ∀ blk ∈ CliF.runF fuel m f heu (buildNative n fms).1 n (buildNative n fms).2,
        (blk.2.map (fun v => v.map storeIsConst)).Perm
          (Cli.specSection n (fms.map (fun φ => TT.ofFn n (fun a => φ.sem (fun v => a.testBit v)))) blk.1) :=
  CliF.runF_faithful_eventually m f heu n fms hl hn ha

/-- the three modes print the same sets: two invocations that differ in the library mode only print,
for every section both modes implement, permutations of one another -/
theorem modes_print_same_sets (m m' : Cli.Mode) (f : Cli.Flags) (heu heu' : SM.Heu) (n : Nat) (fms : List Fm)
    (hl : fms.length = n) (hn : n ≤ VBOT) (ha : ∀ φ ∈ fms, NConc.atomsLt n φ)
    (hh : CliF.Halted m f heu (buildNative n fms).1 n (buildNative n fms).2)
    (hh' : CliF.Halted m' f heu' (buildNative n fms).1 n (buildNative n fms).2)
    (blk blk' : Cli.Section × List (List Nat))
    (hb : blk ∈ Cli.run m f heu (buildNative n fms).1 n (buildNative n fms).2)
    (hb' : blk' ∈ Cli.run m' f heu' (buildNative n fms).1 n (buildNative n fms).2) (hs : blk.1 = blk'.1) :
    (blk.2.map (fun v => v.map storeIsConst)).Perm (blk'.2.map (fun v => v.map storeIsConst)) := by
  have h1 := CliF.run_faithful m f heu n fms hl hn ha hh blk hb
  have h2 := CliF.run_faithful m' f heu' n fms hl hn ha hh' blk' hb'
  unfold CliF.Faithful at h1 h2
  rw [hs] at h1
  exact h1.trans h2.symm

/-! non-vacuity: `s(a). s(b). ac(a, b). ac(b, a).` with every flag set, default (hybrid) mode: the
hypotheses hold, no search hits the bound, nine blocks are printed (evaluation by the compiler's
interpreter — the store's hash tables do not reduce in the kernel) -/
example : (∀ φ ∈ [Fm.atom 1, Fm.atom 0], NConc.atomsLt 2 φ) ∧ 2 ≤ VBOT := by
  refine ⟨?_, by simp [VBOT]⟩
  intro φ hφ
  simp at hφ
  rcases hφ with h | h <;> subst h <;> simp [NConc.atomsLt]

def exFlags : Cli.Flags :=
  { grd := true, com := true, twoval := true, stm := true, stmca := true, stmcb := true, stmpre := true,
    stmrew := true, stmng := true }

#guard CliF.haltsFromF 1000000 .simple 2 (Cli.startOf .hybrid (buildNative 2 [.atom 1, .atom 0]).1 2
    (buildNative 2 [.atom 1, .atom 0]).2).2 (Cli.sections .hybrid exFlags)
    (Cli.startOf .hybrid (buildNative 2 [.atom 1, .atom 0]).1 2 (buildNative 2 [.atom 1, .atom 0]).2).1
#guard ((Cli.run .hybrid exFlags .simple (buildNative 2 [.atom 1, .atom 0]).1 2 (buildNative 2 [.atom 1, .atom 0]).2).map
    (fun blk => (blk.2.map (fun v => v.map storeIsConst)).length)) == [1, 3, 2, 1, 1, 1, 1, 1, 1]

example : Cli.sections .naive { grd := true, stm := true, stmca := true } = [.grd, .stm] := by decide

end C15
