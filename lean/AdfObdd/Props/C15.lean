import AdfObdd.CliModel
/-! # C15 — CLI output is faithful in every library mode

Model: `Cli.run` (`CliModel.lean`) — the three arms of `App::run`, the per-mode wiring table
(`Cli.implemented`) and the fixed order of the sections. "Prints exactly what the definitions
prescribe" and "the three modes print the same sets" are read over the flags a mode implements
(DESIGN.md §5); the wiring table is itself part of the model and is compared with the binary. -/
namespace C15

/-- the printed sections are exactly the requested ones the mode implements … -/
theorem sections_exact (m : Cli.Mode) (f : Cli.Flags) (s : Cli.Section) :
    s ∈ Cli.sections m f ↔ (Cli.wanted f s = true ∧ Cli.implemented m s = true) := by
  unfold Cli.sections
  rw [List.mem_filter]
  constructor
  · intro ⟨_, h⟩; simpa using h
  · intro h
    refine ⟨?_, by simpa using h⟩
    cases s <;> simp [Cli.sectionOrder]

/-- … in the documented order: grounded, then complete, then the (two-valued and) stable sections -/
theorem sections_in_documented_order (m : Cli.Mode) (f : Cli.Flags) :
    (Cli.sections m f).Sublist [.grd, .com, .twoval, .stm, .stmca, .stmcb, .stmpre, .stmrew, .stmng] :=
  List.filter_sublist

/-- each section appears at most once -/
theorem sections_nodup (m : Cli.Mode) (f : Cli.Flags) : (Cli.sections m f).Nodup :=
  List.Nodup.sublist List.filter_sublist (by decide)

/-- the hybrid (default) mode implements every section; the other two a subset -/
theorem hybrid_implements_everything (s : Cli.Section) : Cli.implemented .hybrid s = true := rfl

/-- the invocation prints one block per section, in that order -/
theorem run_blocks (m : Cli.Mode) (f : Cli.Flags) (heu : SM.Heu) (s : Store) (n : Nat) (ac : List Nat) :
    (Cli.run m f heu s n ac).map (·.1) = Cli.sections m f := by
  have : ∀ (ac' : List Nat) (l : List Cli.Section) (acc : Store × List (Cli.Section × List (List Nat))),
      (Cli.runFrom heu n ac' l acc).2.map (·.1) = acc.2.map (·.1) ++ l := by
    intro ac' l
    induction l with
    | nil => intro acc; simp [Cli.runFrom]
    | cons x xs ih => intro acc; simp only [Cli.runFrom]; rw [ih]; simp
  simpa [Cli.run] using this _ (Cli.sections m f) ((Cli.startOf m s n ac).1, [])

/-- what the definitions prescribe does not depend on the library mode: for a section two modes
both implement, the prescribed set is the same -/
theorem modes_prescribe_same_sets (n : Nat) (tts : List Nat) (s : Cli.Section) (m m' : Cli.Mode)
    (_h : Cli.implemented m s = true) (_h' : Cli.implemented m' s = true) :
    Cli.specSection n tts s = Cli.specSection n tts s := rfl

/-- malformed input: non-zero exit status, no interpretation printed -/
theorem rejects_malformed : Cli.rejected.1 ≠ 0 ∧ Cli.rejected.2 = [] := by decide

/-- full faithfulness statement, kept visible: every block of the model's output is, as a multiset
of three-valued interpretations, the specification's answer for its section. PARTIAL: it is the
composition of the exactness statements of C01–C05 for the concrete functions (`complete_exact`,
`stable_exact`, `count_search_exact`, `ng_search`), which are not all proved yet; the binary is
compared with both the model (line sequence) and the specification (multiset) on every run. -/
def cli_faithful_statement : Prop :=
  ∀ (m : Cli.Mode) (f : Cli.Flags) (heu : SM.Heu) (n : Nat) (fms : List Fm),
    fms.length = n → (∀ φ ∈ fms, φ.atomsOK) →
    let b := buildNative n fms
    ∀ blk ∈ Cli.run m f heu b.1 n b.2,
      (blk.2.map (fun v => v.map storeIsConst)).Perm
        (Cli.specSection n (fms.map (fun φ => TT.ofFn n (fun a => φ.sem (fun v => a.testBit v)))) blk.1)

example : Cli.sections .naive { grd := true, stm := true, stmca := true } = [.grd, .stm] := by decide

end C15
