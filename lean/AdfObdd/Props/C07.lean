import AdfObdd.OpsProofs
/-! # C07 — diagram operations compute the Boolean function they name

Model: `stepOp` / `runOps` (`OpsModel.lean`) over the proved store (`restrictF`, `iteF`, `mkNode`
with the unique table and both memo tables). The theorems hold from *any* well-formed state, i.e.
for every prior operation history and every memo content satisfying the invariant (warm or cold). -/
namespace C07

/-- every single operation returns a valid handle whose function is the named function of the
operands' functions (restriction = cofactor); the store stays well formed and only grows -/
theorem op_correct (s : Store) (hist : List Nat) (fs : List BoolFn) (op : Op)
    (w : WF s) (h : HistOK s hist fs) (hv : op.valid hist.length) :
    WF (stepOp s hist op).1 ∧ Ext s (stepOp s hist op).1 ∧
    (stepOp s hist op).2 < (stepOp s hist op).1.nodes.size ∧
    ∀ σ, eval (stepOp s hist op).1 (stepOp s hist op).2 σ = semOp fs op σ :=
  let g := stepOp_good s hist fs op w h hv
  ⟨g.wf, g.ext, g.lt, g.ev⟩

/-- no operation changes the function denoted by a previously issued handle -/
theorem old_handles_unchanged (s : Store) (hist : List Nat) (fs : List BoolFn) (op : Op)
    (w : WF s) (h : HistOK s hist fs) (hv : op.valid hist.length) (t : Nat) (ht : t < s.nodes.size) :
    ∀ σ, eval (stepOp s hist op).1 t σ = eval s t σ :=
  fun σ => eval_ext w (stepOp_good s hist fs op w h hv).ext t σ ht

/-- every operation sequence from the fresh store: the k-th issued handle denotes the k-th
function of the specification `semOps`, for all k at once (so earlier results stay correct) -/
theorem sequence_correct (ops : List Op) (hv : opsValid ops 2) :
    let r := runOps ops Store.init [0, 1]
    WF r.1 ∧ HistOK r.1 r.2 (semOps ops [fun _ => false, fun _ => true]) :=
  let x := runOps_refines ops Store.init [0, 1] _ WF_init HistOK.init hv
  ⟨x.1, x.2.2⟩

/-- the same from any reachable (indeed any well-formed) state: warm memo tables -/
theorem sequence_correct_from (ops : List Op) (s : Store) (hist : List Nat) (fs : List BoolFn)
    (w : WF s) (h : HistOK s hist fs) (hv : opsValid ops hist.length) :
    WF (runOps ops s hist).1 ∧ Ext s (runOps ops s hist).1 ∧
    HistOK (runOps ops s hist).1 (runOps ops s hist).2 (semOps ops fs) :=
  runOps_refines ops s hist fs w h hv

/-- the named functions are the intended ones (restriction is the cofactor, etc.) -/
theorem semantics_table (fs : List BoolFn) (a b v : Nat) (c : Bool) (σ : Asg) :
    semOp fs (.not a) σ = !(fget fs a σ) ∧
    semOp fs (.and a b) σ = (fget fs a σ && fget fs b σ) ∧
    semOp fs (.or a b) σ = (fget fs a σ || fget fs b σ) ∧
    semOp fs (.imp a b) σ = (!(fget fs a σ) || fget fs b σ) ∧
    semOp fs (.iff a b) σ = (fget fs a σ == fget fs b σ) ∧
    semOp fs (.xor a b) σ = (fget fs a σ != fget fs b σ) ∧
    semOp fs (.var v) σ = σ v ∧ semOp fs (.const c) σ = c ∧
    semOp fs (.restrict a v c) σ = fget fs a (upd σ v c) :=
  ⟨rfl, rfl, rfl, rfl, rfl, rfl, rfl, rfl, rfl⟩

/-- non-vacuity: a concrete valid sequence (x0, x1, x0 ∧ x1, restrict, xor) meets the hypotheses -/
example : opsValid [.var 0, .var 1, .and 2 3, .restrict 4 0 true, .xor 5 3] 2 := by
  simp [opsValid, Op.valid, VBOT]

/-- non-vacuity of the single-operation theorems: the fresh store with its two constants and the
operation `⊥ ∧ ⊤` meet all hypotheses -/
example : WF Store.init ∧ HistOK Store.init [0, 1] [fun _ => false, fun _ => true] ∧ (Op.and 0 1).valid 2 ∧
    (0 : Nat) < Store.init.nodes.size :=
  ⟨WF_init, HistOK.init, by simp [Op.valid], by simp [Store.init]⟩

end C07
