import AdfObdd.Persist
import AdfObdd.Grounded
import AdfObdd.PreGround2
import AdfObdd.Stable
import AdfObdd.MemoTransparent
import AdfObdd.PersistAnswers
import AdfObdd.JsonPersist
import AdfObdd.PersistMore
import AdfObdd.CliIOProofs
/-! # C14 — persistence round trips preserve handles and answers

`Persist.PBdd` / `PAdf` are `Bdd` / `Adf` with the serde-skipped bookkeeping explicit.  Two round
trips: (1) `export → import → fix_import` (serde derives + `vectorize` + `Bdd::fix_import`),
(2) the node-list rebuild `Bdd::from(Vec<BddNode>)` inside `Adf::from((ordering, bdd, ac))` as the
web service does through its string DTO.  The original may be at any point of its life: the only
hypothesis is that its store is well formed (`WF`, preserved by every operation: C06/C07), memo
tables arbitrary.  `exportB`/`importB` pass the node vector through; the JSON TEXT in between
(`serde_json::to_string` / `from_str`) is modelled in `Json` and composed with them in the last
section ("from the JSON TEXT").  The DTO's decimal strings: `Persist.decimalCodec` (`Nat.repr`/`String.toNat?`) is a
concrete `Codec`, see `simplified_roundtrip_decimal`.

## Scope notes (moved here from `PersistMore.lean` by the third review - a reader of THIS file must see them)

* **Two layers.** The object-level theorems (`import_nodes`, `import_fix`, `*_after_roundtrip`,
  `future_ops_same_handles`, …) use `Persist.exportB` / `importB`, which pass the node vector
  through unchanged and make only the `vectorize` step of the unique table explicit
  (`HashMap.toList` / `HashMap.ofList`): at this layer the JSON encoding is the IDENTITY, several
  conjuncts are `rfl`, and nothing is said about serde_json. The text layer is separate: the section
  "from the JSON TEXT" (`JsonModel` / `JsonPersist`: printer with serde_json's escape table, lexer,
  derived visitors) — only theorems of THAT section speak about bytes on disk.
* **`VarContainer`.** `PAdf.names` is `ordering.names`; `ordering.mapping` (name ↦ index) is treated
  as the inverse of `names` and not stored (object layer) resp. carried as a separate map `m` with
  an arbitrary iteration order (text layer). The web service's `VarContainerDb`
  (server/src/adf.rs:97-129: `mapping: HashMap<String, String>`, values `v.to_string()`, read back
  with `v.parse().unwrap()`) is FOLDED into `names` in `toSimplified` / `fromSimplified`: that its
  `mapping` strings decode (`decimalCodec` round trip) and that a corrupt `mapping` PANICS in
  `From<VarContainerDb>` is not modelled; `simplified_roundtrip_decimal` covers `SimplifiedAdf`
  (nodes and `ac` as decimal strings) only.
* **`export_never_overwrites`** is about the three-line model `cliExport` (`exists` → skip, else
  write), NOT part of the text-level CLI model `CliM.runText` of C15 (which has no file system).
  The Rust (bin/src/main.rs:357-374) is `export.exists()` followed by `File::create(export)`: a
  check-then-act sequence, so another process creating the path in between IS overwritten
  (`File::create` truncates) — the theorem is a statement about a single sequential process on a
  file system nobody else touches. Only the NAIVE arm exports (the `--lib biodivine` / hybrid arms
  of `main.rs` have no `--export` code); `--import` skips parsing entirely.
* **Answers after a round trip.** `SameAnswers` (no duplicates, same members) comes from the
  exactness theorems and holds for ANY store denoting the same functions (`SameFns`), e.g. a
  different node numbering. For the two round trips modelled here the node table is IDENTICAL, and
  `C14More.history_after_roundtrip` / `searches_after_roundtrip` / `nogood_after_roundtrip` give
  equality of the answer LISTS (order, handle numbers) by C11's `answers_depend_on_node_table`.
* **Non-vacuity** is shown on `x0Adf` (one statement) and on `C14More.negAdf` (two statements,
  `a ↦ ¬b`, `b ↦ ¬a`, two stable models; `C14More` lives in `PersistMore.lean`, restated in `Props/C11.lean`).
* **CLI arms.** Only `--lib naive` has `--export` / `--import` code (bin/src/main.rs:329-374); the default
  `--lib hybrid` ignores both flags silently. -/
namespace C14
open Persist Std

/-- **import_fix**: after `export → import → fix_import` the node table is the original's (same
numbering), the unique table answers every lookup as the original's, the memo tables are empty,
the object is well formed, `var_deps` is aligned and holds exactly the variables of every diagram,
and `count_cache` has the true counts for every handle -/
theorem import_fix (b : PBdd) (w : WF b.st) :
    let r := fixImport (importB (exportB b))
    r.st.nodes = b.st.nodes ∧ (∀ n : Node, r.st.uniq[n]? = b.st.uniq[n]?) ∧
    (∀ k : Nat × Nat × Bool, r.st.resC[k]? = none) ∧ (∀ k : Nat × Nat × Nat, r.st.iteC[k]? = none) ∧
    WF r.st ∧ Persist.DepsOK r.st r.deps ∧ CntFull r.st r.cnt := by
  intro r
  have ⟨a, b', h⟩ := Persist.import_fix b w
  exact ⟨a, b', (import_skipped b).2.2.1, (import_skipped b).2.2.2, h.wf, h.deps, h.cnt⟩

/-- recomputed bookkeeping equals the original's whenever the original's was sound -/
theorem import_fix_same_bookkeeping (b : PBdd) (h : Healthy b) :
    let r := fixImport (importB (exportB b))
    r.deps = b.deps ∧ ∀ t : Nat, r.cnt[t]? = b.cnt[t]? := by
  intro r
  have ⟨hn, _, hr⟩ := Persist.import_fix b h.wf
  exact ⟨(hr.deps.congr (s := r.st) (s' := b.st) hn.symm).unique h.deps,
         fun t => (CntFull.congr (s := r.st) (s' := b.st) hn.symm hr.cnt).unique h.cnt t⟩

/-- **rebuild_id** with bookkeeping: `Bdd::from(nodes)` reproduces the node table index by index,
an equivalent unique table, and — through what `Bdd::node` maintains — sound variable lists and
counts; so root handles stored as bare numbers still point at the same nodes -/
theorem rebuild_id (orig : Store) (w : WF orig) :
    let r := rebuildP orig.nodes
    r.st.nodes = orig.nodes ∧ (∀ n : Node, r.st.uniq[n]? = orig.uniq[n]?) ∧
    WF r.st ∧ Persist.DepsOK r.st r.deps ∧ CntFull r.st r.cnt := by
  intro r
  have ⟨_, a, b, h⟩ := rebuildP_ok orig w
  exact ⟨a, b, h.wf, h.deps, h.cnt⟩

/-- the web service's storage round trip (`Adf → SimplifiedAdf → Adf`): ordering and root handles
unchanged, diagram store rebuilt -/
theorem simplified_roundtrip (c : Codec) (a : PAdf) (w : WF a.bdd.st) :
    ∃ r, fromSimplified c (toSimplified c a) = some r ∧ r.names = a.names ∧ r.ac = a.ac ∧
      r.bdd.st.nodes = a.bdd.st.nodes ∧ WF r.bdd.st ∧ Persist.DepsOK r.bdd.st r.bdd.deps := by
  refine ⟨_, Persist.simplified_roundtrip c a, rfl, rfl, ?_⟩
  have ⟨_, x, _, h⟩ := rebuildP_ok a.bdd.st w
  exact ⟨x, h.wf, h.deps⟩

/-- every handle keeps its function after either round trip -/
theorem handles_keep_function (b : PBdd) (t : Nat) (σ : Asg) :
    eval (fixImport (importB (exportB b))).st t σ = eval b.st t σ ∧
    (WF b.st → eval (rebuildP b.st.nodes).st t σ = eval b.st t σ) :=
  ⟨eval_congr rfl t σ, fun w => eval_congr (rebuildP_ok b.st w).2.1 t σ⟩

/-- the dependency made explicit: an answer that is a function of the node table and the root
handles (`Q`), or of the Boolean functions of the acceptance conditions (`Sem`: every semantics of
DESIGN §6.1), is the same on the original and on both round-tripped objects -/
theorem answers_equal {β γ : Type} (Q : Array Node → List Nat → β) (Sem : List BoolFn → γ) (a : PAdf) (w : WF a.bdd.st) :
    let j := fixImportA (importA (exportA a))
    let r : PAdf := { names := a.names, bdd := rebuildP a.bdd.st.nodes, ac := a.ac }
    Q j.bdd.st.nodes j.ac = Q a.bdd.st.nodes a.ac ∧ Q r.bdd.st.nodes r.ac = Q a.bdd.st.nodes a.ac ∧
    Sem (acFns j.bdd.st j.ac) = Sem (acFns a.bdd.st a.ac) ∧ Sem (acFns r.bdd.st r.ac) = Sem (acFns a.bdd.st a.ac) := by
  intro j r
  have hj : j.bdd.st.nodes = a.bdd.st.nodes := rfl
  have hr : r.bdd.st.nodes = a.bdd.st.nodes := (rebuildP_ok a.bdd.st w).2.1
  have ej : j.ac = a.ac := rfl
  exact ⟨by rw [hj, ej], by rw [hr], by rw [ej, acFns_same hj], by rw [acFns_same hr]⟩

/-- an instance where the answer is *computed* on the round-tripped object (cold memo tables, its
own further node creations): the decided part of the grounded interpretation is the original's -/
theorem grounded_after_roundtrip (a : PAdf) (w : WF a.bdd.st) (hv : ∀ t ∈ a.ac, t < a.bdd.st.nodes.size) :
    let j := fixImportA (importA (exportA a))
    (groundedLoop StoreRA (a.ac.length + 1) j.bdd.st j.ac).2.map storeIsConst =
    (groundedLoop StoreRA (a.ac.length + 1) a.bdd.st a.ac).2.map storeIsConst := by
  intro j
  have ⟨hn, _, hj⟩ := Persist.import_fix a.bdd w
  have wj : WF j.bdd.st := hj.wf
  have hvj : ∀ t ∈ j.ac, t < j.bdd.st.nodes.size := hv
  have h1 := grounded_native (a.ac.length + 1) j.bdd.st j.ac wj hvj (Nat.lt_succ_self _)
  have h2 := grounded_native (a.ac.length + 1) a.bdd.st a.ac w hv (Nat.lt_succ_self _)
  simp only at h1 h2
  have hsame : j.ac.map (eval j.bdd.st) = a.ac.map (eval a.bdd.st) := acFns_same hn a.ac
  rw [hsame] at h1
  have l1 := congrArg List.length h1.1
  have l2 := congrArg List.length h2.1
  rw [Gam_length] at l1 l2
  exact Le3_antisymm (by omega) (h1.2 _ h2.1) (h2.2 _ h1.1)

/-- further diagram operations on the round-tripped object and on a never-exported twin (same node
table and history, any memo contents on either side): every issued handle denotes the same Boolean
function on both. (Formerly `…_partial`: the missing half — the two runs also allocate the same
handle NUMBERS — is `future_ops_same_handles` below.) -/
theorem future_ops_same_functions (ops : List Op) (s s' : Store) (hist : List Nat) (fs : List BoolFn)
    (w : WF s) (w' : WF s') (hn : s'.nodes = s.nodes) (h : HistOK s hist fs) (hv : opsValid ops hist.length)
    (k : Nat) (hk : k < (runOps ops s hist).2.length) (σ : Asg) :
    eval (runOps ops s' hist).1 (hget (runOps ops s' hist).2 k) σ =
    eval (runOps ops s hist).1 (hget (runOps ops s hist).2 k) σ := by
  have h' : HistOK s' hist fs :=
    ⟨h.len, fun i hi => ⟨by rw [hn]; exact (h.ok i hi).1, fun σ => by rw [eval_congr hn]; exact (h.ok i hi).2 σ⟩⟩
  have ⟨_, _, a⟩ := runOps_refines ops s hist fs w h hv
  have ⟨_, _, b⟩ := runOps_refines ops s' hist fs w' h' hv
  have hk' : k < (runOps ops s' hist).2.length := by rw [b.len, ← a.len]; exact hk
  rw [(a.ok k hk).2 σ, (b.ok k hk').2 σ]

/-- strengthens `future_ops_same_functions`: the two runs also issue the same
handle NUMBERS and build the same node table (memo transparency, `runOps_memo_transparent`) -/
theorem future_ops_same_handles (ops : List Op) (s s' : Store) (hist : List Nat) (fs : List BoolFn)
    (w : WF s) (w' : WF s') (hn : s'.nodes = s.nodes) (h : HistOK s hist fs) (hv : opsValid ops hist.length) :
    (runOps ops s' hist).2 = (runOps ops s hist).2 ∧
    (runOps ops s' hist).1.nodes = (runOps ops s hist).1.nodes :=
  runOps_memo_transparent ops s s' hist w w' hn (fun k hk => (h.ok k hk).1) hv

/-- the same, instantiated: after `export → import → fix_import` (memo tables empty) and after the
node-list rebuild `Bdd::from(nodes)`, every later operation sequence issues the handle numbers and
builds the node table it does on the never-exported original (memo tables arbitrary) -/
theorem future_ops_same_handles_roundtrips (ops : List Op) (b : PBdd) (hist : List Nat) (w : WF b.st)
    (hh : ∀ k, k < hist.length → hget hist k < b.st.nodes.size) (hv : opsValid ops hist.length) :
    let j := fixImport (importB (exportB b))
    let r := rebuildP b.st.nodes
    ((runOps ops j.st hist).2 = (runOps ops b.st hist).2 ∧
     (runOps ops j.st hist).1.nodes = (runOps ops b.st hist).1.nodes) ∧
    ((runOps ops r.st hist).2 = (runOps ops b.st hist).2 ∧
     (runOps ops r.st hist).1.nodes = (runOps ops b.st hist).1.nodes) := by
  intro j r
  have ⟨hj, _, wj⟩ := Persist.import_fix b w
  have ⟨_, hr, _, wr⟩ := rebuildP_ok b.st w
  exact ⟨runOps_memo_transparent ops b.st j.st hist w wj.wf hj hh hv,
         runOps_memo_transparent ops b.st r.st hist w wr.wf hr hh hv⟩

/-- precondition of `fix_import`: `var_deps` must be empty (exactly once, right after an import).
On a live object, or applied a second time, the lists are misaligned with the node table -/
theorem fix_import_precondition (b : PBdd) :
    (b.deps.size ≠ 0 → ¬ Persist.DepsOK (fixImport b).st (fixImport b).deps) ∧
    (b.st.nodes.size ≠ 0 → ¬ Persist.DepsOK (fixImport (fixImport b)).st (fixImport (fixImport b)).deps) :=
  ⟨fixImport_needs_empty_deps b, fixImport_twice_misaligned b⟩

/-- the misuse, concretely: table after `variable(Var(0))`, `fix_import` run twice, then
`variable(Var(1))` creates handle 3 — but `var_deps[3]` is the stale second copy of ⊥'s empty list
while the new node's list sits at index 6: `restrict(Term(3), Var(1), _)` takes the "variable
not in the diagram" shortcut and returns 3 instead of a constant -/
theorem fix_import_twice_counterexample :
    genDeps nodes3 #[] = #[[], [], [0]] ∧
    genDeps nodes3 (genDeps nodes3 #[]) = #[[], [], [0], [], [], [0]] ∧
    nodeDeps (genDeps nodes3 (genDeps nodes3 #[])) ⟨1, 0, 1⟩ = #[[], [], [0], [], [], [0], [1]] ∧
    (nodeDeps (genDeps nodes3 (genDeps nodes3 #[])) ⟨1, 0, 1⟩).getD 3 [] = [] ∧
    (nodeDeps (genDeps nodes3 #[]) ⟨1, 0, 1⟩).getD 3 [] = [1] := by decide

/-- CLI `--export PATH`: an existing path is never written (so exporting twice leaves the first
file byte-identical), a free path receives the JSON -/
theorem export_never_overwrites (fs : String → Option String) (path c1 c2 : String) :
    ((fs path).isSome → cliExport fs path c1 = fs) ∧
    ((fs path).isNone → cliExport fs path c1 path = some c1) ∧
    cliExport (cliExport fs path c1) path c2 = cliExport fs path c1 ∧
    exportAction true = .skip ∧ exportAction false = .write := by
  refine ⟨?_, ?_, ?_, rfl, rfl⟩
  · intro h; simp [cliExport, exportAction, h]
  · intro h
    have : (fs path).isSome = false := by cases hx : fs path <;> simp_all
    simp [cliExport, exportAction, this]
  · cases hx : (fs path).isSome with
    | true => simp [cliExport, exportAction, hx]
    | false =>
      have h1 : cliExport fs path c1 = fun p => if p = path then some c1 else fs p := by
        simp [cliExport, exportAction, hx]
      rw [h1]
      simp [cliExport, exportAction]

/-! non-vacuity: the fresh object is healthy; the misuse example above is concrete -/
example : WF PBdd.new.st := WF_init
example : Persist.DepsOK PBdd.new.st PBdd.new.deps :=
  ⟨rfl, fun t ht => by
    have : t = 0 ∨ t = 1 := by simp [PBdd.new, Store.init] at ht; omega
    rcases this with h | h <;> subst h <;> rfl⟩
example : exportAction true ≠ exportAction false := by decide

/-- non-vacuity of `future_ops_same_handles(_roundtrips)`: the hypotheses hold for the fresh object
with history `[⊥, ⊤]` and a concrete operation sequence -/
example :
    let ops : List Op := [.var 0, .var 1, .iff 2 3, .iff 2 3, .restrict 4 1 false]
    (runOps ops (fixImport (importB (exportB PBdd.new))).st [0, 1]).2 = (runOps ops PBdd.new.st [0, 1]).2 ∧
    (runOps ops (rebuildP PBdd.new.st.nodes).st [0, 1]).2 = (runOps ops PBdd.new.st [0, 1]).2 :=
  have h := future_ops_same_handles_roundtrips
    [.var 0, .var 1, .iff 2 3, .iff 2 3, .restrict 4 1 false] PBdd.new [0, 1] WF_init
    (fun k hk => (HistOK.init.ok k hk).1) (by simp [opsValid, Op.valid, VBOT])
  ⟨h.1.1, h.2.1⟩
example : ∃ fs, HistOK PBdd.new.st [0, 1] fs := ⟨_, HistOK.init⟩

/-! ## answers after the round trips, semantics by semantics (review top-10)

`answers_equal` above is a congruence (any function of the node table / of the denotations gives
equal results on equal inputs). The theorems below are about the searches of the model RUN on the
round-tripped object, where they start with cold memo tables and create their own further nodes:
by the exactness theorems of C01–C05 each answer list, read as three-valued interpretations, is a
function of the Boolean functions of the acceptance conditions, and both round trips preserve these
(`Persist.roundtrip_sameFns`). `SameAnswers l l'` = both lists are duplicate free and have the
same members (so they are permutations of each other; that the ORDER is the same as well is not
proved here — it is what the correspondence run observes). -/

/-- hypotheses shared by the instantiated theorems: both round trips yield a well-formed store in
which the root handles are valid and denote the original's functions -/
theorem roundtrips_same_functions (a : PAdf) (w : WF a.bdd.st) (hv : ∀ t ∈ a.ac, t < a.bdd.st.nodes.size) :
    SameFns a.bdd.st (fixImportA (importA (exportA a))).bdd.st a.ac ∧
    SameFns a.bdd.st (rebuildP a.bdd.st.nodes).st a.ac := roundtrip_sameFns a w hv

/-- **complete** (`Adf::complete`) after either round trip -/
theorem complete_after_roundtrip (a : PAdf) (w : WF a.bdd.st) (hv : ∀ t ∈ a.ac, t < a.bdd.st.nodes.size) :
    let j := fixImportA (importA (exportA a))
    let r := rebuildP a.bdd.st.nodes
    let n := a.ac.length
    SameAnswers (dec3 (completeAll j.bdd.st n j.ac).2.2) (dec3 (completeAll a.bdd.st n a.ac).2.2) ∧
    SameAnswers (dec3 (completeAll r.st n a.ac).2.2) (dec3 (completeAll a.bdd.st n a.ac).2.2) :=
  let h := roundtrip_sameFns a w hv
  ⟨h.1.complete _ rfl, h.2.complete _ rfl⟩

/-- **stable** (`Adf::stable`) and **stable with pre-filter** (`Adf::stable_with_prefilter`) after
either round trip -/
theorem stable_after_roundtrip (a : PAdf) (w : WF a.bdd.st) (hv : ∀ t ∈ a.ac, t < a.bdd.st.nodes.size) :
    let j := fixImportA (importA (exportA a))
    let r := rebuildP a.bdd.st.nodes
    let n := a.ac.length
    SameAnswers (dec3 (stableAll j.bdd.st n j.ac).2) (dec3 (stableAll a.bdd.st n a.ac).2) ∧
    SameAnswers (dec3 (stableAll r.st n a.ac).2) (dec3 (stableAll a.bdd.st n a.ac).2) ∧
    SameAnswers (dec3 (Cli.stablePre j.bdd.st n j.ac).2) (dec3 (Cli.stablePre a.bdd.st n a.ac).2) ∧
    SameAnswers (dec3 (Cli.stablePre r.st n a.ac).2) (dec3 (Cli.stablePre a.bdd.st n a.ac).2) :=
  let h := roundtrip_sameFns a w hv
  ⟨h.1.stable _ rfl, h.2.stable _ rfl, h.1.stablePre _ rfl, h.2.stablePre _ rfl⟩

/-- **counting-guided stable search** (`stable_count_optimisation_heu_a/b`) after either round
trip, for any choice of the two heuristics on either side -/
theorem count_search_after_roundtrip (a : PAdf) (w : WF a.bdd.st) (hv : ∀ t ∈ a.ac, t < a.bdd.st.nodes.size)
    (useA useA' : Bool) :
    let j := fixImportA (importA (exportA a))
    let r := rebuildP a.bdd.st.nodes
    let n := a.ac.length
    SameAnswers (dec3 (countAll j.bdd.st n j.ac useA').2) (dec3 (countAll a.bdd.st n a.ac useA).2) ∧
    SameAnswers (dec3 (countAll r.st n a.ac useA').2) (dec3 (countAll a.bdd.st n a.ac useA).2) :=
  let h := roundtrip_sameFns a w hv
  ⟨h.1.count _ rfl useA useA', h.2.count _ rfl useA useA'⟩

/-- **nogood-learning search** (`Adf::stable_nogood` / `two_val_nogood`) after either round trip:
there are fuels within which the loops halt on the original and on the round-tripped object, and
the emitted lists have the same members, none repeated — any heuristics on either side. In
two-valued mode (`stable = false`) the side condition of C05 (the conditions look at statements
only) is assumed of the ORIGINAL; it transfers. -/
theorem nogood_search_after_roundtrip (a : PAdf) (w : WF a.bdd.st) (hv : ∀ t ∈ a.ac, t < a.bdd.st.nodes.size)
    (heu heu' : SM.Heu) (stable : Bool)
    (hs : stable = false → ∀ t ∈ a.ac, ∀ σ τ : Asg, (∀ i, i < a.ac.length → σ i = τ i) →
      eval a.bdd.st t σ = eval a.bdd.st t τ) :
    let j := fixImportA (importA (exportA a))
    let r := rebuildP a.bdd.st.nodes
    let n := a.ac.length
    (∃ fuel fuel', (SM.ngSearch heu fuel a.bdd.st n a.ac stable).2.2.2 = true ∧
      (SM.ngSearch heu' fuel' j.bdd.st n j.ac stable).2.2.2 = true ∧
      SameAnswers (dec3 (SM.ngSearch heu' fuel' j.bdd.st n j.ac stable).2.1)
                  (dec3 (SM.ngSearch heu fuel a.bdd.st n a.ac stable).2.1)) ∧
    (∃ fuel fuel', (SM.ngSearch heu fuel a.bdd.st n a.ac stable).2.2.2 = true ∧
      (SM.ngSearch heu' fuel' r.st n a.ac stable).2.2.2 = true ∧
      SameAnswers (dec3 (SM.ngSearch heu' fuel' r.st n a.ac stable).2.1)
                  (dec3 (SM.ngSearch heu fuel a.bdd.st n a.ac stable).2.1)) := by
  intro j r n
  have h := roundtrip_sameFns a w hv
  have ⟨f, f', a1, a2, a3, a4, a5⟩ := h.1.ng n rfl heu heu' stable hs
  have ⟨g, g', b1, b2, b3, b4, b5⟩ := h.2.ng n rfl heu heu' stable hs
  exact ⟨⟨f, f', a1, a2, a3, a4, a5⟩, ⟨g, g', b1, b2, b3, b4, b5⟩⟩

/-- grounded after the node-list rebuild (the export/import case is `grounded_after_roundtrip`) -/
theorem grounded_after_rebuild (a : PAdf) (w : WF a.bdd.st) (hv : ∀ t ∈ a.ac, t < a.bdd.st.nodes.size) :
    (groundedLoop StoreRA (a.ac.length + 1) (rebuildP a.bdd.st.nodes).st a.ac).2.map storeIsConst =
    (groundedLoop StoreRA (a.ac.length + 1) a.bdd.st a.ac).2.map storeIsConst :=
  (roundtrip_sameFns a w hv).2.grounded

/-! ### the text level: a concrete codec

`exportB`/`importB` pass the node vector through and only the `vectorize` step of the unique table
is explicit (`import_nodes` is `rfl` for that reason); the text serde_json writes in between is the
subject of the section "from the JSON TEXT" below. For the
web service's DTO, whose fields are decimal strings, the codec is concrete:
`Persist.decimalCodec` = (`Nat.repr`, `String.toNat?`) — what `usize::to_string` and
`str::parse::<usize>` compute on the decimal digits — with the standard library's round-trip
theorem `Nat.toNat?_repr`. -/

/-- `simplified_roundtrip` with the concrete decimal codec: no codec hypothesis left -/
theorem simplified_roundtrip_decimal (a : PAdf) (w : WF a.bdd.st) :
    ∃ r, fromSimplified decimalCodec (toSimplified decimalCodec a) = some r ∧ r.names = a.names ∧
      r.ac = a.ac ∧ r.bdd.st.nodes = a.bdd.st.nodes ∧ WF r.bdd.st ∧ Persist.DepsOK r.bdd.st r.bdd.deps :=
  simplified_roundtrip decimalCodec a w

/-- the codec is not the identity in disguise: strings that are not decimal numerals are rejected
(the `unwrap` panic of `From<SimplifiedAdf>`), so `fromSimplified` can fail -/
example : fromSimplified decimalCodec ⟨[], [("0", "x", "1")], []⟩ = none ∧
    decimalCodec.dec "" = none := by
  constructor
  · have : decimalCodec.dec "x" = none := by
      show String.toNat? "x" = none
      rw [String.toNat?_eq_none_iff]
      apply Bool.eq_false_iff.mpr
      intro h
      have := (String.isNat_iff.mp h).2.1 'x' (by simp)
      revert this; decide
    simp [fromSimplified, decNode, this]
  · show String.toNat? "" = none
    rw [String.toNat?_eq_none_iff]
    exact Bool.eq_false_iff.mpr (fun h => (String.isNat_iff.mp h).1 rfl)

/-- the object used for non-vacuity: one statement `a` with condition `a` (handle 2 = x0) -/
def x0Adf : PAdf :=
  { names := ["a"], bdd := ⟨(mkNode Store.init 0 0 1).1, #[[], [], [0]], {}⟩, ac := [2] }

theorem x0Adf_ok : WF x0Adf.bdd.st ∧ ∀ t ∈ x0Adf.ac, t < x0Adf.bdd.st.nodes.size := by
  constructor
  · exact (mkNode_spec Store.init WF_init 0 0 1 (by simp [Store.init]) (by simp [Store.init])
      (by simp [VBOT]) (by simp [topVar, Store.init, VBOT]) (by simp [topVar, Store.init, VTOP])).1
  · intro t ht
    have : t = 2 := by simpa [x0Adf] using ht
    subst this
    simp [x0Adf, mkNode, Store.init]

/-- non-vacuity: on `x0Adf` (a non-terminal root, a store with an inner node) the hypotheses of all
the instantiated theorems hold, so e.g. the stable models computed after the JSON round trip and
after the DTO round trip are those of the original, and the DTO of the object decodes -/
example :
    SameAnswers (dec3 (stableAll (fixImportA (importA (exportA x0Adf))).bdd.st 1 [2]).2)
                (dec3 (stableAll x0Adf.bdd.st 1 [2]).2) ∧
    SameAnswers (dec3 (countAll (rebuildP x0Adf.bdd.st.nodes).st 1 [2] false).2)
                (dec3 (countAll x0Adf.bdd.st 1 [2] true).2) ∧
    (∃ r, fromSimplified decimalCodec (toSimplified decimalCodec x0Adf) = some r ∧ r.ac = [2]) :=
  ⟨(stable_after_roundtrip x0Adf x0Adf_ok.1 x0Adf_ok.2).1,
   (count_search_after_roundtrip x0Adf x0Adf_ok.1 x0Adf_ok.2 true false).2,
   let ⟨r, h, _, hac, _⟩ := simplified_roundtrip_decimal x0Adf x0Adf_ok.1
   ⟨r, h, hac⟩⟩

/-! ## from the JSON TEXT (`serde_json::to_string` / `to_writer`, `from_str`; CLI `--export` / `--import`)

`Json` models the text serde_json writes for an `Adf` — field order, `[[node,handle],…]` for the
vectorised unique table, string escaping by serde_json's `ESCAPE` table (`\"`, `\\`, `\b \f \n \r \t`,
other control characters `\u00XX`, everything else — DEL and all non-ASCII included — passed
through), numbers in decimal — and a reader for it (state-machine lexer skipping ` \n\t\r`, all JSON
escapes, no leading zeros, numbers below 2^64; then JSON values `Json.J` and serde's derived
visitors `Json.dAdf`: struct members in any order, unknown members skipped, a repeated or missing
member rejected, structs also as arrays of their fields). The iteration order of the two hash maps (`mapping`, `cache`) is a parameter of the
printer: any permutation `ml`, `cl` of the map's entries; so is the whitespace `w` between tokens
(`Json.noWs` is what serde_json writes). The hypothesis `Json.FitsA` says that every number written
is a `usize`; `Json.fitsA_of_wf` derives it from `WF`, `nodes.size ≤ 2^64`, valid root handles and
`usize` values in `mapping`. Not modelled (and never produced by `to_string`): surrogate-pair
escapes, and `true`/`false`/`null`/negative/fractional numbers inside UNKNOWN members (the model's
reader rejects such texts, serde skips the member). -/

/-- **decimal printer / reader on all naturals**: the digits of `n` are read back as `n` (no
bound in the digit reader; the token is emitted iff `n < 2^64`, as `usize` parsing demands) -/
theorem decimal_roundtrip (n : Nat) :
    Json.lex (Json.digits n) =
      if n = 0 then some [.num 0] else if n < Json.B64 then some [.num n] else none :=
  Json.decimal_roundtrip n

/-- the two terminal variable indices (2^64 − 2, 2^64 − 1: in every export) are read back -/
example : Json.lex (Json.digits VBOT) = some [.num VBOT] ∧ Json.lex (Json.digits VTOP) = some [.num VTOP] := by
  rw [decimal_roundtrip, decimal_roundtrip]; simp [VBOT, VTOP, Json.B64]

/-- **string escaping**: every string (any Unicode scalar values: quotes, backslashes, control
characters, non-ASCII) is read back from its escaped form, whatever follows -/
theorem string_roundtrip (s x : List Char) :
    Json.run .idle ('"' :: (Json.escape s ++ '"' :: x)) = (Json.run .idle x).map (Json.Tok.str s :: ·) := by
  have := Json.run_string s x
  simpa [Json.tokChars] using this

/-- **text_roundtrip**: `from_str (to_string adf)` is the identity on the persisted state — names,
root handles, node table; `mapping` and the unique table AS MAPS; skipped fields at their defaults —
for every order of the two hash maps, every whitespace, every label -/
theorem text_roundtrip (w : Nat → List Char) (hw : Json.WsOnly w) (a : PAdf) (m : HashMap String Nat)
    (ml : List (String × Nat)) (cl : List (Node × Nat)) (hml : ml.Perm m.toList)
    (hcl : cl.Perm a.bdd.st.uniq.toList) (f : Json.FitsA a ml cl) :
    ∃ a' m', Json.importText (Json.exportText w a ml cl) = some (a', m') ∧
      a'.names = a.names ∧ a'.ac = a.ac ∧ a'.bdd.st.nodes = a.bdd.st.nodes ∧
      (∀ n : Node, a'.bdd.st.uniq[n]? = a.bdd.st.uniq[n]?) ∧ (∀ k : String, m'[k]? = m[k]?) ∧
      a'.bdd.deps = #[] ∧ (∀ k : Nat, a'.bdd.cnt[k]? = none) ∧
      (∀ k : Nat × Nat × Bool, a'.bdd.st.resC[k]? = none) ∧ (∀ k : Nat × Nat × Nat, a'.bdd.st.iteC[k]? = none) :=
  Json.text_roundtrip w hw a m ml cl hml hcl f

/-- **import_fix from the text** (`import_fix` with the text in between) -/
theorem text_import_fix (w : Nat → List Char) (hw : Json.WsOnly w) (a : PAdf) (m : HashMap String Nat)
    (ml : List (String × Nat)) (cl : List (Node × Nat)) (hml : ml.Perm m.toList)
    (hcl : cl.Perm a.bdd.st.uniq.toList) (f : Json.FitsA a ml cl) (wf : WF a.bdd.st) :
    ∃ r, Json.importFixText (Json.exportText w a ml cl) = some r ∧
      r.names = a.names ∧ r.ac = a.ac ∧ r.bdd.st.nodes = a.bdd.st.nodes ∧
      (∀ n : Node, r.bdd.st.uniq[n]? = a.bdd.st.uniq[n]?) ∧
      (∀ k : Nat × Nat × Bool, r.bdd.st.resC[k]? = none) ∧ (∀ k : Nat × Nat × Nat, r.bdd.st.iteC[k]? = none) ∧
      WF r.bdd.st ∧ Persist.DepsOK r.bdd.st r.bdd.deps ∧ CntFull r.bdd.st r.bdd.cnt := by
  obtain ⟨a', _, _, h, _, h1, h2, h3, h4, h5, h6, hh⟩ := Json.text_import_fix w hw a m ml cl hml hcl f wf
  exact ⟨_, h, h1, h2, h3, h4, h5, h6, hh.wf, hh.deps, hh.cnt⟩

/-- **future operations, from the text**: every operation sequence run on the object read back
from the text (+ `fix_import`) issues the handle NUMBERS and builds the node table it does on the
never-exported original -/
theorem text_future_ops_same_handles (w : Nat → List Char) (hw : Json.WsOnly w) (a : PAdf) (m : HashMap String Nat)
    (ml : List (String × Nat)) (cl : List (Node × Nat)) (hml : ml.Perm m.toList)
    (hcl : cl.Perm a.bdd.st.uniq.toList) (f : Json.FitsA a ml cl) (wf : WF a.bdd.st)
    (ops : List Op) (hist : List Nat) (hh : ∀ k, k < hist.length → hget hist k < a.bdd.st.nodes.size)
    (hv : opsValid ops hist.length) :
    ∃ r, Json.importFixText (Json.exportText w a ml cl) = some r ∧
      (runOps ops r.bdd.st hist).2 = (runOps ops a.bdd.st hist).2 ∧
      (runOps ops r.bdd.st hist).1.nodes = (runOps ops a.bdd.st hist).1.nodes := by
  obtain ⟨r, h, _, _, hn, _, _, _, wr, _, _⟩ := text_import_fix w hw a m ml cl hml hcl f wf
  exact ⟨r, h, runOps_memo_transparent ops a.bdd.st r.bdd.st hist wf wr hn hh hv⟩

/-- **answers, from the text**: grounded, complete, stable (with and without pre-filter) and the
counting-guided search, computed on the object read back from the text, give the original's
answers (`SameAnswers`: same members, none repeated); the nogood-learning search follows in the
same way from `Json.text_sameFns` and `SameFns.ng` -/
theorem text_answers_equal (w : Nat → List Char) (hw : Json.WsOnly w) (a : PAdf) (m : HashMap String Nat)
    (ml : List (String × Nat)) (cl : List (Node × Nat)) (hml : ml.Perm m.toList)
    (hcl : cl.Perm a.bdd.st.uniq.toList) (f : Json.FitsA a ml cl) (wf : WF a.bdd.st)
    (hv : ∀ t ∈ a.ac, t < a.bdd.st.nodes.size) :
    ∃ r, Json.importFixText (Json.exportText w a ml cl) = some r ∧ r.names = a.names ∧ r.ac = a.ac ∧
      let n := a.ac.length
      (groundedLoop StoreRA (n + 1) r.bdd.st a.ac).2.map storeIsConst =
        (groundedLoop StoreRA (n + 1) a.bdd.st a.ac).2.map storeIsConst ∧
      SameAnswers (dec3 (completeAll r.bdd.st n a.ac).2.2) (dec3 (completeAll a.bdd.st n a.ac).2.2) ∧
      SameAnswers (dec3 (stableAll r.bdd.st n a.ac).2) (dec3 (stableAll a.bdd.st n a.ac).2) ∧
      SameAnswers (dec3 (Cli.stablePre r.bdd.st n a.ac).2) (dec3 (Cli.stablePre a.bdd.st n a.ac).2) ∧
      ∀ useA useA' : Bool,
        SameAnswers (dec3 (countAll r.bdd.st n a.ac useA').2) (dec3 (countAll a.bdd.st n a.ac useA).2) := by
  obtain ⟨r, h, hnm, hac, _, hs⟩ := Json.text_sameFns w hw a m ml cl hml hcl f wf hv
  exact ⟨r, h, hnm, hac, hs.grounded, hs.complete _ rfl, hs.stable _ rfl, hs.stablePre _ rfl,
    fun u u' => hs.count _ rfl u u'⟩

/-- **CLI `--lib naive --export PATH` on a free path, then `--lib naive --import PATH`** (`serde_json::to_writer`, then
`from_str` + `fix_import`; three-line file-system model `cliExport`: a single sequential process, no concurrent
writer - the Rust is `exists()` then `File::create`, check-then-act; the other `--lib` arms ignore both flags): the file holds the text, and what is read back has the names, the
root handles and the node table of the exporting run and denotes the same functions — so the
sections printed by the importing run are those of `text_answers_equal` -/
theorem cli_export_then_import (fs : String → Option String) (path : String) (free : (fs path).isNone)
    (a : PAdf) (m : HashMap String Nat) (ml : List (String × Nat)) (cl : List (Node × Nat))
    (hml : ml.Perm m.toList) (hcl : cl.Perm a.bdd.st.uniq.toList) (f : Json.FitsA a ml cl) (wf : WF a.bdd.st)
    (hv : ∀ t ∈ a.ac, t < a.bdd.st.nodes.size) :
    ∃ c r, cliExport fs path (String.ofList (Json.exportText Json.noWs a ml cl)) path = some c ∧
      Json.importFixText c.toList = some r ∧ r.names = a.names ∧ r.ac = a.ac ∧
      r.bdd.st.nodes = a.bdd.st.nodes ∧ SameFns a.bdd.st r.bdd.st a.ac := by
  obtain ⟨r, h, h1, h2, h3, h4⟩ := Json.text_sameFns Json.noWs (fun _ _ h => by simp [Json.noWs] at h)
    a m ml cl hml hcl f wf hv
  exact ⟨_, r, (export_never_overwrites fs path _ "").2.1 free, by rw [String.toList_ofList]; exact h, h1, h2, h3, h4⟩

/-- what else the reader takes, as serde's derived visitors do: the members of the outer struct in
any order, and members with other names skipped (older exports carry `"count_cache":{}`) -/
theorem reader_tolerates (o o' : List (List Char × Json.J)) (k : List Char) (v : Json.J)
    (hp : o.Perm o') (h1 : k ≠ Json.kOrdering) (h2 : k ≠ Json.kBdd) (h3 : k ≠ Json.kAc) :
    Json.dAdf (.obj o) = Json.dAdf (.obj o') ∧ Json.dAdf (.obj ((k, v) :: o)) = Json.dAdf (.obj o) :=
  ⟨Json.dAdf_perm hp, Json.dAdf_unknown k v o h1 h2 h3⟩

/-! non-vacuity at the text level: one statement whose label contains a quote, a backslash, a
newline, a control character, DEL, a two-byte and a four-byte character; condition = the statement
itself (handle 2, an inner node); whitespace between all tokens -/

def nastyLabel : String := String.ofList ['q', '"', '\\', '\n', '\x01', '\x7f', 'é', Char.ofNat 0x1F600]
def nastyAdf : PAdf := { x0Adf with names := [nastyLabel] }
def nastyMap : HashMap String Nat := (∅ : HashMap String Nat).insert nastyLabel 0
def someWs : Nat → List Char := fun i => if i % 2 = 0 then [' ', '\n'] else ['\t', '\r']

theorem someWs_ok : Json.WsOnly someWs := by
  intro i c hc
  unfold someWs at hc
  split at hc <;> simp at hc <;> rcases hc with h | h <;> subst h <;> decide

theorem nasty_fits : Json.FitsA nastyAdf nastyMap.toList nastyAdf.bdd.st.uniq.toList :=
  Json.fitsA_of_wf nastyAdf nastyMap _ _ x0Adf_ok.1 (by simp [nastyAdf, x0Adf, mkNode, Store.init, Json.B64])
    x0Adf_ok.2
    (fun k v h => by
      simp only [nastyMap, HashMap.getElem?_insert, HashMap.getElem?_empty] at h
      split at h <;> simp at h
      subst h; simp [Json.B64])
    (List.Perm.refl _) (List.Perm.refl _)

example :
    ∃ r, Json.importFixText (Json.exportText someWs nastyAdf nastyMap.toList nastyAdf.bdd.st.uniq.toList) = some r ∧
      r.names = [nastyLabel] ∧ r.ac = [2] ∧
      SameAnswers (dec3 (stableAll r.bdd.st 1 [2]).2) (dec3 (stableAll x0Adf.bdd.st 1 [2]).2) :=
  let ⟨r, h, hnm, hac, _, _, hs, _⟩ := text_answers_equal someWs someWs_ok nastyAdf nastyMap _ _
    (List.Perm.refl _) (List.Perm.refl _) nasty_fits x0Adf_ok.1 x0Adf_ok.2
  ⟨r, h, hnm, hac, hs⟩

/-- the lexer on a concrete text (kernel-evaluated): escapes, whitespace, numbers; and rejections
(leading zero, a raw control character in a string, a number that is no `usize`) -/
example :
    Json.lex ['[', ' ', '"', 'a', '\\', 'n', '\\', 'u', '0', '0', 'e', '9', '\\', '"', '"', ',', '\n', '1', '0', ']'] =
      some [.lk, .str ['a', '\n', 'é', '"'], .comma, .num 10, .rk] ∧
    Json.lex ['0', '1'] = none ∧ Json.lex ['"', '\n', '"'] = none ∧
    Json.lex (Json.digits Json.B64) = none := by
  refine ⟨by decide, by decide, by decide, ?_⟩
  rw [decimal_roundtrip]; simp [Json.B64]

/-! ## the CLI with a file system: `--export <path>` / `--import` in the text-level model (`CliM.runTextIO`)

`export_never_overwrites` above speaks about the three-line `cliExport`. `CliM.runTextIO` (CliIO.lean) is
the whole binary - invocation with optional `--export p` / `--import`, text of the input file, a
file-system snapshot (finite map path → content) - returning exit status, stdout and the file system
afterwards; it extends C15's `CliM.runText` (`C15.io_without_options_is_runText`). As `main.rs` has it:
only the naive arm knows the two options; the export happens after the object is built (or imported)
and BEFORE anything is printed; on an existing path - empty file or not - an error is logged, nothing is
written, and the run goes on with exit status 0 and the usual output. -/

/-- **the CLI never overwrites an existing file**: for every invocation (any arm, any flags, with or
without `--export`, `--import`), every input text and every file system, every path that existed
before the run has the same content afterwards; in particular an export onto an existing path -
whatever it holds, nothing included - changes nothing, and exporting twice leaves the first file as it was -/
theorem export_never_overwrites_fs {T : Type} (W : CliM.World T) (fuel : Nat) (io : CliM.InvIO) (ord : CliM.Orders)
    (t : List Char) (fs : CliM.FS) :
    (∀ q c, fs.get q = some c → (CliM.runTextIO W fuel io ord t fs).fs.get q = some c) ∧
    (∀ p, io.exportTo = some p → fs.has p = true → (CliM.runTextIO W fuel io ord t fs).fs = fs) ∧
    (∀ (io2 : CliM.InvIO) (ord2 : CliM.Orders) (t2 : List Char) q c,
      (CliM.runTextIO W fuel io ord t fs).fs.get q = some c →
      (CliM.runTextIO W fuel io2 ord2 t2 (CliM.runTextIO W fuel io ord t fs).fs).fs.get q = some c) := by
  refine ⟨fun q c h => CliM.runTextIO_keeps W fuel io ord t fs q c h, ?_,
    fun io2 ord2 t2 q c h => CliM.runTextIO_keeps W fuel io2 ord2 t2 _ q c h⟩
  intro p he hx
  rcases CliM.runTextIO_fs W fuel io ord t fs with e | ⟨p', _, he', hfree, _⟩
  · exact e
  · rw [he] at he'; cases he'
    unfold CliM.FS.has at hx; rw [hfree] at hx; cases hx

/-- the same with the input file read from the file system (`runFileIO`; a missing input is a panic) -/
theorem export_never_overwrites_file {T : Type} (W : CliM.World T) (fuel : Nat) (io : CliM.InvIO) (ord : CliM.Orders)
    (input : CliM.Path) (fs : CliM.FS) (q : CliM.Path) (c : List Char) (h : fs.get q = some c) :
    (CliM.runFileIO W fuel io ord input fs).fs.get q = some c := by
  unfold CliM.runFileIO
  cases fs.get input with
  | none => exact h
  | some t => exact CliM.runTextIO_keeps W fuel io ord t fs q c h

/-! scope note for the three statements that follow (fourth audit): `ord` is a PARAMETER - the statements hold for
every `ord`; the written text is the text serde_json produces exactly when `ord` lists the two hash maps' entries
(`ValidOrders o ord`, as in `RunsIO` / `export_never_overwrites_rel`). Paths are compared as texts (see `CliIO.lean`).
For `--import` the clauses about a run that panics before the export speak about JSON ERRORS; on an arbitrary JSON
text that parses but is not the export of a well-formed object the Rust `fix_import` can panic where the model goes
on (disclaimed in `CliIO.lean`): the import clauses are claimed for exports of well-formed objects. -/

/-- **a run writes at most one new path, the requested one**: the file system afterwards is the one
before, or the one before plus ONE binding: for the path given with `--export`, which was free, in the
naive arm, holding the compact JSON text of the object the arm built (`Json.print`, the two hash maps in
the orders `ord`); every path afterwards existed before or is the requested one -/
theorem export_writes_only_target {T : Type} (W : CliM.World T) (fuel : Nat) (io : CliM.InvIO) (ord : CliM.Orders)
    (t : List Char) (fs : CliM.FS) :
    let r := CliM.runTextIO W fuel io ord t fs
    (r.fs = fs ∨ ∃ p o, io.exportTo = some p ∧ fs.get p = none ∧ io.inv.mode = .naive ∧ CliM.objOf W io t = some o ∧
      r.refused = false ∧ r.fs = (p, Json.print (CliM.textAdfOf o ord)) :: fs) ∧
    (∀ q ∈ r.fs.paths, q ∈ fs.paths ∨ io.exportTo = some q) ∧
    r.fs.paths.length ≤ fs.paths.length + 1 := by
  intro r
  rcases CliM.runTextIO_fs W fuel io ord t fs with e | ⟨p, o, h1, h2, h3, h4, h5, e⟩
  · exact ⟨Or.inl e, fun q hq => Or.inl (by rw [← e]; exact hq), by show r.fs.paths.length ≤ _; rw [e]; omega⟩
  · refine ⟨Or.inr ⟨p, o, h1, h2, h3, h4, h5, e⟩, ?_, by show r.fs.paths.length ≤ _; rw [e]; simp [CliM.FS.paths]⟩
    intro q hq
    have hq' : q ∈ r.fs.paths := hq
    rw [e] at hq'
    simp only [CliM.FS.paths, List.map_cons, List.mem_cons] at hq'
    rcases hq' with h | h
    · exact Or.inr (by rw [h, h1])
    · exact Or.inl h

/-- when the file IS written, and when the refusal is logged: in the naive arm, once the object is built,
a free path receives the text and an existing one is refused; the other arms ignore the option; a run
that panics before (unparsable text, `from_parser` panic, JSON error) writes nothing -/
theorem export_happens_iff {T : Type} (W : CliM.World T) (fuel : Nat) (io : CliM.InvIO) (ord : CliM.Orders)
    (t : List Char) (fs : CliM.FS) (p : CliM.Path) (he : io.exportTo = some p) :
    (io.inv.mode ≠ .naive → CliM.runTextIO W fuel io ord t fs = ⟨CliM.runText W fuel io.inv t, fs, false⟩) ∧
    (io.inv.mode = .naive → CliM.objOf W io t = none → CliM.runTextIO W fuel io ord t fs = ⟨CliM.rejected, fs, false⟩) ∧
    (∀ o, io.inv.mode = .naive → CliM.objOf W io t = some o →
      (fs.has p = true → CliM.runTextIO W fuel io ord t fs = ⟨CliM.outOn fuel io.inv o, fs, true⟩) ∧
      (fs.has p = false →
        CliM.runTextIO W fuel io ord t fs = ⟨CliM.outOn fuel io.inv o, (p, CliM.exportText o ord) :: fs, false⟩)) :=
  ⟨fun hm => CliM.runTextIO_other W fuel io ord t fs hm,
   fun hm ho => CliM.runTextIO_naive_none W fuel io ord t fs hm ho,
   fun o hm ho => ⟨fun hx => by rw [CliM.runTextIO_naive W fuel io ord t fs hm o ho, CliM.runObjIO_has fuel io ord o fs p he hx],
                   fun hx => by rw [CliM.runTextIO_naive W fuel io ord t fs hm o ho, CliM.runObjIO_free fuel io ord o fs p he hx]⟩⟩

/-- **`--export p` on text `t`, then `--import` on the written file, prints what the direct run prints**
(naive arm; every combination of the section flags, every heuristic, every bound `fuel` on the
nogood-learning search - halted or not; the importing run may carry any sorting flag and a further
`--export`): the exporting run's exit status and stdout are those of the run without `--export`
(`CliM.runText`); if it panics nothing is written; otherwise the free path `p` holds the JSON text of the
object, the importing run builds an object with the same names, conditions and NODE TABLE, computes
the same blocks (same vectors in the same order) and prints the same lines with exit status 0.
Hypotheses on the object: at most 2^64 − 2 statements and 2^64 nodes, `usize` values in `mapping`
(`hml`), `ord.cl` an iteration order of the unique table. -/
theorem export_then_import_prints_same {T : Type} (W : CliM.World T) (han : ∀ ns, (W.anSort ns).Perm ns) (fuel : Nat)
    (i i' : CliM.Inv) (hm : i.mode = .naive) (hm' : i'.mode = .naive) (hf : i'.flags = i.flags) (hh : i'.heu = i.heu)
    (p : CliM.Path) (ord ord' : CliM.Orders) (t : List Char) (fs : CliM.FS) (free : fs.get p = none)
    (e' : Option CliM.Path) :
    let r1 := CliM.runTextIO W fuel ⟨i, some p, false⟩ ord t fs
    r1.out = CliM.runText W fuel i t ∧
    (CliM.parsedObj W i t = none → r1 = ⟨CliM.rejected, fs, false⟩) ∧
    ∀ o, CliM.parsedObj W i t = some o → o.names.length ≤ VBOT → o.store.nodes.size ≤ Json.B64 →
      (∀ kv ∈ ord.ml, kv.2 < Json.B64) → ord.cl.Perm o.store.uniq.toList →
      r1.out.exit = 0 ∧ r1.refused = false ∧ r1.fs = (p, CliM.exportText o ord) :: fs ∧
      (∃ o', CliM.importObj (CliM.exportText o ord) = some o' ∧ o'.names = o.names ∧ o'.ac = o.ac ∧
        o'.store.nodes = o.store.nodes ∧ CliM.blocksOn fuel i' o' = CliM.blocksOn fuel i o) ∧
      (CliM.runFileIO W fuel ⟨i', e', true⟩ ord' p r1.fs).out = CliM.runText W fuel i t := by
  intro r1
  have hplain : r1.out = CliM.runText W fuel i t := CliM.runTextIO_plain W fuel i (some p) ord t fs
  refine ⟨hplain, fun hn => CliM.runTextIO_naive_none W fuel _ ord t fs hm (by simp only [CliM.objOf]; exact hn), ?_⟩
  intro o ho hsz hnodes hml hcl
  have ⟨w, hlen, _, hv⟩ := CliM.parsedObj_ok W han i t o ho hsz
  have fits := CliM.fits_of_ok o ord w hnodes hv hml hcl
  have e1 : r1 = CliM.runObjIO fuel ⟨i, some p, false⟩ ord o fs :=
    CliM.runTextIO_naive W fuel ⟨i, some p, false⟩ ord t fs hm o (by simp only [CliM.objOf]; exact ho)
  have ⟨a, b, c, d, e⟩ := CliM.export_then_import_obj W fuel ⟨i, some p, false⟩ i' hm' hf hh p rfl ord ord' fs free
    o w hlen hv hcl fits e'
  rw [← e1] at a b c e
  exact ⟨by rw [c]; rfl, b, a, d, by rw [e, hplain]⟩

/-! non-vacuity of the export / import theorems: the two-statement object `a ↦ ¬b`, `b ↦ ¬a`
(`C14More.negStore`: four nodes, two stable models), flags `--grd --com --stm --stmng`, a file system
with one other file, export to the free path `x`, the maps in a non-canonical order -/

def ioObj : CliM.NaiveObj :=
  { names := [['a'], ['b']], mapping := HashMap.ofList [("a", 0), ("b", 1)], store := C14More.negStore, ac := [3, 2], n := 2 }
def ioOrd : CliM.Orders := ⟨[("b", 1), ("a", 0)], C14More.negStore.uniq.toList⟩
def ioInv : CliM.Inv := ⟨.naive, { grd := true, com := true, stm := true, stmng := true }, .none, .simple⟩
def ioFs : CliM.FS := [(['n'], ['k', 'e', 'e', 'p'])]

theorem ioObj_fits : Json.Fits (CliM.textAdfOf ioObj ioOrd) :=
  CliM.fits_of_ok ioObj ioOrd C14More.negStore_WF
    (by show C14More.negStore.nodes.size ≤ _; rw [C14More.negStore_nodes]; simp [Json.B64])
    C14More.negAdf_ok.2
    (fun kv h => by
      have : kv = ("b", 1) ∨ kv = ("a", 0) := by simpa [ioOrd] using h
      rcases this with h | h <;> subst h <;> simp [Json.B64])
    (List.Perm.refl _)

example :
    let r1 := CliM.runObjIO 1000 ⟨ioInv, some ['x'], false⟩ ioOrd ioObj ioFs
    r1.fs = [(['x'], CliM.exportText ioObj ioOrd), (['n'], ['k', 'e', 'e', 'p'])] ∧ r1.refused = false ∧
    (CliM.runFileIO CliMP.exW 1000 ⟨{ ioInv with sort := .lx }, none, true⟩ ⟨[], []⟩ ['x'] r1.fs).out = r1.out ∧
    -- a second export onto the now existing path is refused and changes nothing
    (CliM.runObjIO 1000 ⟨ioInv, some ['x'], false⟩ ⟨[], []⟩ ioObj r1.fs).fs = r1.fs ∧
    (CliM.runObjIO 1000 ⟨ioInv, some ['x'], false⟩ ⟨[], []⟩ ioObj r1.fs).refused = true := by
  intro r1
  have h := CliM.export_then_import_obj CliMP.exW 1000 ⟨ioInv, some ['x'], false⟩ { ioInv with sort := .lx } rfl rfl rfl
    ['x'] rfl ioOrd ⟨[], []⟩ ioFs (by decide) ioObj C14More.negStore_WF rfl C14More.negAdf_ok.2 (List.Perm.refl _)
    ioObj_fits none
  have hx : CliM.FS.has r1.fs ['x'] = true := by rw [h.1]; decide
  exact ⟨h.1, h.2.1, h.2.2.2.2, by rw [CliM.runObjIO_has 1000 _ _ ioObj r1.fs ['x'] rfl hx],
    by rw [CliM.runObjIO_has 1000 _ _ ioObj r1.fs ['x'] rfl hx]⟩


/-- the relational form (SOME iteration orders of the object's maps, `CliM.RunsIO`): whatever the orders,
existing files keep their content and at most the requested path is new -/
theorem export_never_overwrites_rel {T : Type} (W : CliM.World T) (fuel : Nat) (io : CliM.InvIO) (t : List Char)
    (fs : CliM.FS) (r : CliM.OutIO) (h : CliM.RunsIO W fuel io t fs r) :
    (∀ q c, fs.get q = some c → r.fs.get q = some c) ∧ (∀ q ∈ r.fs.paths, q ∈ fs.paths ∨ io.exportTo = some q) := by
  obtain ⟨ord, _, rfl⟩ := h
  exact ⟨fun q c hq => (export_never_overwrites_fs W fuel io ord t fs).1 q c hq,
    (export_writes_only_target W fuel io ord t fs).2.1⟩

/-- text-level non-vacuity (kernel-checked part): the text `s(b).s(a).ac(b,neg(a)).ac(a,neg(b)).` with `--lx`
is accepted, the naive arm builds an object `o` from it (names sorted: a, b) and the hypotheses of
`export_then_import_prints_same` on the number of statements and on `ord` hold for
`ord = ⟨[("b",1),("a",0)], o.store.uniq.toList⟩`; the remaining one, `o.store.nodes.size ≤ 2^64`, is an
evaluator check below (hash maps do not reduce in the kernel; the node table has 6 entries) -/
example : ∃ o, CliM.parsedObj CliMP.exW { ioInv with sort := .lx } CliMP.exText = some o ∧ o.names = [['a'], ['b']] ∧
    o.names.length ≤ VBOT ∧ (∀ kv ∈ ioOrd.ml, kv.2 < Json.B64) ∧
    (o.store.uniq.toList).Perm o.store.uniq.toList := by
  have hp : CliM.parsed CliMP.exW { ioInv with sort := .lx } CliMP.exText =
      some (CliM.sortState CliMP.exW.anSort .lx (ParserM.PState.ofFacts CliMP.exFacts)) :=
    CliMP.parsed_of_der CliMP.exW { ioInv with sort := .lx } CliMP.exText CliMP.exFacts CliMP.exText_der (by decide)
  obtain ⟨fs, _, hder, pres⟩ := CliMP.parsed_pres CliMP.exW (fun _ => List.Perm.refl _) _ _ _ hp
  have hfs : fs = CliMP.exFacts := hder.unique CliMP.exText_der
  subst hfs
  have hnames : CliMP.sortedNames CliMP.exW.anSort .lx (ParserM.namesOf CliMP.exFacts) = [['a'], ['b']] := by decide
  rw [show ({ ioInv with sort := .lx } : CliM.Inv).sort = .lx from rfl, hnames] at pres
  obtain ⟨_, s, ac, _, hfp, _⟩ := CliMP.items_facts pres (by unfold CliMP.WfOn; decide) (by simp [VBOT])
  have ho : ∃ o, CliM.parsedObj CliMP.exW { ioInv with sort := .lx } CliMP.exText = some o ∧
      o.names = (CliM.sortState CliMP.exW.anSort .lx (ParserM.PState.ofFacts CliMP.exFacts)).namelist := by
    unfold CliM.parsedObj
    rw [hp]
    simp only
    rw [hfp]
    exact ⟨_, rfl, rfl⟩
  obtain ⟨o, ho, hn⟩ := ho
  rw [pres.nl] at hn
  refine ⟨o, ho, hn, by rw [hn]; simp [VBOT], ?_, List.Perm.refl _⟩
  intro kv h
  have : kv = ("b", 1) ∨ kv = ("a", 0) := by simpa [ioOrd] using h
  rcases this with h | h <;> subst h <;> simp [Json.B64]

#guard ((CliM.parsedObj CliMP.exW { ioInv with sort := .lx } CliMP.exText).map fun o => o.store.nodes.size) == some 6
-- the text-level statement executed: export, import of the written text, same output; 6 lines
#guard
  let cl := ((CliM.parsedObj CliMP.exW { ioInv with sort := .lx } CliMP.exText).map fun o => o.store.uniq.toList).getD []
  let r1 := CliM.runTextIO CliMP.exW 1000 ⟨{ ioInv with sort := .lx }, some ['x'], false⟩ ⟨ioOrd.ml, cl.reverse⟩ CliMP.exText ioFs
  let r2 := CliM.runFileIO CliMP.exW 1000 ⟨ioInv, none, true⟩ ⟨[], []⟩ ['x'] r1.fs
  r1.out.exit == 0 && r1.out.stdout.length == 8 && r2.out == r1.out && r1.fs.map (·.1) == [['x'], ['n']] &&
  r1.out == CliM.runText CliMP.exW 1000 { ioInv with sort := .lx } CliMP.exText
/-! third review (audit L1): the reader at the TEXT level, kernel-checked (was `#guard` only) -/
section ThirdReview
open Json

/-- text level: members in another order, an unknown member (`"x":[]`), inner structs as arrays -/
example : Json.parse "{\"x\":[],\"ac\":[2],\"bdd\":[[],[]],\"ordering\":{\"mapping\":{},\"names\":[\"a\"]}}".toList
    = some ⟨["a"], [], [], [], [2]⟩ := by decide +kernel
/-- a repeated known member is rejected; a missing one too -/
example : Json.parse "{\"ac\":[],\"ac\":[],\"bdd\":[[],[]],\"ordering\":[[],{}]}".toList = none ∧
    Json.parse "{\"bdd\":[[],[]],\"ordering\":[[],{}]}".toList = none := by decide +kernel

end ThirdReview

end C14

#print axioms C14.future_ops_same_handles
#print axioms C14.future_ops_same_handles_roundtrips
#print axioms C14.complete_after_roundtrip
#print axioms C14.stable_after_roundtrip
#print axioms C14.count_search_after_roundtrip
#print axioms C14.nogood_search_after_roundtrip
#print axioms C14.simplified_roundtrip_decimal
#print axioms C14.decimal_roundtrip
#print axioms C14.string_roundtrip
#print axioms C14.text_roundtrip
#print axioms C14.text_import_fix
#print axioms C14.text_future_ops_same_handles
#print axioms C14.text_answers_equal
#print axioms C14.cli_export_then_import
#print axioms C14.reader_tolerates
#print axioms C14.export_never_overwrites_fs
#print axioms C14.export_never_overwrites_file
#print axioms C14.export_writes_only_target
#print axioms C14.export_happens_iff
#print axioms C14.export_then_import_prints_same
#print axioms C14.export_never_overwrites_rel
