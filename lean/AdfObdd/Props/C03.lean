import AdfObdd.Stable
import AdfObdd.PreGround3
import AdfObdd.AdfModel
import AdfObdd.StableExact
import AdfObdd.OpsProofs
import AdfObdd.BioProofs
import AdfObdd.HybridExample
import AdfObdd.HybridCli
/-! # C03 — enumerate-and-check stable semantics

The code's test for a two-valued candidate `v`: restrict every condition by `v`'s false statements
(the reduct), compute the grounded interpretation of the result, compare information values at
ALL positions. The definition: `v` is a two-valued model whose TRUE statements are re-derived. -/
namespace C03

/-- the code's test and the definition coincide, for every total candidate -/
theorem check_iff_stable (D : List BoolFn) (v w : I3) (hlen : v.length = D.length) (ht : TotalI v)
    (hw : IsLfp (redu D v) w) :
    w = v ↔ (Gam D v = v ∧ ∀ (i : Nat), v[i]? = some (some true) → w[i]? = some (some true)) :=
  stable_check_iff D v w hlen ht hw

/-- hybrid with pre-grounding: for a total `v` above the grounded interpretation the reduct of the
pre-grounded conditions has the same least fixpoint, so the same candidates pass -/
theorem pregrounded_same_reduct_lfp (D : List BoolFn) (g v L : I3) (hg : IsLfp D g) (hgv : Le3 g v) :
    IsLfp (redu (pre D g) v) L ↔ IsLfp (redu D v) L := pre_reduct_lfp_iff D g v L hg hgv

/-- on a total candidate the reduct's operator agrees with Γ (used for the pre-filter: a stable
model passes "is a two-valued model", so the pre-filter rejects no stable model) -/
theorem reduct_agrees_on_total (D : List BoolFn) (v : I3) : Gam (redu D v) v = Gam D v := Gam_redu_total D v

/-- full statement about the concrete `stableAll` (the function the driver runs): read as
interpretations the answers contain no duplicate and are exactly the stable models — total, a
model, and every true statement is true in the least fixpoint of the reduct -/
def stable_exact_statement : Prop :=
  ∀ (s : Store) (n : Nat) (ac : List Nat), WF s → ac.length = n → (∀ t ∈ ac, t < s.nodes.size) →
    let D := ac.map (eval s)
    let out := (stableAll s n ac).2.map (fun v => v.map storeIsConst)
    out.Nodup ∧ ∀ v : I3, v ∈ out ↔
      (v.length = n ∧ TotalI v ∧ Gam D v = v ∧
        ∀ w : I3, IsLfp (redu D v) w → ∀ i : Nat, v[i]? = some (some true) → w[i]? = some (some true))

/-- the same statement for any enumeration function (used for `stable_with_prefilter`) -/
def stable_exact_for (f : Store → Nat → List Nat → Store × List (List Nat)) : Prop :=
  ∀ (s : Store) (n : Nat) (ac : List Nat), WF s → ac.length = n → (∀ t ∈ ac, t < s.nodes.size) →
    let D := ac.map (eval s)
    let out := (f s n ac).2.map (fun v => v.map storeIsConst)
    out.Nodup ∧ ∀ v : I3, v ∈ out ↔
      (v.length = n ∧ TotalI v ∧ Gam D v = v ∧
        ∀ w : I3, IsLfp (redu D v) w → ∀ i : Nat, v[i]? = some (some true) → w[i]? = some (some true))

/-- `restrictFalse` / `mapFalse` compute the reduct: well-formedness kept, the store only extended,
the new handles denote the conditions with the candidate's false statements replaced by ⊥ -/
theorem mapFalse_is_reduct (s : Store) (cand ac : List Nat) (hw : WF s) (hv : ∀ t ∈ ac, t < s.nodes.size) :
    WF (mapFalse s cand ac).1 ∧ Ext s (mapFalse s cand ac).1 ∧
    (∀ t ∈ (mapFalse s cand ac).2, t < (mapFalse s cand ac).1.nodes.size) ∧
    (mapFalse s cand ac).2.map (eval (mapFalse s cand ac).1) =
      redu (ac.map (eval s)) (cand.map storeIsConst) :=
  StableExact.mapFalse_spec cand ac s hw hv

/-- the code's test on one total candidate, started in any well-formed store, decides the
definition (reduct by `mapFalse`, its least fixpoint by `groundedLoop`, comparison at all positions) -/
theorem test_decides_stability (s : Store) (n : Nat) (ac cand : List Nat) (hw : WF s) (hn : ac.length = n)
    (hv : ∀ t ∈ ac, t < s.nodes.size) (hcl : cand.length = n)
    (hct : ∀ i, i < cand.length → cand.getD i 0 < 2) :
    let red := mapFalse s cand ac
    let grd := groundedLoop StoreRA (n + 1) red.1 red.2
    WF grd.1 ∧ Ext s grd.1 ∧
    ((cand.zip grd.2).all (fun (a, b) => sameInfo a b) = true ↔
      StableExact.StableI (ac.map (eval s)) (cand.map storeIsConst)) :=
  StableExact.stable_test_spec s n ac cand hw hn hv hcl hct

/-- proved: the loop of `Adf::stable` is the filter of C20's two-valued enumeration of the grounded
vector by the definition; completeness because every stable model is a total fixpoint, hence above
the grounded interpretation (C01), hence the decided part of a completion of the grounded vector -/
theorem stable_exact : stable_exact_statement := by
  intro s n ac hw hn hv
  have ⟨_, e⟩ := StableExact.stableAll_filter s n ac hw hn hv
  have := StableExact.answers_exact s n ac hw hn hv _ (StableExact.verdict_iff (ac.map (eval s)))
  simp only [e]
  exact this

/-- proved: `stable_with_prefilter` gives the same answers in the same order — the pre-filter
("is a two-valued model", the filter of C02 on the candidate) rejects no stable model -/
theorem stablepre_exact : stable_exact_for Cli.stablePre := by
  intro s n ac hw hn hv
  have ⟨_, e⟩ := StableExact.stablePre_filter s n ac hw hn hv
  have := StableExact.answers_exact s n ac hw hn hv _ (StableExact.verdict_iff (ac.map (eval s)))
  simp only [e]
  exact this

/-- the two variants emit the same list (same vectors, same order) -/
theorem stablepre_same_answers (s : Store) (n : Nat) (ac : List Nat) (hw : WF s) (hn : ac.length = n)
    (hv : ∀ t ∈ ac, t < s.nodes.size) : (Cli.stablePre s n ac).2 = (stableAll s n ac).2 := by
  rw [(StableExact.stablePre_filter s n ac hw hn hv).2, (StableExact.stableAll_filter s n ac hw hn hv).2]

/-- both loops only extend the store and keep it well formed -/
theorem stable_store (s : Store) (n : Nat) (ac : List Nat) (hw : WF s) (hn : ac.length = n)
    (hv : ∀ t ∈ ac, t < s.nodes.size) :
    (WF (stableAll s n ac).1 ∧ Ext s (stableAll s n ac).1) ∧
    (WF (Cli.stablePre s n ac).1 ∧ Ext s (Cli.stablePre s n ac).1) :=
  ⟨(StableExact.stableAll_filter s n ac hw hn hv).1, (StableExact.stablePre_filter s n ac hw hn hv).1⟩

example : TotalI [some true, some false] := by
  intro i hi
  have : i = 0 ∨ i = 1 := by simp at hi; omega
  rcases this with h | h <;> subst h <;> simp

/-! non-vacuity: the hypotheses of `stable_exact` are satisfiable and its conclusion is neither
always true nor always false — one statement with condition ⊤ on the initial store: `T` is an
answer, `F` is not -/
example : [some true] ∈ (stableAll Store.init 1 [1]).2.map (fun v => v.map storeIsConst) := by
  refine ((stable_exact Store.init 1 [1] WF_init rfl (by simp [Store.init])).2 [some true]).mpr
    ⟨rfl, ?_, by simp [Gam, constOf_some, eval_one], ?_⟩
  · intro i hi
    have : i = 0 := by simp at hi; omega
    subst this; exact ⟨true, rfl⟩
  · intro w hw i hi
    have h0 : i = 0 := by
      rcases Nat.lt_or_ge i 1 with h | h
      · omega
      · rw [List.getElem?_eq_none (by simpa using h)] at hi; cases hi
    subst h0
    have e : Gam (redu (List.map (eval Store.init) [1]) [some true]) w = [some true] := by
      simp [Gam, redu, constOf_some, eval_one]
    rw [← hw.1, e]; rfl

example : [some false] ∉ (stableAll Store.init 1 [1]).2.map (fun v => v.map storeIsConst) := by
  intro h
  have := (((stable_exact Store.init 1 [1] WF_init rfl (by simp [Store.init])).2 [some false]).mp h).2.2.1
  have e : Gam (List.map (eval Store.init) [1]) [some false] = [some true] := by
    simp [Gam, constOf_some, eval_one]
  rw [e] at this; cases this

end C03

/-! ## the biodivine back-end (`adfbiodivine.rs`) and both single-formula rewriting variants -/
namespace C03
open Bio (BExpr)

/-- the definition used throughout C03, as one predicate (`StableExact.StableI` unfolded). The quantifier
`∀ w, IsLfp (redu D v) w → …` is not vacuous: every list of conditions has a least fixpoint
(`C01.grounded_biodivine_model_is_lfp`), unique by `C01.grounded_unique`. -/
def Stable (D : List BoolFn) (v : I3) : Prop :=
  TotalI v ∧ Gam D v = v ∧
    ∀ w : I3, IsLfp (redu D v) w → ∀ i : Nat, v[i]? = some (some true) → w[i]? = some (some true)

/-- `Adf::stable` of the SECOND back-end (model: `Bio.bioStable` — the two-valued iterator over
`grounded_internal(&self.ac)`, filtered by "`grounded_internal` of the conditions restricted by the
candidate's FALSE statements has the candidate's information values at all positions").

ASSUMPTION ABOUT THE EXTERNAL LIBRARY (`biodivine_lib_bdd`, not modelled): `W : Bio.Lawful L n`,
see `C02.biodivine_complete_exact`. For every lawful library and valid conditions the answers,
read as interpretations, contain no duplicate and are exactly the stable models; in particular
the answer is `[]` when there is none. -/
theorem biodivine_stable_exact {T : Type} (L : Bio.Lib T) (n : Nat) (W : Bio.Lawful L n)
    (ac : List T) (hv : ∀ a ∈ ac, W.Valid a) (hn : ac.length = n) :
    let D := ac.map W.den
    let out := (Bio.bioStable L ac).map (fun v => v.map storeIsConst)
    out.Nodup ∧ (∀ v : I3, v ∈ out ↔ (v.length = n ∧ Stable D v)) ∧
    ((∀ v : I3, ¬ (v.length = n ∧ Stable D v)) → Bio.bioStable L ac = []) := by
  have h := Bio.bioStable_exact W ac hv hn
  exact ⟨h.1, h.2, fun hnone => Bio.nil_of_none _ _ _ h.2 hnone⟩

/-- `Adf::stable_bdd_representation` of the biodivine back-end (model: `Bio.bioStableRep`): the
candidates are the `sat_valuations` of ONE diagram — the rewriting prepared at construction if
there is one (`rw = some r`), else `stable_representation()` = `⋀ᵢ (acᵢ ↔ xᵢ)` — filtered by the
same reduct test as `stable`.

ASSUMPTION ABOUT THE EXTERNAL LIBRARY: `W : Bio.Lawful L n`; the clause used here in addition to
C02's is `sat_spec`: `sat_valuations` yields every satisfying total valuation of the `n` declared
variables exactly once, in any order (the theorem for an explicit candidate list with exactly
this hypothesis: `Bio.stableFilter_of_candidates`).

`Bio.GoodRewrite W ac rw`: nothing for `rw = none`; for `rw = some r`, `r` is a diagram of the
variable set that is true at every two-valued model of the conditions. Then: no duplicate, exactly
the stable models, `[]` when there is none. -/
theorem biodivine_rewriting_exact {T : Type} (L : Bio.Lib T) (n : Nat) (W : Bio.Lawful L n)
    (rw : Option T) (ac : List T) (hv : ∀ a ∈ ac, W.Valid a) (hn : ac.length = n)
    (hg : Bio.GoodRewrite W ac rw) :
    let D := ac.map W.den
    let out := (Bio.bioStableRep L rw ac).map (fun v => v.map storeIsConst)
    out.Nodup ∧ (∀ v : I3, v ∈ out ↔ (v.length = n ∧ Stable D v)) ∧
    ((∀ v : I3, ¬ (v.length = n ∧ Stable D v)) → Bio.bioStableRep L rw ac = []) := by
  have h := Bio.bioStableRep_exact W rw ac hv hn hg
  exact ⟨h.1, h.2, fun hnone => Bio.nil_of_none _ _ _ h.2 hnone⟩

/-- variant 1, `from_parser` + `stable_bdd_representation()`: the formula is built on demand from
the conditions; no further hypothesis -/
theorem biodivine_rewriting_on_demand_exact {T : Type} (L : Bio.Lib T) (n : Nat) (W : Bio.Lawful L n)
    (ac : List T) (hv : ∀ a ∈ ac, W.Valid a) (hn : ac.length = n) :
    let D := ac.map W.den
    let out := (Bio.bioStableRep L none ac).map (fun v => v.map storeIsConst)
    out.Nodup ∧ (∀ v : I3, v ∈ out ↔ (v.length = n ∧ Stable D v)) ∧
    ((∀ v : I3, ¬ (v.length = n ∧ Stable D v)) → Bio.bioStableRep L none ac = []) :=
  biodivine_rewriting_exact L n W none ac hv hn trivial

/-- variant 2, `from_parser_with_stm_rewrite`: `n` declared statements, `order` =
`formula_order()`, `fs` = the conditions in file order (closed: they mention declared statements
only), the object's conditions are `Bio.acOf` (= `from_parser`), its rewriting `Bio.stmRewriting`
(one equivalence per condition OF THE FILE). Hypothesis: NO STATEMENT HAS TWO CONDITIONS
(`order.Nodup`) — without it the theorem is false, see `prepared_rewriting_duplicate_counterexample`.
A statement without condition is allowed (its condition is `mk_false`, the formula does not
constrain it, the reduct test rejects the extra candidates). -/
theorem biodivine_rewriting_prepared_exact {T : Type} (L : Bio.Lib T) (n : Nat) (W : Bio.Lawful L n)
    (order : List Nat) (fs : List BExpr) (hf : ∀ φ ∈ fs, φ.closed n = true) (ho : ∀ o ∈ order, o < n)
    (hl : order.length = fs.length) (hnd : order.Nodup) :
    let ac := Bio.acOf L n order fs
    let D := ac.map W.den
    let out := (Bio.bioStableRep L (some (Bio.stmRewriting L order fs)) ac).map (fun v => v.map storeIsConst)
    out.Nodup ∧ (∀ v : I3, v ∈ out ↔ (v.length = n ∧ Stable D v)) ∧
    ((∀ v : I3, ¬ (v.length = n ∧ Stable D v)) →
      Bio.bioStableRep L (some (Bio.stmRewriting L order fs)) ac = []) := by
  have ⟨a, b, _⟩ := Bio.acOf_spec W n order fs hf
  exact biodivine_rewriting_exact L n W _ _ b a (Bio.stmRewriting_good W order fs hf ho hnd hl)

/-- when every statement has EXACTLY one condition the two constructions — `stm_rewriting` over the
parser's formulas in file order, `stable_representation()` folded over `ac` in statement order —
denote the same Boolean function (so they have the same candidates) -/
theorem rewritings_same_function {T : Type} (L : Bio.Lib T) (n : Nat) (W : Bio.Lawful L n)
    (order : List Nat) (fs : List BExpr) (hf : ∀ φ ∈ fs, φ.closed n = true)
    (h1 : Bio.ExactlyOne n order) (hl : order.length = fs.length) :
    W.den (Bio.stmRewriting L order fs) = W.den (Bio.stableRepresentation L (Bio.acOf L n order fs)) :=
  Bio.rewritings_same_function W n order fs (Nat.le_refl n) hf h1 hl

/-- `Adf::stable_bdd_representation(&mut self, biodivine)` of the NATIVE back-end (`adf.rs`; model:
`Bio.nativeStableRep`): candidates from the biodivine object (`stable_model_candidates`, either
rewriting), reduct / grounding / comparison on the own store.

ASSUMPTION ABOUT THE EXTERNAL LIBRARY: `W : Bio.Lawful L n` as above (only the candidate
generation uses the library). `hsame`: the biodivine object is the one the native object was
instantiated from — position by position the same Boolean functions. Then the loop keeps the store
well formed, only extends it, and the answers are exactly the stable models, each once.
NOTE: `hsame` is FALSE for the pairing the CLI's hybrid arm runs (pre-grounded native object, candidates
from the un-grounded biodivine object: `hsame_fails_for_the_cli_pairing`); the theorem for that pairing
is `native_rewriting_on_hybrid` below. This one covers a native object and a biodivine object built
from the same conditions (`Adf::from_biodivine`, i.e. `hybrid_step_opt(false)`, or two `from_parser`s). -/
theorem native_rewriting_exact {T : Type} (L : Bio.Lib T) (n : Nat) (W : Bio.Lawful L n)
    (s : Store) (ac : List Nat) (hw : WF s) (hn : ac.length = n) (hvs : ∀ t ∈ ac, t < s.nodes.size)
    (rw : Option T) (acB : List T) (hv : ∀ a ∈ acB, W.Valid a) (hnB : acB.length = n)
    (hsame : acB.map W.den = ac.map (eval s)) (hg : Bio.GoodRewrite W acB rw) :
    let D := ac.map (eval s)
    let r := Bio.nativeStableRep s n ac (Bio.stableModelCandidates L rw acB)
    let out := r.2.map (fun v => v.map storeIsConst)
    (WF r.1 ∧ Ext s r.1) ∧ out.Nodup ∧ (∀ v : I3, v ∈ out ↔ (v.length = n ∧ Stable D v)) ∧
    ((∀ v : I3, ¬ (v.length = n ∧ Stable D v)) → r.2 = []) := by
  have h := Bio.nativeStableRep_exact W s ac hw hn hvs rw acB hv hnB hsame hg
  exact ⟨h.1, h.2.1, h.2.2, fun hnone => Bio.nil_of_none _ _ _ h.2.2 hnone⟩

/-! ### non-vacuity on the computable truth-table library (`Bio.ttLib`, lawful: `Bio.ttLawful`)

Three statements, facts in the order `ac(c, and(a, neg(b))). ac(a, neg(b)). ac(b, neg(a)).`
(`formula_order = [2, 0, 1]`); stable models `{a, c}` and `{b}`. -/
def exOrder : List Nat := [2, 0, 1]
def exFs : List BExpr := [.and (.var 0) (.not (.var 1)), .not (.var 1), .not (.var 0)]

example : Bio.acOf (Bio.ttLib 3) 3 exOrder exFs = [51, 85, 34] := by decide

example : (Bio.bioStable (Bio.ttLib 3) [51, 85, 34]).map Bio.toI3 =
    [[some false, some true, some false], [some true, some false, some true]] := by decide
example : (Bio.bioStableRep (Bio.ttLib 3) none [51, 85, 34]).map Bio.toI3 =
    [[some false, some true, some false], [some true, some false, some true]] := by decide
example : (Bio.bioStableRep (Bio.ttLib 3) (some (Bio.stmRewriting (Bio.ttLib 3) exOrder exFs))
      (Bio.acOf (Bio.ttLib 3) 3 exOrder exFs)).map Bio.toI3 =
    [[some false, some true, some false], [some true, some false, some true]] := by decide

theorem exValid : ∀ a ∈ [51, 85, 34], (Bio.ttLawful 3).Valid a := by
  intro a ha
  apply Bio.ttValid_of_lt
  have : a = 51 ∨ a = 85 ∨ a = 34 := by simpa using ha
  rcases this with h | h | h <;> subst h <;> decide

/-- the hypotheses of `biodivine_stable_exact` hold for it and the theorem turns the computed
membership into the definition … -/
example : Stable ([51, 85, 34].map (Bio.ttDen 3)) [some true, some false, some true] :=
  (((biodivine_stable_exact (Bio.ttLib 3) 3 (Bio.ttLawful 3) [51, 85, 34] exValid rfl).2.1 _).mp
    (by decide)).2
/-- … and back: a non-answer is not stable -/
example : ¬ Stable ([51, 85, 34].map (Bio.ttDen 3)) [some true, some false, some false] := by
  intro h
  have := ((biodivine_stable_exact (Bio.ttLib 3) 3 (Bio.ttLawful 3) [51, 85, 34] exValid rfl).2.1
    [some true, some false, some false]).mpr ⟨rfl, h⟩
  revert this
  decide

/-- the same through the prepared rewriting: its hypotheses hold for the written example -/
example : Stable ((Bio.acOf (Bio.ttLib 3) 3 exOrder exFs).map (Bio.ttDen 3)) [some false, some true, some false] :=
  (((biodivine_rewriting_prepared_exact (Bio.ttLib 3) 3 (Bio.ttLawful 3) exOrder exFs (by decide)
    (by decide) rfl (by decide)).2.1 _).mp (by decide)).2

/-- `Bio.ExactlyOne` is satisfiable: the two rewritings of the example are the same function -/
example : (Bio.ttLawful 3).den (Bio.stmRewriting (Bio.ttLib 3) exOrder exFs) =
    (Bio.ttLawful 3).den (Bio.stableRepresentation (Bio.ttLib 3) (Bio.acOf (Bio.ttLib 3) 3 exOrder exFs)) :=
  rewritings_same_function (Bio.ttLib 3) 3 (Bio.ttLawful 3) exOrder exFs (by decide)
    ⟨by decide, by decide, by decide⟩ rfl

/-- the native variant on the initial store: one statement with condition ⊤, candidates from the
truth-table library; hypotheses satisfiable, the answer is `T` -/
example : (Bio.nativeStableRep Store.init 1 [1] (Bio.stableModelCandidates (Bio.ttLib 1) none [3])).2 = [[1]] := by
  decide
example : Stable ([1].map (eval Store.init)) [some true] := by
  have hsame : [3].map (Bio.ttLawful 1).den = [1].map (eval Store.init) := by
    have e : (Bio.ttLawful 1).den 3 = (fun _ => true) :=
      funext ((Bio.tt_isTrue 1 3 (Bio.ttValid_of_lt (by decide))).mp (by decide))
    have e2 : eval Store.init 1 = (fun _ => true) := funext (fun σ => eval_one _ σ)
    simp [e, e2]
  have h := native_rewriting_exact (Bio.ttLib 1) 1 (Bio.ttLawful 1) Store.init [1] WF_init rfl
    (by simp [Store.init]) none [3]
    (fun a ha => Bio.ttValid_of_lt (by have : a = 3 := by simpa using ha
                                       subst this; decide)) rfl hsame trivial
  exact ((h.2.2.1 [some true]).mp (by decide)).2

/-- COUNTEREXAMPLE to the prepared variant without `order.Nodup`: the file
`s(a). ac(a, c(f)). ac(a, c(v)).` gives statement `a` two conditions. `from_parser` keeps the last
one (`⊤`: the only stable model makes `a` true, `stable` finds it), `stm_rewriting` conjoins BOTH
equivalences (`(a ↔ ⊥) ∧ (a ↔ ⊤)`, unsatisfiable): no candidate, the stable model is lost. -/
theorem prepared_rewriting_duplicate_counterexample :
    let L := Bio.ttLib 1
    let ac := Bio.acOf L 1 [0, 0] [.const false, .const true]
    (Bio.bioStable L ac).map Bio.toI3 = [[some true]] ∧
    (Bio.bioStableRep L none ac).map Bio.toI3 = [[some true]] ∧
    Bio.bioStableRep L (some (Bio.stmRewriting L [0, 0] [.const false, .const true])) ac = [] := by
  decide

end C03

namespace C03

-- (`buildNative_fns`, the list form of `buildNative_correct`, now lives in `AdfObdd/HybridParser.lean`)

/-- **the oracle beyond truth-table size** (see `C02.complete_exact_from_formulas`): the stable
enumeration of the model on the freshly compiled store lists exactly the stable models of the
WRITTEN formulas, for frameworks of any size -/
theorem stable_exact_from_formulas (fms : List Fm) (hn : fms.length ≤ VBOT) (hv : ∀ f ∈ fms, f.atomsOK) :
    let b := buildNative fms.length fms
    let D := fms.map Fm.sem
    let out := (stableAll b.1 fms.length b.2).2.map (fun v => v.map storeIsConst)
    out.Nodup ∧ ∀ v : I3, v ∈ out ↔
      (v.length = fms.length ∧ TotalI v ∧ Gam D v = v ∧
        ∀ w : I3, IsLfp (redu D v) w → ∀ i : Nat, v[i]? = some (some true) → w[i]? = some (some true)) := by
  obtain ⟨w, hl, hlt, hf⟩ := buildNative_fns fms hn hv
  have h := stable_exact (buildNative fms.length fms).1 fms.length (buildNative fms.length fms).2 w hl hlt
  simp only at h
  rw [hf] at h
  exact h

/-- native example with TWO statements and TWO stable models: `s(a). s(b). ac(a,neg(b)). ac(b,neg(a)).`
compiled by the `from_parser` model; `stableAll` on the compiled store returns exactly `T F` and `F T`
(through `stable_exact_from_formulas`; stability by evaluation on the truth-table library) -/
example :
    let b := buildNative 2 Bio.exMutual
    let out := (stableAll b.1 2 b.2).2.map (fun v => v.map storeIsConst)
    [some true, some false] ∈ out ∧ [some false, some true] ∈ out ∧
    [some true, some true] ∉ out ∧ [some false, some false] ∉ out ∧ out.Nodup := by
  have h := stable_exact_from_formulas Bio.exMutual (by simp [Bio.exMutual, VBOT])
    (fun f hf => NConc.atomsOK_of_lt (by simp [Bio.exMutual, VBOT]) f (Bio.exMutual_ok f hf))
  have t := Bio.tt_stable Bio.exMutual Bio.exMutual_ok
  have key : ∀ v : I3, v ∈ (stableAll (buildNative 2 Bio.exMutual).1 2 (buildNative 2 Bio.exMutual).2).2.map
      (fun v => v.map storeIsConst) ↔
      v ∈ (Bio.bioStable (Bio.ttLib 2) (Bio.fromFormulas (Bio.ttLib 2) Bio.exMutual)).map (fun v => v.map storeIsConst) :=
    fun v => (h.2 v).trans (t v).symm
  refine ⟨(key _).mpr (by decide), (key _).mpr (by decide), fun hin => ?_, fun hin => ?_, h.1⟩
  · have := (key _).mp hin; revert this; decide
  · have := (key _).mp hin; revert this; decide

/-- **`hsame` derived.** `native_rewriting_exact` for a native object and a biodivine object instantiated
from ONE written framework (`fms`: one condition per statement, declaration order, every atom a statement;
native `from_parser` model `buildNative`, biodivine `from_parser` model `Bio.fromFormulas` =
`eval_expression ∘ to_boolean_expr`; `prepared` chooses `from_parser_with_stm_rewrite`): no hypothesis
about the two objects is left, and the answers are the stable models of the WRITTEN conditions -/
theorem native_rewriting_exact_from_formulas {T : Type} (L : Bio.Lib T) (fms : List Fm)
    (W : Bio.Lawful L fms.length) (hn : fms.length ≤ VBOT)
    (hv : ∀ f ∈ fms, NConc.atomsLt fms.length f) (prepared : Bool) :
    let b := buildNative fms.length fms
    let rw := if prepared then some (Bio.rewritingOfFormulas L fms) else none
    let r := Bio.nativeStableRep b.1 fms.length b.2 (Bio.stableModelCandidates L rw (Bio.fromFormulas L fms))
    let out := r.2.map (fun v => v.map storeIsConst)
    (WF r.1 ∧ Ext b.1 r.1) ∧ out.Nodup ∧
    (∀ v : I3, v ∈ out ↔ (v.length = fms.length ∧ Stable (fms.map Fm.sem) v)) ∧
    ((∀ v : I3, ¬ (v.length = fms.length ∧ Stable (fms.map Fm.sem) v)) → r.2 = []) := by
  intro b rw
  have hok : ∀ f ∈ fms, f.atomsOK := fun f hf => NConc.atomsOK_of_lt hn f (hv f hf)
  obtain ⟨w, hl, hlt, hf⟩ := buildNative_fns fms hn hok
  obtain ⟨a1, a2, _, _⟩ := Bio.fromFormulas_spec fms W hv
  have hg : Bio.GoodRewrite W (Bio.fromFormulas L fms) rw := by
    cases prepared with
    | false => exact trivial
    | true => exact Bio.rewritingOfFormulas_good fms W hv
  have h := native_rewriting_exact L fms.length W b.1 b.2 w hl hlt rw (Bio.fromFormulas L fms) a2 a1
    (Bio.native_bio_same_functions fms W hn hv) hg
  simp only at h
  rw [hf] at h
  exact h

/-- non-vacuity: the mutual attack, candidates from the truth-table library, both rewriting variants -/
example (prepared : Bool) :
    let b := buildNative 2 Bio.exMutual
    let rw := if prepared then some (Bio.rewritingOfFormulas (Bio.ttLib 2) Bio.exMutual) else none
    let r := Bio.nativeStableRep b.1 2 b.2
      (Bio.stableModelCandidates (Bio.ttLib 2) rw (Bio.fromFormulas (Bio.ttLib 2) Bio.exMutual))
    [some true, some false] ∈ r.2.map (fun v => v.map storeIsConst) ∧
    [some true, some true] ∉ r.2.map (fun v => v.map storeIsConst) := by
  have h := native_rewriting_exact_from_formulas (Bio.ttLib 2) Bio.exMutual (Bio.ttLawful 2)
    (by simp [Bio.exMutual, VBOT]) Bio.exMutual_ok prepared
  have t := Bio.tt_stable Bio.exMutual Bio.exMutual_ok
  refine ⟨(h.2.2.1 _).mpr ((t _).mp (by decide)), fun hin => ?_⟩
  have := (t _).mpr ((h.2.2.1 _).mp hin)
  revert this; decide

end C03

/-! ## the hybrid back-end (`hybrid_step_opt` + native stable searches) end to end -/
namespace C03

/-- **hybrid back-end, end to end** (`Adf::stable` and `Adf::stable_with_prefilter` on the native object
built by `hybrid_step_opt(opt)`, model `Bio.hybridStep`): without duplicates exactly the stable models of
the ORIGINAL conditions `ac.map W.den`, both variants the same list, both values of the flag.
Assumptions about the external crate: `W`, `hd` (see `C01.hybrid_grounded_is_lfp`). -/
theorem hybrid_stable_exact {T : Type} (L : Bio.Lib T) (n : Nat) (W : Bio.Lawful L n)
    (dump : T → List Node) (hd : Bio.DumpSpec W dump) (opt : Bool)
    (ac : List T) (hv : ∀ a ∈ ac, W.Valid a) (hn : ac.length = n) :
    let r := Bio.hybridStep L dump opt ac
    let out := (stableAll r.1 n r.2).2.map (fun v => v.map storeIsConst)
    out.Nodup ∧ (∀ v : I3, v ∈ out ↔ (v.length = n ∧ Stable (ac.map W.den) v)) ∧
    (Cli.stablePre r.1 n r.2).2 = (stableAll r.1 n r.2).2 :=
  Bio.hybrid_stable W hd opt ac hv hn

/-- the counting-guided search (`stable_count_optimisation_heu_a/b`, C04) on the hybrid-built object -/
theorem hybrid_count_search_exact {T : Type} (L : Bio.Lib T) (n : Nat) (W : Bio.Lawful L n)
    (dump : T → List Node) (hd : Bio.DumpSpec W dump) (opt useA : Bool)
    (ac : List T) (hv : ∀ a ∈ ac, W.Valid a) (hn : ac.length = n) :
    let r := Bio.hybridStep L dump opt ac
    let out := (countAll r.1 n r.2 useA).2.map (fun v => v.map storeIsConst)
    out.Nodup ∧ ∀ v : I3, v ∈ out ↔ (v.length = n ∧ Stable (ac.map W.den) v) :=
  Bio.hybrid_count W hd opt useA ac hv hn

/-- the nogood-learning search (C05) on the hybrid-built object, every built-in heuristic: halts and
emits each stable model (`stable = true`) resp. each two-valued model (`stable = false`) of the ORIGINAL
conditions once. `hsup` (two-valued mode only, as in `C05.ng_search_exact`): the conditions depend on the
`n` statements only - derived for parsed frameworks in `hybrid_ng_search_from_formulas` -/
theorem hybrid_ng_search_exact {T : Type} (L : Bio.Lib T) (n : Nat) (W : Bio.Lawful L n)
    (dump : T → List Node) (hd : Bio.DumpSpec W dump) (h : SM.Heu) (opt stable : Bool)
    (ac : List T) (hv : ∀ a ∈ ac, W.Valid a) (hn : ac.length = n)
    (hsup : stable = false → ∀ a ∈ ac, TT.DetBy n (W.den a)) :
    let r := Bio.hybridStep L dump opt ac
    ∃ fuel, (SM.ngSearch h fuel r.1 n r.2 stable).2.2.2 = true ∧
      let D := ac.map W.den
      let out := (SM.ngSearch h fuel r.1 n r.2 stable).2.1.map (fun v => v.map storeIsConst)
      out.Nodup ∧ ∀ v : I3, v ∈ out ↔
        (v.length = n ∧ TotalI v ∧ Gam D v = v ∧
          (stable = true → ∀ w : I3, IsLfp (redu D v) w → ∀ i : Nat, v[i]? = some (some true) → w[i]? = some (some true))) :=
  Bio.hybrid_ng W hd h opt stable ac hv hn hsup

/-- the three searches from the WRITTEN framework (biodivine `from_parser`, `hybrid_step_opt`, native
search): the stable models of the written conditions -/
theorem hybrid_stable_from_formulas {T : Type} (L : Bio.Lib T) (fms : List Fm) (W : Bio.Lawful L fms.length)
    (dump : T → List Node) (hd : Bio.DumpSpec W dump) (opt useA : Bool)
    (hv : ∀ f ∈ fms, NConc.atomsLt fms.length f) :
    let r := Bio.hybridStep L dump opt (Bio.fromFormulas L fms)
    let out := (stableAll r.1 fms.length r.2).2.map (fun v => v.map storeIsConst)
    let outc := (countAll r.1 fms.length r.2 useA).2.map (fun v => v.map storeIsConst)
    (out.Nodup ∧ ∀ v : I3, v ∈ out ↔ (v.length = fms.length ∧ Stable (fms.map Fm.sem) v)) ∧
    (outc.Nodup ∧ ∀ v : I3, v ∈ outc ↔ (v.length = fms.length ∧ Stable (fms.map Fm.sem) v)) := by
  have ⟨a, b, c, _⟩ := Bio.fromFormulas_spec fms W hv
  have h1 := Bio.hybrid_stable W hd opt _ b a
  have h2 := Bio.hybrid_count W hd opt useA _ b a
  rw [c] at h1 h2
  exact ⟨⟨h1.1, h1.2.1⟩, h2⟩

theorem hybrid_ng_search_from_formulas {T : Type} (L : Bio.Lib T) (fms : List Fm) (W : Bio.Lawful L fms.length)
    (dump : T → List Node) (hd : Bio.DumpSpec W dump) (h : SM.Heu) (opt stable : Bool)
    (hv : ∀ f ∈ fms, NConc.atomsLt fms.length f) :
    let r := Bio.hybridStep L dump opt (Bio.fromFormulas L fms)
    ∃ fuel, (SM.ngSearch h fuel r.1 fms.length r.2 stable).2.2.2 = true ∧
      let D := fms.map Fm.sem
      let out := (SM.ngSearch h fuel r.1 fms.length r.2 stable).2.1.map (fun v => v.map storeIsConst)
      out.Nodup ∧ ∀ v : I3, v ∈ out ↔
        (v.length = fms.length ∧ TotalI v ∧ Gam D v = v ∧
          (stable = true → ∀ w : I3, IsLfp (redu D v) w → ∀ i : Nat, v[i]? = some (some true) → w[i]? = some (some true))) := by
  have ⟨a, b, c, d⟩ := Bio.fromFormulas_spec fms W hv
  have := Bio.hybrid_ng W hd h opt stable _ b a (fun _ => d)
  rw [c] at this; exact this

/-- non-vacuity (lawful truth-table library over two variables with its decision-tree dump): the mutual
attack through the hybrid pipeline, both flags, enumeration and counting search: `T F` and `F T` are
answers, `T T` is not -/
example (opt useA : Bool) :
    let r := Bio.hybridStep (Bio.ttLib 2) Bio.ttDump2 opt (Bio.fromFormulas (Bio.ttLib 2) Bio.exMutual)
    let out := (stableAll r.1 2 r.2).2.map (fun v => v.map storeIsConst)
    let outc := (countAll r.1 2 r.2 useA).2.map (fun v => v.map storeIsConst)
    ([some true, some false] ∈ out ∧ [some false, some true] ∈ out ∧ [some true, some true] ∉ out) ∧
    ([some true, some false] ∈ outc ∧ [some false, some true] ∈ outc ∧ [some true, some true] ∉ outc) := by
  have h := hybrid_stable_from_formulas (Bio.ttLib 2) Bio.exMutual (Bio.ttLawful 2) Bio.ttDump2
    Bio.ttDump2_spec opt useA Bio.exMutual_ok
  have t := Bio.tt_stable Bio.exMutual Bio.exMutual_ok
  refine ⟨⟨(h.1.2 _).mpr ((t _).mp (by decide)), (h.1.2 _).mpr ((t _).mp (by decide)), fun hin => ?_⟩,
    ⟨(h.2.2 _).mpr ((t _).mp (by decide)), (h.2.2 _).mpr ((t _).mp (by decide)), fun hin => ?_⟩⟩
  · have := (t _).mpr ((h.1.2 _).mp hin); revert this; decide
  · have := (t _).mpr ((h.2.2 _).mp hin); revert this; decide

/-- non-vacuity of `hybrid_ng_search_exact` / `…_from_formulas`: every heuristic, both flags, both modes -
the search on the hybrid-built mutual attack halts and `T F` is among its answers -/
example (h : SM.Heu) (opt stable : Bool) :
    let r := Bio.hybridStep (Bio.ttLib 2) Bio.ttDump2 opt (Bio.fromFormulas (Bio.ttLib 2) Bio.exMutual)
    ∃ fuel, (SM.ngSearch h fuel r.1 2 r.2 stable).2.2.2 = true ∧
      [some true, some false] ∈ (SM.ngSearch h fuel r.1 2 r.2 stable).2.1.map (fun v => v.map storeIsConst) := by
  obtain ⟨fuel, h1, _, h3⟩ := hybrid_ng_search_from_formulas (Bio.ttLib 2) Bio.exMutual (Bio.ttLawful 2)
    Bio.ttDump2 Bio.ttDump2_spec h opt stable Bio.exMutual_ok
  have st := (Bio.tt_stable Bio.exMutual Bio.exMutual_ok [some true, some false]).mp (by decide)
  exact ⟨fuel, h1, (h3 _).mpr ⟨st.1, st.2.1, st.2.2.1, fun _ => st.2.2.2⟩⟩

/-! ### the rewriting variants AS THE DEFAULT (HYBRID) CLI ARM RUNS THEM

`bin/src/main.rs`, hybrid arm: `naive_adf = adf.hybrid_step()` (native object from the PRE-GROUNDED
residual diagrams), then for `--stmrew` and `--stmrew2` `naive_adf.stable_bdd_representation(&adf)`
(`adf.rs`): `adf.stable_model_candidates()` on the UN-grounded biodivine object - the `sat_valuations` of
the rewriting prepared at construction (`--stmrew`: `from_parser_with_stm_rewrite`) or of
`stable_representation()` (`--stmrew2`) - and the reduct test of `stable` on the pre-grounded native
store. The two objects do NOT denote the same functions as soon as grounding decides a statement, so
`native_rewriting_exact` (hypothesis `hsame`) does not apply. -/

/-- `hsame` of `native_rewriting_exact` fails for the pairing the CLI runs: on `s(a). s(b). ac(a,c(v)).
ac(b,a).` the pre-grounded native handles are `[1, 1]` (both ⊤), the biodivine conditions the tables
`[15, 10]` (⊤ and `x0`) -/
theorem hsame_fails_for_the_cli_pairing :
    let acB := Bio.fromFormulas (Bio.ttLib 2) Bio.exChain2
    let r := Bio.hybridStep (Bio.ttLib 2) Bio.ttDump2 true acB
    r.2 = [1, 1] ∧ acB = [15, 10] ∧
    acB.map (Bio.ttLawful 2).den ≠ r.2.map (eval r.1) := by
  refine ⟨by decide, by decide, ?_⟩
  intro h
  have e : (Bio.hybridStep (Bio.ttLib 2) Bio.ttDump2 true (Bio.fromFormulas (Bio.ttLib 2) Bio.exChain2)).2 = [1, 1] := by
    decide
  have e2 : Bio.fromFormulas (Bio.ttLib 2) Bio.exChain2 = [15, 10] := by decide
  rw [e, e2] at h
  simp only [List.map_cons, List.map_nil, List.cons.injEq, and_true] at h
  have := congrFun h.2 (fun _ => false)
  rw [eval_one] at this
  revert this
  show Bio.ttDen 2 10 (fun _ => false) ≠ true
  decide

/-- **the missing theorem (review 2, item 3): `Adf::stable_bdd_representation(&biodivine)` on the
hybrid-built object** - native object from `hybrid_step_opt(opt)` (the CLI: `opt = true`), candidates
from the ORIGINAL biodivine conditions `ac` (`rw = some r`: a prepared rewriting, `--stmrew`; `rw = none`:
`stable_representation()`, `--stmrew2`), reduct test on the native store: the store stays well formed and
is only extended, no duplicate, exactly the stable models of the ORIGINAL conditions, `[]` if there is none.
Assumptions about the external crate: `W`, `hd` (see `C01.hybrid_grounded_is_lfp`); `hg`: the prepared
rewriting is true at every two-valued model (nothing for `none`). -/
theorem native_rewriting_on_hybrid {T : Type} (L : Bio.Lib T) (n : Nat) (W : Bio.Lawful L n)
    (dump : T → List Node) (hd : Bio.DumpSpec W dump) (opt : Bool) (rw : Option T)
    (ac : List T) (hv : ∀ a ∈ ac, W.Valid a) (hn : ac.length = n) (hg : Bio.GoodRewrite W ac rw) :
    let r := Bio.hybridStep L dump opt ac
    let res := Bio.nativeStableRep r.1 n r.2 (Bio.stableModelCandidates L rw ac)
    let out := res.2.map (fun v => v.map storeIsConst)
    (WF res.1 ∧ Ext r.1 res.1) ∧ out.Nodup ∧
    (∀ v : I3, v ∈ out ↔ (v.length = n ∧ Stable (ac.map W.den) v)) ∧
    ((∀ v : I3, ¬ (v.length = n ∧ Stable (ac.map W.den) v)) → res.2 = []) := by
  have h := Bio.native_rewriting_on_hybrid W hd opt rw ac hv hn hg
  exact ⟨h.1, h.2.1, h.2.2, fun hnone => Bio.nil_of_none _ _ _ h.2.2 hnone⟩

/-- `--stmrew2` in the hybrid arm (`from_parser`, no prepared rewriting: the candidates are the models of
`stable_representation()`): no further hypothesis -/
theorem hybrid_stmrew2_exact {T : Type} (L : Bio.Lib T) (n : Nat) (W : Bio.Lawful L n)
    (dump : T → List Node) (hd : Bio.DumpSpec W dump) (opt : Bool)
    (ac : List T) (hv : ∀ a ∈ ac, W.Valid a) (hn : ac.length = n) :
    let r := Bio.hybridStep L dump opt ac
    let res := Bio.nativeStableRep r.1 n r.2 (Bio.stableModelCandidates L none ac)
    let out := res.2.map (fun v => v.map storeIsConst)
    out.Nodup ∧ ∀ v : I3, v ∈ out ↔ (v.length = n ∧ Stable (ac.map W.den) v) :=
  let h := native_rewriting_on_hybrid L n W dump hd opt none ac hv hn trivial
  ⟨h.2.1, h.2.2.1⟩

/-- `--stmrew` in the hybrid arm (`from_parser_with_stm_rewrite`: conditions `Bio.acOf`, prepared rewriting
`Bio.stmRewriting` over the conditions OF THE FILE). Hypothesis `hnd`: no statement has two conditions -
without it the stable model of `s(a).ac(a,c(f)).ac(a,c(v)).` is lost
(`prepared_rewriting_duplicate_counterexample`; the same candidate list feeds this arm). -/
theorem hybrid_stmrew_exact {T : Type} (L : Bio.Lib T) (n : Nat) (W : Bio.Lawful L n)
    (dump : T → List Node) (hd : Bio.DumpSpec W dump) (opt : Bool)
    (order : List Nat) (fs : List Bio.BExpr) (hf : ∀ φ ∈ fs, φ.closed n = true) (ho : ∀ o ∈ order, o < n)
    (hl : order.length = fs.length) (hnd : order.Nodup) :
    let ac := Bio.acOf L n order fs
    let r := Bio.hybridStep L dump opt ac
    let res := Bio.nativeStableRep r.1 n r.2 (Bio.stableModelCandidates L (some (Bio.stmRewriting L order fs)) ac)
    let out := res.2.map (fun v => v.map storeIsConst)
    out.Nodup ∧ ∀ v : I3, v ∈ out ↔ (v.length = n ∧ Stable (ac.map W.den) v) := by
  have ⟨a, b, _⟩ := Bio.acOf_spec W n order fs hf
  have h := native_rewriting_on_hybrid L n W dump hd opt _ _ b a (Bio.stmRewriting_good W order fs hf ho hnd hl)
  exact ⟨h.2.1, h.2.2.1⟩

/-- both flags from the WRITTEN framework (one condition per statement, declaration order): the printed
vectors are the stable models of the written conditions -/
theorem hybrid_rewriting_from_formulas {T : Type} (L : Bio.Lib T) (fms : List Fm) (W : Bio.Lawful L fms.length)
    (dump : T → List Node) (hd : Bio.DumpSpec W dump) (opt prepared : Bool)
    (hv : ∀ f ∈ fms, NConc.atomsLt fms.length f) :
    let acB := Bio.fromFormulas L fms
    let rw := if prepared then some (Bio.rewritingOfFormulas L fms) else none
    let r := Bio.hybridStep L dump opt acB
    let res := Bio.nativeStableRep r.1 fms.length r.2 (Bio.stableModelCandidates L rw acB)
    let out := res.2.map (fun v => v.map storeIsConst)
    out.Nodup ∧ ∀ v : I3, v ∈ out ↔ (v.length = fms.length ∧ Stable (fms.map Fm.sem) v) := by
  intro acB rw
  have ⟨a, b, c, _⟩ := Bio.fromFormulas_spec fms W hv
  have hg : Bio.GoodRewrite W (Bio.fromFormulas L fms) rw := by
    cases prepared with
    | false => exact trivial
    | true => exact Bio.rewritingOfFormulas_good fms W hv
  have h := native_rewriting_on_hybrid L fms.length W dump hd opt rw _ b a hg
  simp only at h
  rw [c] at h
  exact ⟨h.2.1, h.2.2.1⟩

/-- non-vacuity ON THE PAIRING WHERE `hsame` FAILS (`hsame_fails_for_the_cli_pairing`): `s(a). s(b).
ac(a,c(v)). ac(b,a).`, pre-grounded native object (`opt = true`, both handles ⊤), candidates from the
un-grounded truth-table conditions, both rewriting variants: the answer is the one stable model `T T` -/
example (prepared : Bool) :
    let acB := Bio.fromFormulas (Bio.ttLib 2) Bio.exChain2
    let rw := if prepared then some (Bio.rewritingOfFormulas (Bio.ttLib 2) Bio.exChain2) else none
    let r := Bio.hybridStep (Bio.ttLib 2) Bio.ttDump2 true acB
    let res := Bio.nativeStableRep r.1 2 r.2 (Bio.stableModelCandidates (Bio.ttLib 2) rw acB)
    [some true, some true] ∈ res.2.map (fun v => v.map storeIsConst) ∧
    [some true, some false] ∉ res.2.map (fun v => v.map storeIsConst) := by
  have h := hybrid_rewriting_from_formulas (Bio.ttLib 2) Bio.exChain2 (Bio.ttLawful 2) Bio.ttDump2
    Bio.ttDump2_spec true prepared Bio.exChain2_ok
  have t := Bio.tt_stable Bio.exChain2 Bio.exChain2_ok
  refine ⟨(h.2 _).mpr ((t _).mp (by decide)), fun hin => ?_⟩
  have := (t _).mpr ((h.2 _).mp hin)
  revert this; decide

/-- … and on the mutual attack (two stable models, nothing decided by grounding), both flags of
`hybrid_step_opt`, both rewriting variants -/
example (opt prepared : Bool) :
    let acB := Bio.fromFormulas (Bio.ttLib 2) Bio.exMutual
    let rw := if prepared then some (Bio.rewritingOfFormulas (Bio.ttLib 2) Bio.exMutual) else none
    let r := Bio.hybridStep (Bio.ttLib 2) Bio.ttDump2 opt acB
    let res := Bio.nativeStableRep r.1 2 r.2 (Bio.stableModelCandidates (Bio.ttLib 2) rw acB)
    [some true, some false] ∈ res.2.map (fun v => v.map storeIsConst) ∧
    [some false, some true] ∈ res.2.map (fun v => v.map storeIsConst) ∧
    [some true, some true] ∉ res.2.map (fun v => v.map storeIsConst) := by
  have h := hybrid_rewriting_from_formulas (Bio.ttLib 2) Bio.exMutual (Bio.ttLawful 2) Bio.ttDump2
    Bio.ttDump2_spec opt prepared Bio.exMutual_ok
  have t := Bio.tt_stable Bio.exMutual Bio.exMutual_ok
  refine ⟨(h.2 _).mpr ((t _).mp (by decide)), (h.2 _).mpr ((t _).mp (by decide)), fun hin => ?_⟩
  have := (t _).mpr ((h.2 _).mp hin)
  revert this; decide

/-- **"the answer is the empty set, not an error"** (review 2, C03 row 3): the enumeration is a total
function and, when the framework has no stable model, returns `[]` - native object … -/
theorem stable_none_then_empty (s : Store) (n : Nat) (ac : List Nat) (hw : WF s) (hn : ac.length = n)
    (hv : ∀ t ∈ ac, t < s.nodes.size)
    (hnone : ∀ v : I3, ¬ (v.length = n ∧ Stable (ac.map (eval s)) v)) :
    (stableAll s n ac).2 = [] ∧ (Cli.stablePre s n ac).2 = [] := by
  have h1 := stable_exact s n ac hw hn hv
  have h2 := stablepre_exact s n ac hw hn hv
  exact ⟨Bio.nil_of_none _ _ _ h1.2 hnone, Bio.nil_of_none _ _ _ h2.2 hnone⟩

/-- … and the hybrid-built object (all searches of the hybrid arm) -/
theorem hybrid_stable_none_then_empty {T : Type} (L : Bio.Lib T) (n : Nat) (W : Bio.Lawful L n)
    (dump : T → List Node) (hd : Bio.DumpSpec W dump) (opt useA : Bool) (rw : Option T)
    (ac : List T) (hv : ∀ a ∈ ac, W.Valid a) (hn : ac.length = n) (hg : Bio.GoodRewrite W ac rw)
    (hnone : ∀ v : I3, ¬ (v.length = n ∧ Stable (ac.map W.den) v)) :
    let r := Bio.hybridStep L dump opt ac
    (stableAll r.1 n r.2).2 = [] ∧ (Cli.stablePre r.1 n r.2).2 = [] ∧ (countAll r.1 n r.2 useA).2 = [] ∧
    (Bio.nativeStableRep r.1 n r.2 (Bio.stableModelCandidates L rw ac)).2 = [] := by
  intro r
  have h1 := hybrid_stable_exact L n W dump hd opt ac hv hn
  have h2 := hybrid_count_search_exact L n W dump hd opt useA ac hv hn
  have h3 := native_rewriting_on_hybrid L n W dump hd opt rw ac hv hn hg
  have e1 : (stableAll r.1 n r.2).2 = [] := Bio.nil_of_none _ _ _ h1.2.1 hnone
  exact ⟨e1, by rw [h1.2.2]; exact e1, Bio.nil_of_none _ _ _ h2.2 hnone, h3.2.2.2 hnone⟩

/-- non-vacuity: `s(a). ac(a, neg(a)).` has no stable model; the native enumeration on the compiled
framework answers `[]` (through the theorem; `Stable` refuted on both total candidates) -/
example : (stableAll (buildNative 1 [Fm.not (.atom 0)]).1 1 (buildNative 1 [Fm.not (.atom 0)]).2).2 = [] := by
  obtain ⟨w, hl, hlt, hf⟩ := buildNative_fns [Fm.not (.atom 0)] (by simp [VBOT])
    (fun f hf => by simp at hf; subst hf; simp [Fm.atomsOK, VBOT])
  refine (stable_none_then_empty _ 1 _ w hl hlt ?_).1
  rw [hf]
  rintro v ⟨hlen, ht, hg, _⟩
  match v, hlen with
  | [x], _ =>
    have h0 := ht 0 (by simp)
    cases x with
    | none => simp at h0
    | some b =>
      have : Gam [Fm.sem (Fm.not (.atom 0))] [some b] = [some (!b)] := by
        cases b <;> simp [Gam, constOf_some, Fm.sem, over, upd]
      simp only [List.map_cons, List.map_nil] at hg
      rw [this] at hg
      cases b <;> simp at hg

end C03

#print axioms C03.native_rewriting_on_hybrid
#print axioms C03.hybrid_stmrew_exact
#print axioms C03.hybrid_rewriting_from_formulas



#print axioms C03.hsame_fails_for_the_cli_pairing
#print axioms C03.hybrid_stmrew2_exact
#print axioms C03.stable_none_then_empty
#print axioms C03.hybrid_stable_none_then_empty
