import AdfObdd.Stable
import AdfObdd.PreGround3
import AdfObdd.AdfModel
/-! # C03 — enumerate-and-check stable semantics

The code's test for a two-valued candidate `v`: restrict every condition by `v`'s false statements
(the reduct), compute the grounded interpretation of the result, compare information values at
ALL positions. The definition: `v` is a two-valued model whose TRUE statements are re-derived. -/
namespace C03

/-- the code's test and the definition coincide, for every total candidate -/
theorem check_iff_stable (D : List BoolFn) (v w : I3) (hlen : v.length = D.length) (ht : TotalI v)
    (hw : IsLfp (redu D v) w) :
    w = v ↔ (Gam D v = v ∧ ∀ (i : Nat), v[i]? = some (some true) → w[i]? = some (some true)) :=
  stable_check_iff D v w hlen ht hw

/-- hybrid with pre-grounding: for a total `v` above the grounded interpretation the reduct of the
pre-grounded conditions has the same least fixpoint, so the same candidates pass -/
theorem pregrounded_same_reduct_lfp (D : List BoolFn) (g v L : I3) (hg : IsLfp D g) (hgv : Le3 g v) :
    IsLfp (redu (pre D g) v) L ↔ IsLfp (redu D v) L := pre_reduct_lfp_iff D g v L hg hgv

/-- on a total candidate the reduct's operator agrees with Γ (used for the pre-filter: a stable
model passes "is a two-valued model", so the pre-filter rejects no stable model) -/
theorem reduct_agrees_on_total (D : List BoolFn) (v : I3) : Gam (redu D v) v = Gam D v := Gam_redu_total D v

/-- full statement about the concrete `stableAll`, kept visible (composition with C20 and C01) -/
def stable_exact_statement : Prop :=
  ∀ (s : Store) (n : Nat) (ac : List Nat), WF s → ac.length = n → (∀ t ∈ ac, t < s.nodes.size) →
    let D := ac.map (eval s)
    let out := (stableAll s n ac).2.map (fun v => v.map storeIsConst)
    out.Nodup ∧ ∀ v : I3, v ∈ out ↔
      (v.length = n ∧ TotalI v ∧ Gam D v = v ∧
        ∀ w : I3, IsLfp (redu D v) w → ∀ i : Nat, v[i]? = some (some true) → w[i]? = some (some true))

example : TotalI [some true, some false] := by
  intro i hi
  have : i = 0 ∨ i = 1 := by simp at hi; omega
  rcases this with h | h <;> subst h <;> simp

end C03
