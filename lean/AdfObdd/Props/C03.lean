import AdfObdd.Stable
import AdfObdd.PreGround3
import AdfObdd.AdfModel
import AdfObdd.StableExact
import AdfObdd.OpsProofs
/-! # C03 — enumerate-and-check stable semantics

The code's test for a two-valued candidate `v`: restrict every condition by `v`'s false statements
(the reduct), compute the grounded interpretation of the result, compare information values at
ALL positions. The definition: `v` is a two-valued model whose TRUE statements are re-derived. -/
namespace C03

/-- the code's test and the definition coincide, for every total candidate -/
theorem check_iff_stable (D : List BoolFn) (v w : I3) (hlen : v.length = D.length) (ht : TotalI v)
    (hw : IsLfp (redu D v) w) :
    w = v ↔ (Gam D v = v ∧ ∀ (i : Nat), v[i]? = some (some true) → w[i]? = some (some true)) :=
  stable_check_iff D v w hlen ht hw

/-- hybrid with pre-grounding: for a total `v` above the grounded interpretation the reduct of the
pre-grounded conditions has the same least fixpoint, so the same candidates pass -/
theorem pregrounded_same_reduct_lfp (D : List BoolFn) (g v L : I3) (hg : IsLfp D g) (hgv : Le3 g v) :
    IsLfp (redu (pre D g) v) L ↔ IsLfp (redu D v) L := pre_reduct_lfp_iff D g v L hg hgv

/-- on a total candidate the reduct's operator agrees with Γ (used for the pre-filter: a stable
model passes "is a two-valued model", so the pre-filter rejects no stable model) -/
theorem reduct_agrees_on_total (D : List BoolFn) (v : I3) : Gam (redu D v) v = Gam D v := Gam_redu_total D v

/-- full statement about the concrete `stableAll` (the function the driver runs): read as
interpretations the answers contain no duplicate and are exactly the stable models — total, a
model, and every true statement is true in the least fixpoint of the reduct -/
def stable_exact_statement : Prop :=
  ∀ (s : Store) (n : Nat) (ac : List Nat), WF s → ac.length = n → (∀ t ∈ ac, t < s.nodes.size) →
    let D := ac.map (eval s)
    let out := (stableAll s n ac).2.map (fun v => v.map storeIsConst)
    out.Nodup ∧ ∀ v : I3, v ∈ out ↔
      (v.length = n ∧ TotalI v ∧ Gam D v = v ∧
        ∀ w : I3, IsLfp (redu D v) w → ∀ i : Nat, v[i]? = some (some true) → w[i]? = some (some true))

/-- the same statement for any enumeration function (used for `stable_with_prefilter`) -/
def stable_exact_for (f : Store → Nat → List Nat → Store × List (List Nat)) : Prop :=
  ∀ (s : Store) (n : Nat) (ac : List Nat), WF s → ac.length = n → (∀ t ∈ ac, t < s.nodes.size) →
    let D := ac.map (eval s)
    let out := (f s n ac).2.map (fun v => v.map storeIsConst)
    out.Nodup ∧ ∀ v : I3, v ∈ out ↔
      (v.length = n ∧ TotalI v ∧ Gam D v = v ∧
        ∀ w : I3, IsLfp (redu D v) w → ∀ i : Nat, v[i]? = some (some true) → w[i]? = some (some true))

/-- `restrictFalse` / `mapFalse` compute the reduct: well-formedness kept, the store only extended,
the new handles denote the conditions with the candidate's false statements replaced by ⊥ -/
theorem mapFalse_is_reduct (s : Store) (cand ac : List Nat) (hw : WF s) (hv : ∀ t ∈ ac, t < s.nodes.size) :
    WF (mapFalse s cand ac).1 ∧ Ext s (mapFalse s cand ac).1 ∧
    (∀ t ∈ (mapFalse s cand ac).2, t < (mapFalse s cand ac).1.nodes.size) ∧
    (mapFalse s cand ac).2.map (eval (mapFalse s cand ac).1) =
      redu (ac.map (eval s)) (cand.map storeIsConst) :=
  StableExact.mapFalse_spec cand ac s hw hv

/-- the code's test on one total candidate, started in any well-formed store, decides the
definition (reduct by `mapFalse`, its least fixpoint by `groundedLoop`, comparison at all positions) -/
theorem test_decides_stability (s : Store) (n : Nat) (ac cand : List Nat) (hw : WF s) (hn : ac.length = n)
    (hv : ∀ t ∈ ac, t < s.nodes.size) (hcl : cand.length = n)
    (hct : ∀ i, i < cand.length → cand.getD i 0 < 2) :
    let red := mapFalse s cand ac
    let grd := groundedLoop StoreRA (n + 1) red.1 red.2
    WF grd.1 ∧ Ext s grd.1 ∧
    ((cand.zip grd.2).all (fun (a, b) => sameInfo a b) = true ↔
      StableExact.StableI (ac.map (eval s)) (cand.map storeIsConst)) :=
  StableExact.stable_test_spec s n ac cand hw hn hv hcl hct

/-- proved: the loop of `Adf::stable` is the filter of C20's two-valued enumeration of the grounded
vector by the definition; completeness because every stable model is a total fixpoint, hence above
the grounded interpretation (C01), hence the decided part of a completion of the grounded vector -/
theorem stable_exact : stable_exact_statement := by
  intro s n ac hw hn hv
  have ⟨_, e⟩ := StableExact.stableAll_filter s n ac hw hn hv
  have := StableExact.answers_exact s n ac hw hn hv _ (StableExact.verdict_iff (ac.map (eval s)))
  simp only [e]
  exact this

/-- proved: `stable_with_prefilter` gives the same answers in the same order — the pre-filter
("is a two-valued model", the filter of C02 on the candidate) rejects no stable model -/
theorem stablepre_exact : stable_exact_for Cli.stablePre := by
  intro s n ac hw hn hv
  have ⟨_, e⟩ := StableExact.stablePre_filter s n ac hw hn hv
  have := StableExact.answers_exact s n ac hw hn hv _ (StableExact.verdict_iff (ac.map (eval s)))
  simp only [e]
  exact this

/-- the two variants emit the same list (same vectors, same order) -/
theorem stablepre_same_answers (s : Store) (n : Nat) (ac : List Nat) (hw : WF s) (hn : ac.length = n)
    (hv : ∀ t ∈ ac, t < s.nodes.size) : (Cli.stablePre s n ac).2 = (stableAll s n ac).2 := by
  rw [(StableExact.stablePre_filter s n ac hw hn hv).2, (StableExact.stableAll_filter s n ac hw hn hv).2]

/-- both loops only extend the store and keep it well formed -/
theorem stable_store (s : Store) (n : Nat) (ac : List Nat) (hw : WF s) (hn : ac.length = n)
    (hv : ∀ t ∈ ac, t < s.nodes.size) :
    (WF (stableAll s n ac).1 ∧ Ext s (stableAll s n ac).1) ∧
    (WF (Cli.stablePre s n ac).1 ∧ Ext s (Cli.stablePre s n ac).1) :=
  ⟨(StableExact.stableAll_filter s n ac hw hn hv).1, (StableExact.stablePre_filter s n ac hw hn hv).1⟩

example : TotalI [some true, some false] := by
  intro i hi
  have : i = 0 ∨ i = 1 := by simp at hi; omega
  rcases this with h | h <;> subst h <;> simp

/-! non-vacuity: the hypotheses of `stable_exact` are satisfiable and its conclusion is neither
always true nor always false — one statement with condition ⊤ on the initial store: `T` is an
answer, `F` is not -/
example : [some true] ∈ (stableAll Store.init 1 [1]).2.map (fun v => v.map storeIsConst) := by
  refine ((stable_exact Store.init 1 [1] WF_init rfl (by simp [Store.init])).2 [some true]).mpr
    ⟨rfl, ?_, by simp [Gam, constOf_some, eval_one], ?_⟩
  · intro i hi
    have : i = 0 := by simp at hi; omega
    subst this; exact ⟨true, rfl⟩
  · intro w hw i hi
    have h0 : i = 0 := by
      rcases Nat.lt_or_ge i 1 with h | h
      · omega
      · rw [List.getElem?_eq_none (by simpa using h)] at hi; cases hi
    subst h0
    have e : Gam (redu (List.map (eval Store.init) [1]) [some true]) w = [some true] := by
      simp [Gam, redu, constOf_some, eval_one]
    rw [← hw.1, e]; rfl

example : [some false] ∉ (stableAll Store.init 1 [1]).2.map (fun v => v.map storeIsConst) := by
  intro h
  have := (((stable_exact Store.init 1 [1] WF_init rfl (by simp [Store.init])).2 [some false]).mp h).2.2.1
  have e : Gam (List.map (eval Store.init) [1]) [some false] = [some true] := by
    simp [Gam, constOf_some, eval_one]
  rw [e] at this; cases this

end C03
