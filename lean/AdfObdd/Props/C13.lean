import AdfObdd.Counts
import AdfObdd.Cubes
import AdfObdd.CountsDef
import AdfObdd.CountsMore
import AdfObdd.PathsDepth
import AdfObdd.OpsProofs
import AdfObdd.TTSpec
import AdfObdd.TTDepthPaths
import AdfObdd.CountsWord
import AdfObdd.CubesExact
import AdfObdd.PathsWord
/-! # C13 — counts, depth, supports and path cubes of a diagram are exact

Model: `countF` (= `modelcount_naive`: counter-models, models, depth), `pathsF`, `depsF`
(= the recursive `var_dependencies`), `cubesF` (= `Bdd::interpretations`), `passive` / `active`
(the two impact measures), `moreModels` (repaired, D4) — all on the proved store. Stated over
`Nat` (the code's `usize` arithmetic overflows for depth ≥ 64; the tie to the code is exercised on
diagrams of depth ≤ 63); the word-level statements are `count_word_exact` (model counts, depth
≤ 64, sharp) and `paths_word_exact` / `more_models_paths_word_iff` (path counts, total < 2^64,
in particular depth ≤ 63).

**Noted exception to the property text (second review, C13 row 1).** The property says the path
cubes of EVERY diagram are pairwise disjoint and cover exactly its (counter-)models. For the two
terminal diagrams this is FALSE of the code and of the model: `interpretations` returns the empty
list for ⊤ and ⊥, so the (empty) cube list of ⊤ covers none of ⊤'s models although every
assignment is one (likewise the counter-models of ⊥). `cubes_exact` therefore states the cover
clause for non-terminal handles only and the emptiness for terminals as a separate conjunct;
`cubes_terminal_not_cover` states the deviation itself. Disjointness and soundness hold for every
handle (vacuously on terminals). -/
namespace C13

/-- model count: `models(t) · 2^|vs| = #{satisfying assignments to vs} · 2^depth(t)` for every
strictly ascending variable list `vs` containing the variables of the diagram -/
theorem models_exact_ratio (s : Store) (w : WF s) (t : Nat) (ht : t < s.nodes.size)
    (vs : List Nat) (hvs : vs.Pairwise (· < ·)) (hdeps : ∀ x ∈ depsF s (t+1) t, x ∈ vs) (base : Asg) :
    (countF s (t+1) t).2.1 * 2 ^ vs.length = sat (eval s t) base vs * 2 ^ (countF s (t+1) t).2.2 :=
  models_ratio s w (t+1) t ht (Nat.lt_succ_self _) vs hvs hdeps base

/-- the dependency set is exactly the set of variables the function depends on -/
theorem deps_are_essential (s : Store) (w : WF s) (t x : Nat) (ht : t < s.nodes.size) :
    x ∈ depsOf s t ↔ Essential (eval s t) x := deps_exact s w t x ht

open Classical in
/-- passive impact of `v` = the number of listed diagrams whose FUNCTION essentially depends on
`v` (`Essential f v`: some assignment at which flipping `v` changes `f` - a notion that does not
mention the diagram). `decide` is the classical decision of that proposition; nothing here is
definitional: the model `passive` counts occurrences of `v` in the node lists `depsOf`. -/
theorem passive_counts_dependents (s : Store) (w : WF s) (v : Nat) (ts : List Nat)
    (hts : ∀ t ∈ ts, t < s.nodes.size) :
    passive s v ts = ts.countP (fun t => decide (Essential (eval s t) v)) :=
  passive_eq_countP s w v ts hts

open Classical in
/-- active impact of `v` = the number of statements (positions `i < |ts|`) the FUNCTION of the
diagram listed at position `v` essentially depends on. `v < ts.length` is required (the code
indexes `termlist[var.value()]` and panics otherwise; the model's `getD` would speak about ⊥). -/
theorem active_counts_dependencies (s : Store) (w : WF s) (v : Nat) (ts : List Nat)
    (hv : v < ts.length) (ht : ts[v] < s.nodes.size) :
    active s v ts = (List.range ts.length).countP (fun i => decide (Essential (eval s ts[v]) i)) :=
  active_eq_countP s w v ts hv ht

/-- every enumerated path cube lies inside the (counter-)models -/
theorem cubes_are_sound (s : Store) (w : WF s) (t : Nat) (goal : Bool) (gv : Nat) (ht : t < s.nodes.size)
    (c : PCube) (σ : Asg) (hc : c ∈ cubesF s (t+1) t goal gv [] []) (hin : InPC c σ) :
    eval s t σ = goal :=
  (cubes_sound s w (t+1) t goal gv [] [] c σ ht (Nat.lt_succ_self _) hc hin).2

/-- where the goal variable has the goal value, the cubes cover the (counter-)models of a non-terminal diagram -/
theorem cubes_do_cover (s : Store) (w : WF s) (t : Nat) (goal : Bool) (gv : Nat) (ht : t < s.nodes.size)
    (ht2 : 2 ≤ t) (σ : Asg) (hgv : σ gv = goal) (hev : eval s t σ = goal) :
    ∃ c ∈ cubesF s (t+1) t goal gv [] [], InPC c σ :=
  cubes_cover s w (t+1) t goal gv [] [] σ ht (Nat.lt_succ_self _) ht2 ⟨by simp, by simp⟩ hgv hev

/-- the enumerated cubes are pairwise disjoint -/
theorem cubes_pairwise_disjoint (s : Store) (w : WF s) (t : Nat) (goal : Bool) (gv : Nat) (ht : t < s.nodes.size) :
    (cubesF s (t+1) t goal gv [] []).Pairwise DisjPC :=
  cubes_disjoint s w (t+1) t goal gv [] [] ht (Nat.lt_succ_self _)

/-- a terminal diagram has no path cube (the code's behaviour, pinned by a unit test) -/
theorem cubes_terminal (s : Store) (t : Nat) (goal : Bool) (gv : Nat) (ht : t < 2) :
    cubesF s (t+1) t goal gv [] [] = [] := by
  simp [cubesF, ht]

/-- **the cube clause in one statement, true for EVERY handle `t` of a well-formed store**, every
goal value and every goal variable (`cs` = the result of `interpretations(t, goal, gv, [], [])`):
* the cubes are pairwise disjoint;
* each cube is sound (all its assignments give the function the goal value) and is consistent
  with the goal variable: it never fixes `gv` to the non-goal value, so moving an assignment of
  the cube to `gv := goal` stays inside the cube;
* for a NON-TERMINAL `t`: among the assignments that give the goal variable the goal value, the
  cubes cover exactly the (counter-)models of the function;
* for a TERMINAL `t` (⊥ or ⊤) the result is EMPTY - also where every assignment is a
  (counter-)model. This is the documented exception to "cover exactly" (the code returns
  `Vec::new()` first thing, a unit test pins it; DESIGN §5 "Readings fixed here"). -/
theorem cubes_exact (s : Store) (w : WF s) (t : Nat) (goal : Bool) (gv : Nat) (ht : t < s.nodes.size) :
    (cubesF s (t+1) t goal gv [] []).Pairwise DisjPC ∧
    (∀ c ∈ cubesF s (t+1) t goal gv [] [], ∀ σ, InPC c σ →
        eval s t σ = goal ∧ InPC c (upd σ gv goal)) ∧
    (2 ≤ t → ∀ σ, σ gv = goal →
        (eval s t σ = goal ↔ ∃ c ∈ cubesF s (t+1) t goal gv [] [], InPC c σ)) ∧
    (t < 2 → cubesF s (t+1) t goal gv [] [] = []) := by
  refine ⟨cubes_pairwise_disjoint s w t goal gv ht, ?_, ?_, cubes_terminal s t goal gv⟩
  · intro c hc σ hin
    exact ⟨cubes_are_sound s w t goal gv ht c σ hc hin, cube_allows_goal s t goal gv c hc σ hin⟩
  · intro ht2 σ hgv
    constructor
    · exact cubes_do_cover s w t goal gv ht ht2 σ hgv
    · intro ⟨c, hc, hin⟩
      exact cubes_are_sound s w t goal gv ht c σ hc hin

/-- **the deviation from "every diagram … cover exactly"**: on every store, for the terminal ⊤
every assignment is a model and for ⊥ every assignment is a counter-model, yet no assignment is
covered by a cube of `interpretations(⊤, true, gv)` resp. `interpretations(⊥, false, gv)` — the
cover clause FAILS for terminals (for the opposite goals, `(⊤, false)` and `(⊥, true)`, there is
nothing to cover and the empty list is exact) -/
theorem cubes_terminal_not_cover (s : Store) (gv : Nat) (σ : Asg) :
    (eval s 1 σ = true ∧ ¬ ∃ c ∈ cubesF s 2 1 true gv [] [], InPC c σ) ∧
    (eval s 0 σ = false ∧ ¬ ∃ c ∈ cubesF s 1 0 false gv [] [], InPC c σ) := by
  refine ⟨⟨eval_one s σ, ?_⟩, ⟨eval_zero s σ, ?_⟩⟩
  · rw [cubes_terminal s 1 true gv (by decide)]; simp
  · rw [cubes_terminal s 0 false gv (by decide)]; simp

/-- 'more models than counter-models' (`ModelCounts::more_models`, repaired body D4) applied to
the MODEL counts of a diagram is true iff at least as many assignments (to any strictly ascending
variable list `vs` containing the diagram's variables) satisfy the function as falsify it -/
theorem more_models_iff (s : Store) (w : WF s) (t : Nat) (ht : t < s.nodes.size)
    (vs : List Nat) (hvs : vs.Pairwise (· < ·)) (hdeps : ∀ x ∈ depsF s (t+1) t, x ∈ vs) (base : Asg) :
    moreModels ((countF s (t+1) t).1, (countF s (t+1) t).2.1) = true ↔
      sat (eval s t) base vs ≥ sat (fun σ => !eval s t σ) base vs := by
  have h1 := models_exact_ratio s w t ht vs hvs hdeps base
  have h2 := cmodels_ratio s w (t+1) t ht (Nat.lt_succ_self _) vs hvs hdeps base
  have := ratio_ge_iff _ _ _ _ _ _ (Nat.pow_pos (by decide : 0 < 2)) (Nat.pow_pos (by decide : 0 < 2)) h1 h2
  rw [← this]
  simp [moreModels]

/-- the unrepaired comparison `models ≥ min models cmodels` was always true: D4 -/
theorem unrepaired_more_models_constant (cm m : Nat) : m ≥ min m cm := Nat.min_le_left _ _

/-- non-vacuity: the fresh store with the variable x0 is well formed and x0 is an inner node -/
example : (mkNode Store.init 0 0 1).2 = 2 ∧ 2 < (mkNode Store.init 0 0 1).1.nodes.size := by
  simp [mkNode, Store.init]

/-! ## counting clauses, continued: totals, counter-models, paths, depth -/

/-- counter-models and models add up to `2^depth` -/
theorem counts_total (s : Store) (w : WF s) (t : Nat) (ht : t < s.nodes.size) :
    (countF s (t+1) t).1 + (countF s (t+1) t).2.1 = 2 ^ (countF s (t+1) t).2.2 :=
  counts_total_fuel s w.table (t+1) t ht (Nat.lt_succ_self _)

/-- counter-model count: `cmodels(t) · 2^|vs| = #{falsifying assignments to vs} · 2^depth(t)`
(same hypotheses as `models_exact_ratio`) -/
theorem cmodels_exact_ratio (s : Store) (w : WF s) (t : Nat) (ht : t < s.nodes.size)
    (vs : List Nat) (hvs : vs.Pairwise (· < ·)) (hdeps : ∀ x ∈ depsF s (t+1) t, x ∈ vs) (base : Asg) :
    (countF s (t+1) t).1 * 2 ^ vs.length =
      sat (fun σ => !eval s t σ) base vs * 2 ^ (countF s (t+1) t).2.2 :=
  cmodels_ratio s w (t+1) t ht (Nat.lt_succ_self _) vs hvs hdeps base

/-- `pathsList` is the list of root-to-leaf paths of the unfolding (exactly the paths, none
twice, and every assignment following a path is evaluated to the path's terminal), and the
path counts are the numbers of listed paths ending in ⊥ resp. ⊤ -/
theorem paths_exact (s : Store) (w : WF s) (t : Nat) :
    (∀ p : DPath, p ∈ pathsList s (t+1) t ↔ IsPath s t p.1 p.2) ∧
    (pathsList s (t+1) t).Nodup ∧
    (∀ p ∈ pathsList s (t+1) t, ∀ σ, Follows σ p.1 → eval s t σ = p.2) ∧
    (paths s t).1 = (pathsList s (t+1) t).countP (fun p => !p.2) ∧
    (paths s t).2 = (pathsList s (t+1) t).countP (fun p => p.2) := by
  refine ⟨mem_pathsList_iff s w.table t, pathsList_nodup s (t+1) t, ?_, ?_, ?_⟩
  · intro p hp σ hσ
    exact path_eval s w.table t p.1 p.2 ((mem_pathsList_iff s w.table t p).mp hp) σ hσ
  · simp only [paths, pathsF_counts]
  · simp only [paths, pathsF_counts]

/-- the depth component is the length of a longest root-to-leaf path (0 for the terminals) -/
theorem depth_exact (s : Store) (w : WF s) (t : Nat) (ht : t < s.nodes.size) :
    (∀ p ∈ pathsList s (t+1) t, p.1.length ≤ (countF s (t+1) t).2.2) ∧
    (∃ p ∈ pathsList s (t+1) t, p.1.length = (countF s (t+1) t).2.2) ∧
    (t < 2 → (countF s (t+1) t).2.2 = 0) :=
  ⟨depth_upper s w.table (t+1) t (Nat.lt_succ_self _),
   depth_attained s w.table (t+1) t (Nat.lt_succ_self _) ht,
   fun h => by
     have h01 : t = 0 ∨ t = 1 := by omega
     rcases h01 with h | h <;> subst h <;> simp [countF]⟩

/-! ## tie to the executable truth-table specification (`Spec/TT.lean`, via `TTSpec.lean`) -/

/-- if the truth table `tt` over `nv` variables represents the function of the diagram `t` and
the diagram's variables are below `nv`, then the counts of the diagram stand in the exact ratio
to `TT.sat` / `TT.unsat` of the table, and the dependency set is `TT.deps` of the table — the
comparisons the test driver performs -/
theorem counts_vs_truth_table (s : Store) (w : WF s) (t : Nat) (ht : t < s.nodes.size) (nv tt : Nat)
    (hrep : TT.Rep nv tt (eval s t)) (hdeps : ∀ x ∈ depsF s (t+1) t, x < nv) :
    (countF s (t+1) t).2.1 * 2 ^ nv = TT.sat nv tt * 2 ^ (countF s (t+1) t).2.2 ∧
    (countF s (t+1) t).1 * 2 ^ nv = TT.unsat nv tt * 2 ^ (countF s (t+1) t).2.2 ∧
    (∀ x, x ∈ depsOf s t ↔ x ∈ TT.deps nv tt) := by
  have hdet : TT.DetBy nv (eval s t) := by
    intro σ σ' hag
    exact eval_agree_on_deps s w.table t ht σ σ' (fun x hx => hag x (hdeps x hx))
  have hsorted : (List.range nv).Pairwise (· < ·) := List.pairwise_lt_range
  have hmem : ∀ x ∈ depsF s (t+1) t, x ∈ List.range nv := fun x hx => List.mem_range.mpr (hdeps x hx)
  have h1 := models_exact_ratio s w t ht (List.range nv) hsorted hmem (fun _ => false)
  have h2 := cmodels_exact_ratio s w t ht (List.range nv) hsorted hmem (fun _ => false)
  rw [List.length_range] at h1 h2
  rw [← TT.sat_eq hrep hdet (List.range nv) (List.Perm.refl _) (fun _ => false)] at h1
  rw [← TT.unsat_eq hrep hdet (List.range nv) (List.Perm.refl _) (fun _ => false)] at h2
  refine ⟨h1, h2, ?_⟩
  intro x
  rw [deps_are_essential s w t x ht, TT.mem_deps_iff hrep hdet]

/-- the one-variable store used by the non-vacuity examples -/
def x0Store : Store := (mkNode Store.init 0 0 1).1

theorem x0Store_WF : WF x0Store :=
  (mkNode_spec Store.init WF_init 0 0 1 (by simp [Store.init]) (by simp [Store.init])
    (by simp [VBOT]) (by simp [topVar, Store.init, VBOT]) (by simp [topVar, Store.init, VTOP])).1

theorem x0Store_nodes : x0Store.nodes = #[⟨VBOT, 0, 0⟩, ⟨VTOP, 1, 1⟩, ⟨0, 0, 1⟩] := by
  simp [x0Store, mkNode, Store.init]

/-- non-vacuity of `counts_total`, `depth_exact`: on the diagram of x0 the counts are (1, 1), depth 1 -/
example : WF x0Store ∧ 2 < x0Store.nodes.size ∧ countF x0Store 3 2 = (1, 1, 1) := by
  refine ⟨x0Store_WF, by simp [x0Store_nodes], ?_⟩
  simp [countF, x0Store_nodes]

/-- non-vacuity of `paths_exact`: the two paths of x0 -/
example : pathsList x0Store 3 2 = [([(0, false)], false), ([(0, true)], true)] ∧ paths x0Store 2 = (1, 1) := by
  simp [pathsList, paths, pathsF, x0Store_nodes]

/-- non-vacuity of `models_exact_ratio` / `cmodels_exact_ratio`: the hypotheses hold for x0 over the variables [0, 1] -/
example : ([0, 1] : List Nat).Pairwise (· < ·) ∧ (∀ x ∈ depsF x0Store 3 2, x ∈ [0, 1]) ∧
    (countF x0Store 3 2).1 * 2 ^ 2 = sat (fun σ => !eval x0Store 2 σ) (fun _ => false) [0, 1] * 2 ^ 1 := by
  refine ⟨by simp, ?_, ?_⟩
  · simp [depsF, x0Store_nodes]
  · have := cmodels_exact_ratio x0Store x0Store_WF 2 (by simp [x0Store_nodes]) [0, 1] (by simp)
      (by simp [depsF, x0Store_nodes]) (fun _ => false)
    have hc : countF x0Store 3 2 = (1, 1, 1) := by simp [countF, x0Store_nodes]
    rw [hc] at this ⊢
    simpa using this

/-- non-vacuity of `counts_vs_truth_table`: the table of x0 over one variable represents the
diagram of x0 -/
example : TT.Rep 1 (TT.var 1 0) (eval x0Store 2) ∧ (∀ x ∈ depsF x0Store 3 2, x < 1) := by
  constructor
  · have : eval x0Store 2 = fun σ => σ 0 := by
      funext σ
      rw [eval_node x0Store x0Store_WF 2 ⟨0, 0, 1⟩ (by decide) (by simp [x0Store_nodes]), eval_one, eval_zero]
      cases σ 0 <;> rfl
    rw [this]; exact TT.rep_var 1 0
  · simp [depsF, x0Store_nodes]

end C13

/-! ## tie to the executable truth-table specification, continued: depth and paths

`TT.depth` / `TT.paths` (`Spec/TT.lean`) compute depth and path counts of THE reduced ordered
diagram of a function from its truth table alone (order 0 < 1 < …). `TTDepthPaths.lean` proves
that they are the depth component of `countF` and the path counts `pathsF` of every diagram of a
well-formed store that denotes the function — so the `~ … paths … depth …` answers of the test
driver are theorem-backed in the same way as `sat` and `deps` are by `counts_vs_truth_table`. -/
namespace C13

/-- if the truth table `tt` over `nv` variables represents the function of the diagram `t` and
the diagram's variables are below `nv`, then `TT.depth` of the table is the depth component of
`countF` (the length of a longest root-to-leaf path, `depth_exact`) -/
theorem depth_vs_truth_table (s : Store) (w : WF s) (t : Nat) (ht : t < s.nodes.size) (nv tt : Nat)
    (hrep : TT.Rep nv tt (eval s t)) (hdeps : ∀ x ∈ depsF s (t+1) t, x < nv) :
    TT.depth nv tt = (countF s (t+1) t).2.2 :=
  TT.depth_eq s w.table t ht nv tt hrep hdeps

/-- … and `TT.paths` of the table is the pair (paths to ⊥, paths to ⊤) of `pathsF` (the numbers of
listed root-to-leaf paths, `paths_exact`) -/
theorem paths_vs_truth_table (s : Store) (w : WF s) (t : Nat) (ht : t < s.nodes.size) (nv tt : Nat)
    (hrep : TT.Rep nv tt (eval s t)) (hdeps : ∀ x ∈ depsF s (t+1) t, x < nv) :
    TT.paths nv tt = pathsF s (t+1) t ∧ TT.paths nv tt = paths s t :=
  ⟨TT.paths_eq s w.table t ht nv tt hrep hdeps, TT.paths_eq s w.table t ht nv tt hrep hdeps⟩

/-- the same two facts for a bare node table that is structurally well formed (what `wfCheck`
establishes for a table dumped from the implementation) -/
theorem depth_paths_vs_truth_table_tab (s : Store) (h : TableWF s.nodes) (t : Nat) (ht : t < s.nodes.size)
    (nv tt : Nat) (hrep : TT.Rep nv tt (eval s t)) (hdeps : ∀ x ∈ depsF s (t+1) t, x < nv) :
    TT.depth nv tt = (countF s (t+1) t).2.2 ∧ TT.paths nv tt = pathsF s (t+1) t :=
  ⟨TT.depth_eq s h t ht nv tt hrep hdeps, TT.paths_eq s h t ht nv tt hrep hdeps⟩

/-- the hypotheses hold for the diagram of x0 over one variable … -/
theorem x0_rep : TT.Rep 1 (TT.var 1 0) (eval x0Store 2) ∧ (∀ x ∈ depsF x0Store 3 2, x < 1) := by
  constructor
  · have : eval x0Store 2 = fun σ => σ 0 := by
      funext σ
      rw [eval_node x0Store x0Store_WF 2 ⟨0, 0, 1⟩ (by decide) (by simp [x0Store_nodes]), eval_one, eval_zero]
      cases σ 0 <;> rfl
    rw [this]; exact TT.rep_var 1 0
  · simp [depsF, x0Store_nodes]

/-- … so the theorems apply, and both sides are the values one expects (depth 1, one path each) -/
example : TT.depth 1 (TT.var 1 0) = (countF x0Store 3 2).2.2 ∧ TT.paths 1 (TT.var 1 0) = pathsF x0Store 3 2 ∧
    TT.depth 1 (TT.var 1 0) = 1 ∧ TT.paths 1 (TT.var 1 0) = (1, 1) :=
  ⟨depth_vs_truth_table x0Store x0Store_WF 2 (by simp [x0Store_nodes]) 1 _ x0_rep.1 x0_rep.2,
   (paths_vs_truth_table x0Store x0Store_WF 2 (by simp [x0Store_nodes]) 1 _ x0_rep.1 x0_rep.2).1,
   by decide, by decide⟩

/-- the diagram of x1 in a store over TWO variables: level 0 is skipped by the recursion -/
def x1Store : Store := (mkNode Store.init 1 0 1).1

theorem x1Store_WF : WF x1Store :=
  (mkNode_spec Store.init WF_init 1 0 1 (by simp [Store.init]) (by simp [Store.init])
    (by simp [VBOT]) (by simp [topVar, Store.init, VBOT]) (by simp [topVar, Store.init, VTOP])).1

theorem x1Store_nodes : x1Store.nodes = #[⟨VBOT, 0, 0⟩, ⟨VTOP, 1, 1⟩, ⟨1, 0, 1⟩] := by
  simp [x1Store, mkNode, Store.init]

/-- non-vacuity with a skipped level and an unused variable: x1 over the variables {0, 1}, and
x1 over {0, 1, 2}: depth 1 and one path each, although the tables have 4 resp. 8 rows -/
example : TT.Rep 2 (TT.var 2 1) (eval x1Store 2) ∧ (∀ x ∈ depsF x1Store 3 2, x < 2) ∧
    TT.depth 2 (TT.var 2 1) = (countF x1Store 3 2).2.2 ∧ TT.paths 2 (TT.var 2 1) = pathsF x1Store 3 2 ∧
    TT.depth 2 (TT.var 2 1) = 1 ∧ TT.paths 2 (TT.var 2 1) = (1, 1) ∧
    TT.depth 3 (TT.var 3 1) = (countF x1Store 3 2).2.2 := by
  have hf : eval x1Store 2 = fun σ => σ 1 := by
    funext σ
    rw [eval_node x1Store x1Store_WF 2 ⟨1, 0, 1⟩ (by decide) (by simp [x1Store_nodes]), eval_one, eval_zero]
    cases σ 1 <;> rfl
  have hrep : TT.Rep 2 (TT.var 2 1) (eval x1Store 2) := by rw [hf]; exact TT.rep_var 2 1
  have hrep3 : TT.Rep 3 (TT.var 3 1) (eval x1Store 2) := by rw [hf]; exact TT.rep_var 3 1
  have hd : ∀ x ∈ depsF x1Store 3 2, x < 2 := by simp [depsF, x1Store_nodes]
  have hlt : 2 < x1Store.nodes.size := by simp [x1Store_nodes]
  exact ⟨hrep, hd, depth_vs_truth_table x1Store x1Store_WF 2 hlt 2 _ hrep hd,
    (paths_vs_truth_table x1Store x1Store_WF 2 hlt 2 _ hrep hd).1, by decide, by decide,
    depth_vs_truth_table x1Store x1Store_WF 2 hlt 3 _ hrep3 (fun x hx => Nat.lt_succ_of_lt (hd x hx))⟩

end C13

#print axioms C13.depth_vs_truth_table
#print axioms C13.paths_vs_truth_table

/-! ## where the unbounded model coincides with the code's 64-bit arithmetic (`CountsWord.lean`)

`countF` counts over unbounded naturals, the code over `usize` (64 bit). Up to 64 levels nothing
the code computes leaves the machine word, so the two agree; at 65 levels they do not (recorded
finding D13). `countW` is the counter with every `+`, `*`, `2^·` wrapped and the exponents cast
to `u32` as in `modelcount_naive` — what a release build computes. -/
namespace C13

/-- counter-models and models add up to `2^depth`, and a non-terminal diagram has at least one of
each -/
theorem counts_sum (s : Store) (w : WF s) (t : Nat) (ht : t < s.nodes.size) :
    (countF s (t+1) t).1 + (countF s (t+1) t).2.1 = 2 ^ (countF s (t+1) t).2.2 ∧
    (2 ≤ t → 1 ≤ (countF s (t+1) t).1 ∧ 1 ≤ (countF s (t+1) t).2.1) :=
  counts_sum_fuel s w.table (t+1) t ht (Nat.lt_succ_self _)

/-- every final count of a diagram with at most 64 levels fits a 64-bit word; the terminals have
depth 0 and the counts (1, 0) (⊥) and (0, 1) (⊤) -/
theorem counts_fit_machine_word (s : Store) (w : WF s) (t : Nat) (ht : t < s.nodes.size)
    (hd : (countF s (t+1) t).2.2 ≤ 64) :
    (countF s (t+1) t).1 < 2 ^ 64 ∧ (countF s (t+1) t).2.1 < 2 ^ 64 ∧ (countF s (t+1) t).2.2 < 2 ^ 64 ∧
    (t = 0 → countF s (t+1) t = (1, 0, 0)) ∧ (t = 1 → countF s (t+1) t = (0, 1, 0)) := by
  have ⟨a, b, c⟩ := counts_fit_word_fuel s w.table (t+1) t ht (Nat.lt_succ_self _) hd
  exact ⟨a, b, c, fun h => by subst h; exact countF_zero s 0, fun h => by subst h; exact countF_one s 1⟩

/-- at an inner node `t = (var, lo, hi)` of a diagram with at most 64 levels, every value the
code computes from the children's results — the exponents `lo_exp`, `hi_exp` (`loExp`, `hiExp`:
the code's branch on `lodepth > hidepth`; equal to `depth - 1 - depth(child)`, `loExp_eq`,
`hiExp_eq`), the powers `2^lo_exp`, `2^hi_exp`, the four products, the two sums and the new depth
— is `< 2^64` (`StepFits`), and the sums and the depth are the node's result -/
theorem count_intermediates_fit (s : Store) (w : WF s) (t : Nat) (n : Node) (ht2 : 2 ≤ t)
    (hn : s.nodes[t]? = some n) (hd : (countF s (t+1) t).2.2 ≤ 64) :
    StepFits (countF s (n.lo+1) n.lo).1 (countF s (n.lo+1) n.lo).2.1 (countF s (n.lo+1) n.lo).2.2
             (countF s (n.hi+1) n.hi).1 (countF s (n.hi+1) n.hi).2.1 (countF s (n.hi+1) n.hi).2.2 ∧
    countF s (t+1) t =
      ((countF s (n.lo+1) n.lo).1 * 2 ^ loExp (countF s (n.lo+1) n.lo).2.2 (countF s (n.hi+1) n.hi).2.2 +
         (countF s (n.hi+1) n.hi).1 * 2 ^ hiExp (countF s (n.lo+1) n.lo).2.2 (countF s (n.hi+1) n.hi).2.2,
       (countF s (n.lo+1) n.lo).2.1 * 2 ^ loExp (countF s (n.lo+1) n.lo).2.2 (countF s (n.hi+1) n.hi).2.2 +
         (countF s (n.hi+1) n.hi).2.1 * 2 ^ hiExp (countF s (n.lo+1) n.lo).2.2 (countF s (n.hi+1) n.hi).2.2,
       max (countF s (n.lo+1) n.lo).2.2 (countF s (n.hi+1) n.hi).2.2 + 1) := by
  have ⟨_, hlo, hhi, _, _, _⟩ := w.inner t n ht2 hn
  have F := count_intermediates_fit_fuel s w.table t t n ht2 hn (Nat.lt_succ_self _) hd
  have el := countF_fuel s w.table n.lo t hlo
  have eh := countF_fuel s w.table n.hi t hhi
  rw [el, eh] at F
  refine ⟨F, ?_⟩
  rw [countF_node s t t n ht2 hn, el, eh, loExp_eq, hiExp_eq]

/-- hence, by induction over the diagram: on a diagram with at most 64 levels the 64-bit
evaluation `countW` of the naive counter never wraps and returns the model's numbers -/
theorem count_word_exact (s : Store) (w : WF s) (t : Nat) (ht : t < s.nodes.size)
    (hd : (countF s (t+1) t).2.2 ≤ 64) : countW s (t+1) t = countF s (t+1) t :=
  countW_eq_countF s w.table (t+1) t ht (Nat.lt_succ_self _) hd

/-- the bound 64 is sharp: `conj65` (built with `mkNode`; table `conjNodes 65 65`: node `j+2`
tests variable `64-j`, false → ⊥, true → node `j+1`) is well formed, its handle 66 denotes the
conjunction of the variables 0, …, 64, the model counts `2^65 - 1` counter-models, the 64-bit
evaluation `2^64 - 1` (the value measured on the release build) -/
theorem counts_overflow_at_65 :
    WF conj65 ∧ conj65.nodes = conjNodes 65 65 ∧ conj65.nodes.size = 67 ∧
    (∀ j, j < 65 → conj65.nodes[j+2]? = some ⟨64 - j, 0, j+1⟩) ∧
    (∀ σ, eval conj65 66 σ = true ↔ ∀ i, i < 65 → σ i = true) ∧
    countF conj65 67 66 = (2 ^ 65 - 1, 1, 65) ∧
    countW conj65 67 66 = (2 ^ 64 - 1, 1, 65) ∧
    countW conj65 67 66 ≠ countF conj65 67 66 := conj65_overflow

/-- … while the conjunction of up to 64 variables is counted exactly by the 64-bit evaluation
(64 variables: `(2^64 - 1, 1)`); also non-vacuity of `count_word_exact` at the boundary -/
theorem counts_exact_up_to_64 (n : Nat) (hn : n ≤ 64) :
    countW (conjChain n n).1 (n+2) (n+1) = (2 ^ n - 1, 1, n) ∧
    countF (conjChain n n).1 (n+2) (n+1) = (2 ^ n - 1, 1, n) := countW_conj_le64 n hn

end C13

#print axioms C13.counts_sum
#print axioms C13.counts_fit_machine_word
#print axioms C13.count_intermediates_fit
#print axioms C13.count_word_exact
#print axioms C13.counts_overflow_at_65
#print axioms C13.counts_exact_up_to_64

/-! ## repairs after the review of 2026-09-27 (top-9): statements placed after the theorems they use -/
namespace C13

/-- the same two measures against the executable truth-table specification: if `tts[k]` is a
table over `nv` variables representing the function of `ts[k]` (and the diagrams' variables are
below `nv`), then the impacts are the counts of `TT.deps` memberships - every term computable -/
theorem impacts_vs_truth_tables (s : Store) (w : WF s) (v nv : Nat) (ts tts : List Nat)
    (hlen : tts.length = ts.length) (hts : ∀ t ∈ ts, t < s.nodes.size)
    (hrep : ∀ k (hk : k < ts.length), TT.Rep nv (tts[k]'(hlen ▸ hk)) (eval s ts[k]))
    (hdeps : ∀ t ∈ ts, ∀ x ∈ depsF s (t+1) t, x < nv) :
    passive s v ts = ((List.range ts.length).filter (fun k => (TT.deps nv (tts.getD k 0)).contains v)).length ∧
    (∀ _hv : v < ts.length, active s v ts =
      ((List.range ts.length).filter (fun i => (TT.deps nv (tts.getD v 0)).contains i)).length) := by
  have key : ∀ k (hk : k < ts.length) x, x ∈ depsOf s ts[k] ↔ x ∈ TT.deps nv (tts.getD k 0) := by
    intro k hk x
    have e : tts.getD k 0 = tts[k]'(hlen ▸ hk) := by simp [List.getD, hlen, hk]
    rw [e]
    exact (counts_vs_truth_table s w ts[k] (hts _ (List.getElem_mem hk)) nv _ (hrep k hk)
      (hdeps _ (List.getElem_mem hk))).2.2 x
  constructor
  · unfold passive
    rw [← List.countP_eq_length_filter, ← List.countP_eq_length_filter]
    have : ts = (List.range ts.length).map (fun k => ts.getD k 0) := by
      apply List.ext_getElem (by simp)
      intro i h1 h2; simp [List.getD, h1]
    conv => lhs; rw [this]
    rw [List.countP_map]
    apply List.countP_congr
    intro k hk
    have hk' := List.mem_range.mp hk
    have e : ts.getD k 0 = ts[k] := by simp [List.getD, hk']
    simp only [Function.comp, e, List.contains_iff_mem]
    exact key k hk' v
  · intro hv
    unfold active
    have e : ts.getD v 0 = ts[v] := by simp [List.getD, hv]
    rw [e, ← List.countP_eq_length_filter, ← List.countP_eq_length_filter]
    apply List.countP_congr
    intro i _
    simp only [List.contains_iff_mem]
    exact key v hv i

/-- … and applied to the PATH counts (`Bdd::paths(t).more_models()`, what the counting heuristics
and the counting-guided search evaluate): true iff at least as many root-to-leaf paths of the
unfolding end in ⊤ as end in ⊥ -/
theorem more_models_paths_iff (s : Store) (w : WF s) (t : Nat) :
    moreModels (paths s t) = true ↔
      (pathsList s (t+1) t).countP (fun p => p.2) ≥ (pathsList s (t+1) t).countP (fun p => !p.2) := by
  have ⟨_, _, _, h1, h2⟩ := paths_exact s w t
  rw [← h1, ← h2]
  simp [moreModels]

/-- path counts at word level: `pathsW` is `pathsF` with every addition wrapped to 64 bits (what a
release build of `modelcount_naive`'s path components / the ad-hoc bookkeeping computes). If the
total number of root-to-leaf paths fits a word the two agree (no hypothesis on the store:
sub-diagrams' counts are summands); a diagram of depth ≤ 63 has at most `2^63` paths, so the bound
holds there -/
theorem paths_word_exact (s : Store) (t : Nat) :
    ((paths s t).1 + (paths s t).2 < 2 ^ 64 → pathsW s (t+1) t = paths s t) ∧
    ((countF s (t+1) t).2.2 ≤ 63 → pathsW s (t+1) t = paths s t) ∧
    (paths s t).1 + (paths s t).2 ≤ 2 ^ (countF s (t+1) t).2.2 :=
  ⟨pathsW_eq_pathsF s (t+1) t, pathsW_eq_of_depth s (t+1) t, paths_le_pow_depth s (t+1) t⟩

/-- `more_models` on the PATH counts as the 64-bit code computes them (the variant the counting
heuristics and the counting-guided search use): under the bound — total path count below `2^64`,
e.g. depth ≤ 63 — it is true iff at least as many root-to-leaf paths end in ⊤ as in ⊥. Beyond the
bound nothing is claimed (sums wrap; cf. `counts_overflow_at_65` for the model counts) -/
theorem more_models_paths_word_iff (s : Store) (w : WF s) (t : Nat)
    (hb : (paths s t).1 + (paths s t).2 < 2 ^ 64 ∨ (countF s (t+1) t).2.2 ≤ 63) :
    moreModels (pathsW s (t+1) t) = true ↔
      (pathsList s (t+1) t).countP (fun p => p.2) ≥ (pathsList s (t+1) t).countP (fun p => !p.2) := by
  have e : pathsW s (t+1) t = paths s t := by
    rcases hb with hb | hb
    · exact (paths_word_exact s t).1 hb
    · exact (paths_word_exact s t).2.1 hb
  rw [e]
  exact more_models_paths_iff s w t

/-- … and on a diagram of at most 64 levels the same holds for the numbers the 64-bit code
computes (`countW`, see the last section) -/
theorem more_models_word_iff (s : Store) (w : WF s) (t : Nat) (ht : t < s.nodes.size)
    (hd : (countF s (t+1) t).2.2 ≤ 64)
    (vs : List Nat) (hvs : vs.Pairwise (· < ·)) (hdeps : ∀ x ∈ depsF s (t+1) t, x ∈ vs) (base : Asg) :
    moreModels ((countW s (t+1) t).1, (countW s (t+1) t).2.1) = true ↔
      sat (eval s t) base vs ≥ sat (fun σ => !eval s t σ) base vs := by
  rw [countW_eq_countF s w.table (t+1) t ht (Nat.lt_succ_self _) hd]
  exact more_models_iff s w t ht vs hvs hdeps base

/-- the conjunction x0 ∧ x1 built by two `mkNode` calls: handle 3, table ⊥, ⊤, (1,⊥,⊤), (0,⊥,2) -/
def and01Store : Store := (mkNode x1Store 0 0 2).1

theorem and01Store_nodes : and01Store.nodes = #[⟨VBOT, 0, 0⟩, ⟨VTOP, 1, 1⟩, ⟨1, 0, 1⟩, ⟨0, 0, 2⟩] := by
  simp [and01Store, x1Store, mkNode, Store.init]

theorem and01Store_WF : WF and01Store :=
  (mkNode_spec x1Store x1Store_WF 0 0 2 (by simp [x1Store_nodes]) (by simp [x1Store_nodes])
    (by simp [VBOT]) (by simp [topVar, x1Store_nodes, VBOT]) (by simp [topVar, x1Store_nodes])).1

/-- non-vacuity of `cubes_exact` on a non-terminal handle with a NON-EMPTY cube list: the
counter-model cubes of x0 ∧ x1 (goal variable 5, not in the diagram) are `x0 ∧ ¬x1` and `¬x0`;
with goal variable 0 and goal `true` only the first survives for the counter-models, and the
model cube is `x0 ∧ x1`; the store is well formed and 3 is a handle of it -/
example : WF and01Store ∧ 3 < and01Store.nodes.size ∧
    cubesF and01Store 4 3 false 5 [] [] = [([1], [0]), ([0], [])] ∧
    cubesF and01Store 4 3 false 0 [] [] = [([0], [])] ∧
    cubesF and01Store 4 3 true 0 [] [] = [([], [0, 1])] ∧
    cubesF and01Store 4 3 true 1 [] [] = [([], [0, 1])] := by
  refine ⟨and01Store_WF, by simp [and01Store_nodes], ?_, ?_, ?_, ?_⟩ <;>
    simp [cubesF, and01Store_nodes]

/-- … and the terminal exception: on the same store the handles ⊥, ⊤ have no cube although
every assignment is a counter-model of ⊥ -/
example : cubesF and01Store 1 0 false 5 [] [] = [] ∧ (∀ σ, eval and01Store 0 σ = false) :=
  ⟨(cubes_exact and01Store and01Store_WF 0 false 5 (by simp [and01Store_nodes])).2.2.2 (by decide),
   fun σ => eval_zero _ σ⟩

/-- non-vacuity of the word-level path statements: x0 ∧ x1 has depth 2 ≤ 63, two paths to ⊥ and
one to ⊤, the 64-bit recursion returns the same, and `more_models` on them is false -/
example : (countF and01Store 4 3).2.2 ≤ 63 ∧ pathsW and01Store 4 3 = (2, 1) ∧ paths and01Store 3 = (2, 1) ∧
    moreModels (pathsW and01Store 4 3) = false := by
  have hc : countF and01Store 4 3 = (3, 1, 2) := by simp [countF, and01Store_nodes]
  have hp : paths and01Store 3 = (2, 1) := by simp [paths, pathsF, and01Store_nodes]
  have hw : pathsW and01Store 4 3 = (2, 1) := by
    rw [(paths_word_exact and01Store 3).2.1 (by rw [hc]; decide), hp]
  refine ⟨by rw [hc]; decide, hw, hp, ?_⟩
  rw [hw]; decide

/-- non-vacuity of the impact theorems: over the list `[3, 2]` (statement 0 has condition
x0 ∧ x1, statement 1 has condition x1) the hypotheses hold, passive impact of variable 1 is 2,
of variable 0 is 1, active impact of statement 0 is 2 and of statement 1 is 1 -/
example : (∀ t ∈ [3, 2], t < and01Store.nodes.size) ∧
    passive and01Store 1 [3, 2] = 2 ∧ passive and01Store 0 [3, 2] = 1 ∧
    active and01Store 0 [3, 2] = 2 ∧ active and01Store 1 [3, 2] = 1 := by
  refine ⟨by simp [and01Store_nodes], ?_, ?_, ?_, ?_⟩ <;>
    simp [passive, active, depsOf, depsF, and01Store_nodes] <;> decide

/-- non-vacuity of `more_models_iff`: x0 ∧ x1 over the variables [0, 1] has 3 counter-models and
one model, so `more_models` is false, and so says the count of assignments -/
example : ([0, 1] : List Nat).Pairwise (· < ·) ∧ (∀ x ∈ depsF and01Store 4 3, x ∈ [0, 1]) ∧
    countF and01Store 4 3 = (3, 1, 2) ∧
    ¬ (sat (eval and01Store 3) (fun _ => false) [0, 1] ≥
        sat (fun σ => !eval and01Store 3 σ) (fun _ => false) [0, 1]) := by
  have hd : ∀ x ∈ depsF and01Store 4 3, x ∈ [0, 1] := by simp [depsF, and01Store_nodes]
  have hc : countF and01Store 4 3 = (3, 1, 2) := by simp [countF, and01Store_nodes]
  refine ⟨by simp, hd, hc, ?_⟩
  rw [← more_models_iff and01Store and01Store_WF 3 (by simp [and01Store_nodes]) [0, 1] (by simp) hd, hc]
  simp [moreModels]

end C13

#print axioms C13.cubes_exact
#print axioms C13.passive_counts_dependents
#print axioms C13.active_counts_dependencies
#print axioms C13.impacts_vs_truth_tables
#print axioms C13.more_models_iff
#print axioms C13.more_models_paths_iff
#print axioms C13.more_models_word_iff
#print axioms C13.cubes_terminal_not_cover
#print axioms C13.paths_word_exact
#print axioms C13.more_models_paths_word_iff
