import AdfObdd.Counts
import AdfObdd.Cubes
import AdfObdd.CountsDef
/-! # C13 — counts, depth, supports and path cubes of a diagram are exact

Model: `countF` (= `modelcount_naive`: counter-models, models, depth), `pathsF`, `depsF`
(= the recursive `var_dependencies`), `cubesF` (= `Bdd::interpretations`), `passive` / `active`
(the two impact measures), `moreModels` (repaired, D4) — all on the proved store. Stated over
`Nat` (the code's `usize` arithmetic overflows for depth ≥ 64; the tie to the code is exercised on
diagrams of depth ≤ 63). -/
namespace C13

/-- model count: `models(t) · 2^|vs| = #{satisfying assignments to vs} · 2^depth(t)` for every
strictly ascending variable list `vs` containing the variables of the diagram -/
theorem models_exact_ratio (s : Store) (w : WF s) (t : Nat) (ht : t < s.nodes.size)
    (vs : List Nat) (hvs : vs.Pairwise (· < ·)) (hdeps : ∀ x ∈ depsF s (t+1) t, x ∈ vs) (base : Asg) :
    (countF s (t+1) t).2.1 * 2 ^ vs.length = sat (eval s t) base vs * 2 ^ (countF s (t+1) t).2.2 :=
  models_ratio s w (t+1) t ht (Nat.lt_succ_self _) vs hvs hdeps base

/-- the dependency set is exactly the set of variables the function depends on -/
theorem deps_are_essential (s : Store) (w : WF s) (t x : Nat) (ht : t < s.nodes.size) :
    x ∈ depsOf s t ↔ Essential (eval s t) x := deps_exact s w t x ht

/-- passive impact of `v` = number of listed diagrams whose function depends on `v` -/
theorem passive_counts_dependents (s : Store) (w : WF s) (v : Nat) (ts : List Nat)
    (hts : ∀ t ∈ ts, t < s.nodes.size) :
    passive s v ts = (ts.filter (fun t => (depsOf s t).contains v)).length ∧
    ∀ t ∈ ts, ((depsOf s t).contains v = true ↔ Essential (eval s t) v) := by
  refine ⟨rfl, ?_⟩
  intro t ht
  rw [List.contains_iff_mem]
  exact deps_exact s w t v (hts t ht)

/-- active impact of `v` = number of statements (positions) the diagram listed at position `v` depends on -/
theorem active_counts_dependencies (s : Store) (w : WF s) (v : Nat) (ts : List Nat)
    (hv : ts.getD v 0 < s.nodes.size) :
    active s v ts = ((List.range ts.length).filter (fun i => (depsOf s (ts.getD v 0)).contains i)).length ∧
    ∀ i, ((depsOf s (ts.getD v 0)).contains i = true ↔ Essential (eval s (ts.getD v 0)) i) := by
  refine ⟨rfl, ?_⟩
  intro i
  rw [List.contains_iff_mem]
  exact deps_exact s w _ i hv

/-- every enumerated path cube lies inside the (counter-)models -/
theorem cubes_are_sound (s : Store) (w : WF s) (t : Nat) (goal : Bool) (gv : Nat) (ht : t < s.nodes.size)
    (c : PCube) (σ : Asg) (hc : c ∈ cubesF s (t+1) t goal gv [] []) (hin : InPC c σ) :
    eval s t σ = goal :=
  (cubes_sound s w (t+1) t goal gv [] [] c σ ht (Nat.lt_succ_self _) hc hin).2

/-- where the goal variable has the goal value, the cubes cover the (counter-)models of a non-terminal diagram -/
theorem cubes_do_cover (s : Store) (w : WF s) (t : Nat) (goal : Bool) (gv : Nat) (ht : t < s.nodes.size)
    (ht2 : 2 ≤ t) (σ : Asg) (hgv : σ gv = goal) (hev : eval s t σ = goal) :
    ∃ c ∈ cubesF s (t+1) t goal gv [] [], InPC c σ :=
  cubes_cover s w (t+1) t goal gv [] [] σ ht (Nat.lt_succ_self _) ht2 ⟨by simp, by simp⟩ hgv hev

/-- the enumerated cubes are pairwise disjoint -/
theorem cubes_pairwise_disjoint (s : Store) (w : WF s) (t : Nat) (goal : Bool) (gv : Nat) (ht : t < s.nodes.size) :
    (cubesF s (t+1) t goal gv [] []).Pairwise DisjPC :=
  cubes_disjoint s w (t+1) t goal gv [] [] ht (Nat.lt_succ_self _)

/-- a terminal diagram has no path cube (the code's behaviour, pinned by a unit test) -/
theorem cubes_terminal (s : Store) (t : Nat) (goal : Bool) (gv : Nat) (ht : t < 2) :
    cubesF s (t+1) t goal gv [] [] = [] := by
  simp [cubesF, ht]

/-- 'more models than counter-models' is true iff models ≥ counter-models (repaired body, D4) -/
theorem more_models_iff (cm m : Nat) : moreModels (cm, m) = true ↔ m ≥ cm := by
  simp [moreModels]

/-- the unrepaired comparison `models ≥ min models cmodels` was always true: D4 -/
theorem unrepaired_more_models_constant (cm m : Nat) : m ≥ min m cm := Nat.min_le_left _ _

/-- non-vacuity: the fresh store with the variable x0 is well formed and x0 is an inner node -/
example : (mkNode Store.init 0 0 1).2 = 2 ∧ 2 < (mkNode Store.init 0 0 1).1.nodes.size := by
  simp [mkNode, Store.init]

end C13
