import AdfObdd.CountExact
import AdfObdd.AdfPipeline
import AdfObdd.CountWitness
/-! # C04 — the counting-guided stable search returns exactly the stable models

`GK.search` (`CountSearchK.lean`) is the recursion of `two_val_model_counts_logic` (as repaired by D1):
pick a statement undecided in `interpr` and `will_be` by the heuristic's `min_by`, enumerate the path
cubes of its residual towards the goal value threading the store through the sibling branches, then
conclude the opposite value; the leaf runs `apply_interpretation` in the store as well. The concrete
model `countLogic` / `countAll` (`CountModel.lean`, what the driver runs handle for handle against
the Rust) IS `GK.search` instantiated with the code's steps `countParams` — there is no separate
simulation and no `partial def`.

* `search_exact`: the generic machine is complete, sound, emits pairwise disjoint outputs and only
  extends the store, for every instance satisfying the laws `GK.CSound`, with `n + 1` levels.
* `concrete_steps_lawful`: the code's steps (cube step = `applyCube` + `new_int[idx] = goal` + one
  propagation step + `check_consistency`; flip step = restriction of every entry + one propagation
  step + the two `no_inf_inconsistency` tests + `will_be[idx]`; leaf; both heuristics) satisfy the
  laws, under the invariant `CI.CInv` (`WF s`, lengths, valid handles, the vector is residual
  relative to the target set, `will_be[i]` constant ⇒ `interpr[i]` the same constant).
* `count_search_exact`: `countAll` = grounded start + search + stability filter returns a `Nodup`
  list whose decided parts are exactly the stable models (`count_search_exact_statement`).
* `count_search_end_to_end`: the same from the written formulas (`from_parser` model).
* the unrepaired cube loop (D1) loses a model: replayed by evaluation (`#guard`) at the end. -/
namespace C04

/-- the generic machine: store only extended, complete, sound, pairwise-disjoint outputs, every output
good, `n + 1` levels of recursion — for every selection strategy (both heuristics, any tie-breaking) -/
theorem search_exact {S C K O : Type} {T : Asg → Prop} {P : GK.CParams S C K O} {V : GK.View S C K O}
    (hP : GK.CSound T P V) (fuel : Nat) (s : S) (c : C) (hinv : V.Inv s c) (hf : V.n - V.mu c < fuel) :
    GK.Spec T V s c (GK.search P fuel s c) := GK.search_spec hP fuel s c hinv hf

/-- what `Spec` says, spelled out: every target assignment of the start region lies in the region of
an output, every output region lies inside the start region, output regions are pairwise disjoint
(hence each model once) -/
theorem spec_meaning {S C K O : Type} {T : Asg → Prop} {V : GK.View S C K O} {s : S} {c : C} {r : S × List O}
    (h : GK.Spec T V s c r) :
    (∀ σ, T σ → V.Reg c σ → ∃ o ∈ r.2, V.RegO o σ) ∧
    (∀ o ∈ r.2, ∀ σ, V.RegO o σ → V.Reg c σ) ∧ r.2.Pairwise (GK.DisjO V) ∧ (∀ o ∈ r.2, V.Good o) :=
  ⟨h.cover, h.sound, h.disj, h.good⟩

/-- the cube laws the concrete instance needs are theorems about the model of `Bdd::interpretations` -/
theorem cube_laws (s : Store) (w : WF s) (t : Nat) (goal : Bool) (gv : Nat) (ht : t < s.nodes.size) (ht2 : 2 ≤ t) :
    (cubesF s (t+1) t goal gv [] []).Pairwise DisjPC ∧
    (∀ σ, σ gv = goal → eval s t σ = goal → ∃ c ∈ cubesF s (t+1) t goal gv [] [], InPC c σ) :=
  ⟨cubes_disjoint s w (t+1) t goal gv [] [] ht (Nat.lt_succ_self _),
   fun σ h1 h2 => cubes_cover s w (t+1) t goal gv [] [] σ ht (Nat.lt_succ_self _) ht2 ⟨by simp, by simp⟩ h1 h2⟩

/-- the final filter is the stability test of C03 -/
theorem final_filter_is_stability (D : List BoolFn) (v w : I3) (hlen : v.length = D.length) (ht : TotalI v)
    (hw : IsLfp (redu D v) w) :
    w = v ↔ (Gam D v = v ∧ ∀ (i : Nat), v[i]? = some (some true) → w[i]? = some (some true)) :=
  stable_check_iff D v w hlen ht hw

/-- the steps of `two_val_model_counts_logic` satisfy the laws of the generic machine — for every
target set `T` (the invariant `CI.CInv` says the vector is residual relative to `T`) and both
heuristics (`useA`) -/
theorem concrete_steps_lawful (n : Nat) (ac : List Nat) (T : Asg → Prop) (useA : Bool) :
    GK.CSound T (countParams ac useA) (CI.view n ac T) := CI.csound n ac T useA

/-- the recursion of the code, started in any state satisfying the invariant: complete for `T`,
sound, pairwise disjoint, all outputs total of length `n`, store only extended; fuel `n + 1` -/
theorem count_logic_spec {n : Nat} {ac : List Nat} {T : Asg → Prop} (useA : Bool) {s : Store}
    {interp wb : List Nat} (hinv : CI.CInv n ac T s (interp, wb)) :
    GK.Spec T (CI.view n ac T) s (interp, wb) (countLogic ac useA (n + 1) s interp wb) :=
  CI.countLogic_spec useA hinv

/-- the grounded vector with `will_be = [u; n]` satisfies the invariant, for the target set of the
(pointwise) two-valued models of the conditions -/
theorem start_invariant (s : Store) (n : Nat) (ac : List Nat) (w : WF s) (hn : ac.length = n)
    (hv : ∀ t ∈ ac, t < s.nodes.size) :
    CI.CInv n ac (CI.TM (ac.map (eval s))) (groundedLoop StoreRA (n + 1) s ac).1
      ((groundedLoop StoreRA (n + 1) s ac).2, List.replicate n 2) :=
  (CI.start_inv s n ac w hn hv).1

/-- full statement for the concrete model `countAll` (what the driver runs, handle-exact with the
code): the decided parts of the returned vectors are exactly the stable models, each once -/
def count_search_exact_statement : Prop :=
  ∀ (s : Store) (n : Nat) (ac : List Nat) (useA : Bool), WF s → ac.length = n → (∀ t ∈ ac, t < s.nodes.size) →
    let D := ac.map (eval s)
    let out := (countAll s n ac useA).2.map (fun v => v.map storeIsConst)
    out.Nodup ∧ ∀ v : I3, v ∈ out ↔
      (v.length = n ∧ TotalI v ∧ Gam D v = v ∧
        ∀ w : I3, IsLfp (redu D v) w → ∀ i : Nat, v[i]? = some (some true) → w[i]? = some (some true))

/-- **C04**: `stable_count_optimisation_heu_a/b` on the store model return exactly the stable models,
no model lost to pruning, none invented, each reported once -/
theorem count_search_exact : count_search_exact_statement := by
  intro s n ac useA w hn hv
  exact CI.countAll_exact s n ac useA w hn hv

/-- C04 end to end from the written acceptance conditions (`from_parser` model + search) -/
theorem count_search_end_to_end (fms : List Fm) (useA : Bool) (hn : fms.length ≤ VBOT)
    (hv : ∀ f ∈ fms, f.atomsOK) :
    let b := buildNative fms.length fms
    let out := (countAll b.1 fms.length b.2 useA).2.map (fun v => v.map storeIsConst)
    out.Nodup ∧ ∀ v : I3, v ∈ out ↔ CI.IsStable fms.length (fms.map Fm.sem) v := by
  intro b out
  have ⟨w, hl, h⟩ := buildNative_correct fms.length fms hn hv
  have hvalid : ∀ t ∈ b.2, t < b.1.nodes.size := by
    intro t ht
    obtain ⟨i, hi, rfl⟩ := List.getElem_of_mem ht
    have hi' : i < fms.length := by have : b.2.length = fms.length := hl; omega
    exact (h i _ _ (List.getElem?_eq_getElem hi) (List.getElem?_eq_getElem hi')).1
  have e : b.2.map (eval b.1) = fms.map Fm.sem :=
    map_eval_eq_sem b.1 b.2 fms hl (fun i t f a c => (h i t f a c).2)
  have := CI.countAll_exact b.1 fms.length b.2 useA w hl hvalid
  rw [e] at this
  exact this

/-! ### non-vacuity -/

/-- the hypotheses of `search_exact` are satisfiable by the concrete instance: the laws hold
(`concrete_steps_lawful`) and the invariant holds of a real start state -/
example : ∃ (s : Store) (c : CState), (CI.view 1 [1] (CI.TM ([1].map (eval Store.init)))).Inv s c :=
  ⟨_, _, start_invariant Store.init 1 [1] WF_init' rfl (by simp [Store.init])⟩

example : GK.Spec (CI.TM ([1].map (eval Store.init))) (CI.view 1 [1] (CI.TM ([1].map (eval Store.init))))
    (groundedLoop StoreRA 2 Store.init [1]).1 ((groundedLoop StoreRA 2 Store.init [1]).2, List.replicate 1 2)
    (countLogic [1] true 2 (groundedLoop StoreRA 2 Store.init [1]).1 (groundedLoop StoreRA 2 Store.init [1]).2
      (List.replicate 1 2)) :=
  count_logic_spec true (start_invariant Store.init 1 [1] WF_init' rfl (by simp [Store.init]))

/-- `count_search_exact` on a real ADF (one statement with condition ⊤): the right-hand side is
inhabited, so the stable model `[t]` is in the answer -/
example : [some true] ∈ (countAll Store.init 1 [1] true).2.map (fun v => v.map storeIsConst) := by
  have h := (count_search_exact Store.init 1 [1] true WF_init' rfl (by simp [Store.init])).2 [some true]
  apply h.mpr
  have hD : [1].map (eval Store.init) = [fun _ => true] := by
    simp only [List.map_cons, List.map_nil]; congr 1
  simp only [hD]
  refine ⟨rfl, ?_, ?_, ?_⟩
  · intro i hi
    have : i = 0 := by simpa using hi
    subst this; exact ⟨true, rfl⟩
  · simp only [Gam, List.map_cons, List.map_nil]
    congr 1
    exact constOf_some.mpr (fun _ => rfl)
  · intro w hw i hi
    have hi0 : i = 0 := by
      rcases Nat.lt_or_ge i 1 with h' | h'
      · omega
      · rw [List.getElem?_eq_none (by simpa using h')] at hi; cases hi
    subst hi0
    rw [← hw.1]
    simp only [Gam, redu, List.map_cons, List.map_nil, List.getElem?_cons_zero, Option.some.injEq]
    exact constOf_some.mpr (fun _ => rfl)

/-- `cube_laws` on a non-terminal handle with a NON-EMPTY cube list: in the store holding x0 ∧ x1
(handle 3, built by two `mkNode` calls, well formed) the counter-model cubes are `x0 ∧ ¬x1` and
`¬x0`, and they are pairwise disjoint and cover the counter-models -/
example : WF CW.andStore ∧ cubesF CW.andStore 4 3 false 5 [] [] = [([1], [0]), ([0], [])] ∧
    ([([1], [0]), ([0], [])] : List PCube).Pairwise DisjPC ∧
    (∀ σ, σ 5 = false → eval CW.andStore 3 σ = false →
      ∃ c ∈ ([([1], [0]), ([0], [])] : List PCube), InPC c σ) := by
  have hc : cubesF CW.andStore 4 3 false 5 [] [] = [([1], [0]), ([0], [])] := by
    simp [cubesF, CW.andStore_nodes]
  have h := cube_laws CW.andStore CW.andStore_WF 3 false 5 (by simp [CW.andStore_nodes]) (by decide)
  rw [hc] at h
  exact ⟨CW.andStore_WF, hc, h.1, h.2⟩

/-- **`count_search_exact` instantiated on a framework where the search branches**: the
three-statement framework `s(a).s(b).s(c).ac(a,c).ac(b,and(b,a)).ac(c,c).` of the pre-study,
compiled by the `from_parser` model. Its grounded interpretation decides nothing
(`CW.grounded_uuu`: the all-undecided vector is the least fixpoint), so the search starts with
three undecided statements and has to pick, enumerate cubes and flip. The theorem applies (all
hypotheses discharged), its specification side is computed at the level of Boolean functions:
`FFF` is a stable model and therefore IS in the answer; `TTT` is a two-valued model that is not
stable (`CW.ttt_not_stable`) and therefore is NOT in the answer; no vector is reported twice —
for both heuristics. -/
theorem count_search_exact_branching_instance (useA : Bool) :
    let b := buildNative 3 CW.fms
    let out := (countAll b.1 3 b.2 useA).2.map (fun v => v.map storeIsConst)
    WF b.1 ∧ b.2.length = 3 ∧ (∀ t ∈ b.2, t < b.1.nodes.size) ∧
    b.2.map (eval b.1) = CW.D ∧ IsLfp CW.D [none, none, none] ∧
    out.Nodup ∧ [some false, some false, some false] ∈ out ∧ [some true, some true, some true] ∉ out := by
  intro b out
  have ⟨w, hl, h⟩ := buildNative_correct 3 CW.fms CW.fms_ok.1 CW.fms_ok.2
  have hl3 : b.2.length = 3 := hl
  have hvalid : ∀ t ∈ b.2, t < b.1.nodes.size := by
    intro t ht
    obtain ⟨i, hi, rfl⟩ := List.getElem_of_mem ht
    have hi' : i < CW.fms.length := by have : CW.fms.length = 3 := rfl; omega
    exact (h i _ _ (List.getElem?_eq_getElem hi) (List.getElem?_eq_getElem hi')).1
  have e : b.2.map (eval b.1) = CW.D :=
    map_eval_eq_sem b.1 b.2 CW.fms hl (fun i t f a c => (h i t f a c).2)
  have main := count_search_exact b.1 3 b.2 useA w hl3 hvalid
  simp only [e] at main
  refine ⟨w, hl3, hvalid, e, CW.grounded_uuu, main.1, ?_, ?_⟩
  · exact (main.2 _).mpr CW.fff_stable
  · intro hin
    exact CW.ttt_not_stable ((main.2 _).mp hin)

example : ∃ (fms : List Fm), fms.length ≤ VBOT ∧ ∀ f ∈ fms, f.atomsOK :=
  ⟨[.atom 0], by simp [VBOT], by simp [Fm.atomsOK, VBOT]⟩

/-! ### D1 replay: the unrepaired cube loop loses a stable model

`countParams … (unrepaired := true)` cuts the cube list at the first cube that contradicts the
current vectors — the closure of the outer `try_for_each` that returned `res`. On the framework
`s(a).s(b).s(c).s(d).ac(a,xor(b,d)).ac(b,c).ac(c,c).ac(d,c).` the only stable model `FFFF` is lost
(with D4 repaired, as it is in the tree now, the three-statement witness of the pre-study no longer
triggers D1; this four-statement one does). Evaluation by the compiler's interpreter (`#guard`):
the kernel cannot evaluate the store's hash tables (`mixHash` is opaque), so this is a replay, not a
theorem. That `FFFF` must be found by the repaired code is `count_search_exact`. -/
def d1Witness : Store × List Nat := buildNative 4 [.xor (.atom 1) (.atom 3), .atom 2, .atom 2, .atom 2]

#guard (countAll d1Witness.1 4 d1Witness.2 true).2 == [[0, 0, 0, 0]]
#guard (countAll d1Witness.1 4 d1Witness.2 false).2 == [[0, 0, 0, 0]]
#guard (countAllUnrepaired d1Witness.1 4 d1Witness.2 true).2 == []
#guard (countAllUnrepaired d1Witness.1 4 d1Witness.2 false).2 == []

end C04

#print axioms C04.count_search_exact
#print axioms C04.count_search_exact_branching_instance

