import AdfObdd.CountSearchS
import AdfObdd.Cubes
import AdfObdd.Stable
import AdfObdd.SearchModel
/-! # C04 — the counting-guided stable search returns exactly the stable models

`GS.search` is the recursion of `two_val_model_counts_logic` (as repaired by D1): pick an undecided
statement by ANY selection function, enumerate the path cubes of its residual towards the goal value
(threading the store through the sibling branches), then conclude the opposite value. The theorem is
proved for every instance whose steps satisfy the soundness laws `GS.CSound`; the cube laws are C13's
cube theorems. -/
namespace C04

/-- complete, sound, pairwise-disjoint outputs, store only extended, `n + 1` levels of recursion —
for every selection strategy (both heuristics, any tie-breaking) -/
theorem search_exact {S C : Type} {T : Asg → Prop} {P : GS.CParams S C} (hP : GS.CSound T P)
    (fuel : Nat) (s : S) (c : C) (hinv : P.Inv s c) (hf : P.n - decided (P.abs c) < fuel) :
    GS.Spec T P s c (GS.search P fuel s c) := GS.search_spec hP fuel s c hinv hf

/-- what `Spec` says, spelled out: every target model extending the start is covered by an output,
every output lies inside the start, outputs are pairwise disjoint (hence each model once) -/
theorem spec_meaning {S C : Type} {T : Asg → Prop} {P : GS.CParams S C} {s : S} {c : C} {r : S × List PA}
    (h : GS.Spec T P s c r) :
    (∀ σ, T σ → Matches (P.abs c) σ → ∃ o ∈ r.2, Matches o σ) ∧
    (∀ o ∈ r.2, ∀ σ, Matches o σ → Matches (P.abs c) σ) ∧ r.2.Pairwise Disj :=
  ⟨h.cover, h.sound, h.disj⟩

/-- the cube laws the concrete instance needs are theorems about the model of `Bdd::interpretations` -/
theorem cube_laws (s : Store) (w : WF s) (t : Nat) (goal : Bool) (gv : Nat) (ht : t < s.nodes.size) (ht2 : 2 ≤ t) :
    (cubesF s (t+1) t goal gv [] []).Pairwise DisjPC ∧
    (∀ σ, σ gv = goal → eval s t σ = goal → ∃ c ∈ cubesF s (t+1) t goal gv [] [], InPC c σ) :=
  ⟨cubes_disjoint s w (t+1) t goal gv [] [] ht (Nat.lt_succ_self _),
   fun σ h1 h2 => cubes_cover s w (t+1) t goal gv [] [] σ ht (Nat.lt_succ_self _) ht2 ⟨by simp, by simp⟩ h1 h2⟩

/-- the final filter is the stability test of C03 -/
theorem final_filter_is_stability (D : List BoolFn) (v w : I3) (hlen : v.length = D.length) (ht : TotalI v)
    (hw : IsLfp (redu D v) w) :
    w = v ↔ (Gam D v = v ∧ ∀ (i : Nat), v[i]? = some (some true) → w[i]? = some (some true)) :=
  stable_check_iff D v w hlen ht hw

/-- full statement for the concrete model `countAll` (what the driver runs, handle-exact with the
code); PARTIAL: the laws `CSound` are not yet discharged for the concrete steps -/
def count_search_exact_statement : Prop :=
  ∀ (s : Store) (n : Nat) (ac : List Nat) (useA : Bool), WF s → ac.length = n → (∀ t ∈ ac, t < s.nodes.size) →
    let D := ac.map (eval s)
    let out := (countAll s n ac useA).2.map (fun v => v.map storeIsConst)
    out.Nodup ∧ ∀ v : I3, v ∈ out ↔
      (v.length = n ∧ TotalI v ∧ Gam D v = v ∧
        ∀ w : I3, IsLfp (redu D v) w → ∀ i : Nat, v[i]? = some (some true) → w[i]? = some (some true))

example : ([] : List PA).Pairwise Disj := List.Pairwise.nil

end C04
