import AdfObdd.OpsProofs
import AdfObdd.Grounded
import AdfObdd.Complete
import AdfObdd.PreGround2
import AdfObdd.Stable
/-! # C11 — cache transparency, handle stability, determinism across call histories

Every public call only *extends* the node table and adds sound memo entries (`WF` is preserved,
`Ext` holds: C06/C07); the conditions `ac` are never modified. Answers are functions of the Boolean
functions the handles denote, so they cannot depend on what was computed before. -/
namespace C11

/-- handle stability: after any further operation sequence every earlier handle denotes what it
denoted before (memo tables warm or cold) -/
theorem handles_stable (ops : List Op) (s : Store) (hist : List Nat) (fs : List BoolFn)
    (w : WF s) (h : HistOK s hist fs) (hv : opsValid ops hist.length) (t : Nat) (ht : t < s.nodes.size) :
    ∀ σ, eval (runOps ops s hist).1 t σ = eval s t σ :=
  fun σ => eval_ext w (runOps_refines ops s hist fs w h hv).2.1 t σ ht

/-- the grounded answer depends only on the functions of the conditions: two well-formed stores
(e.g. a fresh object and one with an arbitrary call history) whose condition handles denote the same
functions give the same decided part -/
theorem grounded_history_independent (s s' : Store) (ac ac' : List Nat) (w : WF s) (w' : WF s')
    (hv : ∀ t ∈ ac, t < s.nodes.size) (hv' : ∀ t ∈ ac', t < s'.nodes.size)
    (hsame : ac.map (eval s) = ac'.map (eval s')) :
    (groundedLoop StoreRA (ac.length + 1) s ac).2.map storeIsConst =
    (groundedLoop StoreRA (ac'.length + 1) s' ac').2.map storeIsConst := by
  have h1 := grounded_native (ac.length + 1) s ac w hv (Nat.lt_succ_self _)
  have h2 := grounded_native (ac'.length + 1) s' ac' w' hv' (Nat.lt_succ_self _)
  simp only at h1 h2
  rw [← hsame] at h2
  have l1 := congrArg List.length h1.1
  have l2 := congrArg List.length h2.1
  rw [Gam_length] at l1 l2
  exact Le3_antisymm (by omega) (h1.2 _ h2.1) (h2.2 _ h1.1)

/-- the complete filter's verdict depends only on the functions as well -/
theorem complete_filter_history_independent (s s' : Store) (ac v ac' v' : List Nat) (w : WF s) (w' : WF s')
    (ha : ∀ t ∈ ac, t < s.nodes.size) (hv : ∀ t ∈ v, t < s.nodes.size) (hl : ac.length = v.length)
    (ha' : ∀ t ∈ ac', t < s'.nodes.size) (hv' : ∀ t ∈ v', t < s'.nodes.size) (hl' : ac'.length = v'.length)
    (hsame : ac.map (eval s) = ac'.map (eval s')) (hv3 : v.map storeIsConst = v'.map storeIsConst) :
    (completeCheck StoreRA s v ac v).2 = (completeCheck StoreRA s' v' ac' v').2 := by
  have a := complete_filter_iff StoreRA s ac v w ha hv hl
  have b := complete_filter_iff StoreRA s' ac' v' w' ha' hv' hl'
  have e1 : asg3 StoreRA v = asg3 StoreRA v' := hv3
  have e2 : ac.map (StoreRA.den s) = ac'.map (StoreRA.den s') := hsame
  rw [e1, e2] at a
  cases h : (completeCheck StoreRA s v ac v).2 <;> cases h' : (completeCheck StoreRA s' v' ac' v').2 <;> simp_all

/-! Search-order independence across histories (the ORDER in which the searches of C04/C05 emit
    their models after an arbitrary history) would need a handle-renaming simulation; it is not
    stated as a theorem and is checked by the runs only. -/

example : WF Store.init := WF_init

end C11
