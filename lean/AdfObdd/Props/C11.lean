import AdfObdd.OpsProofs
import AdfObdd.Grounded
import AdfObdd.Complete
import AdfObdd.PreGround2
import AdfObdd.Stable
import AdfObdd.Props.C02
import AdfObdd.Props.C03
import AdfObdd.Props.C04
import AdfObdd.Props.C05
import AdfObdd.MemoCheckProofs
import AdfObdd.MemoTransparent
import AdfObdd.CallHistoryMemo
import AdfObdd.CallHistoryMemoFull
/-! # C11 — cache transparency, handle stability, determinism across call histories

Every public call only *extends* the node table and adds sound memo entries (`WF` is preserved,
`Ext` holds: C06/C07); the conditions `ac` are never modified. Answers are functions of the Boolean
functions the handles denote, so they cannot depend on what was computed before. -/
namespace C11

/-- handle stability: after any further operation sequence every earlier handle denotes what it
denoted before (memo tables warm or cold) -/
theorem handles_stable (ops : List Op) (s : Store) (hist : List Nat) (fs : List BoolFn)
    (w : WF s) (h : HistOK s hist fs) (hv : opsValid ops hist.length) (t : Nat) (ht : t < s.nodes.size) :
    ∀ σ, eval (runOps ops s hist).1 t σ = eval s t σ :=
  fun σ => eval_ext w (runOps_refines ops s hist fs w h hv).2.1 t σ ht

/-- the grounded answer depends only on the functions of the conditions: two well-formed stores
(e.g. a fresh object and one with an arbitrary call history) whose condition handles denote the same
functions give the same decided part -/
theorem grounded_history_independent (s s' : Store) (ac ac' : List Nat) (w : WF s) (w' : WF s')
    (hv : ∀ t ∈ ac, t < s.nodes.size) (hv' : ∀ t ∈ ac', t < s'.nodes.size)
    (hsame : ac.map (eval s) = ac'.map (eval s')) :
    (groundedLoop StoreRA (ac.length + 1) s ac).2.map storeIsConst =
    (groundedLoop StoreRA (ac'.length + 1) s' ac').2.map storeIsConst := by
  have h1 := grounded_native (ac.length + 1) s ac w hv (Nat.lt_succ_self _)
  have h2 := grounded_native (ac'.length + 1) s' ac' w' hv' (Nat.lt_succ_self _)
  simp only at h1 h2
  rw [← hsame] at h2
  have l1 := congrArg List.length h1.1
  have l2 := congrArg List.length h2.1
  rw [Gam_length] at l1 l2
  exact Le3_antisymm (by omega) (h1.2 _ h2.1) (h2.2 _ h1.1)

/-- the complete filter's verdict depends only on the functions as well -/
theorem complete_filter_history_independent (s s' : Store) (ac v ac' v' : List Nat) (w : WF s) (w' : WF s')
    (ha : ∀ t ∈ ac, t < s.nodes.size) (hv : ∀ t ∈ v, t < s.nodes.size) (hl : ac.length = v.length)
    (ha' : ∀ t ∈ ac', t < s'.nodes.size) (hv' : ∀ t ∈ v', t < s'.nodes.size) (hl' : ac'.length = v'.length)
    (hsame : ac.map (eval s) = ac'.map (eval s')) (hv3 : v.map storeIsConst = v'.map storeIsConst) :
    (completeCheck StoreRA s v ac v).2 = (completeCheck StoreRA s' v' ac' v').2 := by
  have a := complete_filter_iff StoreRA s ac v w ha hv hl
  have b := complete_filter_iff StoreRA s' ac' v' w' ha' hv' hl'
  have e1 : asg3 StoreRA v = asg3 StoreRA v' := hv3
  have e2 : ac.map (StoreRA.den s) = ac'.map (StoreRA.den s') := hsame
  rw [e1, e2] at a
  cases h : (completeCheck StoreRA s v ac v).2 <;> cases h' : (completeCheck StoreRA s' v' ac' v').2 <;> simp_all

/-- the complete-model answer after an arbitrary call history is the answer of a fresh object:
as sets of three-valued interpretations (each listed once on both sides) -/
theorem complete_history_independent (s s' : Store) (n : Nat) (ac ac' : List Nat) (w : WF s) (w' : WF s')
    (hl : ac.length = n) (hl' : ac'.length = n)
    (hv : ∀ t ∈ ac, t < s.nodes.size) (hv' : ∀ t ∈ ac', t < s'.nodes.size)
    (hsame : ac.map (eval s) = ac'.map (eval s')) (v : I3) :
    v ∈ (completeAll s n ac).2.2.map (fun x => x.map storeIsConst) ↔
    v ∈ (completeAll s' n ac').2.2.map (fun x => x.map storeIsConst) := by
  have a := (C02.complete_exact s n ac w hl hv).2.1 v
  have b := (C02.complete_exact s' n ac' w' hl' hv').2.1 v
  rw [a, b, hsame]

/-- the same for the enumerate-and-check stable models … -/
theorem stable_history_independent (s s' : Store) (n : Nat) (ac ac' : List Nat) (w : WF s) (w' : WF s')
    (hl : ac.length = n) (hl' : ac'.length = n)
    (hv : ∀ t ∈ ac, t < s.nodes.size) (hv' : ∀ t ∈ ac', t < s'.nodes.size)
    (hsame : ac.map (eval s) = ac'.map (eval s')) (v : I3) :
    v ∈ (stableAll s n ac).2.map (fun x => x.map storeIsConst) ↔
    v ∈ (stableAll s' n ac').2.map (fun x => x.map storeIsConst) := by
  have a := (C03.stable_exact s n ac w hl hv).2 v
  have b := (C03.stable_exact s' n ac' w' hl' hv').2 v
  rw [a, b, hsame]

/-- … for the counting-guided search, whose branching order DOES depend on the diagrams' shapes and
on the memo state only through handles: the set of answers does not … -/
theorem count_search_history_independent (s s' : Store) (n : Nat) (ac ac' : List Nat) (useA useA' : Bool)
    (w : WF s) (w' : WF s') (hl : ac.length = n) (hl' : ac'.length = n)
    (hv : ∀ t ∈ ac, t < s.nodes.size) (hv' : ∀ t ∈ ac', t < s'.nodes.size)
    (hsame : ac.map (eval s) = ac'.map (eval s')) (v : I3) :
    v ∈ (countAll s n ac useA).2.map (fun x => x.map storeIsConst) ↔
    v ∈ (countAll s' n ac' useA').2.map (fun x => x.map storeIsConst) := by
  have a := (C04.count_search_exact s n ac useA w hl hv).2 v
  have b := (C04.count_search_exact s' n ac' useA' w' hl' hv').2 v
  rw [a, b, hsame]

/-- … and for the nogood-learning search in stable mode, under any two heuristics: whatever was
computed before and whichever heuristic is used, the same models are delivered, each once -/
theorem ng_search_history_independent (h h' : SM.Heu) (s s' : Store) (n : Nat) (ac ac' : List Nat)
    (w : WF s) (w' : WF s') (hl : ac.length = n) (hl' : ac'.length = n)
    (hv : ∀ t ∈ ac, t < s.nodes.size) (hv' : ∀ t ∈ ac', t < s'.nodes.size)
    (hsame : ac.map (eval s) = ac'.map (eval s')) :
    ∃ fuel fuel', (SM.ngSearch h fuel s n ac true).2.2.2 = true ∧ (SM.ngSearch h' fuel' s' n ac' true).2.2.2 = true ∧
      ∀ v : I3, v ∈ (SM.ngSearch h fuel s n ac true).2.1.map (fun x => x.map storeIsConst) ↔
                v ∈ (SM.ngSearch h' fuel' s' n ac' true).2.1.map (fun x => x.map storeIsConst) := by
  obtain ⟨f, hd, _, hm⟩ := C05.ng_search_exact h s n ac true w hl hv (by intro hh; cases hh)
  obtain ⟨f', hd', _, hm'⟩ := C05.ng_search_exact h' s' n ac' true w' hl' hv' (by intro hh; cases hh)
  refine ⟨f, f', hd, hd', ?_⟩
  intro v
  have a := hm v
  have b := hm' v
  rw [a, b, hsame]

/-! Determinism ("repeating the same call sequence reproduces the same answers in the same order") is
    immediate for the model: every function above is a pure function of explicit inputs (for Rand the
    generator state is an explicit input of the scripted shape). The ORDER in which the two searches
    emit their models after different histories is not claimed by the property and is not proved
    equal (it is nevertheless compared handle for handle with the model on every explored history). -/

/-- non-vacuity of the history-independence theorems: two (here identical) well-formed stores whose
condition handles denote the same functions -/
example : WF Store.init ∧ [1, 0].length = 2 ∧ (∀ t ∈ [1, 0], t < Store.init.nodes.size) ∧
    [1, 0].map (eval Store.init) = [1, 0].map (eval Store.init) := by
  refine ⟨WF_init, rfl, ?_, rfl⟩
  intro t ht
  simp at ht
  rcases ht with h | h <;> subst h <;> simp [Store.init]

example : WF Store.init := WF_init

end C11

/-! ## the audit of the implementation's real memo tables is a verified checker

At the end of every diagram-family case (and after the ADF computations and the persistence round
trips) the harness dumps the PRIVATE tables of the Rust object — unique table, if-then-else memo,
restrict memo, count cache, dependency lists — next to its node table. `wfCheck` (proved:
`wfCheck_sound`) establishes the structural invariant of the dumped node table;
`MemoCheck.memoCheckF` audits the other tables against the Boolean functions of that node table.
`memo_audit_sound` says what a positive verdict means: every memo entry, whenever and in whichever
order it was written, denotes what it is a memo of — which is why a warm cache cannot change an
answer. (`MemoCheck.lean`, `MemoCheckProofs.lean`.) -/
namespace C11

/-- **soundness of the memo audit**: on a dumped node table that passes `wfCheck`, a positive
verdict of `memoCheckF` on the dumped private tables means `MemoSound` for every store `s` with
that node table:
* every unique-table row `(v, lo, hi, t)` is the node at the inner handle `t`, and every inner
  node has its row;
* every if-then-else entry `(i, t, e, r)` has its handles in range and
  `∀ σ, eval s r σ = if eval s i σ then eval s t σ else eval s e σ`;
* every restrict entry `(t, v, b, r)` has `∀ σ, eval s r σ = eval s t (upd σ v b)`;
* every count entry holds `pathsF`, the depth of `countF` and — unless the feature set is the
  documented exception — the (counter-)model counts of `countF`;
* there is one dependency list per node, equal as a set to `depsF`. -/
theorem memo_audit_sound (nv : Nat) (exc : Bool) (s : Store) (r : MemoCheck.Rows)
    (hwf : wfCheck s.nodes = true) (hc : MemoCheck.memoCheckF nv exc s.nodes r = true) :
    MemoCheck.MemoSound nv exc s r :=
  MemoCheck.memoCheckF_sound nv exc s r (wfCheck_sound s.nodes hwf) hc

/-- the same from the structural invariant (e.g. for the node table of a model store, `WF.table`) -/
theorem memo_audit_sound_of_tableWF (nv : Nat) (exc : Bool) (s : Store) (r : MemoCheck.Rows)
    (h : TableWF s.nodes) (hc : MemoCheck.memoCheckF nv exc s.nodes r = true) :
    MemoCheck.MemoSound nv exc s r :=
  MemoCheck.memoCheckF_sound nv exc s r h hc

/-- the checker's bottom-up table of a node represents the node's function -/
theorem memo_audit_tables_represent (s : Store) (h : TableWF s.nodes) (nv i : Nat) (hi : i < s.nodes.size) :
    TT.Rep nv ((MemoCheck.ttOf nv s.nodes).getD i 0) (eval s i) :=
  MemoCheck.tt_of_node_rep s h nv i hi

/-- the node table of x0, x1 and x0 ∧ x1 (handles 2, 3, 4) over two variables … -/
def auditTable : Array Node := #[⟨VBOT, 0, 0⟩, ⟨VTOP, 1, 1⟩, ⟨0, 0, 1⟩, ⟨1, 0, 1⟩, ⟨0, 0, 3⟩]

/-- … and private tables as the implementation would hold them after computing the conjunction,
two restrictions and the counts of the conjunction (3 counter-models, 1 model, 2 paths to ⊥,
1 path to ⊤, depth 2) -/
def auditRows : MemoCheck.Rows :=
  { uniq := [(0, 0, 3, 4), (0, 0, 1, 2), (1, 0, 1, 3)]
    ite := [(2, 3, 0, 4)]
    res := [(4, 0, true, 3), (4, 0, false, 0), (4, 1, false, 0)]
    cnt := [(4, 3, 1, 2, 1, 2), (3, 1, 1, 1, 1, 1)]
    deps := some [[], [], [0], [1], [0, 1]] }

/-- non-vacuity: both checks pass on these tables (by evaluation), so the theorem applies … -/
example : wfCheck auditTable = true ∧ MemoCheck.memoCheckF 2 false auditTable auditRows = true := by
  constructor <;> decide

example : MemoCheck.MemoSound 2 false ⟨auditTable, ∅, ∅, ∅⟩ auditRows :=
  memo_audit_sound 2 false ⟨auditTable, ∅, ∅, ∅⟩ auditRows (by decide) (by decide)

/-- … and the audit is not trivially positive: a wrong if-then-else entry (x0 ∧ x1 recorded as
x1), a wrong cofactor, a wrong model count, a missing unique-table row and a wrong dependency
list are each rejected -/
example :
    MemoCheck.memoCheckF 2 false auditTable { auditRows with ite := [(2, 3, 0, 3)] } = false ∧
    MemoCheck.memoCheckF 2 false auditTable { auditRows with res := [(4, 0, true, 4)] } = false ∧
    MemoCheck.memoCheckF 2 false auditTable { auditRows with cnt := [(4, 2, 2, 2, 1, 2)] } = false ∧
    MemoCheck.memoCheckF 2 true auditTable { auditRows with cnt := [(4, 2, 2, 2, 1, 2)] } = true ∧
    MemoCheck.memoCheckF 2 false auditTable { auditRows with uniq := [(0, 0, 3, 4), (0, 0, 1, 2), (0, 0, 1, 2)] } = false ∧
    MemoCheck.memoCheckF 2 false auditTable { auditRows with deps := some [[], [], [0], [1], [1]] } = false := by
  refine ⟨?_, ?_, ?_, ?_, ?_, ?_⟩ <;> decide

/-- **handles_memo_independent** (memo transparency of the allocation order): on two well-formed
stores with the same node table — memo tables `iteC` / `resC` warm, cold or different on either side —
every operation sequence issues the same handle NUMBERS and builds the same node table; in
particular (second half) on a store whose memo tables were dropped.  Proved in
`AdfObdd/MemoTransparent.lean`: an operation whose result is already represented returns that handle
and allocates nothing (`MemoT.iteF_rep`, `MemoT.restrictF_rep`), hence a memo hit on one side is
matched by the recomputation on the other (`MemoT.iteF_lock`, `MemoT.restrictF_lock`). -/
theorem handles_memo_independent (ops : List Op) (s s' : Store) (hist : List Nat) (w : WF s) (w' : WF s')
    (hn : s'.nodes = s.nodes) (hh : ∀ k, k < hist.length → hget hist k < s.nodes.size)
    (hv : opsValid ops hist.length) :
    ((runOps ops s' hist).2 = (runOps ops s hist).2 ∧
     (runOps ops s' hist).1.nodes = (runOps ops s hist).1.nodes) ∧
    ((runOps ops { s with iteC := {}, resC := {} } hist).2 = (runOps ops s hist).2 ∧
     (runOps ops { s with iteC := {}, resC := {} } hist).1.nodes = (runOps ops s hist).1.nodes) :=
  ⟨runOps_memo_transparent ops s s' hist w w' hn hh hv, runOps_memo_dropped ops s hist w hh hv⟩

/-- the single-call core, for reference: a diagram operation whose result function is already
represented by a handle `r` returns `r` and leaves the node table alone, whatever the memo holds -/
theorem represented_result_not_reallocated (s : Store) (w : WF s) (i t e r : Nat)
    (hi : i < s.nodes.size) (ht : t < s.nodes.size) (he : e < s.nodes.size) (hr : r < s.nodes.size)
    (hev : ∀ σ, eval s r σ = if eval s i σ then eval s t σ else eval s e σ) :
    (opIte s i t e).1.nodes = s.nodes ∧ (opIte s i t e).2 = r :=
  MemoT.iteF_rep (i + t + e + 1) s i t e r w hi ht he (by omega) hr hev

/-- the reachable states satisfy the hypotheses: after any valid operation sequence from the fresh
object, the state and its memo-dropped copy continue in lockstep -/
theorem handles_memo_independent_reachable (ops0 ops : List Op) (hv0 : opsValid ops0 2)
    (hv : opsValid ops (runOps ops0 Store.init [0, 1]).2.length) :
    let s := (runOps ops0 Store.init [0, 1]).1
    let hist := (runOps ops0 Store.init [0, 1]).2
    (runOps ops { s with iteC := {}, resC := {} } hist).2 = (runOps ops s hist).2 ∧
    (runOps ops { s with iteC := {}, resC := {} } hist).1.nodes = (runOps ops s hist).1.nodes := by
  intro s hist
  have ⟨w, _, h⟩ := runOps_refines ops0 Store.init [0, 1] _ WF_init HistOK.init hv0
  exact runOps_memo_dropped ops s hist w (fun k hk => (h.ok k hk).1) hv

/-- non-vacuity: the hypotheses hold for the fresh object and a concrete operation sequence
(x0, x1, x0 ∧ x1, x0 ∧ x1 again, ¬(x0 ∧ x1), (x0 ∧ x1)[x0 := ⊤]) … -/
example :
    let ops : List Op := [.var 0, .var 1, .and 2 3, .and 2 3, .not 4, .restrict 4 0 true]
    (runOps ops { Store.init with iteC := {}, resC := {} } [0, 1]).2 = (runOps ops Store.init [0, 1]).2 :=
  (handles_memo_independent _ Store.init Store.init [0, 1] WF_init WF_init rfl
    (fun k hk => (HistOK.init.ok k hk).1) (by simp [opsValid, Op.valid, VBOT])).2.1

/-- … and for a warm reachable state against its memo-dropped copy -/
example :
    let s := (runOps [.var 0, .var 1, .and 2 3] Store.init [0, 1]).1
    let hist := (runOps [.var 0, .var 1, .and 2 3] Store.init [0, 1]).2
    (runOps [.and 2 3, .xor 2 3] { s with iteC := {}, resC := {} } hist).2 =
    (runOps [.and 2 3, .xor 2 3] s hist).2 :=
  (handles_memo_independent_reachable [.var 0, .var 1, .and 2 3] [.and 2 3, .xor 2 3]
    (by simp [opsValid, Op.valid, VBOT]) (by rw [runOps_length]; simp [opsValid, Op.valid])).1

end C11

#print axioms C11.memo_audit_sound
#print axioms C11.handles_memo_independent
#print axioms C11.handles_memo_independent_reachable


/-! ## call histories on ONE object

`AdfObdd/CallHistory.lean` models the object (`AdfState`: shared store, `n`, `ac`, handles issued so
far), the public calls a user can repeat on it (`Call`: grounded, complete, stable,
stable_with_prefilter, the two counting searches, the nogood-learning search in stable and two-valued
mode with every modelled heuristic incl. a scripted custom one, models / paths / depth / variable
dependencies of a condition, extra formulas as a list of diagram operations) and `runCall` /
`runCalls`, built from exactly the definitions the driver runs for the corresponding protocol lines
(`groundedLoop StoreRA`, `completeAll`, `stableAll`, `Cli.stablePre` (= `Drv.stablePreAll`),
`countAll`, `SM.ngSearch`, `countF` / `paths` / `depsOf`, `runOps`), threading the store.
`Heuristic::Rand` is not modelled (nor run by the driver): the generator state is outside the model.
Proofs: `AdfObdd/CallHistoryProofs.lean`, `AdfObdd/CallHistoryMemo.lean`, `AdfObdd/SearchLock.lean`
(+ `CountSearchLock.lean`), `AdfObdd/CallHistoryMemoFull.lean`. -/
namespace C11
open CallH

/-- **invariant over call histories** (induction over the call list). After ANY history on an
object that satisfies the invariant `Inv` (store `WF`, `ac` = `n` valid handles, issued handles
valid): the invariant holds again; `ac` and `n` are unchanged; handles are only appended to the
issued list; the node table only grew (`Ext`: size and every old entry kept — a prefix); and every
handle that existed before — the statement handles `ac`, every issued handle — is still valid,
names the same node and denotes the same Boolean function. The nogood-learning search needs no
halting hypothesis here (`CallH.ngSearch_store`: well formed for every bound). -/
theorem history_invariant (st : AdfState) (hi : Inv st) (h : List Call) :
    let st' := (runCalls st h).1
    Inv st' ∧ st'.ac = st.ac ∧ st'.n = st.n ∧ st.issued <+: st'.issued ∧ Ext st.s st'.s ∧
    (∀ t, t < st.s.nodes.size →
      t < st'.s.nodes.size ∧ st'.s.nodes[t]? = st.s.nodes[t]? ∧ ∀ σ, eval st'.s t σ = eval st.s t σ) ∧
    (∀ t ∈ st.ac ++ st.issued, t < st.s.nodes.size) := by
  intro st'
  have ⟨hi', stp⟩ := runCalls_inv h st hi
  refine ⟨hi', stp.ac, stp.n, stp.issued, stp.ext, fun t ht => stp.handles_stable hi t ht, ?_⟩
  intro t ht
  rcases List.mem_append.mp ht with h1 | h1
  · exact hi.ac t h1
  · exact hi.issued t h1

/-- **every answer is determined by the Boolean functions of the conditions** (`CallH.Exact`): on an
object satisfying the invariant, `grounded` returns the least fixpoint (and handles of the residual
functions `semLoop`), `complete` the fixpoints of Γ without duplicates, grounded first, the three
stable enumerations and both searches exactly the stable models, each once, the two-valued search
the two-valued models (side condition `Supp` as in C05), extra formulas handles of the functions
the operations name. -/
theorem answers_exact (st : AdfState) (c : Call) (hi : Inv st) (hs : c.twoValued → Supp st) :
    Exact (st.ac.map (eval st.s)) st.n c (runCall st c).1.s (runCall st c).2 :=
  runCall_exact st c hi hs

/-- **history independence**: for every history `h` and every call `c`, the answer of `c` after `h`
agrees with the answer of `c` on the object before `h` (e.g. freshly built): `CallH.Agree` —
grounded: same T/F/u vector and the handles denote the same residual functions; complete: no
duplicates, same set of T/F/u vectors, same FIRST element; stable / prefilter / counting searches /
nogood search in both modes: no duplicates, same set; queries: equal numbers; extra formulas: same
functions; rejected requests: rejected on both sides. For a nogood search that hit its iteration
bound on either side nothing is claimed — `ng_halts_after_history` says that does not happen for
large bounds. -/
theorem answers_history_independent (st : AdfState) (hi : Inv st) (h : List Call) (c : Call)
    (hs : c.twoValued → Supp st) :
    Agree c (runCall (runCalls st h).1 c).1.s (answerAfter st h c) (runCall st c).1.s (runCall st c).2 :=
  history_independent st hi h c hs

theorem ng_halts_after_history (st : AdfState) (hi : Inv st) (h : List Call) (heu : SM.Heu) (stable : Bool)
    (hs : stable = false → Supp st) :
    ∃ F0, ∀ F, F0 ≤ F → answerAfter st h (.ng heu F stable) ≠ .fuelExhausted :=
  ng_halts_after st hi h heu stable hs

/-- from the written framework: after ANY history on the freshly built object every answer is the
definitional answer for the WRITTEN conditions (`fms.map Fm.sem`) -/
theorem answers_exact_after_history_from_formulas (fms : List Fm) (hn : fms.length ≤ VBOT)
    (hv : ∀ f ∈ fms, NConc.atomsLt fms.length f) (h : List Call) (c : Call) :
    Exact (fms.map Fm.sem) fms.length c (runCall (runCalls (freshAdf fms) h).1 c).1.s
      (answerAfter (freshAdf fms) h c) :=
  exact_after_history_from_formulas fms hn hv h c

/-! ### determinism: what a pure model can say and what it cannot

(a) "The same call sequence on two objects built the same way yields the same answers in the same
order, the same node tables and handles": for the MODEL this is congruence of the function
`runCalls` (`same_calls_same_answers` below) and carries no information — a Lean function cannot be
nondeterministic. What it rules in is only that the model has no hidden input: no clock, no
address, no generator state (`Heuristic::Rand` is excluded from `Call`).

(b) What could make the REAL object nondeterministic or history dependent in its emission order is
state that is not part of the mathematical answer: the CONTENTS of the memo tables (which depend on
everything computed before) and the iteration order of hash maps. The first is covered by a
theorem: `answers_memo_independent` — for EVERY call kind (both searches included) the answers
INCLUDING THEIR ORDER, issued handle numbers and the node table afterwards are the same on two
objects that differ arbitrarily in the contents of `ite_cache` / `restrict_cache` (built on
`handles_memo_independent` / `MemoT.restrictF_lock`); hence emission order is a function of the node
table, `n`, `ac` (`answers_depend_on_node_table`), and dropping the memo tables or exporting and
re-importing the object at any point of a history changes no later answer
(`answers_memo_dropped_midway`, `answers_reimport_midway`). The second is OUTSIDE the
model: the model never iterates a hash map (the unique table and the memo tables are only ever
looked up by key), exactly as `obdd.rs` / `adf.rs` never iterate `HashMap`s when computing answers;
that the Rust code indeed does not is a fact about the source that only the correspondence run
(handle-for-handle comparison of the driver with the real object on every explored history)
witnesses. -/

/-- (a) congruence — trivially true of any function; stated for the record only -/
theorem same_calls_same_answers (st st' : AdfState) (h h' : List Call) (e1 : st = st') (e2 : h = h') :
    runCalls st h = runCalls st' h' := runCalls_deterministic st st' h h' e1 e2

/-- (b) full statement (every call kind), one call -/
def answers_memo_independent_statement : Prop := CallH.memo_independent_statement

/-- (b) **one call, every call kind**: grounded / complete / stable / stable_with_prefilter / both
counting searches / the nogood-learning search in both modes with every modelled heuristic /
queries / extra formulas. On two objects equal up to memo CONTENTS (`MemoEq`: both stores well
formed, same node table, same `n`, `ac`, issued handles) the answers are EQUAL — same vectors, same
ORDER, same handle numbers, for the nogood search also the same interpretations shown to the
heuristic and the same verdict on the iteration bound — and the objects are again equal up to memo
contents (same node table). No halting or support hypothesis is needed. -/
theorem answers_memo_independent_call : answers_memo_independent_statement := CallH.memo_independent

/-- (b) **any history**: the answer lists are equal and the final objects equal up to memo contents -/
theorem answers_memo_independent (h : List Call) (st st' : AdfState) (hi : Inv st) (hm : MemoEq st st') :
    (runCalls st' h).2 = (runCalls st h).2 ∧ MemoEq (runCalls st h).1 (runCalls st' h).1 :=
  runCalls_memo_independent h st st' hi hm

/-- emission order (and every other part of the answers, the node table and the issued handles
afterwards) is a function of the node table, `n`, `ac` and the issued handles only: two objects
satisfying the invariant that agree on these answer every history identically -/
theorem answers_depend_on_node_table (h : List Call) (st st' : AdfState) (hi : Inv st) (hi' : Inv st')
    (hnodes : st'.s.nodes = st.s.nodes) (hn : st'.n = st.n) (hac : st'.ac = st.ac) (his : st'.issued = st.issued) :
    (runCalls st' h).2 = (runCalls st h).2 ∧ (runCalls st' h).1.s.nodes = (runCalls st h).1.s.nodes ∧
    (runCalls st' h).1.issued = (runCalls st h).1.issued :=
  CallH.answers_depend_on_node_table h st st' hi hi' hnodes hn hac his

/-- in particular against the memo-dropped copy of any object -/
theorem answers_memo_dropped (h : List Call) (st : AdfState) (hi : Inv st) :
    (runCalls (dropMemo st) h).2 = (runCalls st h).2 ∧
    (runCalls (dropMemo st) h).1.s.nodes = (runCalls st h).1.s.nodes := by
  have ⟨a, m⟩ := runCalls_memo_independent h st _ hi (memoEq_drop st hi)
  exact ⟨a, m.lk.nodes⟩

/-- dropping the memo tables after ANY history `h1` changes no answer of ANY continuation `h2`
(nor its order, nor the node table built) -/
theorem answers_memo_dropped_midway (st : AdfState) (hi : Inv st) (h1 h2 : List Call) :
    (runCalls (dropMemo (runCalls st h1).1) h2).2 = (runCalls (runCalls st h1).1 h2).2 ∧
    (runCalls (dropMemo (runCalls st h1).1) h2).1.s.nodes = (runCalls (runCalls st h1).1 h2).1.s.nodes :=
  memo_dropped_midway st hi h1 h2

/-- the same for the object whose `Bdd` went through `serde` export and import
(`Persist.exportB` / `importB` of C14: node table and unique table survive, memo tables skipped) -/
theorem answers_reimport_midway (st : AdfState) (hi : Inv st) (h1 h2 : List Call) :
    (runCalls (reimport (runCalls st h1).1) h2).2 = (runCalls (runCalls st h1).1 h2).2 ∧
    (runCalls (reimport (runCalls st h1).1) h2).1.s.nodes = (runCalls (runCalls st h1).1 h2).1.s.nodes :=
  CallH.reimport_midway st hi h1 h2

/-- corollaries kept under their old names (search-free histories) -/
theorem answers_memo_independent_partial (h : List Call) (st st' : AdfState) (hi : Inv st) (hm : MemoEq st st')
    (_hc : ∀ c ∈ h, ¬ c.isSearch) :
    (runCalls st' h).2 = (runCalls st h).2 ∧ MemoEq (runCalls st h).1 (runCalls st' h).1 :=
  answers_memo_independent h st st' hi hm

theorem answers_memo_dropped_partial (h : List Call) (st : AdfState) (hi : Inv st) (_hc : ∀ c ∈ h, ¬ c.isSearch) :
    (runCalls (dropMemo st) h).2 = (runCalls st h).2 ∧
    (runCalls (dropMemo st) h).1.s.nodes = (runCalls st h).1.s.nodes :=
  answers_memo_dropped h st hi

/-! ### non-vacuity: a ← ¬b, b ← ¬a (two statements), non-trivial histories

Stores do not kernel-reduce (`Std.HashMap`), so the theorems are instantiated; the `#guard`s
show by evaluation what the instantiated statements speak about. -/

def exFms : List Fm := [.not (.atom 1), .not (.atom 0)]
def exHist : List Call := [.complete, .ops [.xor 2 3, .not 4], .count true, .grounded, .query 1 .models]

theorem exFms_ok : exFms.length ≤ VBOT ∧ ∀ f ∈ exFms, NConc.atomsLt exFms.length f := by
  refine ⟨by simp [exFms, VBOT], ?_⟩
  intro f hf
  simp only [exFms, List.mem_cons, List.mem_nil_iff, or_false] at hf
  rcases hf with h | h <;> subst h <;> simp [NConc.atomsLt, exFms]

theorem exInv : Inv (freshAdf exFms) :=
  (fresh_inv exFms exFms_ok.1 (fun f hf => NConc.atomsOK_of_lt exFms_ok.1 f (exFms_ok.2 f hf))).1

/-- the invariant theorem applies to the history … -/
example : Inv (runCalls (freshAdf exFms) exHist).1 ∧ (runCalls (freshAdf exFms) exHist).1.ac = (freshAdf exFms).ac :=
  ⟨(history_invariant _ exInv exHist).1, (history_invariant _ exInv exHist).2.1⟩

/-- … the stable models after it are those of the fresh object, also via the two-valued nogood search
(side condition discharged by `fresh_supp`) … -/
example : Agree .stable (runCall (runCalls (freshAdf exFms) exHist).1 .stable).1.s
    (answerAfter (freshAdf exFms) exHist .stable) (runCall (freshAdf exFms) .stable).1.s
    (runCall (freshAdf exFms) .stable).2 :=
  answers_history_independent _ exInv exHist .stable (fun h => h.elim)

example : Agree (.ng .minPathsMaxVarImp 1000 false)
    (runCall (runCalls (freshAdf exFms) exHist).1 (.ng .minPathsMaxVarImp 1000 false)).1.s
    (answerAfter (freshAdf exFms) exHist (.ng .minPathsMaxVarImp 1000 false))
    (runCall (freshAdf exFms) (.ng .minPathsMaxVarImp 1000 false)).1.s
    (runCall (freshAdf exFms) (.ng .minPathsMaxVarImp 1000 false)).2 :=
  answers_history_independent _ exInv exHist _ (fun _ => fresh_supp exFms exFms_ok.1 exFms_ok.2)

/-- a history with both counting searches and the nogood search in both modes (built-in and
scripted custom heuristic) -/
def exHistS : List Call :=
  [.complete, .count true, .ng .minPathsMaxVarImp 1000 true, .ops [.xor 2 3, .not 4], .count false,
   .ng (.script 7) 1000 false, .stablePre, .grounded, .ng .simple 3 true]

/-- … the memo-dropped copy answers the history WITH the searches identically, order included … -/
example : (runCalls (dropMemo (freshAdf exFms)) exHistS).2 = (runCalls (freshAdf exFms) exHistS).2 :=
  (answers_memo_dropped exHistS _ exInv).1

/-- … also when the tables are dropped, or the object exported and re-imported, in the middle … -/
example : (runCalls (dropMemo (runCalls (freshAdf exFms) exHist).1) exHistS).2 =
    (runCalls (runCalls (freshAdf exFms) exHist).1 exHistS).2 :=
  (answers_memo_dropped_midway _ exInv exHist exHistS).1

example : (runCalls (reimport (runCalls (freshAdf exFms) exHist).1) exHistS).2 =
    (runCalls (runCalls (freshAdf exFms) exHist).1 exHistS).2 :=
  (answers_reimport_midway _ exInv exHist exHistS).1

/-- … and `MemoEq` is satisfiable with genuinely different memo contents: the object after a
history against its memo-dropped copy -/
example : MemoEq (runCalls (freshAdf exFms) exHist).1 (dropMemo (runCalls (freshAdf exFms) exHist).1) :=
  memoEq_drop _ (history_invariant _ exInv exHist).1

-- by evaluation: the history is not trivial (it allocates nodes, issues handles, answers differ in kind)
#guard (runCalls (freshAdf exFms) exHist).1.s.nodes.size > (freshAdf exFms).s.nodes.size
#guard (runCalls (freshAdf exFms) exHist).1.issued.length == 4
#guard answerAfter (freshAdf exFms) exHist .stable == .vecs [[0, 1], [1, 0]]
#guard (runCall (freshAdf exFms) .stable).2 == .vecs [[0, 1], [1, 0]]
#guard (match answerAfter (freshAdf exFms) exHist (.ng .minPathsMaxVarImp 1000 false) with
        | .ng vs _ => vs.length == 2 | _ => false)
-- the search history: both searches emit two vectors, the bounded run hits its bound, the memo tables
-- of the used object are not empty, and the answers agree with the memo-dropped copy (by evaluation)
#guard (runCalls (freshAdf exFms) exHistS).2.length == 9
#guard (runCalls (freshAdf exFms) exHistS).2[1]? == some (.vecs [[0, 1], [1, 0]])
#guard (match (runCalls (freshAdf exFms) exHistS).2[2]? with | some (Answer.ng vs tr) => vs.length == 2 && tr.length ≥ 1 | _ => false)
#guard (match (runCalls (freshAdf exFms) exHistS).2[5]? with | some (Answer.ng vs _) => vs.length == 2 | _ => false)
#guard (runCalls (freshAdf exFms) exHistS).2[8]? == some .fuelExhausted
#guard (runCalls (freshAdf exFms) exHist).1.s.resC.size > 0
#guard (dropMemo (runCalls (freshAdf exFms) exHist).1).s.resC.size == 0
#guard (runCalls (dropMemo (runCalls (freshAdf exFms) exHist).1) exHistS).2 == (runCalls (runCalls (freshAdf exFms) exHist).1 exHistS).2

end C11

#print axioms C11.history_invariant
#print axioms C11.answers_exact
#print axioms C11.answers_history_independent
#print axioms C11.ng_halts_after_history
#print axioms C11.answers_exact_after_history_from_formulas
#print axioms C11.answers_memo_independent_call
#print axioms C11.answers_memo_independent
#print axioms C11.answers_depend_on_node_table
#print axioms C11.answers_memo_dropped
#print axioms C11.answers_memo_dropped_midway
#print axioms C11.answers_reimport_midway
#print axioms C11.answers_memo_independent_partial
#print axioms C11.answers_memo_dropped_partial
